/-
  C14 helper lemmas, part 3: a Go error returned by a native frame stays reachable (GoError wrapper, unwrapping
  by ExportTo'd funcs, re-wrapping, raw propagation when it wraps an uncatchable error); and the exact *Exception
  (value and captured stack) survives frames that do not rethrow.
-/
import GojaModel.C14.Carry

set_option linter.unusedSimpArgs false
set_option linter.unusedVariables false

namespace GojaModel.C14

theorem Frame.dropsErrors_of_not_swallows {f : Frame} (h : f.swallows = false) : f.dropsErrors = false := by
  cases f <;> simp_all [Frame.swallows, Frame.dropsErrors]

/-- A JS value that is a GoError whose `value` is `e`. -/
def JsVal.wrapsGo (w : JsVal) (e : GoErr) : Prop := w.goErrValue = some e ∧ w.isGoErrorInstance = true

/-- The flow carries the Go error `e`: raw (only if it is uncatchable) or inside a GoError object. -/
def CarriesGo (e : GoErr) : Flow → Prop
  | .panic (.goErr e') _ => e' = e ∧ e.isUncatchable = true
  | .panic (.val w) _ => w.wrapsGo e
  | .panic (.exc ex) _ => ex.val.wrapsGo e
  | _ => False

theorem wrapsGo_cases {w : JsVal} {e : GoErr} (h : w.wrapsGo e) :
    (∃ i, w = .goError i e) ∨ w = .freshGoError e := by
  cases w <;> simp [JsVal.wrapsGo, JsVal.goErrValue, JsVal.isGoErrorInstance, JsVal.key, JsKey.isGoErrorInstance] at h
  · left; exact ⟨_, by rw [h]⟩
  · right; rw [h]

theorem applyFrame_carriesGo (idx : Nat) (f : Frame) (cjs : Bool) {e : GoErr} {fl : Flow}
    (hsw : f.swallows = false) (hrw : f.rewraps = false) (hc : CarriesGo e fl) :
    CarriesGo e (applyFrame idx f cjs fl).1 := by
  cases fl with
  | normal => simp [CarriesGo] at hc
  | pending e0 => simp [CarriesGo] at hc
  | panic x o =>
    cases x with
    | sentinel k => simp [CarriesGo] at hc
    | other n => simp [CarriesGo] at hc
    | goErr e' =>
      obtain ⟨rfl, hu⟩ := hc
      obtain ⟨x', o', h, _, hx⟩ := applyFrame_unclassifiable idx f cjs (x := .goErr e') rfl
        (Or.inl (Frame.dropsErrors_of_not_swallows hsw)) o
      rw [h, hx hrw]; exact ⟨rfl, hu⟩
    | val w =>
      have hw : w.wrapsGo e := hc
      by_cases hu : e.isUncatchable = true <;>
      rcases wrapsGo_cases hw with ⟨i, rfl⟩ | rfl <;>
      cases f with
      | js k =>
        cases k <;> simp [Frame.swallows, JsKind.swallows, JsKind.hasCatch, JsKind.rethrows] at hsw <;>
          simp [applyFrame, applyFrameCore, jsFrame, handleThrow, handleThrowLoop, exceptionFromValue, JsKind.hasCatch,
            JsKind.hasFinally, JsKind.rethrows, CarriesGo, JsVal.wrapsGo, JsVal.goErrValue, JsVal.isGoErrorInstance,
            JsVal.key, JsKey.isGoErrorInstance]
      | ja => simp [Frame.swallows] at hsw
      | fcs => simp [Frame.swallows] at hsw
      | jiu => simp [Frame.swallows] at hsw
      | rfw => simp [Frame.rewraps] at hrw
      | _ =>
        cases cjs <;>
          simp [applyFrame, applyFrameCore, callable, invoke, jsCall, runWrapped, vmTry, handleThrow, handleThrowLoop,
            exceptionFromValue, panicErr, returnErr, wrapReflectErr, wrapJSFuncN, wrapJSFuncE, ErrVal.toPv, shim,
            jsFrame, runProgram, runProgram.handleThrowOpt, JsKind.hasCatch, JsKind.hasFinally, CarriesGo,
            JsVal.wrapsGo, JsVal.goErrValue, JsVal.isGoErrorInstance, JsVal.key, JsKey.isGoErrorInstance,
            panicValue, hu]
    | exc ex =>
      obtain ⟨w, t⟩ := ex
      have hw : w.wrapsGo e := hc
      by_cases hu : e.isUncatchable = true <;>
      rcases wrapsGo_cases hw with ⟨i, rfl⟩ | rfl <;>
      cases f with
      | js k =>
        cases k <;> simp [Frame.swallows, JsKind.swallows, JsKind.hasCatch, JsKind.rethrows] at hsw <;>
          simp [applyFrame, applyFrameCore, jsFrame, handleThrow, handleThrowLoop, exceptionFromValue, JsKind.hasCatch,
            JsKind.hasFinally, JsKind.rethrows, CarriesGo, JsVal.wrapsGo, JsVal.goErrValue, JsVal.isGoErrorInstance,
            JsVal.key, JsKey.isGoErrorInstance]
      | ja => simp [Frame.swallows] at hsw
      | fcs => simp [Frame.swallows] at hsw
      | jiu => simp [Frame.swallows] at hsw
      | rfw => simp [Frame.rewraps] at hrw
      | _ =>
        cases cjs <;>
          simp [applyFrame, applyFrameCore, callable, invoke, jsCall, runWrapped, vmTry, handleThrow, handleThrowLoop,
            exceptionFromValue, panicErr, returnErr, wrapReflectErr, wrapJSFuncN, wrapJSFuncE, ErrVal.toPv, shim,
            jsFrame, runProgram, runProgram.handleThrowOpt, JsKind.hasCatch, JsKind.hasFinally, CarriesGo,
            JsVal.wrapsGo, JsVal.goErrValue, JsVal.isGoErrorInstance, JsVal.key, JsKey.isGoErrorInstance,
            panicValue, hu]

/-! ### Go errors that wrap what they were made from (`RFW` frames) -/

/-- `e'` reaches `e` by repeated `errors.Unwrap` (through `Exception.Unwrap` where an *Exception is wrapped). -/
def GoErr.chainHas (e' e : GoErr) : Bool :=
  e' == e || (match e' with
    | .wrap _ i => i.chainHas e
    | .interruptedE _ f => f.chainHas e
    | .wrapExcGo _ k _ i => k.isGoErrorInstance && i.chainHas e
    | _ => false)

theorem GoErr.chainHas_refl (e : GoErr) : e.chainHas e = true := by
  unfold GoErr.chainHas; simp

theorem GoErr.chainHas_trans {a b c : GoErr} (h1 : a.chainHas b = true) (h2 : b.chainHas c = true) :
    a.chainHas c = true := by
  induction a with
  | wrap i inner ih =>
    unfold GoErr.chainHas at h1 ⊢
    simp only [Bool.or_eq_true, beq_iff_eq] at h1 ⊢
    rcases h1 with h | h
    · subst h; unfold GoErr.chainHas at h2; simpa using h2
    · exact Or.inr (ih h)
  | interruptedE i f ih =>
    unfold GoErr.chainHas at h1 ⊢
    simp only [Bool.or_eq_true, beq_iff_eq] at h1 ⊢
    rcases h1 with h | h
    · subst h; unfold GoErr.chainHas at h2; simpa using h2
    · exact Or.inr (ih h)
  | wrapExcGo i k t inner ih =>
    unfold GoErr.chainHas at h1 ⊢
    simp only [Bool.or_eq_true, beq_iff_eq, Bool.and_eq_true] at h1 ⊢
    rcases h1 with h | h
    · subst h; unfold GoErr.chainHas at h2; simpa using h2
    · exact Or.inr ⟨h.1, ih h.2⟩
  | _ =>
    unfold GoErr.chainHas at h1
    simp at h1
    subst h1
    exact h2

/-- errors.Is is monotone along the chain. -/
theorem GoErr.chainHas_errIs {a b : GoErr} (h : a.chainHas b = true) (t : Nat) (hb : b.errIs t = true) :
    a.errIs t = true := by
  induction a with
  | wrap i inner ih =>
    unfold GoErr.chainHas at h
    simp only [Bool.or_eq_true, beq_iff_eq] at h
    rcases h with h | h
    · subst h; exact hb
    · simp [GoErr.errIs, ih h]
  | interruptedE i f ih =>
    unfold GoErr.chainHas at h
    simp only [Bool.or_eq_true, beq_iff_eq] at h
    rcases h with h | h
    · subst h; exact hb
    · simp [GoErr.errIs, ih h]
  | wrapExcGo i k tp inner ih =>
    unfold GoErr.chainHas at h
    simp only [Bool.or_eq_true, beq_iff_eq, Bool.and_eq_true] at h
    rcases h with h | h
    · subst h; exact hb
    · simp [GoErr.errIs, h.1, ih h.2]
  | _ =>
    unfold GoErr.chainHas at h
    simp at h
    subst h
    exact hb

/-- The *Exception values met along the chain only grow. -/
theorem GoErr.chainHas_excVals {a b : GoErr} (h : a.chainHas b = true) (v : JsVal) (hb : v ∈ b.excVals) :
    v ∈ a.excVals := by
  induction a with
  | wrap i inner ih =>
    unfold GoErr.chainHas at h
    simp only [Bool.or_eq_true, beq_iff_eq] at h
    rcases h with h | h
    · subst h; exact hb
    · simpa [GoErr.excVals] using ih h
  | interruptedE i f ih =>
    unfold GoErr.chainHas at h
    simp only [Bool.or_eq_true, beq_iff_eq] at h
    rcases h with h | h
    · subst h; exact hb
    · simpa [GoErr.excVals] using ih h
  | wrapExcGo i k tp inner ih =>
    unfold GoErr.chainHas at h
    simp only [Bool.or_eq_true, beq_iff_eq, Bool.and_eq_true] at h
    rcases h with h | h
    · subst h; exact hb
    · simp [GoErr.excVals, h.1, ih h.2]
  | _ =>
    unfold GoErr.chainHas at h
    simp at h
    subst h
    exact hb

theorem JsVal.ofKey_key (v : JsVal) : JsVal.ofKey v.key v.goErrValue = v := by
  cases v <;> rfl

/-- An RFW frame around a flow that carries the Go error `e`: the new Go error wraps the old one. -/
theorem applyFrame_rfw_carriesGo (idx : Nat) (cjs : Bool) {e : GoErr} {fl : Flow} (hc : CarriesGo e fl) :
    ∃ e', CarriesGo e' (applyFrame idx .rfw cjs fl).1 ∧ e'.chainHas e = true := by
  cases fl with
  | normal => simp [CarriesGo] at hc
  | pending e0 => simp [CarriesGo] at hc
  | panic x o =>
    cases x with
    | sentinel k => simp [CarriesGo] at hc
    | other n => simp [CarriesGo] at hc
    | goErr e' =>
      obtain ⟨rfl, hu⟩ := hc
      refine ⟨.wrap 0 e', ?_, by unfold GoErr.chainHas; simp [GoErr.chainHas_refl]⟩
      cases cjs <;>
        simp [applyFrame, applyFrameCore, callable, invoke, jsCall, runWrapped, vmTry, handleThrow, handleThrowLoop,
          exceptionFromValue, recoverUncatchable, asUncatchableException, hu, returnWrapped, wrapErr,
          wrapReflectErr, GoErr.isUncatchable, CarriesGo]
    | val w =>
      have hw : w.wrapsGo e := hc
      rcases wrapsGo_cases hw with ⟨i, rfl⟩ | rfl
      · refine ⟨.wrapExcGo 0 (.goError i) .empty e, ?_, by unfold GoErr.chainHas; simp [JsKey.isGoErrorInstance, GoErr.chainHas_refl]⟩
        by_cases hu : e.isUncatchable = true <;> cases cjs <;>
          simp [applyFrame, applyFrameCore, callable, invoke, jsCall, runWrapped, vmTry, handleThrow, handleThrowLoop,
            exceptionFromValue, returnWrapped, wrapErr, wrapReflectErr, GoErr.isUncatchable, CarriesGo,
            JsVal.wrapsGo, JsVal.goErrValue, JsVal.isGoErrorInstance, JsVal.key, JsKey.isGoErrorInstance,
            JsVal.ownStack, hu]
      · refine ⟨.wrapExcGo 0 .freshGoError .other e, ?_, by unfold GoErr.chainHas; simp [JsKey.isGoErrorInstance, GoErr.chainHas_refl]⟩
        by_cases hu : e.isUncatchable = true <;> cases cjs <;>
          simp [applyFrame, applyFrameCore, callable, invoke, jsCall, runWrapped, vmTry, handleThrow, handleThrowLoop,
            exceptionFromValue, returnWrapped, wrapErr, wrapReflectErr, GoErr.isUncatchable, CarriesGo,
            JsVal.wrapsGo, JsVal.goErrValue, JsVal.isGoErrorInstance, JsVal.key, JsKey.isGoErrorInstance,
            JsVal.ownStack, hu]
    | exc ex =>
      obtain ⟨w, t⟩ := ex
      have hw : w.wrapsGo e := hc
      rcases wrapsGo_cases hw with ⟨i, rfl⟩ | rfl
      · refine ⟨.wrapExcGo 0 (.goError i) t e, ?_, by unfold GoErr.chainHas; simp [JsKey.isGoErrorInstance, GoErr.chainHas_refl]⟩
        by_cases hu : e.isUncatchable = true <;> cases cjs <;>
          simp [applyFrame, applyFrameCore, callable, invoke, jsCall, runWrapped, vmTry, handleThrow, handleThrowLoop,
            exceptionFromValue, returnWrapped, wrapErr, wrapReflectErr, GoErr.isUncatchable, CarriesGo,
            JsVal.wrapsGo, JsVal.goErrValue, JsVal.isGoErrorInstance, JsVal.key, JsKey.isGoErrorInstance, hu]
      · refine ⟨.wrapExcGo 0 .freshGoError t e, ?_, by unfold GoErr.chainHas; simp [JsKey.isGoErrorInstance, GoErr.chainHas_refl]⟩
        by_cases hu : e.isUncatchable = true <;> cases cjs <;>
          simp [applyFrame, applyFrameCore, callable, invoke, jsCall, runWrapped, vmTry, handleThrow, handleThrowLoop,
            exceptionFromValue, returnWrapped, wrapErr, wrapReflectErr, GoErr.isUncatchable, CarriesGo,
            JsVal.wrapsGo, JsVal.goErrValue, JsVal.isGoErrorInstance, JsVal.key, JsKey.isGoErrorInstance, hu]

/-- An RFW frame around a flow that carries the JS value `v`: the result carries a Go error from which the
*Exception with value `v` is reached by errors.Unwrap. -/
theorem applyFrame_rfw_carries (idx : Nat) (cjs : Bool) {v : JsVal} {fl : Flow} (hc : Carries v fl) :
    ∃ e', CarriesGo e' (applyFrame idx .rfw cjs fl).1 ∧ v ∈ e'.excVals := by
  have key : ∀ t : StackTop, ∃ e', CarriesGo e' (wrapReflectErr (some (.go (wrapErr (.exc ⟨v, t⟩))))) ∧ v ∈ e'.excVals := by
    intro t
    cases hg : v.goErrValue with
    | none =>
      have hw : wrapErr (.exc ⟨v, t⟩) = .wrapExc 0 v.key t := by simp only [wrapErr, hg]
      refine ⟨.wrapExc 0 v.key t, ?_, ?_⟩
      · rw [hw]
        simp [wrapReflectErr, GoErr.isUncatchable, CarriesGo, JsVal.wrapsGo, JsVal.goErrValue,
          JsVal.isGoErrorInstance, JsVal.key, JsKey.isGoErrorInstance]
      · have := JsVal.ofKey_key v; rw [hg] at this; simp [GoErr.excVals, this]
    | some i =>
      have hw : wrapErr (.exc ⟨v, t⟩) = .wrapExcGo 0 v.key t i := by simp only [wrapErr, hg]
      refine ⟨.wrapExcGo 0 v.key t i, ?_, ?_⟩
      · rw [hw]
        by_cases hu : (GoErr.wrapExcGo 0 v.key t i).isUncatchable = true
        · simp only [wrapReflectErr, hu, ↓reduceIte, CarriesGo]; exact ⟨trivial, trivial⟩
        · simp only [wrapReflectErr, hu, Bool.false_eq_true, ↓reduceIte, CarriesGo]
          simp [JsVal.wrapsGo, JsVal.goErrValue, JsVal.isGoErrorInstance, JsVal.key, JsKey.isGoErrorInstance]
      · have := JsVal.ofKey_key v; rw [hg] at this; simp [GoErr.excVals, this]
  have red : ∀ (ex : Exc) (o : StackTop),
      (applyFrame idx .rfw cjs (.panic (.exc ex) o)).1 = wrapReflectErr (some (.go (wrapErr (.exc ex)))) := by
    intro ex o
    cases cjs <;> simp [applyFrame, applyFrameCore, callable, invoke, runWrapped, returnWrapped]
  have redv : ∀ (o : StackTop), ∃ t,
      (applyFrame idx .rfw cjs (.panic (.val v) o)).1 = wrapReflectErr (some (.go (wrapErr (.exc ⟨v, t⟩)))) := by
    intro o
    cases hs : v.ownStack with
    | none =>
      exact ⟨o, by cases cjs <;> simp [applyFrame, applyFrameCore, callable, invoke, jsCall, runWrapped, vmTry, handleThrow,
        handleThrowLoop, exceptionFromValue, returnWrapped, hs]⟩
    | some st =>
      exact ⟨st, by cases cjs <;> simp [applyFrame, applyFrameCore, callable, invoke, jsCall, runWrapped, vmTry, handleThrow,
        handleThrowLoop, exceptionFromValue, returnWrapped, hs]⟩
  rcases carries_cases hc with ⟨o, rfl⟩ | ⟨t, o, rfl⟩
  · obtain ⟨t, ht⟩ := redv o
    rw [ht]; exact key t
  · rw [red]; exact key t

/-- Any non-swallowing frame: the carried Go error stays, or (RFW) gets wrapped. -/
theorem applyFrame_carriesGo_gen (idx : Nat) (f : Frame) (cjs : Bool) {e : GoErr} {fl : Flow}
    (hsw : f.swallows = false) (hc : CarriesGo e fl) :
    ∃ e', CarriesGo e' (applyFrame idx f cjs fl).1 ∧ e'.chainHas e = true ∧ (f.rewraps = false → e' = e) := by
  cases hr : f.rewraps with
  | false => exact ⟨e, applyFrame_carriesGo idx f cjs hsw hr hc, GoErr.chainHas_refl e, fun _ => rfl⟩
  | true =>
    have : f = .rfw := by cases f <;> simp [Frame.rewraps] at hr; rfl
    subst this
    obtain ⟨e', h1, h2⟩ := applyFrame_rfw_carriesGo idx cjs hc
    exact ⟨e', h1, h2, fun h => by cases h⟩

theorem evalSeg_carriesGo (s : Seg) (ijs : Bool) {e : GoErr} {fl : Flow}
    (hsw : ∀ q ∈ s, q.2.swallows = false) (hc : CarriesGo e fl) :
    ∃ e', CarriesGo e' (evalSeg s fl ijs).1 ∧ e'.chainHas e = true ∧
      ((∀ q ∈ s, q.2.rewraps = false) → e' = e) := by
  induction s with
  | nil => exact ⟨e, hc, GoErr.chainHas_refl e, fun _ => rfl⟩
  | cons hd tl ih =>
    obtain ⟨i, f⟩ := hd
    obtain ⟨e1, c1, t1, r1⟩ := ih (fun q hq => hsw q (List.mem_cons_of_mem _ hq))
    obtain ⟨e2, c2, t2, r2⟩ := applyFrame_carriesGo_gen i f (headIsJS tl ijs) (hsw (i, f) (List.mem_cons_self ..)) c1
    refine ⟨e2, by simpa [evalSeg] using c2, GoErr.chainHas_trans t2 t1, ?_⟩
    intro h
    rw [r2 (h (i, f) (List.mem_cons_self ..)), r1 (fun q hq => h q (List.mem_cons_of_mem _ hq))]

theorem carriesGo_cases {e : GoErr} {fl : Flow} (h : CarriesGo e fl) :
    (∃ o, fl = .panic (.goErr e) o ∧ e.isUncatchable = true) ∨
    (∃ w o, fl = .panic (.val w) o ∧ w.wrapsGo e) ∨
    (∃ w t o, fl = .panic (.exc ⟨w, t⟩) o ∧ w.wrapsGo e) := by
  cases fl with
  | normal => simp [CarriesGo] at h
  | pending e0 => simp [CarriesGo] at h
  | panic x o =>
    cases x with
    | sentinel k => simp [CarriesGo] at h
    | other n => simp [CarriesGo] at h
    | goErr e' => obtain ⟨rfl, hu⟩ := h; exact Or.inl ⟨o, rfl, hu⟩
    | val w => exact Or.inr (Or.inl ⟨w, o, rfl, h⟩)
    | exc ex => obtain ⟨w, t⟩ := ex; exact Or.inr (Or.inr ⟨w, t, o, rfl, h⟩)

/-- What the host is handed when the synchronous call ends in a flow carrying `e` (no promise job pending). -/
theorem hostSeg_carriesGo (entry : Entry) (b : Bool) {e : GoErr} {fl : Flow} (hc : CarriesGo e fl) :
    ∃ ev, (if ranLeave (firstCall entry b fl) then finish entry (mergeJobs (firstCall entry b fl) .ok)
            else finish entry (firstCall entry b fl)) = .err ev ∧ ev.carried = some e := by
  rcases carriesGo_cases hc with ⟨o, rfl, hu⟩ | ⟨w, o, rfl, hw⟩ | ⟨w, t, o, rfl, hw⟩
  · refine ⟨.go e, ?_, rfl⟩
    cases entry <;> cases b <;>
      simp [firstCall, callable, runWrapped, runProgram, runProgram.handleThrowOpt, invoke, jsCall, vmTry,
        handleThrow, handleThrowLoop, exceptionFromValue, recoverUncatchable, asUncatchableException, hu,
        ranLeave, finish, wrapJSFuncE]
  · rcases wrapsGo_cases hw with ⟨i, rfl⟩ | rfl <;> cases entry <;> cases b <;>
      simp [firstCall, callable, runWrapped, runProgram, runProgram.handleThrowOpt, invoke, jsCall, vmTry,
        handleThrow, handleThrowLoop, exceptionFromValue, ranLeave, finish, wrapJSFuncE, mergeJobs,
        ErrVal.carried, Exc.unwrap, JsVal.goErrValue, JsVal.isGoErrorInstance, JsVal.key,
        JsKey.isGoErrorInstance]
  · rcases wrapsGo_cases hw with ⟨i, rfl⟩ | rfl <;> cases entry <;> cases b <;>
      simp [firstCall, callable, runWrapped, runProgram, runProgram.handleThrowOpt, invoke, jsCall, vmTry,
        handleThrow, handleThrowLoop, exceptionFromValue, ranLeave, finish, wrapJSFuncE, mergeJobs,
        ErrVal.carried, Exc.unwrap, JsVal.goErrValue, JsVal.isGoErrorInstance, JsVal.key,
        JsKey.isGoErrorInstance]

theorem runJobs_carriesGo (p : Payload) {e : GoErr} (hp : CarriesGo e p.flow) :
    ∀ ss : List Seg, ss ≠ [] → (∀ s ∈ ss, ∀ q ∈ s, q.2.swallows = false) →
      ∃ e', e'.chainHas e = true ∧ ((∀ s ∈ ss, ∀ q ∈ s, q.2.rewraps = false) → e' = e) ∧
      (((runJobs p ss).host = .ok ∧ ∃ w, (runJobs p ss).rej = [w] ∧ w.wrapsGo e') ∨
       ((runJobs p ss).host = .err (.go e') ∧ e'.isUncatchable = true ∧ (runJobs p ss).rej = [])) := by
  intro ss
  induction ss with
  | nil => intro hne; exact absurd rfl hne
  | cons s tl ih =>
    intro _ hsw
    cases tl with
    | nil =>
      obtain ⟨e', c1, t1, r1⟩ := evalSeg_carriesGo s p.isJS (hsw s (List.mem_cons_self ..)) hp
      refine ⟨e', t1, fun h => r1 (h s (List.mem_cons_self ..)), ?_⟩
      simp only [runJobs, segInner, List.isEmpty_nil, ↓reduceIte]
      rcases carriesGo_cases c1 with ⟨o, h, hu⟩ | ⟨w, o, h, hw⟩ | ⟨w, t, o, h, hw⟩
      · right
        rw [h]
        cases headIsJS s p.isJS <;>
          simp [invoke, jsCall, vmTry, handleThrow, handleThrowLoop, exceptionFromValue, recoverUncatchable,
            asUncatchableException, hu, CallRes.toHost]
      · left
        rw [h]
        rcases wrapsGo_cases hw with ⟨i, rfl⟩ | rfl <;> cases headIsJS s p.isJS <;>
          simp [invoke, jsCall, vmTry, handleThrow, handleThrowLoop, exceptionFromValue, runJobs,
            JsVal.wrapsGo, JsVal.goErrValue, JsVal.isGoErrorInstance, JsVal.key, JsKey.isGoErrorInstance]
      · left
        rw [h]
        rcases wrapsGo_cases hw with ⟨i, rfl⟩ | rfl <;> cases headIsJS s p.isJS <;>
          simp [invoke, jsCall, vmTry, handleThrow, handleThrowLoop, exceptionFromValue, runJobs,
            JsVal.wrapsGo, JsVal.goErrValue, JsVal.isGoErrorInstance, JsVal.key, JsKey.isGoErrorInstance]
    | cons s2 tl2 =>
      obtain ⟨e', t1, r1, ih'⟩ := ih (by simp) (fun s' hs' => hsw s' (List.mem_cons_of_mem _ hs'))
      refine ⟨e', t1, fun h => r1 (fun s' hs' => h s' (List.mem_cons_of_mem _ hs')), ?_⟩
      have hn := evalSeg_normal s true
      have hv : vmTry (invoke (headIsJS s true) Flow.normal) = .ok := by
        cases headIsJS s true <;> simp [invoke]
      simp only [runJobs, segInner, List.isEmpty_cons, Bool.false_eq_true, ↓reduceIte, hn, hv] at ih' ⊢
      exact ih'

/-- Host-level statement for a carried Go error. -/
theorem hostRun_carriesGo (entry : Entry) (chain : List Frame) (p : Payload) {e : GoErr}
    (hp : CarriesGo e p.flow) (hsw : ∀ f ∈ chain, f.swallows = false) :
    ∃ e', e'.chainHas e = true ∧ ((∀ f ∈ chain, f.rewraps = false) → e' = e) ∧
    (hasSplit chain = false → ∃ ev, (hostRun entry chain p).host = .err ev ∧ ev.carried = some e') ∧
    (hasSplit chain = true →
      ((hostRun entry chain p).host = .ok ∧ ∃ w, (hostRun entry chain p).rej = [w] ∧ w.wrapsGo e') ∨
      ((hostRun entry chain p).host = .err (.go e') ∧ e'.isUncatchable = true)) := by
  have hsegsw := allSegs_frames (P := fun f => f.swallows = false) chain hsw
  have hsegrw : (∀ f ∈ chain, f.rewraps = false) → ∀ s ∈ allSegs chain, ∀ q ∈ s, q.2.rewraps = false :=
    fun h => allSegs_frames (P := fun f => f.rewraps = false) chain h
  have hpr := splitSegs_snd_nil_iff chain 0
  simp only [hostRun, allSegs] at *
  generalize splitSegs (indexed 0 chain) = sg at *
  obtain ⟨s0, ss⟩ := sg
  simp only at hsegsw hsegrw hpr
  cases ss with
  | nil =>
    have hnpr : hasSplit chain = false := hpr.mp rfl
    obtain ⟨e', c1, t1, r1⟩ := evalSeg_carriesGo s0 p.isJS (hsegsw s0 (List.mem_cons_self ..)) hp
    obtain ⟨ev, h1, h2⟩ := hostSeg_carriesGo entry (headIsJS s0 p.isJS) c1
    refine ⟨e', t1, fun h => r1 (hsegrw h s0 (List.mem_cons_self ..)), fun _ => ⟨ev, ?_, h2⟩, ?_⟩
    · simp only [hostRunSegs, segInner, List.isEmpty_nil, ↓reduceIte, runJobs]
      split
      · rename_i hr; simp only [hr, ↓reduceIte] at h1; simp [h1, CallRes.toHost]
      · rename_i hr; simp only [hr] at h1; simp at h1; simp [h1, CallRes.toHost]
    · intro h; rw [hnpr] at h; cases h
  | cons s1 tl =>
    have hprin : hasSplit chain = true := by
      cases h : hasSplit chain with
      | true => rfl
      | false => exact absurd (hpr.mpr h) (by simp)
    obtain ⟨e', t1, r1, hj⟩ := runJobs_carriesGo p hp (s1 :: tl) (by simp)
      (fun s hs => hsegsw s (List.mem_cons_of_mem _ hs))
    have hn := evalSeg_normal s0 true
    have hf : ∀ b, firstCall entry b .normal = .ok := by
      intro b; cases entry <;> simp [firstCall, runProgram_normal, callable_normal]
    refine ⟨e', t1, fun h => r1 (fun s hs => hsegrw h s (List.mem_cons_of_mem _ hs)), ?_, fun _ => ?_⟩
    · intro h; rw [hprin] at h; cases h
    simp only [hostRunSegs, segInner, List.isEmpty_cons, Bool.false_eq_true, ↓reduceIte, hn, hf, ranLeave]
    rcases hj with ⟨j1, w, j2, j3⟩ | ⟨j1, j2, j3⟩
    · left
      refine ⟨?_, w, j2, j3⟩
      cases entry <;> simp [j1, mergeJobs, finish, wrapJSFuncE, CallRes.toHost]
    · right
      refine ⟨?_, j2⟩
      cases entry <;> simp [j1, mergeJobs, finish, wrapJSFuncE, CallRes.toHost]

/-! ## The exact *Exception (value and captured stack) -/

def Exact (ex0 : Exc) : Flow → Prop
  | .panic (.exc ex) _ => ex = ex0
  | _ => False

theorem exact_cases {ex0 : Exc} {fl : Flow} (h : Exact ex0 fl) : ∃ o, fl = .panic (.exc ex0) o := by
  cases fl with
  | normal => simp [Exact] at h
  | pending e0 => simp [Exact] at h
  | panic x o => cases x <;> simp [Exact] at h; exact ⟨o, by rw [h]⟩

theorem applyFrame_exact (idx : Nat) (f : Frame) (cjs : Bool) {ex0 : Exc} {fl : Flow}
    (hsw : f.swallows = false) (hr : f.rethrows = false) (hrw : f.rewraps = false)
    (hu : ex0.val.goErrValue = none ∨ f.unwraps = false) (hc : Exact ex0 fl) :
    Exact ex0 (applyFrame idx f cjs fl).1 := by
  obtain ⟨o, rfl⟩ := exact_cases hc
  cases f with
  | js k =>
    cases k <;> simp [Frame.swallows, JsKind.swallows, JsKind.hasCatch, JsKind.rethrows, Frame.rethrows] at hsw hr <;>
      simp [applyFrame, applyFrameCore, jsFrame, handleThrow, handleThrowLoop, exceptionFromValue, JsKind.hasCatch,
        JsKind.hasFinally, JsKind.rethrows, Exact]
  | xfe =>
    rcases hu with hu | hu
    · cases cjs <;>
        simp [applyFrame, applyFrameCore, callable, invoke, jsCall, runWrapped, vmTry, handleThrow, handleThrowLoop,
          exceptionFromValue, wrapJSFuncE, returnErr, wrapReflectErr, hu, Exact]
    · simp [Frame.unwraps] at hu
  | fcv => simp [Frame.rethrows] at hr
  | jgt => simp [Frame.rethrows] at hr
  | rfw => simp [Frame.rewraps] at hrw
  | ja => simp [Frame.swallows] at hsw
  | fcs => simp [Frame.swallows] at hsw
  | jiu => simp [Frame.swallows] at hsw
  | _ =>
    cases cjs <;>
      simp [applyFrame, applyFrameCore, callable, invoke, jsCall, runWrapped, vmTry, handleThrow, handleThrowLoop,
        exceptionFromValue, panicErr, returnErr, wrapReflectErr, wrapJSFuncN, ErrVal.toPv, shim, jsFrame,
        runProgram, runProgram.handleThrowOpt, JsKind.hasCatch, JsKind.hasFinally, Exact]

theorem evalSeg_exact (s : Seg) (ijs : Bool) {ex0 : Exc} {fl : Flow}
    (hsw : ∀ q ∈ s, q.2.swallows = false) (hr : ∀ q ∈ s, q.2.rethrows = false)
    (hrw : ∀ q ∈ s, q.2.rewraps = false)
    (hu : ex0.val.goErrValue = none ∨ ∀ q ∈ s, q.2.unwraps = false) (hc : Exact ex0 fl) :
    Exact ex0 (evalSeg s fl ijs).1 := by
  induction s with
  | nil => exact hc
  | cons hd tl ih =>
    obtain ⟨i, f⟩ := hd
    have ih' := ih (fun q hq => hsw q (List.mem_cons_of_mem _ hq)) (fun q hq => hr q (List.mem_cons_of_mem _ hq))
      (fun q hq => hrw q (List.mem_cons_of_mem _ hq))
      (by rcases hu with h | h
          · exact Or.inl h
          · exact Or.inr (fun q hq => h q (List.mem_cons_of_mem _ hq)))
    have hf : ex0.val.goErrValue = none ∨ f.unwraps = false := by
      rcases hu with h | h
      · exact Or.inl h
      · exact Or.inr (h (i, f) (List.mem_cons_self ..))
    simpa [evalSeg] using
      applyFrame_exact i f (headIsJS tl ijs) (hsw (i, f) (List.mem_cons_self ..))
        (hr (i, f) (List.mem_cons_self ..)) (hrw (i, f) (List.mem_cons_self ..)) hf ih'

theorem hostRun_exact (entry : Entry) (chain : List Frame) (p : Payload) {ex0 : Exc}
    (hp : Exact ex0 p.flow) (hsw : ∀ f ∈ chain, f.swallows = false) (hr : ∀ f ∈ chain, f.rethrows = false)
    (hrw : ∀ f ∈ chain, f.rewraps = false)
    (hu : ex0.val.goErrValue = none ∨ (entry ≠ .exported ∧ ∀ f ∈ chain, f.unwraps = false))
    (hnpr : hasSplit chain = false) :
    (hostRun entry chain p).host = .err (.exc ex0) := by
  have hsegsw := allSegs_frames (P := fun f => f.swallows = false) chain hsw
  have hsegr := allSegs_frames (P := fun f => f.rethrows = false) chain hr
  have hsegrw := allSegs_frames (P := fun f => f.rewraps = false) chain hrw
  have hsegu : ex0.val.goErrValue = none ∨ ∀ s ∈ allSegs chain, ∀ q ∈ s, q.2.unwraps = false := by
    rcases hu with h | h
    · exact Or.inl h
    · exact Or.inr (allSegs_frames (P := fun f => f.unwraps = false) chain h.2)
  have hpr := (splitSegs_snd_nil_iff chain 0).mpr hnpr
  simp only [hostRun, allSegs] at *
  generalize splitSegs (indexed 0 chain) = sg at *
  obtain ⟨s0, ss⟩ := sg
  simp only at hsegsw hsegr hsegrw hsegu hpr
  subst hpr
  have c1 := evalSeg_exact s0 p.isJS (hsegsw s0 (List.mem_cons_self ..)) (hsegr s0 (List.mem_cons_self ..))
    (hsegrw s0 (List.mem_cons_self ..))
    (by rcases hsegu with h | h
        · exact Or.inl h
        · exact Or.inr (h s0 (List.mem_cons_self ..))) hp
  obtain ⟨o, h⟩ := exact_cases c1
  have hfc : ∀ b, firstCall entry b (.panic (.exc ex0) o) = .err (.exc ex0) := by
    intro b
    cases entry <;> cases b <;>
      simp [firstCall, callable, runWrapped, runProgram, runProgram.handleThrowOpt, invoke]
  have hfin : finish entry (.err (.exc ex0)) = .err (.exc ex0) := by
    apply finish_exc
    rcases hu with h | h
    · exact Or.inl h
    · exact Or.inr h.1
  simp only [hostRunSegs, segInner, List.isEmpty_nil, ↓reduceIte, h, hfc, ranLeave, runJobs, mergeJobs, hfin,
    CallRes.toHost]

/-- With swallowing frames allowed: every catch block / async rejection in the whole run received `v` itself. -/
theorem hostRun_log_ok (entry : Entry) (chain : List Frame) (p : Payload) {v : JsVal}
    (hp : Carries v p.flow) (hrw : ∀ f ∈ chain, f.rewraps = false ∧ f.replaces = false)
    (hu : v.goErrValue = none ∨ ∀ f ∈ chain, f.unwraps = false) :
    ∀ l ∈ (hostRun entry chain p).log, LogOk v l := by
  have hsegrw := allSegs_frames (P := fun f => f.rewraps = false ∧ f.replaces = false) chain hrw
  have hsegu : v.goErrValue = none ∨ ∀ s ∈ allSegs chain, ∀ q ∈ s, q.2.unwraps = false := by
    rcases hu with h | h
    · exact Or.inl h
    · exact Or.inr (allSegs_frames (P := fun f => f.unwraps = false) chain h)
  simp only [hostRun, allSegs] at *
  generalize splitSegs (indexed 0 chain) = sg at *
  obtain ⟨s0, ss⟩ := sg
  simp only at hsegu hsegrw
  have hu0 : v.goErrValue = none ∨ ∀ q ∈ s0, q.2.unwraps = false := by
    rcases hsegu with h | h
    · exact Or.inl h
    · exact Or.inr (h s0 (List.mem_cons_self ..))
  have hin : (segInner p ss.isEmpty).1 = .normal ∨ Carries v (segInner p ss.isEmpty).1 := by
    cases ss <;> simp [segInner, hp]
  obtain ⟨_, c2⟩ := evalSeg_carries_or_normal s0 (segInner p ss.isEmpty).2 (hsegrw s0 (List.mem_cons_self ..)) hu0 hin
  have hj := runJobs_log_ok p hp ss (fun s hs => hsegrw s (List.mem_cons_of_mem _ hs))
    (by rcases hsegu with h | h
        · exact Or.inl h
        · exact Or.inr (fun s hs => h s (List.mem_cons_of_mem _ hs)))
  intro l hl
  simp only [hostRunSegs] at hl
  split at hl
  · simp only [List.mem_append] at hl
    rcases hl with hl | hl
    · exact c2 l hl
    · exact hj l hl
  · exact c2 l hl

/-! ### The thrown value stays reachable through RFW frames -/

/-- The flow carries `v` itself, or a Go error from which an *Exception with value `v` is reached by Unwrap. -/
def Reaches (v : JsVal) (fl : Flow) : Prop :=
  Carries v fl ∨ ∃ e, CarriesGo e fl ∧ v ∈ e.excVals

theorem applyFrame_reaches (idx : Nat) (f : Frame) (cjs : Bool) {v : JsVal} {fl : Flow}
    (hsw : f.swallows = false) (hu : v.goErrValue = none ∨ f.unwraps = false) (hc : Reaches v fl) :
    Reaches v (applyFrame idx f cjs fl).1 := by
  rcases hc with hc | ⟨e, hc, hv⟩
  · cases hr : f.rewraps with
    | false => exact Or.inl (applyFrame_carries idx f cjs hsw hr hu hc).1
    | true =>
      have : f = .rfw := by cases f <;> simp [Frame.rewraps] at hr; rfl
      subst this
      exact Or.inr (applyFrame_rfw_carries idx cjs hc)
  · obtain ⟨e', c, t, _⟩ := applyFrame_carriesGo_gen idx f cjs hsw hc
    exact Or.inr ⟨e', c, GoErr.chainHas_excVals t v hv⟩

theorem evalSeg_reaches (s : Seg) (ijs : Bool) {v : JsVal} {fl : Flow}
    (hsw : ∀ q ∈ s, q.2.swallows = false)
    (hu : v.goErrValue = none ∨ ∀ q ∈ s, q.2.unwraps = false) (hc : Reaches v fl) :
    Reaches v (evalSeg s fl ijs).1 := by
  induction s with
  | nil => exact hc
  | cons hd tl ih =>
    obtain ⟨i, f⟩ := hd
    have ih' := ih (fun q hq => hsw q (List.mem_cons_of_mem _ hq))
      (by rcases hu with h | h
          · exact Or.inl h
          · exact Or.inr (fun q hq => h q (List.mem_cons_of_mem _ hq)))
    have hf : v.goErrValue = none ∨ f.unwraps = false := by
      rcases hu with h | h
      · exact Or.inl h
      · exact Or.inr (h (i, f) (List.mem_cons_self ..))
    simpa [evalSeg] using applyFrame_reaches i f (headIsJS tl ijs) (hsw (i, f) (List.mem_cons_self ..)) hf ih'

theorem carried_excVals {ev : ErrVal} {e : GoErr} (h : ev.carried = some e) (v : JsVal) (hv : v ∈ e.excVals) :
    v ∈ ev.excVals := by
  cases ev with
  | go e' => simp [ErrVal.carried] at h; simp [ErrVal.excVals, h, hv]
  | exc ex => simp [ErrVal.carried] at h; simp [ErrVal.excVals, h, hv]

/-- Host-level: without a job frame, the host's error reaches an *Exception whose value is `v`. -/
theorem hostRun_reaches (entry : Entry) (chain : List Frame) (p : Payload) {v : JsVal}
    (hp : Carries v p.flow) (hsw : ∀ f ∈ chain, f.swallows = false)
    (hu : v.goErrValue = none ∨ (entry ≠ .exported ∧ ∀ f ∈ chain, f.unwraps = false))
    (hnpr : hasSplit chain = false) :
    ∃ ev, (hostRun entry chain p).host = .err ev ∧ v ∈ ev.excVals := by
  have hsegsw := allSegs_frames (P := fun f => f.swallows = false) chain hsw
  have hsegu : v.goErrValue = none ∨ ∀ s ∈ allSegs chain, ∀ q ∈ s, q.2.unwraps = false := by
    rcases hu with h | h
    · exact Or.inl h
    · exact Or.inr (allSegs_frames (P := fun f => f.unwraps = false) chain h.2)
  have hpr := (splitSegs_snd_nil_iff chain 0).mpr hnpr
  simp only [hostRun, allSegs] at *
  generalize splitSegs (indexed 0 chain) = sg at *
  obtain ⟨s0, ss⟩ := sg
  simp only at hsegsw hsegu hpr
  subst hpr
  have c1 := evalSeg_reaches s0 p.isJS (hsegsw s0 (List.mem_cons_self ..))
    (by rcases hsegu with h | h
        · exact Or.inl h
        · exact Or.inr (h s0 (List.mem_cons_self ..))) (Or.inl hp)
  rcases c1 with c1 | ⟨e, c1, hv⟩
  · obtain ⟨ex, he, hev⟩ := firstCall_carries entry (headIsJS s0 p.isJS) c1
    have hfin : finish entry (.err (.exc ex)) = .err (.exc ex) := by
      apply finish_exc
      rcases hu with h | h
      · exact Or.inl (by rw [hev]; exact h)
      · exact Or.inr h.1
    refine ⟨.exc ex, ?_, by simp [ErrVal.excVals, hev]⟩
    simp only [hostRunSegs, segInner, List.isEmpty_nil, ↓reduceIte, he, ranLeave, runJobs, mergeJobs, hfin,
      CallRes.toHost]
  · obtain ⟨ev, h1, h2⟩ := hostSeg_carriesGo entry (headIsJS s0 p.isJS) c1
    refine ⟨ev, ?_, carried_excVals h2 v hv⟩
    simp only [hostRunSegs, segInner, List.isEmpty_nil, ↓reduceIte, runJobs]
    split
    · rename_i hr; simp only [hr, ↓reduceIte] at h1; simp [h1, CallRes.toHost]
    · rename_i hr; simp only [hr] at h1; simp at h1; simp [h1, CallRes.toHost]

/-! ### The top of the captured stack: the last raise site -/

/-- Top recorded when native code panics with the Value `v` (exceptionFromValue at a native position): the own
stack of an Error object (even an empty one), else the native position. -/
def nativeTop (v : JsVal) : StackTop :=
  match v.ownStack with
  | some s => s
  | none => .other

/-- The *Exception in flight is exactly ⟨v, t⟩, or the Value `v` itself is in flight from a native panic (it will
be classified with top `nativeTop v = t`). -/
def TopIs (v : JsVal) (t : StackTop) : Flow → Prop
  | .panic (.exc ex) _ => ex = ⟨v, t⟩
  | .panic (.val w) o => w = v ∧ o = .other ∧ t = nativeTop v
  | _ => False

/-- What one frame does to the top: a rethrowing catch block raises anew at its `throw e` (unless `v` is an Error
object with a non-empty own stack), a native `panic(ex.Value())` raises anew at a native position, every other
frame keeps the *Exception. -/
def stepTop (i : Nat) (f : Frame) (v : JsVal) (t : StackTop) : StackTop :=
  match f with
  | .js k => if k.rethrows then (throwExec (.rethrow i) v).top else t
  | .fcv => nativeTop v
  | .jgt => genThrowTop i v
  | _ => t

/-- Spec: the site where the exception the host sees was raised LAST (frames listed outermost first). -/
def lastRaise (v : JsVal) (init : StackTop) : Seg → StackTop
  | [] => init
  | (i, f) :: rest => stepTop i f v (lastRaise v init rest)

theorem topIs_cases {v : JsVal} {t : StackTop} {fl : Flow} (h : TopIs v t fl) :
    (∃ o, fl = .panic (.exc ⟨v, t⟩) o) ∨ (fl = .panic (.val v) .other ∧ t = nativeTop v) := by
  cases fl with
  | normal => simp [TopIs] at h
  | pending e0 => simp [TopIs] at h
  | panic x o =>
    cases x <;> simp [TopIs] at h
    · obtain ⟨rfl, rfl, ht⟩ := h; exact Or.inr ⟨rfl, ht⟩
    · left; exact ⟨o, by rw [h]⟩

theorem applyFrame_topIs (idx : Nat) (f : Frame) (cjs : Bool) {v : JsVal} {t : StackTop} {fl : Flow}
    (hsw : f.swallows = false) (hrw : f.rewraps = false)
    (hu : v.goErrValue = none ∨ f.unwraps = false) (hc : TopIs v t fl) :
    TopIs v (stepTop idx f v t) (applyFrame idx f cjs fl).1 := by
  rcases topIs_cases hc with ⟨o, rfl⟩ | ⟨rfl, ht⟩
  · cases f with
    | js k =>
      cases k <;> simp [Frame.swallows, JsKind.swallows, JsKind.hasCatch, JsKind.rethrows] at hsw <;>
        simp [applyFrame, applyFrameCore, jsFrame, handleThrow, handleThrowLoop, exceptionFromValue, JsKind.hasCatch,
          JsKind.hasFinally, JsKind.rethrows, TopIs, stepTop, throwExec]
    | xfe =>
      rcases hu with hu | hu
      · cases cjs <;>
          simp [applyFrame, applyFrameCore, callable, invoke, jsCall, runWrapped, vmTry, handleThrow, handleThrowLoop,
            exceptionFromValue, wrapJSFuncE, returnErr, wrapReflectErr, hu, TopIs, stepTop]
      · simp [Frame.unwraps] at hu
    | ja => simp [Frame.swallows] at hsw
    | fcs => simp [Frame.swallows] at hsw
    | jiu => simp [Frame.swallows] at hsw
    | rfw => simp [Frame.rewraps] at hrw
    | _ =>
      cases cjs <;>
        simp [applyFrame, applyFrameCore, callable, invoke, jsCall, runWrapped, vmTry, handleThrow, handleThrowLoop,
          exceptionFromValue, panicErr, returnErr, wrapReflectErr, wrapJSFuncN, ErrVal.toPv, shim, jsFrame,
          runProgram, runProgram.handleThrowOpt, JsKind.hasCatch, JsKind.hasFinally, TopIs, stepTop, panicValue,
          nativeTop]
  · subst ht
    cases hs : v.ownStack <;> cases f with
    | js k =>
      cases k <;> simp [Frame.swallows, JsKind.swallows, JsKind.hasCatch, JsKind.rethrows] at hsw <;>
        simp [applyFrame, applyFrameCore, jsFrame, handleThrow, handleThrowLoop, exceptionFromValue, JsKind.hasCatch,
          JsKind.hasFinally, JsKind.rethrows, TopIs, stepTop, throwExec, nativeTop, hs]
    | xfe =>
      rcases hu with hu | hu
      · cases cjs <;>
          simp [applyFrame, applyFrameCore, callable, invoke, jsCall, runWrapped, vmTry, handleThrow, handleThrowLoop,
            exceptionFromValue, wrapJSFuncE, returnErr, wrapReflectErr, hu, TopIs, stepTop, nativeTop, hs]
      · simp [Frame.unwraps] at hu
    | ja => simp [Frame.swallows] at hsw
    | fcs => simp [Frame.swallows] at hsw
    | jiu => simp [Frame.swallows] at hsw
    | rfw => simp [Frame.rewraps] at hrw
    | _ =>
      cases cjs <;>
        simp [applyFrame, applyFrameCore, callable, invoke, jsCall, runWrapped, vmTry, handleThrow, handleThrowLoop,
          exceptionFromValue, panicErr, returnErr, wrapReflectErr, wrapJSFuncN, ErrVal.toPv, shim, jsFrame,
          runProgram, runProgram.handleThrowOpt, JsKind.hasCatch, JsKind.hasFinally, TopIs, stepTop, panicValue,
          nativeTop, hs]

theorem evalSeg_topIs (s : Seg) (ijs : Bool) {v : JsVal} {t : StackTop} {fl : Flow}
    (hsw : ∀ q ∈ s, q.2.swallows = false) (hrw : ∀ q ∈ s, q.2.rewraps = false)
    (hu : v.goErrValue = none ∨ ∀ q ∈ s, q.2.unwraps = false) (hc : TopIs v t fl) :
    TopIs v (lastRaise v t s) (evalSeg s fl ijs).1 := by
  induction s with
  | nil => exact hc
  | cons hd tl ih =>
    obtain ⟨i, f⟩ := hd
    have ih' := ih (fun q hq => hsw q (List.mem_cons_of_mem _ hq)) (fun q hq => hrw q (List.mem_cons_of_mem _ hq))
      (by rcases hu with h | h
          · exact Or.inl h
          · exact Or.inr (fun q hq => h q (List.mem_cons_of_mem _ hq)))
    have hf : v.goErrValue = none ∨ f.unwraps = false := by
      rcases hu with h | h
      · exact Or.inl h
      · exact Or.inr (h (i, f) (List.mem_cons_self ..))
    simpa [evalSeg, lastRaise] using
      applyFrame_topIs i f (headIsJS tl ijs) (hsw (i, f) (List.mem_cons_self ..))
        (hrw (i, f) (List.mem_cons_self ..)) hf ih'

theorem splitSegs_fst_of_nosplit (fs : List Frame) :
    ∀ i, hasSplit fs = false → (splitSegs (indexed i fs)).1 = indexed i fs := by
  induction fs with
  | nil => intro i _; rfl
  | cons f tl ih =>
    intro i h
    simp only [hasSplit, List.any_cons, Bool.or_eq_false_iff] at h
    have := ih (i + 1) (by simpa [hasSplit] using h.2)
    simp [indexed, splitSegs, h.1, this]

/-- Host level: without job frames the host's *Exception is exactly ⟨v, lastRaise …⟩. -/
theorem hostRun_topIs (entry : Entry) (chain : List Frame) (p : Payload) {v : JsVal} {t : StackTop}
    (hp : TopIs v t p.flow) (hsw : ∀ f ∈ chain, f.swallows = false) (hrw : ∀ f ∈ chain, f.rewraps = false)
    (hu : v.goErrValue = none ∨ (entry ≠ .exported ∧ ∀ f ∈ chain, f.unwraps = false))
    (hn : hasSplit chain = false) :
    (hostRun entry chain p).host = .err (.exc ⟨v, lastRaise v t (indexed 0 chain)⟩) := by
  have hsegsw := allSegs_frames (P := fun f => f.swallows = false) chain hsw
  have hsegrw := allSegs_frames (P := fun f => f.rewraps = false) chain hrw
  have hsegu : v.goErrValue = none ∨ ∀ s ∈ allSegs chain, ∀ q ∈ s, q.2.unwraps = false := by
    rcases hu with h | h
    · exact Or.inl h
    · exact Or.inr (allSegs_frames (P := fun f => f.unwraps = false) chain h.2)
  have hpr := (splitSegs_snd_nil_iff chain 0).mpr hn
  have hfst := splitSegs_fst_of_nosplit chain 0 hn
  simp only [hostRun, allSegs] at *
  generalize splitSegs (indexed 0 chain) = sg at *
  obtain ⟨s0, ss⟩ := sg
  simp only at hsegsw hsegrw hsegu hpr hfst
  subst hpr
  subst hfst
  have c1 := evalSeg_topIs (indexed 0 chain) p.isJS (hsegsw _ (List.mem_cons_self ..))
    (hsegrw _ (List.mem_cons_self ..))
    (by rcases hsegu with h | h
        · exact Or.inl h
        · exact Or.inr (h _ (List.mem_cons_self ..))) hp
  have hfin : finish entry (.err (.exc ⟨v, lastRaise v t (indexed 0 chain)⟩)) =
      .err (.exc ⟨v, lastRaise v t (indexed 0 chain)⟩) := by
    apply finish_exc
    rcases hu with h | h
    · exact Or.inl h
    · exact Or.inr h.1
  have hfc : ∀ b, firstCall entry b (evalSeg (indexed 0 chain) p.flow p.isJS).1 =
      .err (.exc ⟨v, lastRaise v t (indexed 0 chain)⟩) := by
    intro b
    rcases topIs_cases c1 with ⟨o, h⟩ | ⟨h, ht⟩
    · rw [h]
      cases entry <;> cases b <;>
        simp [firstCall, callable, runWrapped, runProgram, runProgram.handleThrowOpt, invoke]
    · rw [h, ht]
      cases hs : v.ownStack <;> cases entry <;> cases b <;>
        simp [firstCall, callable, runWrapped, runProgram, runProgram.handleThrowOpt, invoke, jsCall, vmTry,
          handleThrow, handleThrowLoop, exceptionFromValue, nativeTop, hs]
  simp only [hostRunSegs, segInner, List.isEmpty_nil, ↓reduceIte, hfc, ranLeave, runJobs, mergeJobs, hfin,
    CallRes.toHost]

theorem GoErr.isUncatchable_peel (e : GoErr) : e.peel.isUncatchable = e.isUncatchable := by
  induction e with
  | wrap i inner ih =>
    cases i with
    | zero => simpa [GoErr.peel, GoErr.isUncatchable] using ih
    | succ n => simp [GoErr.peel]
  | _ => simp [GoErr.peel]

theorem GoErr.liveInterrupt_peel (e : GoErr) : e.peel.liveInterrupt = e.liveInterrupt := by
  induction e with
  | wrap i inner ih =>
    cases i with
    | zero => simpa [GoErr.peel, GoErr.liveInterrupt] using ih
    | succ n => simp [GoErr.peel]
  | _ => simp [GoErr.peel]

/-! ### The interrupt flag is sticky: a native frame that drops the error cannot drop the interrupt -/

/-- The interrupt `i` is alive in the flow: as the panicking error (possibly wrapped), or pending after a native
frame swallowed the error value. -/
def Live (i : GoErr) : Flow → Prop
  | .panic (.goErr e) _ => e.liveInterrupt = some i ∧ e.isUncatchable = true
  | .pending e => e = i
  | _ => False

theorem applyFrame_live (idx : Nat) (f : Frame) (cjs : Bool) {i : GoErr} {fl : Flow}
    (hi : i.liveInterrupt = some i ∧ i.isUncatchable = true) (hc : Live i fl) :
    Live i (applyFrame idx f cjs fl).1 ∧ (applyFrame idx f cjs fl).2 = [] := by
  have panicCase : ∀ (e : GoErr) (o : StackTop), e.liveInterrupt = some i → e.isUncatchable = true →
      Live i (applyFrameCore idx f cjs (.panic (.goErr e) o)).1 ∧
        (applyFrameCore idx f cjs (.panic (.goErr e) o)).2 = [] := by
    intro e o hl hu
    by_cases hf : f = .fcs
    · subst hf
      cases cjs <;>
        simp [applyFrameCore, callable, invoke, jsCall, runWrapped, vmTry, handleThrow, handleThrowLoop,
          exceptionFromValue, recoverUncatchable, asUncatchableException, hu, hl, Live]
    · have hd : f.dropsErrors = false := by cases f <;> simp_all [Frame.dropsErrors]
      obtain ⟨x', o', h, hunc, _⟩ := applyFrame_unclassifiable idx f cjs (x := .goErr e) rfl (Or.inl hd) o
      have h' : applyFrameCore idx f cjs (.panic (.goErr e) o) = (.panic x' o', []) := by
        simpa [applyFrame] using h
      rw [h']
      obtain ⟨_, hp, _⟩ := hunc
      cases x' with
      | goErr e' =>
        have hpe : e'.peel = e.peel := by simpa [Pv.peel] using hp
        refine ⟨⟨?_, ?_⟩, rfl⟩
        · rw [← GoErr.liveInterrupt_peel, hpe, GoErr.liveInterrupt_peel]; exact hl
        · rw [← GoErr.isUncatchable_peel, hpe, GoErr.isUncatchable_peel]; exact hu
      | val w => simp [Pv.peel] at hp
      | exc ex => simp [Pv.peel] at hp
      | sentinel k => simp [Pv.peel] at hp
      | other n => simp [Pv.peel] at hp
  cases fl with
  | normal => simp [Live] at hc
  | pending e =>
    have : e = i := hc
    subst this
    cases hp : f.pureNative with
    | true => simp [applyFrame, hp, Live]
    | false =>
      have := panicCase e .other hi.1 hi.2
      simpa [applyFrame, hp] using this
  | panic x o =>
    cases x with
    | goErr e =>
      obtain ⟨hl, hu⟩ := hc
      have := panicCase e o hl hu
      simpa [applyFrame] using this
    | val w => simp [Live] at hc
    | exc ex => simp [Live] at hc
    | sentinel k => simp [Live] at hc
    | other n => simp [Live] at hc

theorem evalSeg_live (s : Seg) (ijs : Bool) {i : GoErr} {fl : Flow}
    (hi : i.liveInterrupt = some i ∧ i.isUncatchable = true) (hc : Live i fl) :
    Live i (evalSeg s fl ijs).1 ∧ (evalSeg s fl ijs).2 = [] := by
  induction s with
  | nil => exact ⟨hc, rfl⟩
  | cons hd tl ih =>
    obtain ⟨j, f⟩ := hd
    obtain ⟨a1, a2⟩ := applyFrame_live j f (headIsJS tl ijs) hi ih.1
    exact ⟨by simpa [evalSeg] using a1, by simp [evalSeg, ih.2, a2]⟩

/-! ### Nothing ever observes an uncatchable error — also when native frames drop it -/

theorem GoErr.liveInterrupt_isUncatchable {e i : GoErr} (h : e.liveInterrupt = some i) : i.isUncatchable = true := by
  induction e with
  | interruptedE j f _ => simp [GoErr.liveInterrupt] at h; subst h; rfl
  | wrap j inner ih => exact ih (by simpa [GoErr.liveInterrupt] using h)
  | join j a b iha ihb =>
    simp only [GoErr.liveInterrupt] at h
    cases ha : a.liveInterrupt with
    | some x => rw [ha] at h; simp at h; subst h; exact iha ha
    | none => rw [ha] at h; exact ihb h
  | _ => simp [GoErr.liveInterrupt] at h

/-- The flow is a normal return, an uncatchable error in flight, or a pending interrupt. -/
def Quiet : Flow → Prop
  | .normal => True
  | .panic (.goErr e) _ => e.isUncatchable = true
  | .pending e => e.isUncatchable = true
  | _ => False

theorem applyFrame_quiet (idx : Nat) (f : Frame) (cjs : Bool) {fl : Flow} (hc : Quiet fl) :
    Quiet (applyFrame idx f cjs fl).1 ∧ ∀ l ∈ (applyFrame idx f cjs fl).2, l.kind = .fin := by
  have panicCase : ∀ (e : GoErr) (o : StackTop), e.isUncatchable = true →
      Quiet (applyFrameCore idx f cjs (.panic (.goErr e) o)).1 ∧
        (applyFrameCore idx f cjs (.panic (.goErr e) o)).2 = [] := by
    intro e o hu
    by_cases hf : f = .fcs
    · subst hf
      cases hl : e.liveInterrupt with
      | none =>
        cases cjs <;>
          simp [applyFrameCore, callable, invoke, jsCall, runWrapped, vmTry, handleThrow, handleThrowLoop,
            exceptionFromValue, recoverUncatchable, asUncatchableException, hu, hl, Quiet]
      | some i =>
        have := GoErr.liveInterrupt_isUncatchable hl
        cases cjs <;>
          simp [applyFrameCore, callable, invoke, jsCall, runWrapped, vmTry, handleThrow, handleThrowLoop,
            exceptionFromValue, recoverUncatchable, asUncatchableException, hu, hl, Quiet, this]
    · have hd : f.dropsErrors = false := by cases f <;> simp_all [Frame.dropsErrors]
      obtain ⟨x', o', h, hunc, _⟩ := applyFrame_unclassifiable idx f cjs (x := .goErr e) rfl (Or.inl hd) o
      have h' : applyFrameCore idx f cjs (.panic (.goErr e) o) = (.panic x' o', []) := by
        simpa [applyFrame] using h
      rw [h']
      obtain ⟨_, hp, _⟩ := hunc
      cases x' with
      | goErr e' =>
        have hpe : e'.peel = e.peel := by simpa [Pv.peel] using hp
        refine ⟨?_, rfl⟩
        show e'.isUncatchable = true
        rw [← GoErr.isUncatchable_peel, hpe, GoErr.isUncatchable_peel]; exact hu
      | val w => simp [Pv.peel] at hp
      | exc ex => simp [Pv.peel] at hp
      | sentinel k => simp [Pv.peel] at hp
      | other n => simp [Pv.peel] at hp
  cases fl with
  | normal =>
    refine ⟨by rw [applyFrame_normal]; trivial, ?_⟩
    intro l hl
    rw [applyFrame_normal_log _ _ _ l hl]
  | pending e =>
    have hu : e.isUncatchable = true := hc
    cases hp : f.pureNative with
    | true => simp [applyFrame, hp, Quiet, hu]
    | false =>
      obtain ⟨a, b⟩ := panicCase e .other hu
      refine ⟨by simpa [applyFrame, hp] using a, ?_⟩
      intro l hl
      simp [applyFrame, hp, b] at hl
  | panic x o =>
    cases x with
    | goErr e =>
      obtain ⟨a, b⟩ := panicCase e o hc
      refine ⟨by simpa [applyFrame] using a, ?_⟩
      intro l hl
      simp [applyFrame, b] at hl
    | val w => simp [Quiet] at hc
    | exc ex => simp [Quiet] at hc
    | sentinel k => simp [Quiet] at hc
    | other n => simp [Quiet] at hc

theorem evalSeg_quiet (s : Seg) (ijs : Bool) {fl : Flow} (hc : Quiet fl) :
    Quiet (evalSeg s fl ijs).1 ∧ ∀ l ∈ (evalSeg s fl ijs).2, l.kind = .fin := by
  induction s with
  | nil => exact ⟨hc, by simp [evalSeg]⟩
  | cons hd tl ih =>
    obtain ⟨j, f⟩ := hd
    obtain ⟨a1, a2⟩ := applyFrame_quiet j f (headIsJS tl ijs) ih.1
    refine ⟨by simpa [evalSeg] using a1, ?_⟩
    intro l hl
    simp only [evalSeg, List.mem_append] at hl
    rcases hl with hl | hl
    · exact ih.2 l hl
    · exact a2 l hl

theorem vmTry_invoke_quiet (b : Bool) {fl : Flow} (hc : Quiet fl) :
    vmTry (invoke b fl) = .ok ∨ ∃ x o, vmTry (invoke b fl) = .panic x o := by
  cases fl with
  | normal => left; cases b <;> simp [invoke]
  | pending e => right; cases b <;> simp [invoke, jsCall, vmTry, handleThrow, handleThrowLoop, exceptionFromValue]
  | panic x o =>
    cases x with
    | goErr e => right; cases b <;> simp [invoke, jsCall, vmTry, handleThrow, handleThrowLoop, exceptionFromValue]
    | val w => simp [Quiet] at hc
    | exc ex => simp [Quiet] at hc
    | sentinel k => simp [Quiet] at hc
    | other n => simp [Quiet] at hc

theorem runJobs_quiet (p : Payload) (hp : Quiet p.flow) :
    ∀ ss : List Seg, ∀ l ∈ (runJobs p ss).log, l.kind = .fin := by
  intro ss
  induction ss with
  | nil => intro l hl; simp [runJobs] at hl
  | cons s tl ih =>
    have hin : Quiet (segInner p tl.isEmpty).1 := by
      cases tl with
      | nil => simpa [segInner] using hp
      | cons _ _ => simp [segInner, Quiet]
    obtain ⟨c1, c2⟩ := evalSeg_quiet s (segInner p tl.isEmpty).2 hin
    intro l hl
    simp only [runJobs] at hl
    rcases vmTry_invoke_quiet (headIsJS s (segInner p tl.isEmpty).2) c1 with h | ⟨x, o, h⟩
    · rw [h] at hl
      simp only [List.mem_append] at hl
      rcases hl with hl | hl
      · exact c2 l hl
      · exact ih l hl
    · rw [h] at hl
      exact c2 l hl

theorem hostRun_quiet (entry : Entry) (chain : List Frame) (p : Payload) (hp : Quiet p.flow) :
    ∀ l ∈ (hostRun entry chain p).log, l.kind = .fin := by
  simp only [hostRun]
  generalize splitSegs (indexed 0 chain) = sg
  obtain ⟨s0, ss⟩ := sg
  have hin : Quiet (segInner p ss.isEmpty).1 := by
    cases ss with
    | nil => simpa [segInner] using hp
    | cons _ _ => simp [segInner, Quiet]
  obtain ⟨_, c2⟩ := evalSeg_quiet s0 (segInner p ss.isEmpty).2 hin
  have hj := runJobs_quiet p hp ss
  intro l hl
  simp only [hostRunSegs] at hl
  split at hl
  · simp only [List.mem_append] at hl
    rcases hl with hl | hl
    · exact c2 l hl
    · exact hj l hl
  · exact c2 l hl

theorem carried_errIs {ev : ErrVal} {e : GoErr} (h : ev.carried = some e) (t : Nat) :
    ev.errIs t = e.errIs t := by
  cases ev with
  | go e' => simp [ErrVal.carried] at h; simp [ErrVal.errIs, h]
  | exc ex => simp [ErrVal.carried] at h; simp [ErrVal.errIs, h]

theorem carried_errAs {ev : ErrVal} {e : GoErr} (h : ev.carried = some e) : ev.errAs = e.errAs := by
  cases ev with
  | go e' => simp [ErrVal.carried] at h; simp [ErrVal.errAs, h]
  | exc ex => simp [ErrVal.carried] at h; simp [ErrVal.errAs, h]

end GojaModel.C14
