/-
  C14 helper lemmas, part 4 (deepening round 2): an exception in flight can be REPLACED by an uncatchable error raised
  while handleThrow closes an iterator for it (vm.go handleThrow, deferred recover added by fix 404e270).  The
  three-state invariant "carries v, or normal / uncatchable in flight / interrupt pending" is preserved by EVERY frame
  kind, which makes `catch_receives_identity` unconditional in the frames that end the propagation, and gives the
  trichotomy `identity_or_abort` for what the host receives.
-/
import GojaModel.C14.CarryGo

set_option linter.unusedSimpArgs false
set_option linter.unusedVariables false

namespace GojaModel.C14

theorem Frame.replaces_eq_jiu {f : Frame} (h : f.replaces = true) : f = .jiu := by
  cases f <;> simp [Frame.replaces] at h; rfl

/-- One frame on "carries v, or quiet (normal return / uncatchable in flight / interrupt pending)". -/
theorem applyFrame_cq (idx : Nat) (f : Frame) (cjs : Bool) {v : JsVal} {fl : Flow}
    (hrw : f.rewraps = false) (hu : v.goErrValue = none ∨ f.unwraps = false)
    (h : Carries v fl ∨ Quiet fl) :
    (Carries v (applyFrame idx f cjs fl).1 ∨ Quiet (applyFrame idx f cjs fl).1) ∧
      ∀ l ∈ (applyFrame idx f cjs fl).2, LogOk v l := by
  rcases h with hc | hq
  · cases hs : f.swallows with
    | false =>
      obtain ⟨a1, a2⟩ := applyFrame_carries idx f cjs hs hrw hu hc
      exact ⟨Or.inl a1, a2⟩
    | true =>
      cases hr : f.replaces with
      | false =>
        obtain ⟨a1, a2⟩ := applyFrame_swallow idx f cjs hs hr hc
        exact ⟨Or.inr (by rw [a1]; trivial), a2⟩
      | true =>
        have := Frame.replaces_eq_jiu hr
        subst this
        rcases carries_cases hc with ⟨o, rfl⟩ | ⟨t, o, rfl⟩ <;>
          simp [applyFrame, applyFrameCore, handleThrow, handleThrowLoop, exceptionFromValue, Quiet,
            GoErr.isUncatchable, LogOk]
  · obtain ⟨a1, a2⟩ := applyFrame_quiet idx f cjs hq
    exact ⟨Or.inr a1, fun l hl => Or.inl (a2 l hl)⟩

theorem evalSeg_cq (s : Seg) (ijs : Bool) {v : JsVal} {fl : Flow}
    (hrw : ∀ q ∈ s, q.2.rewraps = false)
    (hu : v.goErrValue = none ∨ ∀ q ∈ s, q.2.unwraps = false) (h : Carries v fl ∨ Quiet fl) :
    (Carries v (evalSeg s fl ijs).1 ∨ Quiet (evalSeg s fl ijs).1) ∧ ∀ l ∈ (evalSeg s fl ijs).2, LogOk v l := by
  induction s with
  | nil => exact ⟨h, by simp [evalSeg]⟩
  | cons hd tl ih =>
    obtain ⟨i, f⟩ := hd
    have hu' : v.goErrValue = none ∨ ∀ q ∈ tl, q.2.unwraps = false := by
      rcases hu with h' | h'
      · exact Or.inl h'
      · exact Or.inr (fun q hq => h' q (List.mem_cons_of_mem _ hq))
    obtain ⟨ih1, ih2⟩ := ih (fun q hq => hrw q (List.mem_cons_of_mem _ hq)) hu'
    have hf : v.goErrValue = none ∨ f.unwraps = false := by
      rcases hu with h' | h'
      · exact Or.inl h'
      · exact Or.inr (h' (i, f) (List.mem_cons_self ..))
    obtain ⟨a1, a2⟩ := applyFrame_cq i f (headIsJS tl ijs) (hrw (i, f) (List.mem_cons_self ..)) hf ih1
    refine ⟨by simpa [evalSeg] using a1, ?_⟩
    intro l hl
    simp only [evalSeg, List.mem_append] at hl
    rcases hl with hl | hl
    · exact ih2 l hl
    · exact a2 l hl

theorem segInner_cq (p : Payload) {v : JsVal} (hp : Carries v p.flow) (b : Bool) :
    Carries v (segInner p b).1 ∨ Quiet (segInner p b).1 := by
  cases b with
  | true => left; simpa [segInner] using hp
  | false => right; simp [segInner, Quiet]

theorem runJobs_log_ok3 (p : Payload) {v : JsVal} (hp : Carries v p.flow) :
    ∀ ss : List Seg, (∀ s ∈ ss, ∀ q ∈ s, q.2.rewraps = false) →
      (v.goErrValue = none ∨ ∀ s ∈ ss, ∀ q ∈ s, q.2.unwraps = false) →
      ∀ l ∈ (runJobs p ss).log, LogOk v l := by
  intro ss
  induction ss with
  | nil => intro _ _ l hl; simp [runJobs] at hl
  | cons s tl ih =>
    intro hrw hu
    have hu_s : v.goErrValue = none ∨ ∀ q ∈ s, q.2.unwraps = false := by
      rcases hu with h | h
      · exact Or.inl h
      · exact Or.inr (h s (List.mem_cons_self ..))
    have ih' := ih (fun s' hs' => hrw s' (List.mem_cons_of_mem _ hs'))
      (by rcases hu with h | h
          · exact Or.inl h
          · exact Or.inr (fun s' hs' => h s' (List.mem_cons_of_mem _ hs')))
    obtain ⟨_, c2⟩ := evalSeg_cq s (segInner p tl.isEmpty).2 (hrw s (List.mem_cons_self ..)) hu_s
      (segInner_cq p hp tl.isEmpty)
    intro l hl
    simp only [runJobs] at hl
    split at hl
    · simp only [List.mem_append] at hl
      rcases hl with hl | hl
      · exact c2 l hl
      · exact ih' l hl
    · simp only [List.mem_append] at hl
      rcases hl with hl | hl
      · exact c2 l hl
      · exact ih' l hl
    · exact c2 l hl

/-- Every catch block / async rejection in the whole run received `v` itself — whatever ends the propagation on the
way: a swallowing catch, an async function, a native frame that drops the error, or an uncatchable error raised while
an iterator is closed for the exception. -/
theorem hostRun_log_ok3 (entry : Entry) (chain : List Frame) (p : Payload) {v : JsVal}
    (hp : Carries v p.flow) (hrw : ∀ f ∈ chain, f.rewraps = false)
    (hu : v.goErrValue = none ∨ ∀ f ∈ chain, f.unwraps = false) :
    ∀ l ∈ (hostRun entry chain p).log, LogOk v l := by
  have hsegrw := allSegs_frames (P := fun f => f.rewraps = false) chain hrw
  have hsegu : v.goErrValue = none ∨ ∀ s ∈ allSegs chain, ∀ q ∈ s, q.2.unwraps = false := by
    rcases hu with h | h
    · exact Or.inl h
    · exact Or.inr (allSegs_frames (P := fun f => f.unwraps = false) chain h)
  simp only [hostRun, allSegs] at *
  generalize splitSegs (indexed 0 chain) = sg at *
  obtain ⟨s0, ss⟩ := sg
  simp only at hsegu hsegrw
  have hu0 : v.goErrValue = none ∨ ∀ q ∈ s0, q.2.unwraps = false := by
    rcases hsegu with h | h
    · exact Or.inl h
    · exact Or.inr (h s0 (List.mem_cons_self ..))
  obtain ⟨_, c2⟩ := evalSeg_cq s0 (segInner p ss.isEmpty).2 (hsegrw s0 (List.mem_cons_self ..)) hu0
    (segInner_cq p hp ss.isEmpty)
  have hj := runJobs_log_ok3 p hp ss (fun s hs => hsegrw s (List.mem_cons_of_mem _ hs))
    (by rcases hsegu with h | h
        · exact Or.inl h
        · exact Or.inr (fun s hs => h s (List.mem_cons_of_mem _ hs)))
  intro l hl
  simp only [hostRunSegs] at hl
  split at hl
  · simp only [List.mem_append] at hl
    rcases hl with hl | hl
    · exact c2 l hl
    · exact hj l hl
  · exact c2 l hl

/-- What the host receives when the chain has no job frame: nothing, the thrown value, or an uncatchable error —
never a DIFFERENT catchable value. -/
theorem hostRun_identity_or_abort (entry : Entry) (chain : List Frame) (p : Payload) {v : JsVal}
    (hp : Carries v p.flow) (hrw : ∀ f ∈ chain, f.rewraps = false)
    (hu : v.goErrValue = none ∨ (entry ≠ .exported ∧ ∀ f ∈ chain, f.unwraps = false))
    (hn : hasSplit chain = false) :
    (hostRun entry chain p).host = .ok ∨
    (∃ ex, (hostRun entry chain p).host = .err (.exc ex) ∧ ex.val = v) ∨
    (∃ e, (hostRun entry chain p).host = .err (.go e) ∧ e.isUncatchable = true) := by
  have hsegrw := allSegs_frames (P := fun f => f.rewraps = false) chain hrw
  have hsegu : v.goErrValue = none ∨ ∀ s ∈ allSegs chain, ∀ q ∈ s, q.2.unwraps = false := by
    rcases hu with h | h
    · exact Or.inl h
    · exact Or.inr (allSegs_frames (P := fun f => f.unwraps = false) chain h.2)
  have hpr := (splitSegs_snd_nil_iff chain 0).mpr hn
  simp only [hostRun, allSegs] at *
  generalize splitSegs (indexed 0 chain) = sg at *
  obtain ⟨s0, ss⟩ := sg
  simp only at hsegu hsegrw hpr
  subst hpr
  have hu0 : v.goErrValue = none ∨ ∀ q ∈ s0, q.2.unwraps = false := by
    rcases hsegu with h | h
    · exact Or.inl h
    · exact Or.inr (h s0 (List.mem_cons_self ..))
  obtain ⟨c1, _⟩ := evalSeg_cq s0 p.isJS (hsegrw s0 (List.mem_cons_self ..)) hu0 (Or.inl hp)
  simp only [hostRunSegs, segInner, List.isEmpty_nil, ↓reduceIte, runJobs]
  generalize (evalSeg s0 p.flow p.isJS).1 = fl at c1
  rcases c1 with hc | hq
  · right; left
    obtain ⟨ex, he, hev⟩ := firstCall_carries entry (headIsJS s0 p.isJS) hc
    have hfin : finish entry (.err (.exc ex)) = .err (.exc ex) := by
      apply finish_exc
      rcases hu with h | h
      · exact Or.inl (by rw [hev]; exact h)
      · exact Or.inr h.1
    exact ⟨ex, by simp [he, ranLeave, mergeJobs, hfin, CallRes.toHost], hev⟩
  · cases fl with
    | normal =>
      left
      cases entry <;> cases headIsJS s0 p.isJS <;>
        simp [firstCall, runProgram_normal, callable_normal, ranLeave, mergeJobs, finish, wrapJSFuncE, CallRes.toHost]
    | pending e =>
      right; right
      have hue : e.isUncatchable = true := hq
      refine ⟨e, ?_, hue⟩
      cases entry <;> cases headIsJS s0 p.isJS <;>
        simp [firstCall, callable, invoke, jsCall, runWrapped, vmTry, runProgram, runProgram.handleThrowOpt,
          handleThrow, handleThrowLoop, exceptionFromValue, recoverUncatchable, asUncatchableException, hue,
          ranLeave, finish, wrapJSFuncE, CallRes.toHost]
    | panic x o =>
      cases x with
      | goErr e =>
        right; right
        have hue : e.isUncatchable = true := hq
        refine ⟨e, ?_, hue⟩
        cases entry <;> cases headIsJS s0 p.isJS <;>
          simp [firstCall, callable, invoke, jsCall, runWrapped, vmTry, runProgram, runProgram.handleThrowOpt,
            handleThrow, handleThrowLoop, exceptionFromValue, recoverUncatchable, asUncatchableException, hue,
            ranLeave, finish, wrapJSFuncE, CallRes.toHost]
      | val w => simp [Quiet] at hq
      | exc ex => simp [Quiet] at hq
      | sentinel k => simp [Quiet] at hq
      | other n => simp [Quiet] at hq

end GojaModel.C14
