/-
  C11 layer-log model: `n` forwarding proxy layers (Model.lean `stack`, built from the mechanism checks
  with the REGENERATED compatibility function) over a SCRIPTED base object that answers exactly what the real
  target answered (facts printed by the harness).  Predicts the result and the sequence of trap calls on every
  layer for one primitive operation.

      Q <layers> <prim> <a1> <a2> <res> <own> <ext> <proto> <keys>   ->   <result> <log>
-/
import GojaModel.C11.Codec
import GojaModel.C11.GenPrelude
import GojaModel.C11.Ordinary
import GojaModel.C11.Exotic
import GojaModel.Generated.C11_Checks

namespace GojaModel.C11.Seq
open GojaModel.C11 GojaModel.C11.Driver

abbrev Log := List (Nat × Trap)

structure Script where
  threw : Bool := false
  resBool : Bool := false
  resVal : Val := .undef
  own : Option Cur := none
  ext : Bool := true
  proto : Option Nat := none
  keys : List Key := []

def rb (sc : Script) : R Bool := if sc.threw then .typeError else .ok sc.resBool

/-- the base target as an oracle: its answers are the facts observed on the real target after the operation -/
def scripted (sc : Script) : Ops Log where
  getProto := fun s => (.ok sc.proto, s)
  setProto := fun _ s => (rb sc, s)
  isExt := fun s => (.ok sc.ext, s)
  prevExt := fun s => (rb sc, s)
  getOwn := fun _ s => (.ok sc.own, s)
  define := fun _ _ s => (rb sc, s)
  has := fun _ s => (rb sc, s)
  get := fun _ _ s => (if sc.threw then .typeError else .ok sc.resVal, s)
  set := fun _ _ _ s => (rb sc, s)
  delete := fun _ s => (rb sc, s)
  ownKeys := fun s => (.ok sc.keys, s)
  callable := false
  constructor := false
  call := fun _ _ s => (.typeError, s)
  construct := fun _ _ s => (.typeError, s)

def trapName : Trap → String
  | .getPrototypeOf => "getPrototypeOf" | .setPrototypeOf => "setPrototypeOf" | .isExtensible => "isExtensible"
  | .preventExtensions => "preventExtensions" | .getOwnPropertyDescriptor => "getOwnPropertyDescriptor"
  | .defineProperty => "defineProperty" | .has => "has" | .get => "get" | .set => "set"
  | .deleteProperty => "deleteProperty" | .ownKeys => "ownKeys" | .apply => "apply" | .construct => "construct"

def showLog (l : Log) : String :=
  if l.isEmpty then "-" else ",".intercalate (l.map (fun (i, t) => toString i ++ ":" ++ trapName t))

def parseKeyTok? (s : String) : Option Key :=
  match s.toList with
  | 'k' :: r => (String.ofList r).toNat?.map .str
  | 'y' :: r => (String.ofList r).toNat?.map .sym
  | _ => none

def parseKeyList? (s : String) : Option (List Key) :=
  if s == "-" then some [] else (splitC s).mapM parseKeyTok?

def curOfTProp (t : TProp) : Option Cur := t.toCur

def showObs : Obs → String
  | .proto r => showOut showProto r
  | .bool r => showOut showB r
  | .desc r => showOut showCur r
  | .val r => showOut (fun v => "v:" ++ showVal v) r
  | .obj r => showOut (fun o => "v:o" ++ toString o) r
  | .kind c k => "kind:" ++ bs c ++ bs k
  | .keys r => showOut (fun ks => "k:" ++ ",".intercalate (ks.map (fun k => match k with | .str n => "k" ++ toString n | .sym n => "y" ++ toString n))) r

open GojaModel.Generated.C11 in
def layers (n : Nat) (sc : Script) : Ops Log :=
  stack gen_isCompatibleDescriptor (toValuePropWith gen_toValuePropAccessor) (fun i t s => s ++ [(i, t)]) (scripted sc) n


/-! ## model correspondence: the target models of Ordinary.lean / Exotic.lean run on primitive-operation histories

      Q model <kind> <op;op;...>   ->   <answer>|<answer>|...
  kinds: mobj (ordinary), marr (Array [1,2,3]), mstr (new String("ab")), mta (Uint8Array [1,2,3]), margm (mapped arguments (1,2));
  all with prototype null.  Keys: i<n> ↦ .str (n+1), length ↦ .str 0, names ↦ .str 1000+. -/

def mkKey (t : String) : Option Key :=
  match t.toList with
  | 'i' :: r => (String.ofList r).toNat?.map (fun n => Key.str (n + 1))
  | _ =>
    if t == "length" then some (.str 0) else if t == "x" then some (.str 1000) else if t == "y" then some (.str 1001)
    else if t == "zz" then some (.str 1002) else if t == "q" then some (.str 1003) else none

def showMKey : Key → String
  | .str 0 => "klength"
  | .str 1000 => "kx" | .str 1001 => "ky" | .str 1002 => "kzz" | .str 1003 => "kq"
  | .str (n + 1) => "k" ++ toString n
  | .sym n => "y" ++ toString n

def idxOfKey : Key → Option Nat
  | .str (n + 1) => if n < 999 then some n else none
  | _ => none

def env0 : Env :=
  { self := 1, inhHas := fun _ _ => false, inhGet := fun _ _ _ => .undef, inhSet := fun _ _ _ _ => none,
    callGetter := fun _ _ => .num 1, cyc := fun _ => false, callable := false, constructor := false,
    callF := fun _ _ s => (.typeError, s), consF := fun _ _ s => (.typeError, s) }

def arr0 : AEnv :=
  { E := env0, lenKey := .str 0, idxOf := idxOfKey,
    toLen := fun v => match v with
      | .num n => if 0 ≤ n then some n.toNat else none
      | .null => some 0 | .negZero => some 0 | .tru => some 1 | .fls => some 0
      | _ => none }

def ta0 : TEnv :=
  { E := env0, numOf := idxOfKey,
    conv := fun v => match v with
      | .num n => .num (n % 256)
      | .tru => .num 1
      | _ => .num 0 }

def showMObs : Obs → String
  | .bool (.ok b) => if b then "v:t" else "v:f"
  | .val (.ok v) => "v:" ++ showVal v
  | .desc (.ok c) => showCur c
  | .keys (.ok ks) => "k:" ++ ",".intercalate (ks.map showMKey)
  | .proto (.ok p) => showProto p
  | .obj (.ok o) => "v:o" ++ toString o
  | .kind c k => "kind:" ++ bs c ++ bs k
  | _ => "THROW"

def parseMOp (t : String) : Option Op :=
  match t.splitOn "/" with
  | ["gopd", k] => (mkKey k).map .getOwn
  | ["get", k] => (mkKey k).map (fun k => .get k (.obj 1))
  | ["has", k] => (mkKey k).map .has
  | ["del", k] => (mkKey k).map .delete
  | ["set", k, v] => do let k ← mkKey k; let v ← parseVal? v; pure (.set k v (.obj 1))
  | ["def", k, d] => do let k ← mkKey k; let d ← parseDesc? d; pure (.define k d.toPD)
  | ["pe"] => some .prevExt
  | ["ie"] => some .isExt
  | ["keys"] => some .ownKeys
  | _ => none

def runM {σ : Type} (T : Ops σ) (fixKeys : σ → List Key → List Key) : List Op → σ → List String
  | [], _ => []
  | op :: rest, s =>
    let (o, s') := T.run op s
    let o := match o with
      | .keys (.ok ks) => Obs.keys (.ok (fixKeys s' ks))
      | o => o
    showMObs o :: runM T fixKeys rest s'

def dataP (k : Nat) (v : Val) : Key × Cur := (.str k, .data v true true true)

def modelAnswer (kind : String) (opsTok : String) : String :=
  match (opsTok.splitOn ";").mapM parseMOp with
  | none => "PARSE"
  | some ops =>
    let out :=
      if kind == "mobj" then
        runM (ordOps env0) (fun _ ks => ks) ops { ext := true, proto := none, props := [dataP 1000 (.num 1)] }
      else if kind == "marr" then
        runM (arrOps arr0) (fun _ ks => ks) ops
          { o := { ext := true, proto := none, props := [dataP 1 (.num 1), dataP 2 (.num 2), dataP 3 (.num 3)] }, len := 3, lenW := true }
      else if kind == "mstr" then
        runM (fixedOps env0 (stringFixed (fun i => .str (i + 1)) (.str 0) [.str 1001, .str 1002])) (fun _ ks => ks) ops
          { ext := true, proto := none, props := [] }
      else if kind == "mta" then
        runM (taOps ta0) (fun s ks => (List.range s.elems.length).map (fun i => Key.str (i + 1)) ++ ks) ops
          { o := { ext := true, proto := none, props := [] }, elems := [.num 1, .num 2, .num 3] }
      else if kind == "margm" then
        runM (argOps env0) (fun _ ks => ks) ops
          { o := { ext := true, proto := none, props := [dataP 1 (.num 1), dataP 2 (.num 2)] },
            map := [(.str 1, 0), (.str 2, 1)], params := [.num 1, .num 2] }
      else ["BADKIND"]
    "|".intercalate out

def answer (f : List String) : String :=
  match f with
  | ["model", kind, ops] => modelAnswer kind ops
  | [n, prim, a1, a2, res, own, ext, proto, keys] =>
    let r : Option String := do
      let n ← n.toNat?
      let own ← parseCur? own
      let ext ← parseBit? ext
      let proto ← parseObjOpt? proto
      let keys ← parseKeyList? keys
      let threw := res == "TE"
      let resBool := res == "b:1"
      let resVal := (if res.startsWith "v:" then parseVal? (String.ofList (res.toList.drop 2)) else none).getD .undef
      let sc : Script := { threw := threw, resBool := resBool, resVal := resVal, own := curOfTProp own, ext := ext,
                           proto := proto, keys := keys }
      let k := (parseKeyTok? a1).getD (.str 0)
      let op : Op ← match prim with
        | "gpo" => some .getProto
        | "spo" => (parseObjOpt? a1).map .setProto
        | "ie" => some .isExt
        | "pe" => some .prevExt
        | "gopd" => some (.getOwn k)
        | "def" => (parseDesc? a2).map (fun d => .define k d.toPD)
        | "has" => some (.has k)
        | "rget" => some (.get k .undef)
        | "rset" => (parseVal? a2).map (fun v => .set k v .undef)
        | "del" => some (.delete k)
        | "keys" => some .ownKeys
        | _ => none
      let (o, log) := (layers n sc).run op []
      pure (showObs o ++ " " ++ showLog log)
    r.getD "PARSE"
  | _ => "PARSE"

end GojaModel.C11.Seq
