/-
  C11 layer-log model: `n` forwarding proxy layers (Model.lean `stack`, built from the mechanism checks
  with the REGENERATED compatibility function) over a SCRIPTED base object that answers exactly what the real
  target answered (facts printed by the harness).  Predicts the result and the sequence of trap calls on every
  layer for one primitive operation.

      Q <layers> <prim> <a1> <a2> <res> <own> <ext> <proto> <keys>   ->   <result> <log>
-/
import GojaModel.C11.Codec
import GojaModel.C11.GenPrelude
import GojaModel.Generated.C11_Checks

namespace GojaModel.C11.Seq
open GojaModel.C11 GojaModel.C11.Driver

abbrev Log := List (Nat × Trap)

structure Script where
  threw : Bool := false
  resBool : Bool := false
  resVal : Val := .undef
  own : Option Cur := none
  ext : Bool := true
  proto : Option Nat := none
  keys : List Key := []

def rb (sc : Script) : R Bool := if sc.threw then .typeError else .ok sc.resBool

/-- the base target as an oracle: its answers are the facts observed on the real target after the operation -/
def scripted (sc : Script) : Ops Log where
  getProto := fun s => (.ok sc.proto, s)
  setProto := fun _ s => (rb sc, s)
  isExt := fun s => (.ok sc.ext, s)
  prevExt := fun s => (rb sc, s)
  getOwn := fun _ s => (.ok sc.own, s)
  define := fun _ _ s => (rb sc, s)
  has := fun _ s => (rb sc, s)
  get := fun _ _ s => (if sc.threw then .typeError else .ok sc.resVal, s)
  set := fun _ _ _ s => (rb sc, s)
  delete := fun _ s => (rb sc, s)
  ownKeys := fun s => (.ok sc.keys, s)
  callable := false
  constructor := false
  call := fun _ _ s => (.typeError, s)
  construct := fun _ _ s => (.typeError, s)

def trapName : Trap → String
  | .getPrototypeOf => "getPrototypeOf" | .setPrototypeOf => "setPrototypeOf" | .isExtensible => "isExtensible"
  | .preventExtensions => "preventExtensions" | .getOwnPropertyDescriptor => "getOwnPropertyDescriptor"
  | .defineProperty => "defineProperty" | .has => "has" | .get => "get" | .set => "set"
  | .deleteProperty => "deleteProperty" | .ownKeys => "ownKeys" | .apply => "apply" | .construct => "construct"

def showLog (l : Log) : String :=
  if l.isEmpty then "-" else ",".intercalate (l.map (fun (i, t) => toString i ++ ":" ++ trapName t))

def parseKeyTok? (s : String) : Option Key :=
  match s.toList with
  | 'k' :: r => (String.ofList r).toNat?.map .str
  | 'y' :: r => (String.ofList r).toNat?.map .sym
  | _ => none

def parseKeyList? (s : String) : Option (List Key) :=
  if s == "-" then some [] else (splitC s).mapM parseKeyTok?

def curOfTProp (t : TProp) : Option Cur := t.toCur

def showObs : Obs → String
  | .proto r => showOut showProto r
  | .bool r => showOut showB r
  | .desc r => showOut showCur r
  | .val r => showOut (fun v => "v:" ++ showVal v) r
  | .obj r => showOut (fun o => "v:o" ++ toString o) r
  | .kind c k => "kind:" ++ bs c ++ bs k
  | .keys r => showOut (fun ks => "k:" ++ ",".intercalate (ks.map (fun k => match k with | .str n => "k" ++ toString n | .sym n => "y" ++ toString n))) r

open GojaModel.Generated.C11 in
def layers (n : Nat) (sc : Script) : Ops Log :=
  stack gen_isCompatibleDescriptor (toValuePropWith gen_toValuePropAccessor) (fun i t s => s ++ [(i, t)]) (scripted sc) n

def answer (f : List String) : String :=
  match f with
  | [n, prim, a1, a2, res, own, ext, proto, keys] =>
    let r : Option String := do
      let n ← n.toNat?
      let own ← parseCur? own
      let ext ← parseBit? ext
      let proto ← parseObjOpt? proto
      let keys ← parseKeyList? keys
      let threw := res == "TE"
      let resBool := res == "b:1"
      let resVal := (if res.startsWith "v:" then parseVal? (String.ofList (res.toList.drop 2)) else none).getD .undef
      let sc : Script := { threw := threw, resBool := resBool, resVal := resVal, own := curOfTProp own, ext := ext,
                           proto := proto, keys := keys }
      let k := (parseKeyTok? a1).getD (.str 0)
      let op : Op ← match prim with
        | "gpo" => some .getProto
        | "spo" => (parseObjOpt? a1).map .setProto
        | "ie" => some .isExt
        | "pe" => some .prevExt
        | "gopd" => some (.getOwn k)
        | "def" => (parseDesc? a2).map (fun d => .define k d.toPD)
        | "has" => some (.has k)
        | "rget" => some (.get k .undef)
        | "rset" => (parseVal? a2).map (fun v => .set k v .undef)
        | "del" => some (.delete k)
        | "keys" => some .ownKeys
        | _ => none
      let (o, log) := (layers n sc).run op []
      pure (showObs o ++ " " ++ showLog log)
    r.getD "PARSE"
  | _ => "PARSE"

end GojaModel.C11.Seq
