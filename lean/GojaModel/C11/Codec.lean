/-
  C11 line-protocol codec shared by the lattice driver and the layer-log driver.  Core Lean only.
-/
import GojaModel.Base.Proto
import GojaModel.C11.Model

namespace GojaModel.C11.Driver
open GojaModel.C11

def splitC (s : String) : List String := s.splitOn ","

def parseInt? (s : String) : Option Int :=
  match s.toList with
  | '-' :: rest => (String.ofList rest).toNat?.map (fun n => - (Int.ofNat n))
  | _ => s.toNat?.map Int.ofNat

def parseVal? (s : String) : Option Val :=
  match s.toList with
  | ['u'] => some .undef
  | ['n'] => some .null
  | ['t'] => some .tru
  | ['f'] => some .fls
  | ['N'] => some .nan
  | ['z'] => some .negZero
  | 'i' :: r => (parseInt? (String.ofList r)).map .num
  | 's' :: r => (String.ofList r).toNat?.map .str
  | 'y' :: r => (String.ofList r).toNat?.map .sym
  | 'o' :: r => (String.ofList r).toNat?.map .obj
  | _ => none

def showVal : Val → String
  | .undef => "u" | .null => "n" | .tru => "t" | .fls => "f" | .nan => "N" | .negZero => "z"
  | .num n => "i" ++ toString n | .str s => "s" ++ toString s | .sym s => "y" ++ toString s
  | .obj o => "o" ++ toString o

def parseOptVal? (s : String) : Option (Option Val) :=
  if s == "-" then some none else (parseVal? s).map some

def parseFlag? (s : String) : Option Flag :=
  if s == "-" then some .notSet else if s == "0" then some .fals else if s == "1" then some .tru else none

def parseBit? (s : String) : Option Bool :=
  if s == "0" then some false else if s == "1" then some true else none

def parseObjOpt? (s : String) : Option (Option Nat) :=
  if s == "-" || s == "n" then some none else
  match s.toList with
  | 'o' :: r => (String.ofList r).toNat?.map some
  | _ => none

def parseDesc? (s : String) : Option Desc :=
  match splitC s with
  | [v, w, e, c, g, st] => do
    let v ← parseOptVal? v
    let w ← parseFlag? w
    let e ← parseFlag? e
    let c ← parseFlag? c
    let g ← parseOptVal? g
    let st ← parseOptVal? st
    pure { value := v, writable := w, enumerable := e, configurable := c, getter := g, setter := st }
  | _ => none

def parseCur? (s : String) : Option TProp :=
  if s == "-" then some .absent else
  let kind := String.ofList (s.toList.take 2)
  let rest := splitC (String.ofList (s.toList.drop 2))
  if kind == "P:" then
    match rest with
    | [v] => (parseVal? v).map .plain
    | _ => none
  else if kind == "D:" then
    match rest with
    | [v, w, e, c] => do
      let v ← parseVal? v
      let w ← parseBit? w
      let e ← parseBit? e
      let c ← parseBit? c
      pure (.vp { value := some v, writable := w, enumerable := e, configurable := c, accessor := false,
                  getterFunc := none, setterFunc := none })
    | _ => none
  else if kind == "A:" then
    match rest with
    | [g, st, e, c] => do
      let g ← parseObjOpt? g
      let st ← parseObjOpt? st
      let e ← parseBit? e
      let c ← parseBit? c
      pure (.vp { value := none, writable := false, enumerable := e, configurable := c, accessor := true,
                  getterFunc := g, setterFunc := st })
    | _ => none
  else none

def parseTrapDesc? (s : String) : Option TrapDesc :=
  if s == "u" then some .undef else if s == "p" then some .nonObject else (parseDesc? s).map .obj

def bs (b : Bool) : String := if b then "1" else "0"
def showObjOpt : Option Nat → String
  | none => "-"
  | some o => "o" ++ toString o

def showCur : Option Cur → String
  | none => "d:-"
  | some (.data v w e c) => "d:D:" ++ showVal v ++ "," ++ bs w ++ "," ++ bs e ++ "," ++ bs c
  | some (.acc g s e c) => "d:A:" ++ showObjOpt g ++ "," ++ showObjOpt s ++ "," ++ bs e ++ "," ++ bs c

def showTProp : TProp → String
  | .absent => "d:-"
  | .plain v => "d:D:" ++ showVal v ++ ",1,1,1"
  | .vp p =>
    if p.accessor then "d:A:" ++ showObjOpt p.getterFunc ++ "," ++ showObjOpt p.setterFunc ++ "," ++ bs p.enumerable ++ "," ++ bs p.configurable
    else "d:D:" ++ showVal (p.value.getD .undef) ++ "," ++ bs p.writable ++ "," ++ bs p.enumerable ++ "," ++ bs p.configurable

def showOut {α : Type} (f : α → String) : Out α → String
  | .ok a => f a
  | .typeError => "TE"

def showB (b : Bool) : String := "b:" ++ bs b
def showProto : Option Nat → String
  | none => "proto:n"
  | some o => "proto:o" ++ toString o

def keyOfChar (c : Char) : Option KItem :=
  if c == 'a' then some (.key (.str 1)) else if c == 'b' then some (.key (.str 2))
  else if c == 'c' then some (.key (.str 3)) else if c == 'd' then some (.key (.str 4))
  else if c == '7' then some (.key (.str 7))
  else if c == 'y' then some (.key (.sym 1)) else if c == 'w' then some (.key (.sym 2))
  else if c == '!' then some .invalid else none

def showKey : Key → String
  | .str 1 => "a" | .str 2 => "b" | .str 3 => "c" | .str 4 => "d" | .str 7 => "7"
  | .sym 1 => "y" | .sym 2 => "w" | _ => "?"

def showKeys (ks : List Key) : String :=
  if ks.isEmpty then "k:-" else "k:" ++ ",".intercalate (ks.map showKey)

def parseItems? (s : String) : Option (List KItem) :=
  if s == "-" then some [] else (splitC s).mapM (fun t => match t.toList with | [c] => keyOfChar c | _ => none)

def parseTKeys? (s : String) : Option (List (Key × Bool)) :=
  if s == "-" then some [] else
  (splitC s).mapM (fun t => match t.toList with
    | [c, b] => do
      let k ← keyOfChar c
      let b ← parseBit? (String.singleton b)
      match k with
      | .key k => pure (k, b)
      | .invalid => none
    | _ => none)

end GojaModel.C11.Driver
