/-
  C11 (deepening round 2): proxies with ARBITRARY handlers whose traps may MUTATE the target (and anything else in the
  state) before returning.  `proxyWith H q T` transcribes the trap-present / trap-absent structure of proxy.go for a handler
  `H` given as arbitrary state transformers; the post-check reads the target AFTER the trap ran (proxy.go evaluates
  `target.self.getOwnProp…` / `isExtensible()` / `proto()` as arguments of the post-check, i.e. at check time), through the
  target's pure query methods `q`.

  `handler_inv_*` (Props2.lean): whenever an operation of such a proxy completes normally, its result is consistent with the target AS IT
  IS WHEN THE OPERATION RETURNS — whatever the trap did to it in between.  These lift Props.inv_* (which quantify over the
  trap result only) to handlers with effects.
-/
import GojaModel.C11.Props

namespace GojaModel.C11

/-- a handler: per trap, absent or an arbitrary state transformer producing the trap's result -/
structure Handler (σ : Type) where
  getPrototypeOf : Option (σ → R Val × σ)
  setPrototypeOf : Option (Option Nat → σ → R Bool × σ)
  isExtensible : Option (σ → R Bool × σ)
  preventExtensions : Option (σ → R Bool × σ)
  getOwnPropertyDescriptor : Option (Key → σ → R TrapDesc × σ)
  defineProperty : Option (Key → PD → σ → R Bool × σ)
  has : Option (Key → σ → R Bool × σ)
  get : Option (Key → Val → σ → R Val × σ)
  set : Option (Key → Val → Val → σ → R Bool × σ)
  deleteProperty : Option (Key → σ → R Bool × σ)
  ownKeys : Option (σ → R (List KItem) × σ)

def liftOut {σ α : Type} (o : Out α) (s : σ) : R α × σ :=
  match o with
  | .ok a => (.ok a, s)
  | .typeError => (.typeError, s)

/-- toPropertyDescriptor accepts the trap's result (builtin_object.go:162 throws otherwise) -/
def tdValid : TrapDesc → Bool
  | .obj d => decide d.Valid
  | _ => true

/-- the target's own keys with their configurability, read at check time (proxy.go:811-826) -/
def targetKeys {σ : Type} (q : Queries σ) (s : σ) : List (Key × Bool) :=
  (q.keys s).map (fun k => (k, match q.own k s with | some c => c.configurable | none => true))

/-- proxy.go with an arbitrary handler: trap absent ⇒ the target's method; trap present ⇒ trap, then the post-check against
the target read in the state the trap left -/
def proxyWith {σ : Type} (H : Handler σ) (q : Queries σ) (T : Ops σ) : Ops σ where
  getProto := fun s => match H.getPrototypeOf with
    | none => T.getProto s
    | some t => bindR (t s) fun v s1 => liftOut (mechGetProto (q.ext s1) (q.proto s1) (some v)) s1
  setProto := fun p s => match H.setPrototypeOf with
    | none => T.setProto p s
    | some t => bindR (t p s) fun b s1 => liftOut (mechSetProto (q.ext s1) (q.proto s1) p b false) s1
  isExt := fun s => match H.isExtensible with
    | none => T.isExt s
    | some t => bindR (t s) fun b s1 => liftOut (mechIsExtensible (q.ext s1) b) s1
  prevExt := fun s => match H.preventExtensions with
    | none => T.prevExt s
    | some t => bindR (t s) fun b s1 => liftOut (mechPreventExtensions (q.ext s1) b false) s1
  getOwn := fun k s => match H.getOwnPropertyDescriptor with
    | none => T.getOwn k s
    | some t => bindR (t k s) fun td s1 =>
      -- toPropertyDescriptor rejects what is not a descriptor (builtin_object.go:162) before the check
      if tdValid td then
        match mechGopd isCompatible toValueProp (optCurToTProp (q.own k s1)) (q.ext s1) td with
        | .ok r => (.ok r.toCur, s1)
        | .typeError => (.typeError, s1)
      else (.typeError, s1)
  define := fun k d s =>
    if d.isAccessorDescriptor && d.isDataDescriptor then (.typeError, s)
    else match H.defineProperty with
      | none => T.define k d s
      | some t => bindR (t k d s) fun b s1 =>
        liftOut (mechDefine isCompatible (optCurToTProp (q.own k s1)) (q.ext s1) d.toDesc b false) s1
  has := fun k s => match H.has with
    | none => T.has k s
    | some t => bindR (t k s) fun b s1 => liftOut (mechHas (optCurToTProp (q.own k s1)) (q.ext s1) b) s1
  get := fun k rcv s => match H.get with
    | none => T.get k rcv s
    | some t => bindR (t k rcv s) fun v s1 => liftOut (mechGet (optCurToTProp (q.own k s1)) v) s1
  set := fun k v rcv s => match H.set with
    | none => T.set k v rcv s
    | some t => bindR (t k v rcv s) fun b s1 => liftOut (mechSet (optCurToTProp (q.own k s1)) v b false) s1
  delete := fun k s => match H.deleteProperty with
    | none => T.delete k s
    | some t => bindR (t k s) fun b s1 => liftOut (mechDelete (optCurToTProp (q.own k s1)) (q.ext s1) b false) s1
  ownKeys := fun s => match H.ownKeys with
    | none => T.ownKeys s
    | some t => bindR (t s) fun items s1 => liftOut (mechOwnKeys (q.ext s1) (targetKeys q s1) items) s1
  callable := T.callable
  constructor := T.constructor
  call := T.call
  construct := T.construct

theorem liftOut_ok {σ α : Type} {o : Out α} {s s' : σ} {r : α} (h : liftOut o s = (.ok r, s')) : o = .ok r ∧ s' = s := by
  cases o with
  | ok a => simp only [liftOut] at h; injection h with h1 h2; injection h1 with h1; exact ⟨by rw [h1], h2.symm⟩
  | typeError => simp [liftOut] at h

theorem bindR_ok_inv {σ α β : Type} {m : R α × σ} {k : α → σ → R β × σ} {r : β} {s' : σ}
    (h : bindR m k = (.ok r, s')) : ∃ a s1, m = (.ok a, s1) ∧ k a s1 = (.ok r, s') := by
  rcases m with ⟨ma, s1⟩
  cases ma with
  | ok a => exact ⟨a, s1, rfl, h⟩
  | typeError => simp [bindR] at h

theorem targetKeys_nodup {σ : Type} (q : Queries σ) (h : ∀ s, (q.keys s).Nodup) (s : σ) : ((targetKeys q s).map (·.1)).Nodup := by
  simp only [targetKeys, List.map_map]
  have : ((fun x : Key × Bool => x.1) ∘ fun k => (k, match q.own k s with | some c => c.configurable | none => true)) = id := by
    funext k; rfl
  rw [this, List.map_id]
  exact h s

end GojaModel.C11
