/-
  C11 Tie: the functions regenerated from /repo/proxy.go (GojaModel.Generated.C11) equal the hand model the
  property theorems are about — exactly the current code, no alternatives.
-/
import GojaModel.C11.Model
import GojaModel.C11.GenPrelude
import GojaModel.Generated.C11_Checks

namespace GojaModel.C11.Tie
open GojaModel.C11 GojaModel.Generated.C11

/-- object.go:118 complete() -/
theorem tie_complete : gen_complete = Desc.complete := by
  funext p
  rcases p with ⟨v, w, c, e, g, s⟩
  cases v <;> cases w <;> cases c <;> cases e <;> cases g <;> cases s <;> rfl

/-- proxy.go:913 __isCompatibleDescriptor: the regenerated function is the hand model (exactly the current code; the
pre-7553bcd and pre-cc2cbee variants are different functions, Props.*_prefix_witness) -/
theorem tie_isCompatible : gen_isCompatibleDescriptor = isCompatible := by
  funext ext desc cur
  cases cur with
  | none => simp [gen_isCompatibleDescriptor, isCompatible]
  | some c =>
    rcases c with ⟨cv, cw, cc, ce, ca, cg, cs⟩
    rcases desc with ⟨dv, dw, dc, de, dg, ds⟩
    simp only [gen_isCompatibleDescriptor, isCompatible, OVProp.configurable, OVProp.enumerable, OVProp.writable,
      OVProp.accessor, OVProp.value, OVProp.setterFunc, OVProp.getterFunc, sameAsOpt, Option.isNone_some]
    cases cc <;> cases dv <;> simp
    all_goals (repeat' split)
    all_goals simp_all

/-- proxy.go:386 -/
theorem tie_definePostCheck :
    gen_proxyDefineOwnPropertyPostCheck = definePostCheckWith gen_isCompatibleDescriptor := by
  funext prop ext d
  simp only [gen_proxyDefineOwnPropertyPostCheck, definePostCheckWith]
  cases h : propToValueProp prop with
  | none => simp
  | some td =>
    simp only [OVProp.configurable, OVProp.value, OVProp.writable, Option.isNone_some]
    simp
    repeat' split
    all_goals simp_all

/-- proxy.go:450 -/
theorem tie_hasChecks : gen_proxyHasChecks = hasCheck := by
  funext prop ext
  simp only [gen_proxyHasChecks, hasCheck]
  cases h : propToValueProp prop with
  | none => simp
  | some td => simp [OVProp.configurable]

/-- proxy.go:510 -/
theorem tie_gopd (tvp : Desc → VProp) :
    gen_proxyGetOwnPropertyDescriptor tvp = gopdCheckWith gen_isCompatibleDescriptor tvp := by
  funext prop ext trap
  simp only [gen_proxyGetOwnPropertyDescriptor, gopdCheckWith, tie_complete]
  cases trap with
  | undef =>
    cases h : propToValueProp prop with
    | none => simp [TrapDesc.isUndef]
    | some td => simp [TrapDesc.isUndef, OVProp.configurable]
  | nonObject => simp [TrapDesc.isUndef, TrapDesc.asObject]
  | obj d =>
    simp only [TrapDesc.isUndef, TrapDesc.asObject, OTrapObj.desc, Option.getD_some]
    cases h : propToValueProp prop with
    | none =>
      simp
      repeat' split
      all_goals simp_all [TProp.ofOptVal]
    | some td =>
      simp [OVProp.configurable, OVProp.writable]
      repeat' split
      all_goals simp_all [TProp.ofOptVal]

/-- proxy.go:588 -/
theorem tie_getChecks : gen_proxyGetChecks = getCheck := by
  funext prop v
  simp only [gen_proxyGetChecks, getCheck]
  cases h : asValueProperty prop with
  | none => simp
  | some td =>
    simp
    repeat' split
    all_goals simp_all

/-- proxy.go:646 -/
theorem tie_setPostCheck : gen_proxySetPostCheck = setPostCheck := by
  funext prop v
  simp only [gen_proxySetPostCheck, setPostCheck]
  cases h : asValueProperty prop with
  | none => simp
  | some td =>
    simp
    repeat' split
    all_goals simp_all

/-- proxy.go:718 -/
theorem tie_deleteCheck : gen_proxyDeleteCheck = deleteCheck := by
  funext b prop ext thr
  simp only [gen_proxyDeleteCheck, deleteCheck]
  cases prop <;> cases b <;> simp [TProp.isAbsent, asValueProperty]

/-- proxy.go:302 proto(), trap present -/
theorem tie_proto : ∀ ext tp v, gen_proto ext tp v = mechGetProto ext tp (some v) := by
  intro ext tp v
  simp only [gen_proto, mechGetProto]
  cases v <;> simp [toObject?]

/-- proxy.go:318 -/
theorem tie_setProto : gen_setProto = mechSetProto := by
  funext ext tp p v thr
  simp only [gen_setProto, mechSetProto]

/-- proxy.go:335 -/
theorem tie_isExtensible : gen_isExtensible = mechIsExtensible := by
  funext ext b
  simp only [gen_isExtensible, mechIsExtensible]

/-- proxy.go:347 -/
theorem tie_preventExtensions : gen_preventExtensions = mechPreventExtensions := by
  funext ext b thr
  simp only [gen_preventExtensions, mechPreventExtensions]

/-- proxy.go:798-808 -/
theorem tie_ownKeysStep1 : gen_ownKeysStep1 = ownKeysStep1 := by
  funext item kl ks
  cases item with
  | invalid => simp [gen_ownKeysStep1, ownKeysStep1, KItem.isString, KItem.isSymbol]
  | key k => cases k <;> simp [gen_ownKeysStep1, ownKeysStep1, KItem.isString, KItem.isSymbol, ksHas, ksAdd, klAppend]

/-- proxy.go:812-827 -/
theorem tie_ownKeysStep2 : gen_ownKeysStep2 = ownKeysStep2 := by
  funext ext item ks
  simp only [gen_ownKeysStep2, ownKeysStep2, itemValueNil, itemProp, asValueProperty]
  repeat' split
  all_goals simp_all

/-- proxy.go:829-833 -/
theorem tie_ownKeysFinish : gen_ownKeysFinish = ownKeysFinish := by
  funext ext kl ks
  simp only [gen_ownKeysFinish, ownKeysFinish]

/-- proxy.go:790 proxyOwnKeys assembled from the regenerated loop bodies -/
theorem tie_ownKeys : ownKeysWith gen_ownKeysStep1 gen_ownKeysStep2 gen_ownKeysFinish = mechOwnKeys := by
  simp only [tie_ownKeysStep1, tie_ownKeysStep2, tie_ownKeysFinish]
  rfl

/-- builtin_object.go:156 the accessor flag of toValueProp -/
theorem tie_toValueProp : toValuePropWith gen_toValuePropAccessor = toValueProp := by
  funext d
  simp [toValuePropWith, toValueProp, gen_toValuePropAccessor]

/-- the regenerated post-checks composed as the property theorems use them -/
theorem tie_definePostCheck_hand : gen_proxyDefineOwnPropertyPostCheck = definePostCheckWith isCompatible := by
  rw [tie_definePostCheck, tie_isCompatible]

theorem tie_gopd_hand :
    gen_proxyGetOwnPropertyDescriptor (toValuePropWith gen_toValuePropAccessor) = gopdCheckWith isCompatible toValueProp := by
  rw [tie_gopd, tie_isCompatible, tie_toValueProp]

/-- the Str / Idx / Sym copies of every triplicated proxyObject method are the same text up to the key-kind
suffix and the name of the key parameter -/
theorem tie_keyKindCopies_agree :
    ∀ e ∈ keyKindCopies, e.2.1 = e.2.2.1 ∧ e.2.2.1 = e.2.2.2 := by
  simp [keyKindCopies]

theorem tie_keyKindCopies_families :
    keyKindCopies.map (·.1) = ["defineOwnProperty", "hasProperty", "getOwnProp", "get", "proxySet", "delete",
      "hasOwnProperty", "setOwn", "setForeign"] := by decide

/-- which methods of the handler and of the target each trap wrapper calls, in source order (Str copy; the Idx and Sym
copies are the same text by `tie_keyKindCopies_agree`).  This is the call structure `Model.proxyLayer` transcribes:
trap first (= Reflect.x = the target's internal method), then the post-check with `target.self.getOwnProp…` as its
argument, `target.self.isExtensible` / `target.self.proto` inside the simple traps; the last entry of each list is the
no-trap fall-through to the target.  (Whether `isExtensible` is consulted inside a post-check is decided by the
regenerated check functions; the resulting trap-call sequences are compared by the lock-step correspondence.) -/
theorem tie_callSequences : callSequences = [
  ("proto", ["p.checkHandler().getPrototypeOf", "p.checkHandler", "p.val.runtime.toObject", "target.self.isExtensible", "p.__sameValue", "target.self.proto", "target.self.proto"]),
  ("setProto", ["p.checkHandler().setPrototypeOf", "p.checkHandler", "target.self.isExtensible", "p.__sameValue", "target.self.proto", "p.val.runtime.typeErrorResult", "target.self.setProto"]),
  ("isExtensible", ["p.checkHandler().isExtensible", "p.checkHandler", "target.self.isExtensible", "target.self.isExtensible"]),
  ("preventExtensions", ["p.checkHandler().preventExtensions", "p.checkHandler", "p.val.runtime.typeErrorResult", "target.self.isExtensible", "target.self.preventExtensions"]),
  ("defineOwnPropertyStr", ["p.checkHandler().definePropertyStr", "p.checkHandler", "p.proxyDefineOwnPropertyPreCheck", "p.proxyDefineOwnPropertyPostCheck", "target.self.getOwnPropStr", "target.self.defineOwnPropertyStr"]),
  ("hasPropertyStr", ["p.checkHandler().hasStr", "p.checkHandler", "p.proxyHasChecks", "target.self.getOwnPropStr", "target.self.hasPropertyStr"]),
  ("getOwnPropStr", ["p.checkHandler().getOwnPropertyDescriptorStr", "p.checkHandler", "p.proxyGetOwnPropertyDescriptor", "target.self.getOwnPropStr", "target.self.getOwnPropStr"]),
  ("getStr", ["p.checkHandler().getStr", "p.checkHandler", "p.proxyGetChecks", "target.self.getOwnPropStr", "target.self.getStr"]),
  ("proxySetStr", ["p.checkHandler().setStr", "p.checkHandler", "p.proxySetPreCheck", "p.proxySetPostCheck", "target.self.getOwnPropStr", "target.setStr"]),
  ("deleteStr", ["p.checkHandler().deleteStr", "p.checkHandler", "p.proxyDeleteCheck", "target.self.getOwnPropStr", "target.self.deleteStr"]),
  ("proxyOwnKeys", ["p.checkHandler().ownKeys", "p.checkHandler", "p.val.runtime.toObject", "keys.self.getStr", "keys.self.getIdx", "keySet.has", "keySet.add", "target.self.isExtensible", "target.self.iterateKeys()", "target.self.iterateKeys", "next", "keySet.has", "keySet.delete", "target.getOwnProp", "keySet.size"]),
  ("apply", ["p.checkHandler().apply", "p.checkHandler", "p.call"]),
  ("construct", ["p.checkHandler().construct", "p.checkHandler", "p.val.runtime.toObject", "p.ctor"])
] := by rfl

/-- callability (Model.proxyLayer `callable` / `constructor` / `call` / `construct`): p.call / p.ctor are set once, at
creation, iff the target is callable / a constructor (proxy.go:55-60); `typeof`, IsCallable, IsConstructor read exactly those
slots; apply / construct first test the slot (TypeError), then the handler through checkHandler(), return the apply trap's result
unchecked and the construct trap's result through toObject, and fall through to the target's own call / construct -/
theorem tie_callability : callabilityTexts = [
  ("_newProxyObject", "if call , ok : = target . self . assertCallable ( ) ; ok { p . call = call } ;; if ctor : = target . self . assertConstructor ( ) ; ctor ! = nil { p . ctor = ctor }"),
  ("assertCallable", "{ if p . call ! = nil { return func ( call FunctionCall ) Value { return p . apply ( call ) } , true } return nil , false }"),
  ("assertConstructor", "{ if p . ctor ! = nil { return p . construct } return nil }"),
  ("typeOf", "{ if p . call = = nil { return stringObjectC } return stringFunction }"),
  ("apply", "{ if p . call = = nil { panic ( p . val . runtime . NewTypeError ( \"\" ) ) } if v , ok : = p . checkHandler ( ) . apply ( p . target , nilSafe ( call . This ) , call . Arguments ) ; ok { return v } return p . call ( call ) }"),
  ("construct", "{ if p . ctor = = nil { panic ( p . val . runtime . NewTypeError ( \"\" ) ) } if newTarget = = nil { newTarget = p . val } if v , ok : = p . checkHandler ( ) . construct ( p . target , args , newTarget ) ; ok { return p . val . runtime . toObject ( v ) } return p . ctor ( args , newTarget ) }")
] := by rfl

/-- Go-native handlers (builtin_proxy.go nativeProxyHandler): one rule for all six keyed trap families — the `…Str` method
consults the `…Idx` field only for an integer-like string key (`?int`) and then the string field, the `…Idx` method the
`…Idx` field and then the string field (with the index rendered as a string), the `…Sym` method only the `…Sym` field; every
other method exactly its own field.  (The lattice drives all four key kinds S / N / I / Y through Go handlers.) -/
theorem tie_nativeRouting : nativeRouting = [
  ("apply", ["Apply"]),
  ("construct", ["Construct"]),
  ("definePropertyIdx", ["DefinePropertyIdx", "DefineProperty"]),
  ("definePropertyStr", ["DefinePropertyIdx?int", "DefineProperty"]),
  ("definePropertySym", ["DefinePropertySym"]),
  ("deleteIdx", ["DeletePropertyIdx", "DeleteProperty"]),
  ("deleteStr", ["DeletePropertyIdx?int", "DeleteProperty"]),
  ("deleteSym", ["DeletePropertySym"]),
  ("getIdx", ["GetIdx", "Get"]),
  ("getOwnPropertyDescriptorIdx", ["GetOwnPropertyDescriptorIdx", "GetOwnPropertyDescriptor"]),
  ("getOwnPropertyDescriptorStr", ["GetOwnPropertyDescriptorIdx?int", "GetOwnPropertyDescriptor"]),
  ("getOwnPropertyDescriptorSym", ["GetOwnPropertyDescriptorSym"]),
  ("getPrototypeOf", ["GetPrototypeOf"]),
  ("getStr", ["GetIdx?int", "Get"]),
  ("getSym", ["GetSym"]),
  ("hasIdx", ["HasIdx", "Has"]),
  ("hasStr", ["HasIdx?int", "Has"]),
  ("hasSym", ["HasSym"]),
  ("isExtensible", ["IsExtensible"]),
  ("ownKeys", ["OwnKeys"]),
  ("preventExtensions", ["PreventExtensions"]),
  ("setIdx", ["SetIdx", "Set"]),
  ("setPrototypeOf", ["SetPrototypeOf"]),
  ("setStr", ["SetIdx?int", "Set"]),
  ("setSym", ["SetSym"])
] := by rfl

/-- every internal-method implementation of proxyObject reaches the handler only through checkHandler(),
calls it, and dereferences the target only afterwards -/
theorem tie_revocation_shape :
    ∀ e ∈ revocationShape, e.2.1 = 0 ∧ e.2.2.1 ≥ 1 ∧ e.2.2.2 = 0 := by decide

theorem tie_revocation_methods :
    revocationShape.map (·.1) = ["apply", "construct", "defineOwnPropertyIdx", "defineOwnPropertyStr",
      "defineOwnPropertySym", "deleteIdx", "deleteStr", "deleteSym", "getIdx", "getOwnPropIdx", "getOwnPropStr",
      "getOwnPropSym", "getStr", "getSym", "hasPropertyIdx", "hasPropertyStr", "hasPropertySym", "isExtensible",
      "preventExtensions", "proto", "proxyOwnKeys", "proxySetIdx", "proxySetStr", "proxySetSym", "setProto"] := by decide

/-- proxy.go:294 checkHandler throws iff the handler is nil; :1074 revoke sets it to nil -/
theorem tie_checkHandler_text :
    checkHandlerText = "{ r : = p . val . runtime if handler : = p . handler ; handler ! = nil { return handler } panic ( r . NewTypeError ( \" Proxy already revoked \" ) ) }" := by rfl

theorem tie_revoke_text :
    revokeText = "{ p . handler = nil p . target = nil }" := by rfl

end GojaModel.C11.Tie
