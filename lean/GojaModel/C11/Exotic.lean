/-
  C11: exotic targets as `Ops` tables, and their `Lawful` proofs.

  * `fixedOps`  — an ordinary object extended by a FIXED block of non-writable, non-configurable data properties that
                  the exotic [[GetOwnProperty]] synthesises and that no operation can change: the String wrapper
                  (ECMA-262 §10.4.3: the code-unit index properties, and `length`), and equally the non-configurable
                  built-in slots of other wrappers.  [[DefineOwnProperty]] on such a key answers
                  IsCompatiblePropertyDescriptor(extensible, Desc, fixedDesc) and changes nothing (§10.4.3.2 step 2).
  * `arrOps`    — the Array exotic object (§10.4.2): `length` with ArraySetLength (value conversion, truncation that
                  stops at a non-configurable element), index definitions that bump `length` and respect a
                  non-writable `length`.  Lawful ON the admissible inputs (a `length` descriptor whose value is
                  already the canonical uint32 number): for other values ArraySetLength stores a converted value and
                  ECMA-262 itself makes a forwarding proxy non-transparent (`arr_noncanonical_length_witness`).
  * `taOps`     — the Integer-Indexed exotic object (typed array, §10.4.5): numeric keys address the element block
                  (writable, enumerable, configurable data properties whose stored value is CONVERTED), out-of-range
                  numeric keys do not exist and cannot be created; everything else is ordinary.  Lawful (no
                  admissibility needed: the element properties are configurable and writable, so no check compares values).
  * `argOps`    — the mapped arguments exotic object (§10.4.4): index properties aliased to the formal parameters
                  through a parameter map; [[GetOwnProperty]] / [[Get]] read the parameter, [[DefineOwnProperty]] /
                  [[Set]] write it, an accessor / non-writable redefinition or a delete removes the mapping.  Lawful.
                  (An unmapped = strict arguments object is an ordinary object: `ordOps`.)
  * functions   — a function object is an ordinary object (its `length`, `name`, `prototype` are ordinary own
                  properties) with [[Call]] / [[Construct]]: `ordOps` with `Env.callable`; nothing to add.
-/
import GojaModel.C11.Model
import GojaModel.C11.Forward
import GojaModel.C11.Ordinary

namespace GojaModel.C11

/-- the fixed block: key, value, enumerable -/
abbrev Fixed := List (Key × Val × Bool)

def fxLookup (fx : Fixed) (k : Key) : Option Cur :=
  match fx with
  | [] => none
  | (k', v, e) :: rest => if k' = k then some (.data v false e false) else fxLookup rest k

/-- an ordinary object whose own properties are preceded by a fixed, immutable block -/
def fixedOps (E : Env) (fx : Fixed) : Ops OState where
  getProto := (ordOps E).getProto
  setProto := (ordOps E).setProto
  isExt := (ordOps E).isExt
  prevExt := (ordOps E).prevExt
  getOwn := fun k s =>                                                     -- §10.4.3.1
    match fxLookup fx k with
    | some c => (.ok (some c), s)
    | none => (ordOps E).getOwn k s
  define := fun k d s =>                                                   -- §10.4.3.2
    if d.isAccessorDescriptor && d.isDataDescriptor then (.typeError, s)
    else match fxLookup fx k with
      | some c => (.ok (specIsCompatible s.ext d (some c)), s)
      | none => (ordOps E).define k d s
  has := fun k s =>
    match fxLookup fx k with
    | some _ => (.ok true, s)
    | none => (ordOps E).has k s
  get := fun k rcv s =>
    match fxLookup fx k with
    | some (.data v _ _ _) => (.ok v, s)
    | some (.acc _ _ _ _) => (.ok .undef, s)      -- (the fixed block holds data properties only)
    | none => (ordOps E).get k rcv s
  set := fun k v rcv s =>
    match fxLookup fx k with
    | some _ => (.ok false, s)                    -- not writable
    | none => (ordOps E).set k v rcv s
  delete := fun k s =>                                                     -- §10.4.3 uses OrdinaryDelete on the synthesised descriptor
    match fxLookup fx k with
    | some _ => (.ok false, s)                    -- not configurable
    | none => (ordOps E).delete k s
  ownKeys := fun s => (.ok ((fx.map (·.1) ++ s.props.map (·.1)).eraseDups), s)   -- §10.4.3.3: the fixed keys first
  callable := false
  constructor := false
  call := fun _ _ s => (.typeError, s)
  construct := fun _ _ s => (.typeError, s)

def fixedQueries (fx : Fixed) : Queries OState where
  ext := fun s => s.ext
  own := fun k s => match fxLookup fx k with
    | some c => some c
    | none => oLookup s.props k
  proto := fun s => s.proto
  keys := fun s => (fx.map (·.1) ++ s.props.map (·.1)).eraseDups

theorem fxLookup_shape {fx : Fixed} {k : Key} {c : Cur} (h : fxLookup fx k = some c) : ∃ v e, c = .data v false e false := by
  induction fx with
  | nil => simp [fxLookup] at h
  | cons a rest ih =>
    obtain ⟨k', v, e⟩ := a
    simp only [fxLookup] at h
    split at h
    · injection h with h; exact ⟨v, e, h.symm⟩
    · exact ih h

/-- a descriptor compatible with a non-writable, non-configurable data property passes the proxy's define check against
that (unchanged) property -/
theorem compat_unchanged_ok (d : PD) (ext : Bool) (v : Val) (e : Bool)
    (h : specIsCompatible ext d (some (.data v false e false)) = true) :
    specDefineCheck (some (.data v false e false)) ext d = .ok () := by
  simp only [specDefineCheck, h]
  simp [Cur.configurable]

/-- the ordinary part: every state change goes through `ordOps`, whose queries on keys outside the fixed block agree -/
theorem fixed_lawful (E : Env) (fx : Fixed) : Lawful (fixedQueries fx) (fixedOps E fx) where
  isExt_eq := fun _ => rfl
  getOwn_eq := by
    intro k s
    simp only [fixedOps, fixedQueries]
    cases fxLookup fx k <;> rfl
  getProto_eq := fun _ => rfl
  ownKeys_eq := fun _ => rfl
  keys_nodup := fun _ => eraseDups_nodup _
  setProto_inv := (ord_lawful E).setProto_inv
  prevExt_inv := (ord_lawful E).prevExt_inv
  define_wf := by
    intro k d s hwf
    simp only [PD.WF, Classical.not_not] at hwf
    simp [fixedOps, hwf.1, hwf.2]
  define_inv := by
    intro k d s s' h
    simp only [fixedOps] at h
    split at h
    · simp at h
    · rename_i hbad
      cases hf : fxLookup fx k with
      | some c =>
        simp only [hf] at h
        injection h with h1 h2
        subst h2
        obtain ⟨v, e, hc⟩ := fxLookup_shape hf
        subst hc
        simp only [fixedQueries, hf]
        exact compat_unchanged_ok d s.ext v e (by injection h1)
      | none =>
        simp only [hf] at h
        have := (ord_lawful E).define_inv k d s s' h
        simpa [fixedQueries, ordQueries, hf] using this
  has_inv := by
    intro k s s' h
    simp only [fixedOps] at h
    cases hf : fxLookup fx k with
    | some c => simp [hf] at h
    | none =>
      simp only [hf] at h
      have := (ord_lawful E).has_inv k s s' h
      simpa [fixedQueries, ordQueries, hf] using this
  get_inv := by
    intro k r s v s' h
    simp only [fixedOps] at h
    cases hf : fxLookup fx k with
    | some c =>
      obtain ⟨v0, e, hc⟩ := fxLookup_shape hf
      subst hc
      simp only [hf] at h
      injection h with h1 h2
      subst h2
      injection h1 with h1
      subst h1
      simp [fixedQueries, hf, specGetCheck]
    | none =>
      simp only [hf] at h
      have := (ord_lawful E).get_inv k r s v s' h
      simpa [fixedQueries, ordQueries, hf] using this
  set_inv := by
    intro k v r s s' h
    simp only [fixedOps] at h
    cases hf : fxLookup fx k with
    | some c => simp [hf] at h
    | none =>
      simp only [hf] at h
      have := (ord_lawful E).set_inv k v r s s' h
      simpa [fixedQueries, ordQueries, hf] using this
  delete_inv := by
    intro k s s' h
    simp only [fixedOps] at h
    cases hf : fxLookup fx k with
    | some c => simp [hf] at h
    | none =>
      simp only [hf] at h
      have := (ord_lawful E).delete_inv k s s' h
      simpa [fixedQueries, ordQueries, hf] using this
  call_nc := fun _ _ _ _ => rfl
  construct_nc := fun _ _ _ _ => rfl

/-- the String wrapper `new String(units)`: index properties (enumerable) and `length` (not enumerable), key ids supplied
by the caller (`idx i` = the key of index i, `lenKey` = the key "length") -/
def stringFixed (idx : Nat → Key) (lenKey : Key) (units : List Val) : Fixed :=
  ((List.range units.length).zip units).map (fun (i, u) => (idx i, u, true)) ++ [(lenKey, .num units.length, false)]


/-! ## Array exotic object (§10.4.2) -/

structure AState where
  o : OState            -- extensibility, prototype, every own property except `length`
  len : Nat
  lenW : Bool           -- `length` writable
  deriving DecidableEq, Repr

structure AEnv where
  E : Env
  lenKey : Key
  idxOf : Key → Option Nat          -- array index of a key (§6.1.7), none for non-index keys
  toLen : Val → Option Nat          -- ToUint32(v) if it equals ToNumber(v), none otherwise (RangeError)

def lenCur (s : AState) : Cur := .data (.num s.len) s.lenW false false

/-- the `length` value and writability recorded in a (data) descriptor of the length property -/
def lenOf (c : Cur) (s : AState) : Nat × Bool :=
  match c with
  | .data (.num n) w _ _ => (n.toNat, w)
  | .data _ w _ _ => (s.len, w)
  | .acc .. => (s.len, s.lenW)

def isBlocker (A : AEnv) (newLen : Nat) (kc : Key × Cur) : Bool :=
  match A.idxOf kc.1 with
  | some i => decide (i ≥ newLen) && !kc.2.configurable
  | none => false

/-- greatest index ≥ newLen holding a non-configurable element -/
def maxBlocker (A : AEnv) (newLen : Nat) (props : List (Key × Cur)) : Option Nat :=
  (props.filter (isBlocker A newLen)).foldl (fun acc kc => match A.idxOf kc.1, acc with
    | some i, some m => some (max i m)
    | some i, none => some i
    | none, acc => acc) none

def dropFrom (A : AEnv) (bound : Nat) (props : List (Key × Cur)) : List (Key × Cur) :=
  props.filter (fun kc => match A.idxOf kc.1 with | some i => decide (i < bound) | none => true)

/-- §10.4.2.4 ArraySetLength, as validate + apply + truncate -/
def arrSetLength (A : AEnv) (d : PD) (s : AState) : R Bool × AState :=
  let dv : Option PD := match d.value with
    | none => some d
    | some v => (A.toLen v).map (fun n => { d with value := some (.num n) })      -- steps 3-6
  match dv with
  | none => (.typeError, s)                                                         -- RangeError (one throw kind in the model)
  | some d' =>
    if !specIsCompatible s.o.ext d' (some (lenCur s)) then (.ok false, s)           -- steps 11/12/15-16
    else
      let post := applyDesc d' (lenCur s)
      let (newLen, newW) := lenOf post s
      if newLen < s.len then
        match maxBlocker A newLen s.o.props with                                    -- step 17
        | some m => (.ok false, { o := { s.o with props := dropFrom A (m + 1) s.o.props }, len := m + 1, lenW := newW })
        | none => (.ok true, { o := { s.o with props := dropFrom A newLen s.o.props }, len := newLen, lenW := newW })
      else (.ok true, { s with len := newLen, lenW := newW })

def liftO {α : Type} (s : AState) (r : R α × OState) : R α × AState := (r.1, { s with o := r.2 })

/-- §10.4.2.1 [[DefineOwnProperty]] of an Array -/
def arrDefine (A : AEnv) (k : Key) (d : PD) (s : AState) : R Bool × AState :=
  if d.isAccessorDescriptor && d.isDataDescriptor then (.typeError, s)
  else if k = A.lenKey then arrSetLength A d s
  else match A.idxOf k with
    | some i =>
      if decide (i ≥ s.len) && !s.lenW then (.ok false, s)                          -- step 2.b
      else
        let r := (ordOps A.E).define k d s.o
        match r.1 with
        | .ok true => (.ok true, { s with o := r.2, len := max s.len (i + 1) })     -- step 2.e
        | _ => liftO s r
    | none => liftO s ((ordOps A.E).define k d s.o)

def arrOps (A : AEnv) : Ops AState where
  getProto := fun s => liftO s ((ordOps A.E).getProto s.o)
  setProto := fun p s => liftO s ((ordOps A.E).setProto p s.o)
  isExt := fun s => liftO s ((ordOps A.E).isExt s.o)
  prevExt := fun s => liftO s ((ordOps A.E).prevExt s.o)
  getOwn := fun k s => if k = A.lenKey then (.ok (some (lenCur s)), s) else liftO s ((ordOps A.E).getOwn k s.o)
  define := arrDefine A
  has := fun k s => if k = A.lenKey then (.ok true, s) else liftO s ((ordOps A.E).has k s.o)
  get := fun k rcv s => if k = A.lenKey then (.ok (.num s.len), s) else liftO s ((ordOps A.E).get k rcv s.o)
  set := fun k v rcv s =>                                                          -- OrdinarySet; creation goes through arrDefine
    if k = A.lenKey then
      if !s.lenW then (.ok false, s)
      else if rcv = .obj A.E.self then
        arrSetLength A { value := some v, writable := none, get := none, set := none, enumerable := none, configurable := none } s
      else (.ok true, s)
    else match oLookup s.o.props k, A.idxOf k with
      | none, some i =>
        match A.E.inhSet s.o.proto k v rcv with
        | some b => (.ok b, s)
        | none =>
          if rcv = .obj A.E.self then
            arrDefine A k { value := some v, writable := some true, get := none, set := none, enumerable := some true, configurable := some true } s
          else (.ok true, s)
      | _, _ => liftO s ((ordOps A.E).set k v rcv s.o)
  delete := fun k s => if k = A.lenKey then (.ok false, s) else liftO s ((ordOps A.E).delete k s.o)
  ownKeys := fun s => (.ok ((s.o.props.map (·.1) ++ [A.lenKey]).eraseDups), s)
  callable := false
  constructor := false
  call := fun _ _ s => (.typeError, s)
  construct := fun _ _ s => (.typeError, s)

def arrQueries (A : AEnv) : Queries AState where
  ext := fun s => s.o.ext
  own := fun k s => if k = A.lenKey then some (lenCur s) else oLookup s.o.props k
  proto := fun s => s.o.proto
  keys := fun s => (s.o.props.map (·.1) ++ [A.lenKey]).eraseDups

/-- admissible [[DefineOwnProperty]] inputs of an Array: a `length` descriptor's value, if present, is the canonical
uint32 number it converts to -/
def arrAdm (A : AEnv) : Key → PD → AState → Prop :=
  fun k d _ => k = A.lenKey → ∀ v, d.value = some v → ∃ n : Nat, v = .num n ∧ A.toLen v = some n


/-- what a validated descriptor makes of the (non-configurable, non-enumerable) `length` property -/
theorem length_post (d : PD) (ext : Bool) (n : Nat) (w : Bool)
    (hc : specIsCompatible ext d (some (.data (.num n) w false false)) = true) :
    applyDesc d (.data (.num n) w false false) = .data (d.value.getD (.num n)) (d.writable.getD w) false false := by
  rcases d with ⟨dv, dw, dg, ds, de, dc⟩
  rcases dg with _ | dg <;> rcases ds with _ | ds <;> rcases de with _ | (_ | _) <;> rcases dc with _ | (_ | _) <;>
    cases dv <;> cases dw <;>
    simp_all [applyDesc, specIsCompatible, PD.isAccessorDescriptor, PD.isDataDescriptor, PD.isGenericDescriptor,
      Cur.configurable, Cur.enumerable, Cur.isAccessor]

theorem arrSetLength_inv (A : AEnv) (d : PD) (hwf : d.WF) (s s' : AState)
    (hadm : ∀ v, d.value = some v → ∃ n : Nat, v = .num n ∧ A.toLen v = some n)
    (h : arrSetLength A d s = (.ok true, s')) :
    specDefineCheck (some (lenCur s')) s'.o.ext d = .ok () := by
  -- the canonicalised descriptor is the descriptor itself
  have hd' : (match d.value with
      | none => some d
      | some v => (A.toLen v).map (fun n => { d with value := some (Val.num n) })) = some d := by
    cases hv : d.value with
    | none => rfl
    | some v =>
      obtain ⟨n, rfl, hn⟩ := hadm v hv
      simp only [hn, Option.map_some]
      rcases d with ⟨dv, dw, dg, ds, de, dc⟩
      simp only at hv
      subst hv
      rfl
  simp only [arrSetLength, hd'] at h
  split at h
  · simp at h
  · rename_i hcomp
    have hcomp' : specIsCompatible s.o.ext d (some (.data (.num s.len) s.lenW false false)) = true := by
      simpa [lenCur] using hcomp
    have hpost := length_post d s.o.ext s.len s.lenW hcomp'
    have hok := applyDesc_ok d hwf s.o.ext (lenCur s) (by simpa [lenCur] using hcomp')
    simp only [lenCur] at hok hpost h
    rw [hpost] at hok
    simp only [hpost] at h
    -- the stored length is the number in the descriptor (or the old one)
    have hval : ∃ m : Nat, d.value.getD (.num s.len) = .num m := by
      cases hv : d.value with
      | none => exact ⟨s.len, rfl⟩
      | some v => obtain ⟨n, rfl, _⟩ := hadm v hv; exact ⟨n, rfl⟩
    obtain ⟨m, hm⟩ := hval
    rw [hm] at hok
    simp only [hm, lenOf, Int.toNat_natCast] at h
    split at h
    · split at h
      · simp at h
      · injection h with _ h2
        subst h2
        simpa [lenCur] using hok
    · injection h with _ h2
      subst h2
      simpa [lenCur] using hok


theorem AState.eta (s : AState) : ({ s with o := s.o } : AState) = s := by cases s; rfl

theorem arr_own_ne (A : AEnv) {k : Key} (h : k ≠ A.lenKey) (s : AState) :
    (arrQueries A).own k s = oLookup s.o.props k := by simp [arrQueries, h]

/-- a `{value: v}` assignment to a writable `length` leaves it writable -/
theorem arrSetLength_value_lenW (A : AEnv) (v : Val) (s s' : AState) (hw : s.lenW = true)
    (h : arrSetLength A { value := some v, writable := none, get := none, set := none, enumerable := none, configurable := none } s
          = (.ok true, s')) : s'.lenW = true := by
  simp only [arrSetLength] at h
  cases hn : A.toLen v with
  | none => simp [hn] at h
  | some n =>
    simp only [hn, Option.map_some] at h
    split at h
    · simp at h
    · rename_i d' heq
      injection heq with heq
      subst heq
      split at h
      · simp at h
      · rename_i hcomp
        have hpost := length_post _ s.o.ext s.len s.lenW (by simpa [lenCur] using hcomp)
        simp only [lenCur] at h
        simp only [hpost, Option.getD_some, Option.getD_none, lenOf, Int.toNat_natCast] at h
        split at h
        · split at h
          · simp at h
          · injection h with _ h2; subst h2; exact hw
        · injection h with _ h2; subst h2; exact hw

/-- an ordinary define of an absent key creates exactly the property `createFrom` describes -/
theorem ord_define_absent (E : Env) (k : Key) (d : PD) (o o' : OState) (hl : oLookup o.props k = none)
    (h : (ordOps E).define k d o = (.ok true, o')) : oLookup o'.props k = some (createFrom d) := by
  simp only [ordOps, hl] at h
  split at h
  · simp at h
  · split at h
    · simp at h
    · injection h with _ h2; subst h2; simp [oLookup_upsert]

/-- THE ARRAY IS LAWFUL ON ITS ADMISSIBLE INPUTS -/
theorem arr_lawfulOn (A : AEnv) : LawfulOn (arrAdm A) (arrQueries A) (arrOps A) where
  isExt_eq := by intro s; simp [arrOps, liftO, ordOps, arrQueries]
  getOwn_eq := by
    intro k s
    by_cases hk : k = A.lenKey
    · simp [arrOps, arrQueries, hk]
    · simp [arrOps, arrQueries, hk, liftO, ordOps]
  getProto_eq := by intro s; simp [arrOps, liftO, ordOps, arrQueries]
  ownKeys_eq := fun _ => rfl
  keys_nodup := fun _ => eraseDups_nodup _
  setProto_inv := by
    intro p s s' h
    simp only [arrOps, liftO] at h
    injection h with h1 h2
    subst h2
    exact (ord_lawful A.E).setProto_inv p s.o _ (Prod.ext h1 rfl)
  prevExt_inv := by
    intro s s' h
    simp only [arrOps, liftO] at h
    injection h with h1 h2
    subst h2
    exact (ord_lawful A.E).prevExt_inv s.o _ (Prod.ext h1 rfl)
  define_wf := by
    intro k d s hwf
    simp only [PD.WF, Classical.not_not] at hwf
    simp [arrOps, arrDefine, hwf.1, hwf.2]
  has_inv := by
    intro k s s' h
    by_cases hk : k = A.lenKey
    · simp [arrOps, hk] at h
    · simp only [arrOps, hk, if_false, liftO] at h
      injection h with h1 h2
      subst h2
      rw [arr_own_ne A hk]
      exact (ord_lawful A.E).has_inv k s.o _ (Prod.ext h1 rfl)
  get_inv := by
    intro k r s v s' h
    by_cases hk : k = A.lenKey
    · simp only [arrOps, hk, if_true] at h
      injection h with h1 h2
      subst h2
      injection h1 with h1
      subst h1
      cases hw : s.lenW <;> simp [arrQueries, hk, lenCur, specGetCheck, hw]
    · simp only [arrOps, hk, if_false, liftO] at h
      injection h with h1 h2
      subst h2
      rw [arr_own_ne A hk]
      exact (ord_lawful A.E).get_inv k r s.o v _ (Prod.ext h1 rfl)
  set_inv := by
    intro k v r s s' h
    by_cases hk : k = A.lenKey
    · simp only [arrOps, hk, if_true] at h
      cases hw : s.lenW
      · simp [hw] at h
      · simp only [hw, Bool.not_true, Bool.false_eq_true, if_false] at h
        split at h
        · have := arrSetLength_value_lenW A v s s' hw h
          simp [arrQueries, hk, lenCur, specSetCheck, this]
        · injection h with _ h2; subst h2
          simp [arrQueries, hk, lenCur, specSetCheck, hw]
    · simp only [arrOps, hk, if_false] at h
      rw [arr_own_ne A hk]
      split at h
      · rename_i i hl hi
        split at h
        · injection h with _ h2; subst h2
          simp [hl, specSetCheck]
        · split at h
          · -- created through arrDefine
            simp only [arrDefine, PD.isAccessorDescriptor, PD.isDataDescriptor, Option.isSome_none, Bool.or_self,
              Bool.false_and, Bool.false_eq_true, if_false, hk, hi] at h
            split at h
            · simp at h
            · split at h
              · rename_i hr
                injection h with _ h2; subst h2
                have := ord_define_absent A.E k _ s.o _ hl (Prod.ext hr rfl)
                simp [this, createFrom, PD.isAccessorDescriptor, specSetCheck]
              · rename_i hne
                simp only [liftO] at h
                injection h with h1 _
                exact (hne h1).elim
          · injection h with _ h2; subst h2
            simp [hl, specSetCheck]
      · simp only [liftO] at h
        injection h with h1 h2
        subst h2
        exact (ord_lawful A.E).set_inv k v r s.o _ (Prod.ext h1 rfl)
  delete_inv := by
    intro k s s' h
    by_cases hk : k = A.lenKey
    · simp [arrOps, hk] at h
    · simp only [arrOps, hk, if_false, liftO] at h
      injection h with h1 h2
      subst h2
      rw [arr_own_ne A hk]
      exact (ord_lawful A.E).delete_inv k s.o _ (Prod.ext h1 rfl)
  call_nc := fun _ _ _ _ => rfl
  construct_nc := fun _ _ _ _ => rfl
  define_inv_on := by
    intro k d s s' hadm h
    simp only [arrOps, arrDefine] at h
    split at h
    · simp at h
    · rename_i hbad
      have hwf : d.WF := by
        simp only [PD.WF]; intro hh; apply hbad; simp [hh.1, hh.2]
      by_cases hk : k = A.lenKey
      · simp only [hk, if_true] at h
        have := arrSetLength_inv A d hwf s s' (hadm hk) h
        simpa [arrQueries, hk] using this
      · simp only [hk, if_false] at h
        rw [arr_own_ne A hk]
        split at h
        · rename_i i hi
          split at h
          · simp at h
          · split at h
            · rename_i hr
              injection h with _ h2; subst h2
              exact (ord_lawful A.E).define_inv k d s.o _ (Prod.ext hr rfl)
            · rename_i hne
              simp only [liftO] at h
              injection h with h1 _
              exact (hne h1).elim
        · simp only [liftO] at h
          injection h with h1 h2
          subst h2
          exact (ord_lawful A.E).define_inv k d s.o _ (Prod.ext h1 rfl)


/-! ## Integer-Indexed exotic object (typed array, §10.4.5) -/

structure TState where
  o : OState
  elems : List Val
  deriving DecidableEq, Repr

structure TEnv where
  E : Env
  numOf : Key → Option Nat        -- CanonicalNumericIndexString of the key as an integer index (none: not numeric)
  conv : Val → Val                -- the element type's conversion (ToNumber / ToBigInt, modulo, clamp)

def taElem (s : TState) (i : Nat) : Option Cur :=
  match s.elems[i]? with
  | some v => some (.data v true true true)
  | none => none

def liftT {α : Type} (s : TState) (r : R α × OState) : R α × TState := (r.1, { s with o := r.2 })

def taOps (T : TEnv) : Ops TState where
  getProto := fun s => liftT s ((ordOps T.E).getProto s.o)
  setProto := fun p s => liftT s ((ordOps T.E).setProto p s.o)
  isExt := fun s => liftT s ((ordOps T.E).isExt s.o)
  prevExt := fun s => liftT s ((ordOps T.E).prevExt s.o)
  getOwn := fun k s =>                                                     -- §10.4.5.1
    match T.numOf k with
    | some i => (.ok (taElem s i), s)
    | none => liftT s ((ordOps T.E).getOwn k s.o)
  define := fun k d s =>                                                   -- §10.4.5.3
    if d.isAccessorDescriptor && d.isDataDescriptor then (.typeError, s)
    else match T.numOf k with
      | some i =>
        if i ≥ s.elems.length then (.ok false, s)                          -- not a valid integer index
        else if d.configurable == some false then (.ok false, s)
        else if d.enumerable == some false then (.ok false, s)
        else if d.isAccessorDescriptor then (.ok false, s)
        else if d.writable == some false then (.ok false, s)
        else match d.value with
          | some v => (.ok true, { s with elems := s.elems.set i (T.conv v) })
          | none => (.ok true, s)
      | none => liftT s ((ordOps T.E).define k d s.o)
  has := fun k s =>                                                        -- §10.4.5.2
    match T.numOf k with
    | some i => (.ok (decide (i < s.elems.length)), s)
    | none => liftT s ((ordOps T.E).has k s.o)
  get := fun k rcv s =>                                                    -- §10.4.5.4
    match T.numOf k with
    | some i => (.ok (s.elems[i]?.getD .undef), s)
    | none => liftT s ((ordOps T.E).get k rcv s.o)
  set := fun k v rcv s =>                                                  -- §10.4.5.5
    match T.numOf k with
    | some i =>
      if rcv = .obj T.E.self then
        (.ok true, if i < s.elems.length then { s with elems := s.elems.set i (T.conv v) } else s)
      else if i < s.elems.length then (.ok true, s)     -- OrdinarySet with a foreign receiver: effects on the receiver
      else (.ok true, s)
    | none => liftT s ((ordOps T.E).set k v rcv s.o)
  delete := fun k s =>                                                     -- §10.4.5.6
    match T.numOf k with
    | some i => (.ok (decide (¬ i < s.elems.length)), s)
    | none => liftT s ((ordOps T.E).delete k s.o)
  ownKeys := fun s => (.ok ((s.o.props.map (·.1)).eraseDups), s)           -- (index keys are listed by the harness; here: the ordinary part)
  callable := false
  constructor := false
  call := fun _ _ s => (.typeError, s)
  construct := fun _ _ s => (.typeError, s)

def taQueries (T : TEnv) : Queries TState where
  ext := fun s => s.o.ext
  own := fun k s => match T.numOf k with
    | some i => taElem s i
    | none => oLookup s.o.props k
  proto := fun s => s.o.proto
  keys := fun s => (s.o.props.map (·.1)).eraseDups

theorem taElem_set (s : TState) (i : Nat) (v : Val) (h : i < s.elems.length) :
    taElem { s with elems := s.elems.set i v } i = some (.data v true true true) := by
  simp [taElem, h]

theorem ta_lawful (T : TEnv) : Lawful (taQueries T) (taOps T) where
  isExt_eq := by intro s; simp [taOps, liftT, ordOps, taQueries]
  getOwn_eq := by
    intro k s
    simp only [taOps, taQueries]
    cases T.numOf k <;> simp [liftT, ordOps]
  getProto_eq := by intro s; simp [taOps, liftT, ordOps, taQueries]
  ownKeys_eq := fun _ => rfl
  keys_nodup := fun _ => eraseDups_nodup _
  setProto_inv := by
    intro p s s' h
    simp only [taOps, liftT] at h
    injection h with h1 h2
    subst h2
    exact (ord_lawful T.E).setProto_inv p s.o _ (Prod.ext h1 rfl)
  prevExt_inv := by
    intro s s' h
    simp only [taOps, liftT] at h
    injection h with h1 h2
    subst h2
    exact (ord_lawful T.E).prevExt_inv s.o _ (Prod.ext h1 rfl)
  define_wf := by
    intro k d s hwf
    simp only [PD.WF, Classical.not_not] at hwf
    simp [taOps, hwf.1, hwf.2]
  define_inv := by
    intro k d s s' h
    simp only [taOps] at h
    split at h
    · simp at h
    · cases hn : T.numOf k with
      | some i =>
        simp only [hn] at h
        split at h
        · simp at h
        · rename_i hi
          have hi' : i < s.elems.length := by omega
          split at h
          · simp at h
          · rename_i hc
            split at h
            · simp at h
            · split at h
              · simp at h
              · split at h
                · simp at h
                · have hcur : ∀ s'' : TState, (taQueries T).own k s'' = taElem s'' i := by
                    intro s''; simp [taQueries, hn]
                  have hconf : d.configurable ≠ some false := by simpa using hc
                  cases hv : d.value with
                  | some v =>
                    simp only [hv] at h
                    injection h with _ h2; subst h2
                    rw [hcur, taElem_set s i _ hi']
                    cases hcf : d.configurable with
                    | none => simp [specDefineCheck, specIsCompatible, Cur.configurable, hcf]
                    | some b => cases b <;> simp_all [specDefineCheck, specIsCompatible, Cur.configurable]
                  | none =>
                    simp only [hv] at h
                    injection h with _ h2; subst h2
                    rw [hcur]
                    have : ∃ v, taElem s i = some (.data v true true true) := by
                      simp only [taElem]
                      cases he : s.elems[i]? with
                      | some v => exact ⟨v, rfl⟩
                      | none => simp [List.getElem?_eq_none_iff] at he; omega
                    obtain ⟨v, hv'⟩ := this
                    rw [hv']
                    cases hcf : d.configurable with
                    | none => simp [specDefineCheck, specIsCompatible, Cur.configurable, hcf]
                    | some b => cases b <;> simp_all [specDefineCheck, specIsCompatible, Cur.configurable]
      | none =>
        simp only [hn, liftT] at h
        injection h with h1 h2
        subst h2
        have := (ord_lawful T.E).define_inv k d s.o _ (Prod.ext h1 rfl)
        simpa [taQueries, ordQueries, hn] using this
  has_inv := by
    intro k s s' h
    simp only [taOps] at h
    cases hn : T.numOf k with
    | some i =>
      simp only [hn] at h
      injection h with h1 h2
      subst h2
      have : ¬ i < s.elems.length := by simpa using h1
      simp [taQueries, hn, taElem, List.getElem?_eq_none_iff.mpr (by omega : s.elems.length ≤ i), specHasCheck]
    | none =>
      simp only [hn, liftT] at h
      injection h with h1 h2
      subst h2
      have := (ord_lawful T.E).has_inv k s.o _ (Prod.ext h1 rfl)
      simpa [taQueries, ordQueries, hn] using this
  get_inv := by
    intro k r s v s' h
    simp only [taOps] at h
    cases hn : T.numOf k with
    | some i =>
      simp only [hn] at h
      injection h with h1 h2
      subst h2
      simp only [taQueries, hn, taElem]
      cases s.elems[i]? <;> simp [specGetCheck]
    | none =>
      simp only [hn, liftT] at h
      injection h with h1 h2
      subst h2
      have := (ord_lawful T.E).get_inv k r s.o v _ (Prod.ext h1 rfl)
      simpa [taQueries, ordQueries, hn] using this
  set_inv := by
    intro k v r s s' h
    simp only [taOps] at h
    cases hn : T.numOf k with
    | some i =>
      simp only [hn] at h
      simp only [taQueries, hn, taElem]
      cases s'.elems[i]? <;> simp [specSetCheck]
    | none =>
      simp only [hn, liftT] at h
      injection h with h1 h2
      subst h2
      have := (ord_lawful T.E).set_inv k v r s.o _ (Prod.ext h1 rfl)
      simpa [taQueries, ordQueries, hn] using this
  delete_inv := by
    intro k s s' h
    simp only [taOps] at h
    cases hn : T.numOf k with
    | some i =>
      simp only [hn] at h
      injection h with h1 h2
      subst h2
      have : ¬ i < s.elems.length := by simpa using h1
      simp [taQueries, hn, taElem, List.getElem?_eq_none_iff.mpr (by omega : s.elems.length ≤ i), specDeleteCheck]
    | none =>
      simp only [hn, liftT] at h
      injection h with h1 h2
      subst h2
      have := (ord_lawful T.E).delete_inv k s.o _ (Prod.ext h1 rfl)
      simpa [taQueries, ordQueries, hn] using this
  call_nc := fun _ _ _ _ => rfl
  construct_nc := fun _ _ _ _ => rfl


/-! ## mapped arguments exotic object (§10.4.4) -/

structure MState where
  o : OState
  map : List (Key × Nat)        -- [[ParameterMap]]: key ↦ parameter slot
  params : List Val             -- the current values of the formal parameters
  deriving DecidableEq, Repr

def mSlot (m : List (Key × Nat)) (k : Key) : Option Nat :=
  match m with
  | [] => none
  | (k', i) :: rest => if k' = k then some i else mSlot rest k

def mUnmap (m : List (Key × Nat)) (k : Key) : List (Key × Nat) :=
  match m with
  | [] => []
  | (k', i) :: rest => if k' = k then mUnmap rest k else (k', i) :: mUnmap rest k

theorem mSlot_unmap (m : List (Key × Nat)) (k : Key) : mSlot (mUnmap m k) k = none := by
  induction m with
  | nil => rfl
  | cons a rest ih =>
    obtain ⟨k', i⟩ := a
    by_cases h : k' = k <;> simp [mUnmap, mSlot, h, ih]

/-- the value a mapped key currently has (Get(map, P)).  A key counts as mapped only while its own property is a WRITABLE
data property and its slot exists: §10.4.4.2 removes the mapping as soon as the property becomes an accessor or
non-writable, and §10.4.4.5 when it is deleted, so reachable states never have other mapped keys. -/
def mVal (s : MState) (k : Key) : Option Val :=
  match oLookup s.o.props k with
  | some (.data _ true _ _) =>
    match mSlot s.map k with
    | some i => s.params[i]?
    | none => none
  | _ => none

def withValue (c : Cur) (v : Val) : Cur :=
  match c with
  | .data _ w e cf => .data v w e cf
  | a => a

/-- §10.4.4.1 [[GetOwnProperty]] -/
def argOwn (s : MState) (k : Key) : Option Cur :=
  match oLookup s.o.props k with
  | none => none
  | some c => match mVal s k with
    | some v => some (withValue c v)
    | none => some c

def liftM {α : Type} (s : MState) (r : R α × OState) : R α × MState := (r.1, { s with o := r.2 })

def argOps (E : Env) : Ops MState where
  getProto := fun s => liftM s ((ordOps E).getProto s.o)
  setProto := fun p s => liftM s ((ordOps E).setProto p s.o)
  isExt := fun s => liftM s ((ordOps E).isExt s.o)
  prevExt := fun s => liftM s ((ordOps E).prevExt s.o)
  getOwn := fun k s => (.ok (argOwn s k), s)
  define := fun k d s =>                                                   -- §10.4.4.2
    if d.isAccessorDescriptor && d.isDataDescriptor then (.typeError, s)
    else match mVal s k with
      | none => liftM s ((ordOps E).define k d s.o)
      | some mv =>
        -- step 3: a data descriptor without value that makes the property non-writable freezes the CURRENT mapped value
        let nd : PD := if d.isDataDescriptor && d.value.isNone && d.writable == some false then { d with value := some mv } else d
        let r := (ordOps E).define k nd s.o
        match r.1 with
        | .ok true =>
          if d.isAccessorDescriptor then (.ok true, { s with o := r.2, map := mUnmap s.map k })        -- 6.a
          else
            let params := match d.value, mSlot s.map k with                                             -- 6.b.i
              | some v, some i => s.params.set i v
              | _, _ => s.params
            if d.writable == some false then (.ok true, { o := r.2, map := mUnmap s.map k, params := params })  -- 6.b.ii
            else (.ok true, { o := r.2, map := s.map, params := params })
        | _ => liftM s r
  has := fun k s => liftM s ((ordOps E).has k s.o)
  get := fun k rcv s =>                                                    -- §10.4.4.3
    match mVal s k with
    | some v => (.ok v, s)
    | none => liftM s ((ordOps E).get k rcv s.o)
  set := fun k v rcv s =>                                                  -- §10.4.4.4
    let r := (ordOps E).set k v rcv s.o
    match mVal s k, mSlot s.map k with
    | some _, some i => if rcv = .obj E.self then (r.1, { o := r.2, map := s.map, params := s.params.set i v }) else liftM s r
    | _, _ => liftM s r
  delete := fun k s =>                                                     -- §10.4.4.5
    let r := (ordOps E).delete k s.o
    match r.1 with
    | .ok true => (.ok true, { s with o := r.2, map := mUnmap s.map k })
    | _ => liftM s r
  ownKeys := fun s => liftM s ((ordOps E).ownKeys s.o)
  callable := false
  constructor := false
  call := fun _ _ s => (.typeError, s)
  construct := fun _ _ s => (.typeError, s)

def argQueries : Queries MState where
  ext := fun s => s.o.ext
  own := fun k s => argOwn s k
  proto := fun s => s.o.proto
  keys := fun s => (s.o.props.map (·.1)).eraseDups

/-- the checks look at the value of a data property only where the property is non-writable; replacing the value of a
WRITABLE data property, or of any property when the descriptor / result carries no value constraint, changes nothing -/
theorem defineCheck_withValue (c : Cur) (v : Val) (ext : Bool) (d : PD)
    (h : specDefineCheck (some c) ext d = .ok ())
    (hv : d.value = none ∨ d.value = some v ∨ (∃ x e cf, c = .data x true e cf) ∨ ∃ g s e cf, c = .acc g s e cf) :
    specDefineCheck (some (withValue c v)) ext d = .ok () := by
  cases c with
  | acc g s e cf => simpa [withValue] using h
  | data x w e cf =>
    rcases d with ⟨dv, dw, dg, ds, de, dc⟩
    simp only [withValue]
    rcases hv with hv | hv | ⟨x', e', cf', hc⟩ | ⟨g, s, e', cf', hc⟩
    · simp only at hv; subst hv
      cases w <;> cases e <;> cases cf <;> rcases dw with _ | (_ | _) <;> rcases de with _ | (_ | _) <;>
        rcases dc with _ | (_ | _) <;> cases dg <;> cases ds <;>
        simp_all [specDefineCheck, specIsCompatible, PD.isAccessorDescriptor, PD.isDataDescriptor, PD.isGenericDescriptor,
          Cur.configurable, Cur.enumerable, Cur.isAccessor]
    · simp only at hv; subst hv
      cases w <;> cases e <;> cases cf <;> rcases dw with _ | (_ | _) <;> rcases de with _ | (_ | _) <;>
        rcases dc with _ | (_ | _) <;> cases dg <;> cases ds <;>
        simp_all [specDefineCheck, specIsCompatible, PD.isAccessorDescriptor, PD.isDataDescriptor, PD.isGenericDescriptor,
          Cur.configurable, Cur.enumerable, Cur.isAccessor]
    · injection hc with h1 h2 h3 h4; subst h2
      cases e <;> cases cf <;> rcases dw with _ | (_ | _) <;> rcases de with _ | (_ | _) <;>
        rcases dc with _ | (_ | _) <;> cases dg <;> cases ds <;> cases dv <;>
        simp_all [specDefineCheck, specIsCompatible, PD.isAccessorDescriptor, PD.isDataDescriptor, PD.isGenericDescriptor,
          Cur.configurable, Cur.enumerable, Cur.isAccessor]
    · cases hc


theorem argOwn_cases (s : MState) (k : Key) :
    argOwn s k = oLookup s.o.props k ∨
    ∃ x v e cf, oLookup s.o.props k = some (.data x true e cf) ∧ mVal s k = some v ∧ argOwn s k = some (.data v true e cf) := by
  simp only [argOwn]
  cases hl : oLookup s.o.props k with
  | none => left; rfl
  | some c =>
    cases hm : mVal s k with
    | none => left; rfl
    | some v =>
      right
      simp only [mVal, hl] at hm
      cases c with
      | acc g st e cf => simp at hm
      | data x w e cf =>
        cases w
        · simp at hm
        · exact ⟨x, v, e, cf, rfl, by simp [mVal, hl, hm], rfl⟩

theorem mVal_none_of_unmapped (s : MState) (k : Key) (h : mSlot s.map k = none) : mVal s k = none := by
  simp only [mVal, h]
  cases oLookup s.o.props k with
  | none => rfl
  | some c =>
    cases c with
    | acc g st e cf => rfl
    | data x w e cf => cases w <;> rfl

theorem argOwn_of_mVal_none (s : MState) (k : Key) (h : mVal s k = none) : argOwn s k = oLookup s.o.props k := by
  simp only [argOwn, h]
  cases oLookup s.o.props k <;> rfl

/-- each check that passes on the stored property passes on what [[GetOwnProperty]] reports -/
theorem arg_transfer_has (s : MState) (k : Key) (ext : Bool)
    (h : specHasCheck (oLookup s.o.props k) ext = .ok ()) : specHasCheck (argOwn s k) ext = .ok () := by
  rcases argOwn_cases s k with e | ⟨x, v, e, cf, hl, _, ha⟩
  · rw [e]; exact h
  · rw [ha]; rw [hl] at h; simpa [specHasCheck, Cur.configurable] using h

theorem arg_transfer_delete (s : MState) (k : Key) (ext : Bool)
    (h : specDeleteCheck true (oLookup s.o.props k) ext false = .ok ()) : specDeleteCheck true (argOwn s k) ext false = .ok () := by
  rcases argOwn_cases s k with e | ⟨x, v, e, cf, hl, _, ha⟩
  · rw [e]; exact h
  · rw [ha]; rw [hl] at h; simpa [specDeleteCheck, Cur.configurable] using h

theorem arg_transfer_set (s : MState) (k : Key) (v : Val)
    (h : specSetCheck (oLookup s.o.props k) v = .ok ()) : specSetCheck (argOwn s k) v = .ok () := by
  rcases argOwn_cases s k with e | ⟨x, pv, e, cf, hl, _, ha⟩
  · rw [e]; exact h
  · rw [ha]; simp [specSetCheck]

theorem arg_transfer_define (s : MState) (k : Key) (ext : Bool) (d : PD)
    (h : specDefineCheck (oLookup s.o.props k) ext d = .ok ()) : specDefineCheck (argOwn s k) ext d = .ok () := by
  rcases argOwn_cases s k with e | ⟨x, pv, e, cf, hl, _, ha⟩
  · rw [e]; exact h
  · rw [ha]
    rw [hl] at h
    have := defineCheck_withValue (.data x true e cf) pv ext d h (Or.inr (Or.inr (Or.inl ⟨x, e, cf, rfl⟩)))
    simpa [withValue] using this

/-- a check that passes with an extra `value` constraint passes without it -/
theorem defineCheck_drop_value (c : Cur) (ext : Bool) (d : PD) (mv : Val) (hv : d.value = none)
    (h : specDefineCheck (some c) ext { d with value := some mv } = .ok ()) : specDefineCheck (some c) ext d = .ok () := by
  rcases d with ⟨dv, dw, dg, ds, de, dc⟩
  simp only at hv
  subst hv
  cases c with
  | data x w e cf =>
    cases w <;> cases e <;> cases cf <;> rcases dw with _ | (_ | _) <;> rcases de with _ | (_ | _) <;>
      rcases dc with _ | (_ | _) <;> cases dg <;> cases ds <;>
      simp_all [specDefineCheck, specIsCompatible, PD.isAccessorDescriptor, PD.isDataDescriptor, PD.isGenericDescriptor,
        Cur.configurable, Cur.enumerable, Cur.isAccessor]
  | acc g st e cf =>
    cases e <;> cases cf <;> rcases dw with _ | (_ | _) <;> rcases de with _ | (_ | _) <;>
      rcases dc with _ | (_ | _) <;> cases dg <;> cases ds <;>
      simp_all [specDefineCheck, specIsCompatible, PD.isAccessorDescriptor, PD.isDataDescriptor, PD.isGenericDescriptor,
        Cur.configurable, Cur.enumerable, Cur.isAccessor]


/-- THE MAPPED ARGUMENTS OBJECT IS LAWFUL -/
theorem arg_lawful (E : Env) : Lawful argQueries (argOps E) where
  isExt_eq := by intro s; simp [argOps, liftM, ordOps, argQueries]
  getOwn_eq := fun _ _ => rfl
  getProto_eq := by intro s; simp [argOps, liftM, ordOps, argQueries]
  ownKeys_eq := by intro s; simp [argOps, liftM, ordOps, argQueries]
  keys_nodup := fun _ => eraseDups_nodup _
  setProto_inv := by
    intro p s s' h
    simp only [argOps, liftM] at h
    injection h with h1 h2
    subst h2
    exact (ord_lawful E).setProto_inv p s.o _ (Prod.ext h1 rfl)
  prevExt_inv := by
    intro s s' h
    simp only [argOps, liftM] at h
    injection h with h1 h2
    subst h2
    exact (ord_lawful E).prevExt_inv s.o _ (Prod.ext h1 rfl)
  define_wf := by
    intro k d s hwf
    simp only [PD.WF, Classical.not_not] at hwf
    simp [argOps, hwf.1, hwf.2]
  has_inv := by
    intro k s s' h
    simp only [argOps, liftM] at h
    injection h with h1 h2
    subst h2
    exact arg_transfer_has _ k _ ((ord_lawful E).has_inv k s.o _ (Prod.ext h1 rfl))
  get_inv := by
    intro k r s v s' h
    simp only [argOps] at h
    cases hm : mVal s k with
    | some pv =>
      simp only [hm] at h
      injection h with h1 h2
      subst h2
      injection h1 with h1
      subst h1
      rcases argOwn_cases s k with e | ⟨x, v', e, cf, hl, hv, ha⟩
      · -- impossible: mapped keys are reported with the mapped value; harmless either way
        simp only [argQueries]
        have : mVal s k = none ∨ True := Or.inr trivial
        rw [e]
        simp only [mVal] at hm
        cases hl : oLookup s.o.props k with
        | none => simp [hl] at hm
        | some c =>
          cases c with
          | acc g st e' cf' => simp [hl] at hm
          | data x w e' cf' => cases w <;> simp [hl] at hm <;> simp [specGetCheck]
      · simp only [argQueries, ha]
        rw [hm] at hv
        injection hv with hv
        subst hv
        simp [specGetCheck]
    | none =>
      simp only [hm, liftM] at h
      injection h with h1 h2
      subst h2
      have := (ord_lawful E).get_inv k r s.o v _ (Prod.ext h1 rfl)
      have hsame : ((ordOps E).get k r s.o).2 = s.o := by
        simp only [ordOps]; split <;> rfl
      simp only [argQueries]
      have hm' : mVal { s with o := ((ordOps E).get k r s.o).2 } k = none := by rw [hsame]; exact hm
      rw [argOwn_of_mVal_none _ k hm']
      exact this
  set_inv := by
    intro k v r s s' h
    simp only [argOps] at h
    split at h
    · split at h
      · injection h with h1 h2
        subst h2
        exact arg_transfer_set _ k v ((ord_lawful E).set_inv k v r s.o _ (Prod.ext h1 rfl))
      · simp only [liftM] at h
        injection h with h1 h2
        subst h2
        exact arg_transfer_set _ k v ((ord_lawful E).set_inv k v r s.o _ (Prod.ext h1 rfl))
    · simp only [liftM] at h
      injection h with h1 h2
      subst h2
      exact arg_transfer_set _ k v ((ord_lawful E).set_inv k v r s.o _ (Prod.ext h1 rfl))
  delete_inv := by
    intro k s s' h
    simp only [argOps] at h
    split at h
    · rename_i hr
      injection h with _ h2
      subst h2
      exact arg_transfer_delete _ k _ ((ord_lawful E).delete_inv k s.o _ (Prod.ext hr rfl))
    · rename_i hne
      simp only [liftM] at h
      injection h with h1 _
      exact (hne h1).elim
  call_nc := fun _ _ _ _ => rfl
  construct_nc := fun _ _ _ _ => rfl
  define_inv := by
    intro k d s s' h
    simp only [argOps] at h
    by_cases hbad : (d.isAccessorDescriptor && d.isDataDescriptor) = true
    · simp [hbad] at h
    · simp only [if_neg hbad] at h
      cases hm : mVal s k with
      | none =>
        simp only [hm, liftM] at h
        injection h with h1 h2
        subst h2
        exact arg_transfer_define _ k _ d ((ord_lawful E).define_inv k d s.o _ (Prod.ext h1 rfl))
      | some mv =>
        simp only [hm] at h
        split at h
        · rename_i hr
          have hinv := (ord_lawful E).define_inv k _ s.o _ (Prod.ext hr rfl)
          simp only [ordQueries] at hinv
          split at h
          · -- accessor: unmapped, nd = d
            rename_i hacc
            injection h with _ h2
            subst h2
            have hnd : (if (d.isDataDescriptor && d.value.isNone && d.writable == some false) = true then { d with value := some mv } else d) = d := by
              have : d.isDataDescriptor = false := by
                cases hd : d.isDataDescriptor
                · rfl
                · exfalso; apply hbad; simp [hacc, hd]
              simp [this]
            rw [hnd] at hinv
            have hun : mVal { s with o := ((ordOps E).define k (if (d.isDataDescriptor && d.value.isNone && d.writable == some false) = true then { d with value := some mv } else d) s.o).2, map := mUnmap s.map k } k = none :=
              mVal_none_of_unmapped _ k (mSlot_unmap s.map k)
            simp only [argQueries]
            rw [argOwn_of_mVal_none _ k hun]
            rw [hnd]
            exact hinv
          · split at h
            · -- made non-writable: unmapped; the check for nd implies the check for d
              rename_i hw
              injection h with _ h2
              subst h2
              have hun : ∀ (o' : OState) (ps : List Val), mVal ({ o := o', map := mUnmap s.map k, params := ps } : MState) k = none :=
                fun o' ps => mVal_none_of_unmapped _ k (mSlot_unmap s.map k)
              simp only [argQueries]
              rw [argOwn_of_mVal_none _ k (hun _ _)]
              by_cases hc : (d.isDataDescriptor && d.value.isNone && d.writable == some false) = true
              · simp only [hc, if_true] at hinv ⊢
                have hvn : d.value = none := by
                  simp only [Bool.and_eq_true, Option.isNone_iff_eq_none] at hc
                  exact hc.1.2
                cases hl : oLookup ((ordOps E).define k { d with value := some mv } s.o).2.props k with
                | none => rw [hl] at hinv; simp [specDefineCheck] at hinv ⊢; exact hinv
                | some c => rw [hl] at hinv; exact defineCheck_drop_value c _ d mv hvn hinv
              · simp only [hc] at hinv ⊢
                exact hinv
            · -- still mapped
              rename_i hw
              injection h with _ h2
              subst h2
              have hnd : (if (d.isDataDescriptor && d.value.isNone && d.writable == some false) = true then { d with value := some mv } else d) = d := by
                have : (d.writable == some false) = false := by simpa using hw
                simp [this]
              rw [hnd] at hinv ⊢
              exact arg_transfer_define _ k _ d hinv
        · rename_i hne
          simp only [liftM] at h
          injection h with h1 _
          exact (hne h1).elim

end GojaModel.C11
