/-
  C11 Tie, deepening round 2: array.go defineArrayLength regenerated = hand transcription.
-/
import GojaModel.C11.ArrayMech
import GojaModel.Generated.C11_Array

namespace GojaModel.C11.Tie3
open GojaModel.C11 GojaModel.Generated.C11

theorem tie_defineArrayLength : gen_defineArrayLength = defineArrayLengthMech := by
  funext prop oldLen d newLenOf setter throw
  rcases prop with ⟨pw⟩
  rcases d with ⟨dv, dw, dc, de, dg, ds⟩
  simp only [gen_defineArrayLength, defineArrayLengthMech, lenFinish]
  cases dv <;> cases newLenOf <;> simp <;> (repeat' split) <;> simp_all

end GojaModel.C11.Tie3
