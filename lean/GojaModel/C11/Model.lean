/-
  C11 — Proxy invariant checks and forwarding transparency: executable model.  CORE LEAN ONLY.

  Part 1  descriptor / property model (object.go:55 PropertyDescriptor, value.go:132 valueProperty)
  Part 2  MECHANISM: hand transcription of /repo/proxy.go's checks (file:line cited per def)
  Part 3  SPEC: ECMA-262 §10.5 ([[…]] of Proxy exotic objects) and §10.1.6.2/3
          (IsCompatiblePropertyDescriptor / ValidateAndApplyPropertyDescriptor with O = undefined)
  Part 4  abstract object interface, forwarding proxy layer with trap log, op histories
  Part 5  a concrete lawful base object (own-property ordinary object) for non-vacuity and for the driver
-/
namespace GojaModel.C11

/-! ## Part 1 — values, flags, descriptors -/

/-- JS values up to SameValue: Lean `=` on `Val` IS SameValue (NaN one constructor, ±0 two). -/
inductive Val where
  | undef | null | tru | fls
  | num (n : Int)          -- any number other than NaN / -0
  | nan | negZero
  | str (s : Nat)          -- string identified by content id
  | sym (n : Nat)
  | obj (id : Nat)         -- object identity
  deriving DecidableEq, Repr, Inhabited

/-- object.go Flag: FLAG_NOT_SET, FLAG_FALSE, FLAG_TRUE -/
inductive Flag where
  | notSet | fals | tru
  deriving DecidableEq, Repr, Inhabited

/-- object.go Flag.Bool() -/
def Flag.bool : Flag → Bool
  | .tru => true
  | _ => false

def Flag.ofBool (b : Bool) : Flag := if b then .tru else .fals

/-- object.go:55 PropertyDescriptor (jsDescriptor omitted).  `none` = Go nil = field absent. -/
structure Desc where
  value : Option Val
  writable : Flag
  configurable : Flag
  enumerable : Flag
  getter : Option Val
  setter : Option Val
  deriving DecidableEq, Repr, Inhabited

/-- object.go:70 -/
def Desc.isAccessor (p : Desc) : Bool := p.setter.isSome || p.getter.isSome
/-- object.go:74 -/
def Desc.isData (p : Desc) : Bool := p.value.isSome || p.writable != .notSet
/-- object.go:78 -/
def Desc.isGeneric (p : Desc) : Bool := !p.isAccessor && !p.isData

/-- object.go:118 complete() -/
def Desc.complete (p : Desc) : Desc :=
  let p := if p.getter.isNone && p.setter.isNone then
      let p := if p.value.isNone then { p with value := some .undef } else p
      if p.writable == .notSet then { p with writable := .fals } else p
    else
      let p := if p.getter.isNone then { p with getter := some .undef } else p
      if p.setter.isNone then { p with setter := some .undef } else p
  let p := if p.enumerable == .notSet then { p with enumerable := .fals } else p
  if p.configurable == .notSet then { p with configurable := .fals } else p

/-- value.go:132 valueProperty.  getterFunc/setterFunc: `*Object` or nil. -/
structure VProp where
  value : Option Val
  writable : Bool
  configurable : Bool
  enumerable : Bool
  accessor : Bool
  getterFunc : Option Nat
  setterFunc : Option Nat
  deriving DecidableEq, Repr, Inhabited

/-- What an own-property lookup returns in goja (`Value`): nil | a plain value (= writable,
enumerable, configurable data property) | *valueProperty. -/
inductive TProp where
  | absent
  | plain (v : Val)
  | vp (p : VProp)
  deriving DecidableEq, Repr, Inhabited

/-- proxy.go:363 propToValueProp -/
def propToValueProp : TProp → Option VProp
  | .absent => none
  | .vp p => some p
  | .plain v => some { value := some v, writable := true, configurable := true, enumerable := true,
                       accessor := false, getterFunc := none, setterFunc := none }

/-- Go `x, ok := targetProp.(*valueProperty)` -/
def asValueProperty : TProp → Option VProp
  | .vp p => some p
  | _ => none

/-- Go `o, _ := v.(*Object)` on a possibly-nil interface. -/
def asObj : Option Val → Option Nat
  | some (.obj id) => some id
  | _ => none

/-- `a.SameAs(b)` with `a` non-nil, `b` possibly nil (a nil `other` fails every type switch). -/
def sameAs (a : Val) (b : Option Val) : Bool :=
  match b with
  | some b => a == b
  | none => false

/-- proxy.go:964 __sameValue (both sides possibly nil). -/
def sameValueNil (a b : Option Val) : Bool :=
  match a, b with
  | none, none => true
  | some a, b => sameAs a b
  | none, some _ => false

/-- proxy.go:964 __sameValue as used with two `*Object` arguments (proto comparisons): pointer equality;
a nil `*Object` in a `Value` interface is a non-nil interface, `Object.SameAs` then compares pointers. -/
def sameObj (a b : Option Nat) : Bool := a == b

/-- runtime.go:2618 toObject: identity on objects, TypeError otherwise. -/
def toObject? : Val → Option Nat
  | .obj id => some id
  | _ => none

/-- result of a check or operation: normal completion or `panic(TypeError)` -/
inductive Out (α : Type) where
  | ok (a : α)
  | typeError
  deriving DecidableEq, Repr, Inhabited

/-! ## Part 2 — mechanism (proxy.go), hand transcription -/

/-- proxy.go:913 __isCompatibleDescriptor (the code as it is, after commits cc2cbee and 7553bcd). -/
def isCompatible (extensible : Bool) (desc : Desc) (current : Option VProp) : Bool :=
  match current with
  | none => extensible                                                     -- :914
  | some cur =>
    if !cur.configurable then                                              -- :918
      if desc.configurable == .tru then false                              -- :919
      else if desc.enumerable != .notSet && desc.enumerable.bool != cur.enumerable then false  -- :923
      else if desc.isGeneric then true                                     -- :927
      else if desc.isData != !cur.accessor then false                      -- :931-932
      else if desc.isData && !cur.accessor then                            -- :935
        if desc.writable == .tru && !cur.writable then false               -- :937
        else if !cur.writable then
          match desc.value with                                            -- :941
          | some v => if !sameAs v cur.value then false else true
          | none => true
        else true
      else if desc.isAccessor && cur.accessor then                         -- :948
        if desc.setter.isSome && cur.setterFunc != asObj desc.setter then false      -- :952
        else if desc.getter.isSome && cur.getterFunc != asObj desc.getter then false -- :955
        else true
      else true
    else true

/-- REGRESSION ONLY: the kind-mismatch branch as it was before commit 7553bcd
(`return desc.Configurable != FLAG_FALSE`); see Props.isCompatible_kindMismatch_prefix_witness. -/
def isCompatibleKindPreFix (extensible : Bool) (desc : Desc) (current : Option VProp) : Bool :=
  match current with
  | none => extensible
  | some cur =>
    if !cur.configurable then
      if desc.configurable == .tru then false
      else if desc.enumerable != .notSet && desc.enumerable.bool != cur.enumerable then false
      else if desc.isGeneric then true
      else if desc.isData != !cur.accessor then desc.configurable != .fals
      else isCompatible extensible desc current
    else true

/-- REGRESSION ONLY: the accessor branch as it was before commit cc2cbee (`==` where `!=` is right); see
Props.isCompatible_accessor_prefix_witness. -/
def isCompatiblePreFix (extensible : Bool) (desc : Desc) (current : Option VProp) : Bool :=
  match current with
  | none => extensible
  | some cur =>
    if !cur.configurable then
      if desc.configurable == .tru then false
      else if desc.enumerable != .notSet && desc.enumerable.bool != cur.enumerable then false
      else if desc.isGeneric then true
      else if desc.isData != !cur.accessor then false
      else if desc.isData && !cur.accessor then
        if desc.writable == .tru && !cur.writable then false
        else if !cur.writable then
          match desc.value with
          | some v => if !sameAs v cur.value then false else true
          | none => true
        else true
      else if desc.isAccessor && cur.accessor then
        if desc.setter.isSome && cur.setterFunc == asObj desc.setter then false
        else if desc.getter.isSome && cur.getterFunc == asObj desc.getter then false
        else true
      else true
    else true

abbrev CompatFn := Bool → Desc → Option VProp → Bool

/-- proxy.go:386 proxyDefineOwnPropertyPostCheck (after a truthy trap result). -/
def definePostCheckWith (compat : CompatFn) (prop : TProp) (targetExt : Bool) (descr : Desc) : Out Unit :=
  let settingConfigFalse := descr.configurable == .fals                    -- :389
  match propToValueProp prop with
  | none =>
    if !targetExt then .typeError                                          -- :391
    else if settingConfigFalse then .typeError                             -- :394
    else .ok ()
  | some td =>
    if !compat targetExt descr (some td) then .typeError                   -- :398
    else if settingConfigFalse && td.configurable then .typeError          -- :401
    else if td.value.isSome && !td.configurable && td.writable then        -- :404
      if descr.writable == .fals then .typeError else .ok ()               -- :405
    else .ok ()

/-- proxy.go:450 proxyHasChecks (called only after a falsy trap result). -/
def hasCheck (prop : TProp) (targetExt : Bool) : Out Unit :=
  match propToValueProp prop with
  | some td =>
    if !td.configurable then .typeError                                    -- :453
    else if !targetExt then .typeError                                     -- :456
    else .ok ()
  | none => .ok ()

/-- what the getOwnPropertyDescriptor trap returned -/
inductive TrapDesc where
  | undef                 -- nil or undefined
  | nonObject             -- any other primitive
  | obj (d : Desc)        -- an object; `d` = what toPropertyDescriptor reads from it
  deriving DecidableEq, Repr, Inhabited

/-- builtin_object.go:114 toValueProp on the trap's result object, expressed on the fields that
toPropertyDescriptor read (same object, same reads).  `accCond getterFunc setterFunc getter setter` is the
condition of the final `if … { ret.accessor = true }` (:156). -/
def toValuePropWith (accCond : Option Nat → Option Nat → Option Val → Option Val → Bool) (d : Desc) : VProp :=
  let g := asObj d.getter
  let s := asObj d.setter
  { value := d.value
    writable := d.writable.bool
    enumerable := d.enumerable.bool
    configurable := d.configurable.bool
    getterFunc := g
    setterFunc := s
    accessor := accCond g s d.getter d.setter }

/-- builtin_object.go:114 toValueProp, the code as it is (after commit 43d21ca): `accessor` whenever a `get` or
`set` field is present -/
def toValueProp (d : Desc) : VProp :=
  toValuePropWith (fun _ _ g s => g.isSome || s.isSome) d

/-- REGRESSION ONLY: before commit 43d21ca `accessor` was set only when a getter or setter FUNCTION was present -/
def toValuePropPreFix (d : Desc) : VProp :=
  toValuePropWith (fun g s _ _ => g.isSome || s.isSome) d

/-- proxy.go:510 proxyGetOwnPropertyDescriptor. -/
def gopdCheckWith (compat : CompatFn) (tvp : Desc → VProp) (prop : TProp) (targetExt : Bool)
    (trap : TrapDesc) : Out TProp :=
  let targetDesc := propToValueProp prop
  match trap with
  | .nonObject => .typeError                                               -- :518
  | .undef =>                                                              -- :521
    match targetDesc with
    | none => .ok .absent
    | some td =>
      if !td.configurable then .typeError                                  -- :525
      else if !targetExt then .typeError                                   -- :528
      else .ok .absent
  | .obj d =>
    let resultDesc := d.complete                                           -- :534-535
    if !compat targetExt resultDesc targetDesc then .typeError             -- :536
    else
      let tail : Out TProp :=
        if resultDesc.writable == .tru && resultDesc.configurable == .tru && resultDesc.enumerable == .tru then
          match resultDesc.value with                                      -- :554-556
          | some v => .ok (.plain v)
          | none => .ok .absent
        else .ok (.vp (tvp d))                                             -- :558
      if resultDesc.configurable == .fals then                             -- :540
        match targetDesc with
        | none => .typeError                                               -- :541
        | some td =>
          if td.configurable then .typeError                               -- :545
          else if resultDesc.writable == .fals && td.writable then .typeError  -- :549
          else tail
      else tail

/-- proxy.go:588 proxyGetChecks -/
def getCheck (prop : TProp) (trapResult : Val) : Out Unit :=
  match asValueProperty prop with
  | some td =>
    if !td.accessor then
      if !td.writable && !td.configurable && !sameAs trapResult td.value then .typeError   -- :591
      else .ok ()
    else
      if !td.configurable && td.getterFunc.isNone && trapResult != .undef then .typeError  -- :595
      else .ok ()
  | none => .ok ()

/-- proxy.go:646 proxySetPostCheck (after a truthy trap result) -/
def setPostCheck (prop : TProp) (value : Val) : Out Unit :=
  match asValueProperty prop with
  | some p =>
    if p.accessor then
      if !p.configurable && p.setterFunc.isNone then .typeError            -- :649
      else .ok ()
    else if !p.configurable && !p.writable && !sameValueNil p.value (some value) then .typeError  -- :652
    else .ok ()
  | none => .ok ()

/-- proxy.go:718 proxyDeleteCheck; `throw` = strict-mode flag -/
def deleteCheck (trapResult : Bool) (prop : TProp) (targetExt : Bool) (throw : Bool) : Out Unit :=
  if trapResult then
    match prop with
    | .absent => .ok ()                                                    -- :720
    | _ =>
      match asValueProperty prop with
      | some td =>
        if !td.configurable then .typeError                                -- :724
        else if !targetExt then .typeError                                 -- :728
        else .ok ()
      | none => if !targetExt then .typeError else .ok ()
  else if throw then .typeError else .ok ()                                -- :732

/-- proxy.go:302 proto().  `trap = none`: handler has no such trap. -/
def mechGetProto (targetExt : Bool) (targetProto : Option Nat) (trap : Option Val) : Out (Option Nat) :=
  match trap with
  | some v =>
    let hp : Out (Option Nat) :=
      if v != .null then
        match toObject? v with                                             -- :307
        | some o => .ok (some o)
        | none => .typeError
      else .ok none
    match hp with
    | .typeError => .typeError
    | .ok handlerProto =>
      if !targetExt && !sameObj handlerProto targetProto then .typeError   -- :309
      else .ok handlerProto
  | none => .ok targetProto                                                -- :315

/-- proxy.go:318 setProto (trap present) -/
def mechSetProto (targetExt : Bool) (targetProto proto : Option Nat) (trapResult throw : Bool) : Out Bool :=
  if trapResult then
    if !targetExt && !sameObj proto targetProto then .typeError            -- :322
    else .ok true
  else if throw then .typeError else .ok false                             -- :327

/-- proxy.go:335 isExtensible (trap present) -/
def mechIsExtensible (targetExt trapResult : Bool) : Out Bool :=
  if trapResult != targetExt then .typeError else .ok trapResult           -- :338

/-- proxy.go:347 preventExtensions (trap present); `targetExt` read AFTER the trap ran -/
def mechPreventExtensions (targetExt trapResult throw : Bool) : Out Bool :=
  if !trapResult then (if throw then .typeError else .ok false)            -- :350
  else if targetExt then .typeError                                        -- :354
  else .ok true

/-! ### trap-level wrappers (the `…Str/Idx/Sym` methods around the checks) -/

/-- proxy.go:412 defineOwnPropertyStr/Idx/Sym with :378 proxyDefineOwnPropertyPreCheck (trap present) -/
def mechDefine (compat : CompatFn) (prop : TProp) (targetExt : Bool) (d : Desc) (trapResult throw : Bool) : Out Bool :=
  if !trapResult then (if throw then .typeError else .ok false)            -- :379
  else match definePostCheckWith compat prop targetExt d with
    | .ok _ => .ok true
    | .typeError => .typeError

/-- proxy.go:462 hasPropertyStr/Idx/Sym (trap present) -/
def mechHas (prop : TProp) (targetExt trapResult : Bool) : Out Bool :=
  if !trapResult then
    match hasCheck prop targetExt with
    | .ok _ => .ok trapResult
    | .typeError => .typeError
  else .ok trapResult

/-- builtin_object.go:162 toPropertyDescriptor throws on a descriptor with both accessor and data fields
(:196) before proxyGetOwnPropertyDescriptor goes on (proxy.go:534) -/
def descWellFormed (d : Desc) : Bool :=
  !((d.getter.isSome || d.setter.isSome) && (d.value.isSome || d.writable != .notSet))

/-- proxy.go:561 getOwnPropStr/Idx/Sym (trap present) -/
def mechGopd (compat : CompatFn) (tvp : Desc → VProp) (prop : TProp) (targetExt : Bool) (trap : TrapDesc) : Out TProp :=
  match trap with
  | .obj d => if !descWellFormed d then .typeError else gopdCheckWith compat tvp prop targetExt trap
  | _ => gopdCheckWith compat tvp prop targetExt trap

/-- proxy.go:602 getStr/Idx/Sym (trap present) -/
def mechGet (prop : TProp) (trapResult : Val) : Out Val :=
  match getCheck prop trapResult with
  | .ok _ => .ok trapResult
  | .typeError => .typeError

/-- proxy.go:658 proxySetStr/Idx/Sym with :639 proxySetPreCheck (trap present) -/
def mechSet (prop : TProp) (value : Val) (trapResult throw : Bool) : Out Bool :=
  if !trapResult then (if throw then .typeError else .ok false)
  else match setPostCheck prop value with
    | .ok _ => .ok true
    | .typeError => .typeError

/-- proxy.go:736 deleteStr/Idx/Sym (trap present) -/
def mechDelete (prop : TProp) (targetExt trapResult throw : Bool) : Out Bool :=
  match deleteCheck trapResult prop targetExt throw with
  | .ok _ => .ok trapResult
  | .typeError => .typeError

/-- proxy.go:900 construct (trap present): `return p.val.runtime.toObject(v)` — a non-object result is a TypeError.
For a Go ProxyTrapConfig handler the result is a `*Object`; nil is a non-object (builtin_proxy.go construct). -/
def mechConstruct (trapResult : Val) : Out Nat :=
  match toObject? trapResult with
  | some o => .ok o
  | none => .typeError

/-- property keys; an integer index and its canonical string are one key (propNameSet compares
`prop.string()`), symbols by identity. -/
inductive Key where
  | str (s : Nat)
  | sym (n : Nat)
  deriving DecidableEq, Repr, Inhabited

/-- an element of the array-like the ownKeys trap returned -/
inductive KItem where
  | key (k : Key)
  | invalid            -- neither String nor Symbol
  deriving DecidableEq, Repr, Inhabited

/-- generic shape of proxy.go:797-809: fold a step over the elements of the trap result -/
def loop1With (step : KItem → List Key → List Key → Out (List Key × List Key)) :
    List KItem → List Key → List Key → Out (List Key × List Key)
  | [], keyList, keySet => .ok (keyList, keySet)
  | it :: rest, keyList, keySet =>
    match step it keyList keySet with
    | .typeError => .typeError
    | .ok (kl, ks) => loop1With step rest kl ks

/-- generic shape of proxy.go:811-828: fold a step over the own keys of the target -/
def loop2With (step : Key × Bool → List Key → Out (List Key)) : List (Key × Bool) → List Key → Out (List Key)
  | [], keySet => .ok keySet
  | it :: rest, keySet =>
    match step it keySet with
    | .typeError => .typeError
    | .ok ks => loop2With step rest ks

/-- proxy.go:790 proxyOwnKeys (trap present) assembled from its two loop bodies and its tail -/
def ownKeysWith (step1 : KItem → List Key → List Key → Out (List Key × List Key))
    (step2 : Bool → Key × Bool → List Key → Out (List Key))
    (fin : Bool → List Key → List Key → Out (List Key))
    (ext : Bool) (targetKeys : List (Key × Bool)) (items : List KItem) : Out (List Key) :=
  match loop1With step1 items [] [] with
  | .typeError => .typeError
  | .ok (keyList, keySet) =>
    match loop2With (step2 ext) targetKeys keySet with
    | .typeError => .typeError
    | .ok keySet' => fin ext keyList keySet'

/-- proxy.go:798-808 body of the first loop: type check, duplicate check, accumulate.
`keySet` (propNameSet) is modelled as a duplicate-free list. -/
def ownKeysStep1 (item : KItem) (keyList keySet : List Key) : Out (List Key × List Key) :=
  match item with
  | .invalid => .typeError                                                 -- :801
  | .key k =>
    if keySet.contains k then .typeError                                   -- :804
    else .ok (keyList ++ [k], k :: keySet)

/-- proxy.go:812-827 body of the second loop; the item is (own key of the target, configurable) -/
def ownKeysStep2 (ext : Bool) (item : Key × Bool) (keySet : List Key) : Out (List Key) :=
  if keySet.contains item.1 then .ok (keySet.erase item.1)                 -- :812
  else if !ext then .typeError                                             -- :815
  else if !item.2 then .typeError                                          -- :824
  else .ok keySet

/-- proxy.go:829-833 -/
def ownKeysFinish (ext : Bool) (keyList keySet : List Key) : Out (List Key) :=
  if !ext && keyList.length > 0 && keySet.length > 0 then .typeError       -- :829
  else .ok keyList

/-- proxy.go:790 proxyOwnKeys (trap present) -/
def mechOwnKeys (ext : Bool) (targetKeys : List (Key × Bool)) (items : List KItem) : Out (List Key) :=
  ownKeysWith ownKeysStep1 ownKeysStep2 ownKeysFinish ext targetKeys items

/-! ## Part 3 — spec (ECMA-262, 14th ed.) -/

/-- a Property Descriptor record with optional fields (§6.2.6) -/
structure PD where
  value : Option Val
  writable : Option Bool
  get : Option (Option Nat)      -- present: undefined (none) or a function object
  set : Option (Option Nat)
  enumerable : Option Bool
  configurable : Option Bool
  deriving DecidableEq, Repr, Inhabited

/-- a fully populated descriptor of an existing property -/
inductive Cur where
  | data (value : Val) (writable enumerable configurable : Bool)
  | acc (get set : Option Nat) (enumerable configurable : Bool)
  deriving DecidableEq, Repr, Inhabited

def Cur.configurable : Cur → Bool
  | .data _ _ _ c => c
  | .acc _ _ _ c => c
def Cur.enumerable : Cur → Bool
  | .data _ _ e _ => e
  | .acc _ _ e _ => e
def Cur.isAccessor : Cur → Bool
  | .acc .. => true
  | _ => false

def PD.isAccessorDescriptor (d : PD) : Bool := d.get.isSome || d.set.isSome     -- §6.2.6.1
def PD.isDataDescriptor (d : PD) : Bool := d.value.isSome || d.writable.isSome  -- §6.2.6.2
def PD.isGenericDescriptor (d : PD) : Bool := !d.isAccessorDescriptor && !d.isDataDescriptor  -- §6.2.6.3

/-- §10.1.6.3 ValidateAndApplyPropertyDescriptor with O = undefined, i.e.
§10.1.6.2 IsCompatiblePropertyDescriptor(Extensible, Desc, Current). -/
def specIsCompatible (extensible : Bool) (desc : PD) (current : Option Cur) : Bool :=
  match current with
  | none => extensible                                                        -- step 2
  | some cur =>
    if !cur.configurable then                                                 -- step 5
      if desc.configurable == some true then false                            -- 5.a
      else if desc.enumerable.isSome && desc.enumerable != some cur.enumerable then false  -- 5.b
      else if !desc.isGenericDescriptor && desc.isAccessorDescriptor != cur.isAccessor then false -- 5.c
      else
        match cur with
        | .acc g s _ _ =>                                                     -- 5.d
          if desc.get.isSome && desc.get != some g then false
          else if desc.set.isSome && desc.set != some s then false
          else true
        | .data v w _ _ =>                                                    -- 5.e
          if !w then
            if desc.writable == some true then false
            else if desc.value.isSome && desc.value != some v then false
            else true
          else true
    else true

/-- §6.2.6.6 CompletePropertyDescriptor -/
def PD.complete (d : PD) : PD :=
  if d.isGenericDescriptor || d.isDataDescriptor then
    { d with value := some (d.value.getD .undef), writable := some (d.writable.getD false),
             enumerable := some (d.enumerable.getD false), configurable := some (d.configurable.getD false) }
  else
    { d with get := some (d.get.getD none), set := some (d.set.getD none),
             enumerable := some (d.enumerable.getD false), configurable := some (d.configurable.getD false) }

/-- a completed descriptor read as the property it describes -/
def PD.toCur (d : PD) : Cur :=
  if d.isAccessorDescriptor then
    .acc (d.get.getD none) (d.set.getD none) (d.enumerable.getD false) (d.configurable.getD false)
  else
    .data (d.value.getD .undef) (d.writable.getD false) (d.enumerable.getD false) (d.configurable.getD false)

/-- §10.5.6 [[DefineOwnProperty]] steps 10–15 (trap returned true) -/
def specDefineCheck (targetDesc : Option Cur) (extensibleTarget : Bool) (desc : PD) : Out Unit :=
  let settingConfigFalse := desc.configurable == some false
  match targetDesc with
  | none =>
    if !extensibleTarget then .typeError
    else if settingConfigFalse then .typeError
    else .ok ()
  | some td =>
    if !specIsCompatible extensibleTarget desc (some td) then .typeError
    else if settingConfigFalse && td.configurable then .typeError
    else
      match td with
      | .data _ true _ false => if desc.writable == some false then .typeError else .ok ()
      | _ => .ok ()

/-- §10.5.7 [[HasProperty]] step 8 (trap returned false) -/
def specHasCheck (targetDesc : Option Cur) (extensibleTarget : Bool) : Out Unit :=
  match targetDesc with
  | none => .ok ()
  | some td => if !td.configurable then .typeError else if !extensibleTarget then .typeError else .ok ()

/-- what the trap returned, spec view -/
inductive STrapDesc where
  | undef | nonObject | desc (d : PD)
  deriving DecidableEq, Repr, Inhabited

/-- §10.5.5 [[GetOwnProperty]] steps 8–17 -/
def specGopd (targetDesc : Option Cur) (extensibleTarget : Bool) (trap : STrapDesc) : Out (Option Cur) :=
  match trap with
  | .nonObject => .typeError
  | .undef =>
    match targetDesc with
    | none => .ok none
    | some td => if !td.configurable then .typeError else if !extensibleTarget then .typeError else .ok none
  | .desc d =>
    let resultDesc := d.complete
    if !specIsCompatible extensibleTarget resultDesc targetDesc then .typeError
    else if resultDesc.configurable == some false then
      match targetDesc with
      | none => .typeError
      | some td =>
        if td.configurable then .typeError
        else if resultDesc.writable == some false then
          match td with
          | .data _ true _ _ => .typeError
          | _ => .ok (some resultDesc.toCur)
        else .ok (some resultDesc.toCur)
    else .ok (some resultDesc.toCur)

/-- §10.5.8 [[Get]] step 10 -/
def specGetCheck (targetDesc : Option Cur) (trapResult : Val) : Out Unit :=
  match targetDesc with
  | some (.data v false _ false) => if trapResult != v then .typeError else .ok ()
  | some (.acc none _ _ false) => if trapResult != .undef then .typeError else .ok ()
  | _ => .ok ()

/-- §10.5.9 [[Set]] step 11 (trap returned true) -/
def specSetCheck (targetDesc : Option Cur) (v : Val) : Out Unit :=
  match targetDesc with
  | some (.data tv false _ false) => if v != tv then .typeError else .ok ()
  | some (.acc _ none _ false) => .typeError
  | _ => .ok ()

/-- §10.5.10 [[Delete]] steps 8–14 (result false ⇒ `false`, a TypeError only through the strict caller) -/
def specDeleteCheck (trapResult : Bool) (targetDesc : Option Cur) (extensibleTarget throw : Bool) : Out Unit :=
  if !trapResult then (if throw then .typeError else .ok ())
  else match targetDesc with
    | none => .ok ()
    | some td => if !td.configurable then .typeError else if !extensibleTarget then .typeError else .ok ()

/-- §10.5.1 [[GetPrototypeOf]] steps 7–13 -/
def specGetProto (extensibleTarget : Bool) (targetProto : Option Nat) (trapResult : Val) : Out (Option Nat) :=
  match trapResult with
  | .null => if extensibleTarget then .ok none else if targetProto = none then .ok none else .typeError
  | .obj id => if extensibleTarget then .ok (some id) else if targetProto = some id then .ok (some id) else .typeError
  | _ => .typeError

/-- §10.5.2 [[SetPrototypeOf]] steps 8–14 -/
def specSetProto (extensibleTarget : Bool) (targetProto v : Option Nat) (trapResult throw : Bool) : Out Bool :=
  if !trapResult then (if throw then .typeError else .ok false)
  else if extensibleTarget then .ok true
  else if v = targetProto then .ok true else .typeError

/-- §10.5.3 [[IsExtensible]] -/
def specIsExtensible (targetResult trapResult : Bool) : Out Bool :=
  if trapResult = targetResult then .ok trapResult else .typeError

/-- §10.5.4 [[PreventExtensions]] -/
def specPreventExtensions (extensibleTarget trapResult throw : Bool) : Out Bool :=
  if trapResult then (if extensibleTarget then .typeError else .ok true)
  else if throw then .typeError else .ok false

/-- §10.5.13 [[Construct]] step 9–10: the trap's result must be an Object -/
def specConstruct (trapResult : Val) : Out Nat :=
  match trapResult with
  | .obj o => .ok o
  | _ => .typeError

/-- the valid keys of a trap result, in order; `none` if some element is neither String nor Symbol
(§7.3.19 CreateListFromArrayLike with «String, Symbol») -/
def keysOfItems : List KItem → Option (List Key)
  | [] => some []
  | .invalid :: _ => none
  | .key k :: rest => (keysOfItems rest).map (k :: ·)

/-- §10.5.11 [[OwnPropertyKeys]] steps 8–23, declarative reading: the trap result is accepted iff it is a
duplicate-free list of property keys that contains every non-configurable own key of the target and, when
the target is non-extensible, is exactly a permutation of the target's own keys. -/
def specOwnKeysAccept (ext : Bool) (targetKeys : List (Key × Bool)) (ks : List Key) : Bool :=
  ks.Nodup ∧
  (∀ kc ∈ targetKeys, kc.2 = false → kc.1 ∈ ks) ∧
  (ext = false → (∀ kc ∈ targetKeys, kc.1 ∈ ks) ∧ (∀ k ∈ ks, k ∈ targetKeys.map (·.1)))

def specOwnKeys (ext : Bool) (targetKeys : List (Key × Bool)) (items : List KItem) : Out (List Key) :=
  match keysOfItems items with
  | none => .typeError
  | some ks => if specOwnKeysAccept ext targetKeys ks then .ok ks else .typeError

/-! ### trap-level spec functions: the whole tail of each §10.5 method after the trap call -/

/-- §10.5.6 steps 9–15 -/
def specDefine (targetDesc : Option Cur) (ext : Bool) (desc : PD) (trapResult throw : Bool) : Out Bool :=
  if !trapResult then (if throw then .typeError else .ok false)
  else match specDefineCheck targetDesc ext desc with
    | .ok _ => .ok true
    | .typeError => .typeError

/-- §10.5.7 steps 8–9 -/
def specHas (targetDesc : Option Cur) (ext trapResult : Bool) : Out Bool :=
  if trapResult then .ok true
  else match specHasCheck targetDesc ext with
    | .ok _ => .ok false
    | .typeError => .typeError

/-- §10.5.8 steps 9–11 -/
def specGet (targetDesc : Option Cur) (trapResult : Val) : Out Val :=
  match specGetCheck targetDesc trapResult with
  | .ok _ => .ok trapResult
  | .typeError => .typeError

/-- §10.5.9 steps 9–12 -/
def specSet (targetDesc : Option Cur) (v : Val) (trapResult throw : Bool) : Out Bool :=
  if !trapResult then (if throw then .typeError else .ok false)
  else match specSetCheck targetDesc v with
    | .ok _ => .ok true
    | .typeError => .typeError

/-- §10.5.10 steps 8–14 -/
def specDelete (targetDesc : Option Cur) (ext trapResult throw : Bool) : Out Bool :=
  match specDeleteCheck trapResult targetDesc ext throw with
  | .ok _ => .ok trapResult
  | .typeError => .typeError

/-! ### abstraction from the implementation's representation to the spec's -/

/-- representation invariant of a `valueProperty` (accessor ⇒ no value, not writable; data ⇒ value
present, no getter/setter) -/
def VProp.WF (p : VProp) : Prop :=
  (p.accessor = true → p.value = none ∧ p.writable = false) ∧
  (p.accessor = false → p.value.isSome ∧ p.getterFunc = none ∧ p.setterFunc = none)

instance (p : VProp) : Decidable p.WF := by unfold VProp.WF; exact inferInstance

def VProp.toCur (p : VProp) : Cur :=
  if p.accessor then .acc p.getterFunc p.setterFunc p.enumerable p.configurable
  else .data (p.value.getD .undef) p.writable p.enumerable p.configurable

def TProp.WF : TProp → Prop
  | .vp p => p.WF
  | _ => True

instance (t : TProp) : Decidable t.WF := by cases t <;> unfold TProp.WF <;> exact inferInstance

def TProp.toCur (t : TProp) : Option Cur := (propToValueProp t).map VProp.toCur

/-- a getter/setter field that passed toPropertyDescriptor: absent, undefined, or a (callable) object -/
def accessorFieldValid : Option Val → Bool
  | none => true
  | some .undef => true
  | some (.obj _) => true
  | _ => false

/-- what builtin_object.go:162 toPropertyDescriptor guarantees (it throws otherwise) -/
def Desc.Valid (d : Desc) : Prop :=
  accessorFieldValid d.getter = true ∧ accessorFieldValid d.setter = true ∧
  ¬ ((d.getter.isSome ∨ d.setter.isSome) ∧ (d.value.isSome ∨ d.writable ≠ .notSet))

instance (d : Desc) : Decidable d.Valid := by unfold Desc.Valid; exact inferInstance

def Flag.toOpt : Flag → Option Bool
  | .notSet => none
  | .fals => some false
  | .tru => some true

def Desc.toPD (d : Desc) : PD :=
  { value := d.value, writable := d.writable.toOpt,
    get := d.getter.map (fun v => asObj (some v)), set := d.setter.map (fun v => asObj (some v)),
    enumerable := d.enumerable.toOpt, configurable := d.configurable.toOpt }

def TrapDesc.toSpec : TrapDesc → STrapDesc
  | .undef => .undef
  | .nonObject => .nonObject
  | .obj d => .desc d.toPD

/-! ## Part 4 — objects as internal-method tables; the forwarding proxy layer -/

/-- an operation result: normal completion or a thrown TypeError (other throw kinds do not occur in the model) -/
abbrev R (α : Type) := Out α

/-- The internal methods of an object as state transformers over a world `σ`: the 11 that carry invariants, plus
[[Call]] / [[Construct]] with the flags that say whether the object has them.
`get`/`set` take the receiver as an opaque value. -/
structure Ops (σ : Type) where
  getProto : σ → R (Option Nat) × σ
  setProto : Option Nat → σ → R Bool × σ
  isExt : σ → R Bool × σ
  prevExt : σ → R Bool × σ
  getOwn : Key → σ → R (Option Cur) × σ
  define : Key → PD → σ → R Bool × σ
  has : Key → σ → R Bool × σ
  get : Key → Val → σ → R Val × σ
  set : Key → Val → Val → σ → R Bool × σ
  delete : Key → σ → R Bool × σ
  ownKeys : σ → R (List Key) × σ
  /-- the object has a [[Call]] / [[Construct]] internal method (IsCallable / IsConstructor; `typeof` = "function" iff callable) -/
  callable : Bool
  constructor : Bool
  /-- [[Call]](this, args) and [[Construct]](args, newTarget); only meaningful when `callable` / `constructor` -/
  call : Val → List Val → σ → R Val × σ
  construct : List Val → Val → σ → R Nat × σ

/-- trap names (proxy.go:92) -/
inductive Trap where
  | getPrototypeOf | setPrototypeOf | isExtensible | preventExtensions | getOwnPropertyDescriptor
  | defineProperty | has | get | set | deleteProperty | ownKeys | apply | construct
  deriving DecidableEq, Repr, Inhabited

/-- sequencing helper: run `m`, on TypeError stop, else continue -/
@[inline] def bindR {σ α β : Type} (m : R α × σ) (k : α → σ → R β × σ) : R β × σ :=
  match m with
  | (.typeError, s) => (.typeError, s)
  | (.ok a, s) => k a s

/-- lift a pure check -/
@[inline] def chk {σ α : Type} (c : Out Unit) (a : α) (s : σ) : R α × σ :=
  match c with
  | .ok () => (.ok a, s)
  | .typeError => (.typeError, s)

/-- cur → the implementation-side view used by the mechanism checks -/
def Cur.toTProp : Cur → TProp
  | .data v true true true => .plain v
  | .data v w e c => .vp { value := some v, writable := w, configurable := c, enumerable := e, accessor := false,
                            getterFunc := none, setterFunc := none }
  | .acc g s e c => .vp { value := none, writable := false, configurable := c, enumerable := e, accessor := true,
                           getterFunc := g, setterFunc := s }

def optCurToTProp : Option Cur → TProp
  | none => .absent
  | some c => c.toTProp

/-- builtin_object.go:31 valuePropToDescriptorObject followed by toPropertyDescriptor: the descriptor a
forwarding getOwnPropertyDescriptor trap hands back -/
def Cur.toDesc : Cur → Desc
  | .data v w e c => { value := some v, writable := .ofBool w, enumerable := .ofBool e, configurable := .ofBool c,
                        getter := none, setter := none }
  | .acc g s e c => { value := none, writable := .notSet, enumerable := .ofBool e, configurable := .ofBool c,
                       getter := some (match g with | some f => .obj f | none => .undef),
                       setter := some (match s with | some f => .obj f | none => .undef) }

def PD.toDesc (d : PD) : Desc :=
  { value := d.value,
    writable := match d.writable with | none => .notSet | some b => .ofBool b,
    enumerable := match d.enumerable with | none => .notSet | some b => .ofBool b,
    configurable := match d.configurable with | none => .notSet | some b => .ofBool b,
    getter := d.get.map (fun g => match g with | some f => .obj f | none => .undef),
    setter := d.set.map (fun g => match g with | some f => .obj f | none => .undef) }

def TProp.toOptCur : TProp → Option Cur := TProp.toCur

/-- A proxy (proxy.go proxyObject) whose handler forwards every trap to the corresponding Reflect
function of its target `T`, written with the MECHANISM checks of Part 2 (parameterised by the
compatibility function and by toValueProp, so that the regenerated ones can be plugged in).  `logf t` records that trap `t` of this layer
ran.  `throw` is false throughout (Reflect.* call the internal methods with throw=false). -/
def proxyLayer {σ : Type} (compat : CompatFn) (tvp : Desc → VProp) (logf : Trap → σ → σ) (T : Ops σ) : Ops σ where
  getProto := fun s =>                                                     -- proxy.go:302
    bindR (T.getProto (logf .getPrototypeOf s)) fun v s =>
      bindR (T.isExt s) fun ext s =>
        if ext then (.ok v, s) else                                        -- :309 evaluates isExtensible first
        bindR (T.getProto s) fun tp s =>
          match mechGetProto false tp (some (match v with | some o => .obj o | none => .null)) with
          | .ok r => (.ok r, s)
          | .typeError => (.typeError, s)
  setProto := fun proto s =>                                               -- proxy.go:318
    bindR (T.setProto proto (logf .setPrototypeOf s)) fun b s =>
      if b then
        bindR (T.isExt s) fun ext s =>
          if ext then (.ok true, s) else
          bindR (T.getProto s) fun tp s =>
            match mechSetProto false tp proto true false with
            | .ok r => (.ok r, s)
            | .typeError => (.typeError, s)
      else (.ok false, s)
  isExt := fun s =>                                                        -- proxy.go:335
    bindR (T.isExt (logf .isExtensible s)) fun b s =>
      bindR (T.isExt s) fun te s =>
        match mechIsExtensible te b with
        | .ok r => (.ok r, s)
        | .typeError => (.typeError, s)
  prevExt := fun s =>                                                      -- proxy.go:347
    bindR (T.prevExt (logf .preventExtensions s)) fun b s =>
      if !b then (.ok false, s) else
      bindR (T.isExt s) fun te s =>
        match mechPreventExtensions te true false with
        | .ok r => (.ok r, s)
        | .typeError => (.typeError, s)
  getOwn := fun k s =>                                                     -- proxy.go:561 / :510
    bindR (T.getOwn k (logf .getOwnPropertyDescriptor s)) fun trapRes s =>
      bindR (T.getOwn k s) fun targetProp s =>                             -- argument of :564
        let trap : TrapDesc := match trapRes with
          | none => .undef
          | some d => .obj d.toDesc
        -- isExtensible is consulted at :528 (after the nil / non-configurable exits) or at :533
        let needExt := trapRes.isSome || (match targetProp with | some td => td.configurable | none => false)
        let fin := fun (ext : Bool) (s : σ) =>
          match gopdCheckWith compat tvp (optCurToTProp targetProp) ext trap with
          | .ok r => ((.ok r.toOptCur : R (Option Cur)), s)
          | .typeError => (.typeError, s)
        if needExt then bindR (T.isExt s) fin else fin true s
  define := fun k d s =>                                                   -- proxy.go:412
    bindR (T.define k d (logf .defineProperty s)) fun b s =>
      if !b then (.ok false, s) else
      bindR (T.getOwn k s) fun targetProp s =>
        bindR (T.isExt s) fun ext s =>
          chk (definePostCheckWith compat (optCurToTProp targetProp) ext d.toDesc) true s
  has := fun k s =>                                                        -- proxy.go:462
    bindR (T.has k (logf .has s)) fun b s =>
      if b then (.ok true, s) else
      bindR (T.getOwn k s) fun targetProp s =>
        -- :453 non-configurable exit comes before the isExtensible call at :456
        let needExt := match targetProp with | some td => td.configurable | none => false
        if needExt then bindR (T.isExt s) fun ext s => chk (hasCheck (optCurToTProp targetProp) ext) false s
        else chk (hasCheck (optCurToTProp targetProp) true) false s
  get := fun k rcv s =>                                                    -- proxy.go:602
    bindR (T.get k rcv (logf .get s)) fun v s =>
      bindR (T.getOwn k s) fun targetProp s =>
        chk (getCheck (optCurToTProp targetProp) v) v s
  set := fun k v rcv s =>                                                  -- proxy.go:658
    bindR (T.set k v rcv (logf .set s)) fun b s =>
      if !b then (.ok false, s) else
      bindR (T.getOwn k s) fun targetProp s =>
        chk (setPostCheck (optCurToTProp targetProp) v) true s
  delete := fun k s =>                                                     -- proxy.go:736
    bindR (T.delete k (logf .deleteProperty s)) fun b s =>
      bindR (T.getOwn k s) fun targetProp s =>                             -- evaluated as an argument, always
        let needExt := b && (match targetProp with | some td => td.configurable | none => false)
        if needExt then bindR (T.isExt s) fun ext s => chk (deleteCheck b (optCurToTProp targetProp) ext false) b s
        else chk (deleteCheck b (optCurToTProp targetProp) true false) b s
  ownKeys := fun s =>                                                      -- proxy.go:790
    bindR (T.ownKeys (logf .ownKeys s)) fun trapKeys s =>
      bindR (T.isExt s) fun ext s =>                                       -- :810
        bindR (T.ownKeys s) fun targetKeys s =>                            -- :811 iterateKeys
          -- a key of the target missing from the trap result would be looked up (:820); for the list
          -- handed to mechOwnKeys its configurability is irrelevant when present, so `true` is passed
          -- for present keys and the check below only decides on membership
          match mechOwnKeys ext (targetKeys.map (fun k => (k, true))) (trapKeys.map KItem.key) with
          | .ok r => (.ok r, s)
          | .typeError => (.typeError, s)
  -- proxy.go:55-60 _newProxyObject: p.call / p.ctor are set iff the target is callable / a constructor, once, at creation
  callable := T.callable
  constructor := T.constructor
  call := fun this args s =>                                               -- proxy.go:890 apply
    if !T.callable then (.typeError, s) else                               -- :891 "proxy target is not a function"
    bindR (T.call this args (logf .apply s)) fun v s => (.ok v, s)         -- :894 the trap's result is returned unchecked
  construct := fun args nt s =>                                            -- proxy.go:900 construct
    if !T.constructor then (.typeError, s) else                            -- :901 "proxy target is not a constructor"
    bindR (T.construct args nt (logf .construct s)) fun o s =>
      match mechConstruct (.obj o) with                                    -- :908 toObject(v)
      | .ok r => (.ok r, s)
      | .typeError => (.typeError, s)

/-- one operation of a history -/
inductive Op where
  | getProto | setProto (p : Option Nat) | isExt | prevExt | getOwn (k : Key) | define (k : Key) (d : PD)
  | has (k : Key) | get (k : Key) (rcv : Val) | set (k : Key) (v rcv : Val) | delete (k : Key) | ownKeys
  | call (this : Val) (args : List Val) | construct (args : List Val) (newTarget : Val) | typeof
  deriving DecidableEq, Repr, Inhabited

/-- observable result of one operation -/
inductive Obs where
  | proto (r : R (Option Nat)) | bool (r : R Bool) | desc (r : R (Option Cur)) | val (r : R Val)
  | keys (r : R (List Key))
  | obj (r : R Nat)
  | kind (callable constructor : Bool)        -- what `typeof`, IsCallable, IsConstructor see
  deriving DecidableEq, Repr, Inhabited

def Ops.run {σ : Type} (T : Ops σ) : Op → σ → Obs × σ
  | .getProto, s => let (r, s) := T.getProto s; (.proto r, s)
  | .setProto p, s => let (r, s) := T.setProto p s; (.bool r, s)
  | .isExt, s => let (r, s) := T.isExt s; (.bool r, s)
  | .prevExt, s => let (r, s) := T.prevExt s; (.bool r, s)
  | .getOwn k, s => let (r, s) := T.getOwn k s; (.desc r, s)
  | .define k d, s => let (r, s) := T.define k d s; (.bool r, s)
  | .has k, s => let (r, s) := T.has k s; (.bool r, s)
  | .get k rcv, s => let (r, s) := T.get k rcv s; (.val r, s)
  | .set k v rcv, s => let (r, s) := T.set k v rcv s; (.bool r, s)
  | .delete k, s => let (r, s) := T.delete k s; (.bool r, s)
  | .ownKeys, s => let (r, s) := T.ownKeys s; (.keys r, s)
  | .call this args, s =>                      -- calling a value without [[Call]] is a TypeError at the call site (§13.3.6.2)
    if T.callable then (let (r, s) := T.call this args s; (.val r, s)) else (.val .typeError, s)
  | .construct args nt, s =>
    if T.constructor then (let (r, s) := T.construct args nt s; (.obj r, s)) else (.obj .typeError, s)
  | .typeof, s => (.kind T.callable T.constructor, s)

/-- run a history, collecting the observations -/
def Ops.runAll {σ : Type} (T : Ops σ) : List Op → σ → List Obs × σ
  | [], s => ([], s)
  | op :: rest, s =>
    let (o, s1) := T.run op s
    let (os, s2) := T.runAll rest s1
    (o :: os, s2)

/-- `n` forwarding proxy layers over `T`; layer `i` (1 = innermost) logs through `logf i` -/
def stack {σ : Type} (compat : CompatFn) (tvp : Desc → VProp) (logf : Nat → Trap → σ → σ) (T : Ops σ) : Nat → Ops σ
  | 0 => T
  | n + 1 => proxyLayer compat tvp (logf (n + 1)) (stack compat tvp logf T n)

/-- proxy.go:294 checkHandler + :1074 revoke: every internal method of a revoked proxy throws; `typeof` and
callability were fixed at creation (p.call / p.ctor survive revoke) -/
def revokedOps {σ : Type} (T : Ops σ) : Ops σ where
  getProto := fun s => (.typeError, s)
  setProto := fun _ s => (.typeError, s)
  isExt := fun s => (.typeError, s)
  prevExt := fun s => (.typeError, s)
  getOwn := fun _ s => (.typeError, s)
  define := fun _ _ s => (.typeError, s)
  has := fun _ s => (.typeError, s)
  get := fun _ _ s => (.typeError, s)
  set := fun _ _ _ s => (.typeError, s)
  delete := fun _ s => (.typeError, s)
  ownKeys := fun s => (.typeError, s)
  callable := T.callable
  constructor := T.constructor
  call := fun _ _ s => (.typeError, s)
  construct := fun _ _ s => (.typeError, s)

/-- a proxy object: handler present (forwarding) or revoked (handler = nil) -/
def proxyObj {σ : Type} (compat : CompatFn) (tvp : Desc → VProp) (logf : Trap → σ → σ) (T : Ops σ) (revoked : Bool) : Ops σ :=
  if revoked then revokedOps T else proxyLayer compat tvp logf T

def Obs.isTypeError : Obs → Bool
  | .proto .typeError | .bool .typeError | .desc .typeError | .val .typeError | .keys .typeError | .obj .typeError => true
  | _ => false

end GojaModel.C11
