/-
  Primitives the regenerated checks (GojaModel/Generated/C11_Checks.lean) are written in: total
  accessors on possibly-nil pointers and the opaque operations the extractor does not look into.
  A field read on `none` returns a junk default; in the Go code those reads are guarded by a nil test
  (the Tie theorems prove the generated functions equal the hand model, where no junk is read).
-/
import GojaModel.C11.Model

namespace GojaModel.C11

def OVProp.configurable (o : Option VProp) : Bool := match o with | some p => p.configurable | none => false
def OVProp.enumerable (o : Option VProp) : Bool := match o with | some p => p.enumerable | none => false
def OVProp.writable (o : Option VProp) : Bool := match o with | some p => p.writable | none => false
def OVProp.accessor (o : Option VProp) : Bool := match o with | some p => p.accessor | none => false
def OVProp.value (o : Option VProp) : Option Val := match o with | some p => p.value | none => none
def OVProp.getterFunc (o : Option VProp) : Option Nat := match o with | some p => p.getterFunc | none => none
def OVProp.setterFunc (o : Option VProp) : Option Nat := match o with | some p => p.setterFunc | none => none

/-- `a.SameAs(b)` where the Go code has tested `a != nil` just before -/
def sameAsOpt (a b : Option Val) : Bool := match a with | some a => sameAs a b | none => false

/-- `!(trapResult != nil && trapResult != _undefined)` -/
def TrapDesc.isUndef : TrapDesc → Bool
  | .undef => true
  | _ => false

/-- `obj, ok := trapResult.(*Object)`; the object is identified with what toPropertyDescriptor reads from it -/
def TrapDesc.asObject : TrapDesc → Option Desc
  | .obj d => some d
  | _ => none

/-- `r.toPropertyDescriptor(trapResultObj)` -/
def OTrapObj.desc (o : Option Desc) : Desc := o.getD default

/-- `return resultDesc.Value` as a property Value -/
def TProp.ofOptVal : Option Val → TProp
  | some v => .plain v
  | none => .absent

def TProp.isAbsent : TProp → Bool
  | .absent => true
  | _ => false

def KItem.isString : KItem → Bool
  | .key (.str _) => true
  | _ => false
def KItem.isSymbol : KItem → Bool
  | .key (.sym _) => true
  | _ => false

/-- propNameSet.has / add, keyList append, on an element already known to be a String or Symbol -/
def ksHas (ks : List Key) : KItem → Bool
  | .key k => ks.contains k
  | .invalid => false
def ksAdd (ks : List Key) : KItem → List Key
  | .key k => k :: ks
  | .invalid => ks
def klAppend (kl : List Key) : KItem → List Key
  | .key k => kl ++ [k]
  | .invalid => kl

/-- whether the key iterator carried the property value along (it does not matter: both branches of
proxy.go:819 produce the target's own property) -/
def itemValueNil (_ : Key × Bool) : Bool := true

/-- the target's own property for an iterated key, of which only `configurable` is inspected -/
def itemProp (it : Key × Bool) : TProp :=
  .vp { value := some .undef, writable := true, configurable := it.2, enumerable := true, accessor := false,
        getterFunc := none, setterFunc := none }

end GojaModel.C11
