/-
  C11 model driver: same line protocol as harness/cmd/c11.  For every W/E line prints
      <mechanism answer> <spec answer>
  The mechanism answer is computed with the functions REGENERATED from /repo/proxy.go
  (GojaModel.Generated.C11_Checks), the spec answer with the §10.5 transcription of Model.lean.
-/
import GojaModel.Base.Proto
import GojaModel.C11.Model
import GojaModel.C11.Codec
import GojaModel.C11.Seq
import GojaModel.Generated.C11_Checks

namespace GojaModel.C11.Driver
open GojaModel.C11

open GojaModel.Generated.C11 in
/-- mechanism (regenerated from proxy.go) and spec answers for one W/E case -/
def answer (trap : String) (f : List String) : Option (String × String) :=
  match trap, f with
  | "compat", [ext, cur, d] => do
    let ext ← parseBit? ext
    let cur ← parseCur? cur
    let d ← parseDesc? d
    pure (showB (gen_isCompatibleDescriptor ext d (propToValueProp cur)),
          showB (specIsCompatible ext d.toPD cur.toCur))
  | "gpo", [ext, tp, res] => do
    let ext ← parseBit? ext
    let tp ← parseObjOpt? tp
    let res ← parseVal? res
    pure (showOut showProto (gen_proto ext tp res), showOut showProto (specGetProto ext tp res))
  | "spo", [ext, tp, v, b, thr] => do
    let ext ← parseBit? ext
    let tp ← parseObjOpt? tp
    let v ← parseObjOpt? v
    let b ← parseBit? b
    let thr ← parseBit? thr
    pure (showOut showB (gen_setProto ext tp v b thr), showOut showB (specSetProto ext tp v b thr))
  | "ie", [ext, b] => do
    let ext ← parseBit? ext
    let b ← parseBit? b
    pure (showOut showB (gen_isExtensible ext b), showOut showB (specIsExtensible ext b))
  | "pe", [ext, b, thr] => do
    let ext ← parseBit? ext
    let b ← parseBit? b
    let thr ← parseBit? thr
    pure (showOut showB (gen_preventExtensions ext b thr), showOut showB (specPreventExtensions ext b thr))
  | "gopd", [ext, cur, td] => do
    let ext ← parseBit? ext
    let cur ← parseCur? cur
    let td ← parseTrapDesc? td
    let wf := match td with | .obj d => descWellFormed d | _ => true
    let mech := if !wf then "TE" else showOut showTProp (gen_proxyGetOwnPropertyDescriptor (toValuePropWith gen_toValuePropAccessor) cur ext td)
    let spec := if !wf then "TE" else showOut showCur (specGopd cur.toCur ext td.toSpec)
    pure (mech, spec)
  | "def", [ext, cur, d, b, thr] => do
    let ext ← parseBit? ext
    let cur ← parseCur? cur
    let d ← parseDesc? d
    let b ← parseBit? b
    let thr ← parseBit? thr
    let mech := if !b then (if thr then "TE" else "b:0") else
      match gen_proxyDefineOwnPropertyPostCheck cur ext d with
      | .ok _ => "b:1"
      | .typeError => "TE"
    pure (mech, showOut showB (specDefine cur.toCur ext d.toPD b thr))
  | "has", [ext, cur, b] => do
    let ext ← parseBit? ext
    let cur ← parseCur? cur
    let b ← parseBit? b
    let mech := if b then "b:1" else
      match gen_proxyHasChecks cur ext with
      | .ok _ => "b:0"
      | .typeError => "TE"
    pure (mech, showOut showB (specHas cur.toCur ext b))
  | "get", [_, cur, v] => do
    let cur ← parseCur? cur
    let v ← parseVal? v
    let mech := match gen_proxyGetChecks cur v with
      | .ok _ => "v:" ++ showVal v
      | .typeError => "TE"
    pure (mech, showOut (fun v => "v:" ++ showVal v) (specGet cur.toCur v))
  | "set", [_, cur, v, b, thr] => do
    let cur ← parseCur? cur
    let v ← parseVal? v
    let b ← parseBit? b
    let thr ← parseBit? thr
    let mech := if !b then (if thr then "TE" else "b:0") else
      match gen_proxySetPostCheck cur v with
      | .ok _ => "b:1"
      | .typeError => "TE"
    pure (mech, showOut showB (specSet cur.toCur v b thr))
  | "del", [ext, cur, b, thr] => do
    let ext ← parseBit? ext
    let cur ← parseCur? cur
    let b ← parseBit? b
    let thr ← parseBit? thr
    let mech := match gen_proxyDeleteCheck b cur ext thr with
      | .ok _ => showB b
      | .typeError => "TE"
    pure (mech, showOut showB (specDelete cur.toCur ext b thr))
  | "cons", [res] => do
    let res ← parseVal? res
    pure (showOut (fun o => "v:o" ++ toString o) (mechConstruct res), showOut (fun o => "v:o" ++ toString o) (specConstruct res))
  | "keys", [_, _, "nil"] => some ("TE", "TE")      -- the trap returned null / a nil *Object: not array-like (§7.3.19)
  | "keys", [ext, tk, items] => do
    let ext ← parseBit? ext
    let tk ← parseTKeys? tk
    let items ← parseItems? items
    pure (showOut showKeys (ownKeysWith gen_ownKeysStep1 gen_ownKeysStep2 gen_ownKeysFinish ext tk items), showOut showKeys (specOwnKeys ext tk items))
  | _, _ => none

def step (line : String) : String :=
  match GojaModel.Proto.words line with
  | "W" :: _ :: _ :: trap :: f =>
    match answer trap f with
    | some (m, s) => m ++ " " ++ s
    | none => "PARSE"
  | "E" :: hk :: _ :: trap :: f =>
    -- end-to-end: a descriptor argument passes through ToPropertyDescriptor first (builtin_object.go:196)
    let illFormedArg := trap == "def" && (match f with
      | [_, _, d, _, _] => (match parseDesc? d with | some d => !descWellFormed d | none => false)
      | _ => false)
    if illFormedArg then "TE TE" else
    -- a Go ProxyTrapConfig handler returning the zero PropertyDescriptor means `undefined` (object.go:86)
    let f := if hk == "G" && trap == "gopd" then (match f with
      | [ext, cur, "-,-,-,-,-,-"] => [ext, cur, "u"]
      | _ => f) else f
    match answer trap f with
    | some (m, s) => m ++ " " ++ s
    | none => "PARSE"
  | "Q" :: rest => GojaModel.C11.Seq.answer rest
  | _ => "PARSE"

def main : IO Unit := GojaModel.Proto.lineMap step

end GojaModel.C11.Driver
