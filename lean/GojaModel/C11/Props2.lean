/-
  C11 property theorems, deepening round 2 (new file; Props.lean is unchanged).
  1. enumeration through a proxy (Object.keys / getOwnPropertyNames / getOwnPropertySymbols …): mechanism = spec
  2. the enforced invariants for handlers that MUTATE the target before returning: Handler.lean `handler_inv_*`
     (audited there); here their corollary for the enumeration helpers
-/
import GojaModel.C11.Props
import GojaModel.C11.Enumerate
import GojaModel.C11.Handler
import GojaModel.C11.ArrayMech

namespace GojaModel.C11

/-! ## the enforced invariants for handlers with effects: the target is re-read when the check runs -/

section handlers
variable {σ : Type} (H : Handler σ) (q : Queries σ) (T : Ops σ)

/-- [[GetPrototypeOf]] with any handler: if the target is non-extensible WHEN THE OPERATION RETURNS, the result is the
prototype it has then -/
theorem handler_inv_getPrototypeOf (t : σ → R Val × σ) (ht : H.getPrototypeOf = some t) (s s' : σ) (r : Option Nat)
    (h : (proxyWith H q T).getProto s = (.ok r, s')) (hne : q.ext s' = false) : r = q.proto s' := by
  simp only [proxyWith, ht] at h
  obtain ⟨v, s1, _, h2⟩ := bindR_ok_inv h
  obtain ⟨h3, rfl⟩ := liftOut_ok h2
  rw [hne] at h3
  exact inv_getPrototypeOf _ v r h3

theorem handler_inv_setPrototypeOf (t : Option Nat → σ → R Bool × σ) (ht : H.setPrototypeOf = some t) (p : Option Nat)
    (s s' : σ) (h : (proxyWith H q T).setProto p s = (.ok true, s')) (hne : q.ext s' = false) : p = q.proto s' := by
  simp only [proxyWith, ht] at h
  obtain ⟨b, s1, _, h2⟩ := bindR_ok_inv h
  obtain ⟨h3, rfl⟩ := liftOut_ok h2
  rw [hne] at h3
  exact inv_setPrototypeOf _ p b false h3

theorem handler_inv_isExtensible (t : σ → R Bool × σ) (ht : H.isExtensible = some t) (s s' : σ) (r : Bool)
    (h : (proxyWith H q T).isExt s = (.ok r, s')) : r = q.ext s' := by
  simp only [proxyWith, ht] at h
  obtain ⟨b, s1, _, h2⟩ := bindR_ok_inv h
  obtain ⟨h3, rfl⟩ := liftOut_ok h2
  exact inv_isExtensible _ b r h3

theorem handler_inv_preventExtensions (t : σ → R Bool × σ) (ht : H.preventExtensions = some t) (s s' : σ)
    (h : (proxyWith H q T).prevExt s = (.ok true, s')) : q.ext s' = false := by
  simp only [proxyWith, ht] at h
  obtain ⟨b, s1, _, h2⟩ := bindR_ok_inv h
  obtain ⟨h3, rfl⟩ := liftOut_ok h2
  exact inv_preventExtensions _ b false h3

theorem handler_inv_has (t : Key → σ → R Bool × σ) (ht : H.has = some t) (k : Key) (s s' : σ)
    (h : (proxyWith H q T).has k s = (.ok false, s')) :
    q.own k s' = none ∨ ∃ c, q.own k s' = some c ∧ c.configurable = true ∧ q.ext s' = true := by
  simp only [proxyWith, ht] at h
  obtain ⟨b, s1, _, h2⟩ := bindR_ok_inv h
  obtain ⟨h3, rfl⟩ := liftOut_ok h2
  simpa [optCur_toCur] using inv_has _ _ b h3

theorem handler_inv_get (t : Key → Val → σ → R Val × σ) (ht : H.get = some t) (k : Key) (rcv : Val) (s s' : σ) (r : Val)
    (h : (proxyWith H q T).get k rcv s = (.ok r, s')) :
    (∀ x e, q.own k s' = some (.data x false e false) → r = x) ∧
    (∀ st e, q.own k s' = some (.acc none st e false) → r = .undef) := by
  simp only [proxyWith, ht] at h
  obtain ⟨v, s1, _, h2⟩ := bindR_ok_inv h
  obtain ⟨h3, rfl⟩ := liftOut_ok h2
  simpa [optCur_toCur] using inv_get _ (optCur_wf _) v r h3

theorem handler_inv_set (t : Key → Val → Val → σ → R Bool × σ) (ht : H.set = some t) (k : Key) (v rcv : Val) (s s' : σ)
    (h : (proxyWith H q T).set k v rcv s = (.ok true, s')) :
    (∀ x e, q.own k s' = some (.data x false e false) → v = x) ∧
    (∀ g e, q.own k s' ≠ some (.acc g none e false)) := by
  simp only [proxyWith, ht] at h
  obtain ⟨b, s1, _, h2⟩ := bindR_ok_inv h
  obtain ⟨h3, rfl⟩ := liftOut_ok h2
  simpa [optCur_toCur] using inv_set _ (optCur_wf _) v b false h3

theorem handler_inv_delete (t : Key → σ → R Bool × σ) (ht : H.deleteProperty = some t) (k : Key) (s s' : σ)
    (h : (proxyWith H q T).delete k s = (.ok true, s')) :
    q.own k s' = none ∨ ∃ c, q.own k s' = some c ∧ c.configurable = true ∧ q.ext s' = true := by
  simp only [proxyWith, ht] at h
  obtain ⟨b, s1, _, h2⟩ := bindR_ok_inv h
  obtain ⟨h3, rfl⟩ := liftOut_ok h2
  simpa [optCur_toCur] using inv_delete _ _ b false h3

theorem handler_inv_define (t : Key → PD → σ → R Bool × σ) (ht : H.defineProperty = some t) (k : Key) (d : PD) (s s' : σ)
    (h : (proxyWith H q T).define k d s = (.ok true, s')) :
    (q.ext s' = false → q.own k s' ≠ none) ∧
    (d.configurable = some false → ∃ c, q.own k s' = some c ∧ c.configurable = false) := by
  simp only [proxyWith] at h
  split at h
  · simp at h
  · rename_i hbad
    have hwf : d.WF := by simp only [PD.WF]; intro hh; apply hbad; simp [hh.1, hh.2]
    simp only [ht] at h
    obtain ⟨b, s1, _, h2⟩ := bindR_ok_inv h
    obtain ⟨h3, rfl⟩ := liftOut_ok h2
    have := inv_define _ (optCur_wf _) _ d.toDesc (PD.toDesc_valid d hwf) b false h3
    rw [optCur_toCur] at this
    refine ⟨this.1, fun hc => this.2 ?_⟩
    rcases d with ⟨dv, dw, dg, ds, de, dc⟩
    simp only at hc
    subst hc
    rfl

theorem handler_inv_getOwnProperty (t : Key → σ → R TrapDesc × σ) (ht : H.getOwnPropertyDescriptor = some t) (k : Key)
    (s s' : σ) (r : Option Cur) (h : (proxyWith H q T).getOwn k s = (.ok r, s')) :
    (r = none → q.own k s' = none ∨ ∃ c, q.own k s' = some c ∧ c.configurable = true ∧ q.ext s' = true) ∧
    (q.own k s' = none → q.ext s' = false → r = none) ∧
    (∀ c', r = some c' → c'.configurable = false → ∃ c, q.own k s' = some c ∧ c.configurable = false) := by
  simp only [proxyWith, ht] at h
  obtain ⟨td, s1, _, h2⟩ := bindR_ok_inv h
  by_cases hval : tdValid td = true
  · simp only [hval, if_true] at h2
    cases hm : mechGopd isCompatible toValueProp (optCurToTProp (q.own k s1)) (q.ext s1) td with
    | typeError => simp [hm] at h2
    | ok rr =>
      simp only [hm] at h2
      injection h2 with h21 h22
      injection h21 with h21
      subst h22; subst h21
      have hv : ∀ d, td = .obj d → d.Valid := by
        intro d hd; subst hd; simpa [tdValid] using hval
      have := inv_getOwnProperty _ (optCur_wf _) _ td hv rr hm
      simpa [optCur_toCur] using this
  · simp [hval] at h2

theorem handler_inv_ownKeys (hq : ∀ s, (q.keys s).Nodup) (t : σ → R (List KItem) × σ) (ht : H.ownKeys = some t) (s s' : σ)
    (ks : List Key) (h : (proxyWith H q T).ownKeys s = (.ok ks, s')) :
    ks.Nodup ∧
    (∀ k ∈ q.keys s', (∃ c, q.own k s' = some c ∧ c.configurable = false) → k ∈ ks) ∧
    (q.ext s' = false → (∀ k ∈ q.keys s', k ∈ ks) ∧ ∀ k ∈ ks, k ∈ q.keys s') := by
  simp only [proxyWith, ht] at h
  obtain ⟨items, s1, _, h2⟩ := bindR_ok_inv h
  obtain ⟨h3, rfl⟩ := liftOut_ok h2
  have := inv_ownKeys _ _ items ks (targetKeys_nodup q hq _) h3
  refine ⟨this.1, ?_, ?_⟩
  · intro k hk ⟨c, hc, hcf⟩
    apply this.2.1 (k, false)
    · simp only [targetKeys, List.mem_map]
      exact ⟨k, hk, by simp [hc, hcf]⟩
    · rfl
  · intro he
    have h2 := this.2.2 he
    constructor
    · intro k hk
      apply h2.1 (k, match q.own k _ with | some c => c.configurable | none => true)
      simp only [targetKeys, List.mem_map]
      exact ⟨k, hk, rfl⟩
    · intro k hk
      have := h2.2 k hk
      simp only [targetKeys, List.map_map, List.mem_map] at this
      obtain ⟨k', hk', e⟩ := this
      simp only [Function.comp] at e
      rw [← e]; exact hk'

end handlers

/-! ## enumeration through a proxy -/

variable {σ : Type}

/-- proxy.go stringKeys / symbols (+ filterKeys) IS §7.3.23 EnumerableOwnProperties(kind key) resp. GetOwnPropertyKeys, for ANY
proxy `P` (any handler, any target): same key list in the same order, same sequence of [[GetOwnProperty]] calls on the proxy
(same trap sequence), same final state, and the same abrupt exit when the ownKeys trap or any lookup throws -/
theorem proxyTypedKeys_eq_spec (P : Ops σ) (all symbols : Bool) (s : σ) :
    proxyTypedKeys P all symbols s = specTypedKeys P all symbols s := by
  simp only [proxyTypedKeys, specTypedKeys]
  rcases P.ownKeys s with ⟨r, s1⟩
  cases r with
  | typeError => rfl
  | ok ks =>
    simp only [bindR_ok]
    cases all
    · simp only [Bool.false_eq_true, if_false, filterKeysEnum_eq P symbols ks [] s1, mapOk_nil_append]
    · simp [filterKeysAll_eq]

/-- proxy.go keys(all = false): every key type, enumerable only -/
theorem keysEnum_eq_spec (P : Ops σ) (ks : List Key) (s : σ) : keysEnum P ks [] s = specEnumerableAny P ks s := by
  rw [keysEnum_eq P ks [] s, mapOk_nil_append]

/-- what is enumerated is a sublist of the proxy's own key list: nothing invented, order kept, no duplicates introduced -/
theorem specEnumerable_sublist (P : Ops σ) (symbols : Bool) (ks : List Key) : ∀ (s s' : σ) (out : List Key),
    specEnumerable P symbols ks s = (.ok out, s') → out.Sublist ks := by
  induction ks with
  | nil => intro s s' out h; simp only [specEnumerable] at h; injection h with h1 _; injection h1 with h1; subst h1; exact List.Sublist.refl _
  | cons k rest ih =>
    intro s s' out h
    simp only [specEnumerable] at h
    split at h
    · exact (ih s s' out h).cons k
    · rcases hg : P.getOwn k s with ⟨r, s1⟩
      rw [hg] at h
      cases r with
      | typeError => simp [bindR] at h
      | ok d =>
        simp only [bindR_ok] at h
        rcases hr : specEnumerable P symbols rest s1 with ⟨r2, s2⟩
        rw [hr] at h
        cases r2 with
        | typeError => simp [bindR] at h
        | ok ks' =>
          simp only [bindR_ok] at h
          have hsub := ih s1 s2 ks' hr
          cases d with
          | none => injection h with h1 _; injection h1 with h1; subst h1; exact hsub.cons k
          | some c =>
            simp only at h
            split at h
            · injection h with h1 _; injection h1 with h1; subst h1; exact hsub.cons₂ k
            · injection h with h1 _; injection h1 with h1; subst h1; exact hsub.cons k

/-- forwarding transparency of enumeration: over a lawful target, Object.keys & co. of n forwarding layers are the target's -/
theorem enumeration_transparent {q : Queries σ} {T : Ops σ} (h : Lawful q T) (n : Nat) (all symbols : Bool) (s : σ) :
    proxyTypedKeys (stack isCompatible toValueProp (fun _ _ s => s) T n) all symbols s = proxyTypedKeys T all symbols s := by
  rw [forwarding_transparent_layers h n]

/-- enumeration through a proxy with an ARBITRARY (mutating) handler reports only keys the ownKeys check accepted: for a
target that is non-extensible when the key list is produced, only keys the target has at that moment -/
theorem handler_enumeration_keys_of_target (H : Handler σ) (q : Queries σ) (T : Ops σ) (hq : ∀ s, (q.keys s).Nodup)
    (t : σ → R (List KItem) × σ) (ht : H.ownKeys = some t) (all symbols : Bool) (s s' : σ) (out : List Key)
    (h : proxyTypedKeys (proxyWith H q T) all symbols s = (.ok out, s')) :
    ∃ s1 ks, (proxyWith H q T).ownKeys s = (.ok ks, s1) ∧ out.Sublist ks ∧ (q.ext s1 = false → ∀ k ∈ out, k ∈ q.keys s1) := by
  rw [proxyTypedKeys_eq_spec] at h
  simp only [specTypedKeys] at h
  rcases hk : (proxyWith H q T).ownKeys s with ⟨r, s1⟩
  rw [hk] at h
  cases r with
  | typeError => simp [bindR] at h
  | ok ks =>
    simp only [bindR_ok] at h
    have hinv := handler_inv_ownKeys H q T hq t ht s s1 ks hk
    have hsub : out.Sublist ks := by
      cases all
      · simp only [Bool.false_eq_true, if_false] at h
        exact specEnumerable_sublist _ symbols ks s1 s' out h
      · simp only [if_true] at h
        injection h with h1 _; injection h1 with h1; subst h1
        exact List.filter_sublist
    exact ⟨s1, ks, rfl, hsub, fun he k hk' => (hinv.2.2 he).2 k (hsub.subset hk')⟩

/-! ## a regenerated mechanism of an exotic target: Array `length` definition -/

/-- ToUint32 conversion of the descriptor's value, as ArraySetLength and defineArrayLength both compute it -/
def newLenOfDesc (A : AEnv) (d : Desc) : Option Nat := d.value.bind A.toLen

/-- array.go:391 defineArrayLength (regenerated: Tie3.tie_defineArrayLength) REFINES the spec-level ArraySetLength of Exotic.lean:
for every state of the array, every descriptor that passed ToPropertyDescriptor, with the conversion and `setLength` behaving
as specified (`newLenOfDesc`, `setterSpec`): same outcome — RangeError / false / true — and the same writability of `length`
afterwards (conversion before validation, rejection of configurable / enumerable / accessor fields, no `setLength` call when
the value is unchanged, deferred `writable: false` also on a failed truncation, `writable: true` on a non-writable length) -/
theorem defineArrayLength_refines (A : AEnv) (s : AState) (d : Desc) (hd : d.Valid) :
    defineArrayLengthMech ⟨s.lenW⟩ s.len d (newLenOfDesc A d) (setterSpec A s) false =
      match (arrSetLength A d.toPD s).1 with
      | .typeError => .typeError
      | .ok b => .ok (b, (arrSetLength A d.toPD s).2.lenW) := by
  rcases d with ⟨dv, dw, dc, de, dg, ds⟩
  obtain ⟨hg, hs, hx⟩ := hd
  rcases s with ⟨o, len, lenW⟩
  simp only [defineArrayLengthMech, arrSetLength, newLenOfDesc, Desc.toPD, lenFinish, setterSpec]
  cases dv with
  | none =>
    simp only [Option.bind_none, Option.isSome_none, Bool.false_and, Bool.false_eq_true, if_false]
    rcases accessorField_cases hg with hg | hg | ⟨og, hg⟩ <;> rcases accessorField_cases hs with hs | hs | ⟨os, hs⟩ <;>
      subst hg <;> subst hs <;> cases dw <;> cases dc <;> cases de <;> cases lenW <;>
      simp_all [specIsCompatible, lenCur, applyDesc, lenOf, PD.isAccessorDescriptor, PD.isDataDescriptor, PD.isGenericDescriptor,
        Cur.configurable, Cur.enumerable, Cur.isAccessor, Flag.toOpt, Flag.bool, asObj]
  | some v =>
    -- a data descriptor: no accessor fields (ToPropertyDescriptor)
    have hgn : dg = none := by
      cases dg with
      | none => rfl
      | some g => exact (hx ⟨Or.inl (by simp), Or.inl (by simp)⟩).elim
    have hsn : ds = none := by
      cases ds with
      | none => rfl
      | some g => exact (hx ⟨Or.inr (by simp), Or.inl (by simp)⟩).elim
    subst hgn; subst hsn
    cases hn : A.toLen v with
    | none => simp [hn]
    | some n =>
      simp only [hn, Option.bind_some, Option.isSome_some, Option.isNone_some, Bool.and_false, Bool.false_eq_true, if_false,
        Option.map_some, Option.getD_some]
      have hnum : ((Val.num (n : Int)) = Val.num (len : Int)) ↔ n = len := by
        constructor
        · intro h; injection h with h; exact Int.ofNat.inj h
        · intro h; rw [h]
      by_cases hlt : n < len
      · have hne : len ≠ n := by omega
        have hne' : n ≠ len := by omega
        cases hb : maxBlocker A n o.props <;> cases dw <;> cases dc <;> cases de <;> cases lenW <;>
          simp_all [specIsCompatible, lenCur, applyDesc, lenOf, PD.isAccessorDescriptor, PD.isDataDescriptor, PD.isGenericDescriptor,
            Cur.configurable, Cur.enumerable, Cur.isAccessor, Flag.toOpt, Flag.bool, Int.toNat_natCast, if_pos hlt] <;> (try omega)
      · by_cases heq : n = len
        · subst heq
          cases dw <;> cases dc <;> cases de <;> cases lenW <;>
            simp_all [specIsCompatible, lenCur, applyDesc, lenOf, PD.isAccessorDescriptor, PD.isDataDescriptor, PD.isGenericDescriptor,
              Cur.configurable, Cur.enumerable, Cur.isAccessor, Flag.toOpt, Flag.bool, Int.toNat_natCast]
        · have hge : n ≥ len := by omega
          have hne : len ≠ n := by omega
          cases dw <;> cases dc <;> cases de <;> cases lenW <;>
            simp_all [specIsCompatible, lenCur, applyDesc, lenOf, PD.isAccessorDescriptor, PD.isDataDescriptor, PD.isGenericDescriptor,
              Cur.configurable, Cur.enumerable, Cur.isAccessor, Flag.toOpt, Flag.bool, Int.toNat_natCast, if_neg hlt]

end GojaModel.C11
