/-
  C11 (deepening round 2): the enumeration helpers of proxyObject — `keys(all)`, `filterKeys(vals, all, symbols)`,
  `stringKeys`, `symbols` (proxy.go:766, :974, :1020, :1031) — i.e. what Object.keys / Object.getOwnPropertyNames /
  Object.getOwnPropertySymbols / Object.entries / JSON.stringify / Object.assign see of a proxy.

  Mechanism: the in-place compaction loops of proxy.go (index `k` of kept elements, `continue` on skipped ones), as recursions
  with the kept prefix as accumulator, over the proxy `P` given as an `Ops` table (so every `p.getOwnProp…` is a
  [[GetOwnProperty]] of the proxy — trap, post-check, possible TypeError, state change).
  Spec: §7.3.23 EnumerableOwnProperties (kind key) / §20.1.2.11.1 GetOwnPropertyKeys.
  Theorems: mechanism = spec as STATE TRANSFORMERS — same key list in the same order, same sequence of [[GetOwnProperty]]
  calls (hence same trap sequence and same final state), same abrupt exit at the first throwing lookup.
-/
import GojaModel.C11.Model
import GojaModel.C11.Forward

namespace GojaModel.C11

def Key.isSym : Key → Bool
  | .sym _ => true
  | .str _ => false

variable {σ : Type}

/-- proxy.go:975-1003 filterKeys, `!all` branch: loop over `vals`, `kept` = vals[:k] -/
def filterKeysEnum (P : Ops σ) (symbols : Bool) : List Key → List Key → σ → R (List Key) × σ
  | [], kept, s => (.ok kept, s)                                           -- :1003 vals = vals[:k]
  | v :: rest, kept, s =>
    if v.isSym != symbols then filterKeysEnum P symbols rest kept s        -- :983 / :989 continue
    else
      match P.getOwn v s with                                              -- :981 getOwnPropSym / :987 getOwnPropStr
      | (.typeError, s1) => (.typeError, s1)                               -- a throwing trap / failed post-check propagates
      | (.ok none, s1) => filterKeysEnum P symbols rest kept s1            -- :992 prop == nil
      | (.ok (some c), s1) =>
        if !c.enumerable then filterKeysEnum P symbols rest kept s1        -- :995
        else filterKeysEnum P symbols rest (kept ++ [v]) s1                -- :998-1001 vals[k] = vals[i]; k++

/-- proxy.go:1004-1016 filterKeys, `all` branch: by key type only, no lookups -/
def filterKeysAll (symbols : Bool) : List Key → List Key → List Key
  | [], kept => kept
  | v :: rest, kept => if v.isSym != symbols then filterKeysAll symbols rest kept else filterKeysAll symbols rest (kept ++ [v])

/-- proxy.go:1020 stringKeys / :1031 symbols: own keys of the proxy (proxyOwnKeys or, without trap, the target's), filtered -/
def proxyTypedKeys (P : Ops σ) (all symbols : Bool) (s : σ) : R (List Key) × σ :=
  match P.ownKeys s with
  | (.typeError, s1) => (.typeError, s1)
  | (.ok ks, s1) => if all then (.ok (filterKeysAll symbols ks []), s1) else filterKeysEnum P symbols ks [] s1

/-- proxy.go:769-783 keys(all=false): every key type, enumerable only -/
def keysEnum (P : Ops σ) : List Key → List Key → σ → R (List Key) × σ
  | [], kept, s => (.ok kept, s)
  | v :: rest, kept, s =>
    match P.getOwn v s with                                                -- :771 p.val.getOwnProp(key)
    | (.typeError, s1) => (.typeError, s1)
    | (.ok none, s1) => keysEnum P rest kept s1                            -- :772 nil / undefined
    | (.ok (some c), s1) =>
      if !c.enumerable then keysEnum P rest kept s1                        -- :775
      else keysEnum P rest (kept ++ [v]) s1

/-! ### spec -/

/-- §7.3.23 EnumerableOwnProperties(O, key), steps 2–4 over the list `ownKeys`, restricted to keys of one type
(String for Object.keys; the same loop over Symbols is what proxy.go offers to getOwnPropertySymbols-with-filter callers) -/
def specEnumerable (P : Ops σ) (symbols : Bool) : List Key → σ → R (List Key) × σ
  | [], s => (.ok [], s)
  | k :: rest, s =>
    if k.isSym != symbols then specEnumerable P symbols rest s             -- step 3.a: only keys of the requested type
    else
      bindR (P.getOwn k s) fun desc s1 =>                                  -- 3.a.i  desc = ? O.[[GetOwnProperty]](key)
        bindR (specEnumerable P symbols rest s1) fun ks s2 =>
          match desc with                                                  -- 3.a.ii desc not undefined and enumerable
          | some c => if c.enumerable then (.ok (k :: ks), s2) else (.ok ks, s2)
          | none => (.ok ks, s2)

/-- §20.1.2.11.1 GetOwnPropertyKeys(O, type): the keys of one type, in order, no lookups -/
def specTyped (symbols : Bool) (ks : List Key) : List Key := ks.filter (fun k => k.isSym == symbols)

/-- EnumerableOwnProperties / GetOwnPropertyKeys as whole operations on the object -/
def specTypedKeys (P : Ops σ) (all symbols : Bool) (s : σ) : R (List Key) × σ :=
  bindR (P.ownKeys s) fun ks s1 => if all then (.ok (specTyped symbols ks), s1) else specEnumerable P symbols ks s1

/-- every key type, enumerable only (CopyDataProperties / for the `keys(false)` callers) -/
def specEnumerableAny (P : Ops σ) : List Key → σ → R (List Key) × σ
  | [], s => (.ok [], s)
  | k :: rest, s =>
    bindR (P.getOwn k s) fun desc s1 =>
      bindR (specEnumerableAny P rest s1) fun ks s2 =>
        match desc with
        | some c => if c.enumerable then (.ok (k :: ks), s2) else (.ok ks, s2)
        | none => (.ok ks, s2)

/-! ### mechanism = spec -/

def mapOk (f : List Key → List Key) (m : R (List Key) × σ) : R (List Key) × σ :=
  match m with
  | (.ok ks, s) => (.ok (f ks), s)
  | (.typeError, s) => (.typeError, s)

theorem mapOk_mapOk (f g : List Key → List Key) (m : R (List Key) × σ) : mapOk f (mapOk g m) = mapOk (f ∘ g) m := by
  rcases m with ⟨r, s⟩; cases r <;> rfl

/-- the accumulator form equals the spec's recursion: for every kept prefix -/
theorem filterKeysEnum_eq (P : Ops σ) (symbols : Bool) (vals : List Key) : ∀ (kept : List Key) (s : σ),
    filterKeysEnum P symbols vals kept s = mapOk (kept ++ ·) (specEnumerable P symbols vals s) := by
  induction vals with
  | nil => intro kept s; simp [filterKeysEnum, specEnumerable, mapOk]
  | cons v rest ih =>
    intro kept s
    simp only [filterKeysEnum, specEnumerable]
    by_cases ht : (v.isSym != symbols) = true
    · simp only [ht, if_true]; exact ih kept s
    · simp only [ht, if_false]
      rcases hg : P.getOwn v s with ⟨r, s1⟩
      cases r with
      | typeError => simp [bindR, mapOk]
      | ok d =>
        cases d with
        | none =>
          simp only [bindR_ok]
          rw [ih kept s1]
          rcases specEnumerable P symbols rest s1 with ⟨r2, s2⟩
          cases r2 <;> simp [bindR, mapOk]
        | some c =>
          simp only [bindR_ok]
          cases he : c.enumerable
          · simp only [Bool.not_false, if_true]
            rw [ih kept s1]
            rcases specEnumerable P symbols rest s1 with ⟨r2, s2⟩
            cases r2 <;> simp [bindR, mapOk]
          · simp only [Bool.not_true, Bool.false_eq_true, if_false]
            rw [ih (kept ++ [v]) s1]
            rcases specEnumerable P symbols rest s1 with ⟨r2, s2⟩
            cases r2 <;> simp [bindR, mapOk]

theorem filterKeysAll_eq (symbols : Bool) (vals : List Key) : ∀ kept,
    filterKeysAll symbols vals kept = kept ++ specTyped symbols vals := by
  induction vals with
  | nil => intro kept; simp [filterKeysAll, specTyped]
  | cons v rest ih =>
    intro kept
    simp only [filterKeysAll, specTyped, List.filter]
    cases hv : v.isSym <;> cases symbols <;> simp [ih, specTyped]

theorem keysEnum_eq (P : Ops σ) (vals : List Key) : ∀ (kept : List Key) (s : σ),
    keysEnum P vals kept s = mapOk (kept ++ ·) (specEnumerableAny P vals s) := by
  induction vals with
  | nil => intro kept s; simp [keysEnum, specEnumerableAny, mapOk]
  | cons v rest ih =>
    intro kept s
    simp only [keysEnum, specEnumerableAny]
    rcases hg : P.getOwn v s with ⟨r, s1⟩
    cases r with
    | typeError => simp [bindR, mapOk]
    | ok d =>
      cases d with
      | none =>
        simp only [bindR_ok]
        rw [ih kept s1]
        rcases specEnumerableAny P rest s1 with ⟨r2, s2⟩
        cases r2 <;> simp [bindR, mapOk]
      | some c =>
        simp only [bindR_ok]
        cases he : c.enumerable
        · simp only [Bool.not_false, if_true]
          rw [ih kept s1]
          rcases specEnumerableAny P rest s1 with ⟨r2, s2⟩
          cases r2 <;> simp [bindR, mapOk]
        · simp only [Bool.not_true, Bool.false_eq_true, if_false]
          rw [ih (kept ++ [v]) s1]
          rcases specEnumerableAny P rest s1 with ⟨r2, s2⟩
          cases r2 <;> simp [bindR, mapOk]

theorem mapOk_nil_append (m : R (List Key) × σ) : mapOk (([] : List Key) ++ ·) m = m := by
  rcases m with ⟨r, s⟩; cases r <;> simp [mapOk]

end GojaModel.C11
