/-
  C11 helper lemmas: the descriptor-compatibility function against §10.1.6.3, split by the shape of the
  existing property so that no single tactic call is slow.
-/
import GojaModel.C11.Model

namespace GojaModel.C11

theorem accessorFieldValid_some {v : Val} (h : accessorFieldValid (some v) = true) :
    v = .undef ∨ ∃ o, v = .obj o := by
  cases v <;> simp_all [accessorFieldValid]

/-- the three shapes of a getter/setter field that pass ToPropertyDescriptor -/
theorem accessorField_cases {g : Option Val} (h : accessorFieldValid g = true) :
    g = none ∨ g = some .undef ∨ ∃ o, g = some (.obj o) := by
  cases g with
  | none => simp
  | some v =>
    rcases accessorFieldValid_some h with h | ⟨o, h⟩
    · simp [h]
    · simp [h]

/-- non-configurable data property -/
theorem compat_data (ext : Bool) (d : Desc) (v : Val) (cw ce : Bool) (hd : d.Valid) :
    isCompatible ext d (some ⟨some v, cw, false, ce, false, none, none⟩) =
      specIsCompatible ext d.toPD (some (.data v cw ce false)) := by
  rcases d with ⟨dv, dw, dc, de, dg, ds⟩
  simp [Desc.Valid] at hd
  cases dw <;> cases dc <;> cases de <;> cases dv <;> cases dg <;> cases ds <;>
    simp_all [isCompatible, specIsCompatible, Desc.toPD, Desc.isGeneric, Desc.isData, Desc.isAccessor,
      PD.isGenericDescriptor, PD.isAccessorDescriptor, PD.isDataDescriptor, Flag.toOpt, Flag.bool, Cur.configurable,
      Cur.enumerable, Cur.isAccessor, sameAs, accessorFieldValid] <;>
    (cases ce <;> cases cw <;> simp_all)

/-- non-configurable accessor property -/
theorem compat_acc (ext : Bool) (d : Desc) (cg cs : Option Nat) (ce : Bool) (hd : d.Valid) :
    isCompatible ext d (some ⟨none, false, false, ce, true, cg, cs⟩) =
      specIsCompatible ext d.toPD (some (.acc cg cs ce false)) := by
  rcases d with ⟨dv, dw, dc, de, dg, ds⟩
  obtain ⟨hg, hs, hx⟩ := hd
  rcases accessorField_cases hg with hg | hg | ⟨og, hg⟩ <;>
  rcases accessorField_cases hs with hs | hs | ⟨os, hs⟩ <;>
  subst hg <;> subst hs <;>
  cases dw <;> cases dc <;> cases de <;> cases dv <;>
    simp_all [isCompatible, specIsCompatible, Desc.toPD, Desc.isGeneric, Desc.isData, Desc.isAccessor,
      PD.isGenericDescriptor, PD.isAccessorDescriptor, PD.isDataDescriptor, Flag.toOpt, Flag.bool, Cur.configurable,
      Cur.enumerable, Cur.isAccessor, asObj] <;>
    (try (cases ce <;> (try simp_all) <;> grind))

/-- configurable property: everything is compatible -/
theorem compat_configurable (ext : Bool) (d : Desc) (p : VProp) (h : p.configurable = true) :
    isCompatible ext d (some p) = specIsCompatible ext d.toPD (some p.toCur) := by
  rcases p with ⟨cv, cw, cc, ce, ca, cg, cs⟩
  simp at h
  subst h
  cases ca <;> simp [isCompatible, specIsCompatible, VProp.toCur, Cur.configurable]

/-- shape of a well-formed valueProperty -/
theorem VProp.wf_shape (p : VProp) (h : p.WF) :
    (∃ v, p = ⟨some v, p.writable, p.configurable, p.enumerable, false, none, none⟩) ∨
    (p = ⟨none, false, p.configurable, p.enumerable, true, p.getterFunc, p.setterFunc⟩) := by
  rcases p with ⟨cv, cw, cc, ce, ca, cg, cs⟩
  cases ca
  · simp [VProp.WF] at h
    obtain ⟨hv, hg, hs⟩ := h
    subst hg hs
    cases cv with
    | none => simp at hv
    | some v => left; exact ⟨v, rfl⟩
  · simp [VProp.WF] at h
    obtain ⟨hv, hw⟩ := h
    subst hv hw
    right; rfl

theorem isCompatible_some (ext : Bool) (d : Desc) (p : VProp) (hd : d.Valid) (hw : p.WF) :
    isCompatible ext d (some p) = specIsCompatible ext d.toPD (some p.toCur) := by
  cases hc : p.configurable
  · rcases VProp.wf_shape p hw with ⟨v, hp⟩ | hp
    · rw [hp, hc]
      simpa [VProp.toCur] using compat_data ext d v p.writable p.enumerable hd
    · rw [hp, hc]
      simpa [VProp.toCur] using compat_acc ext d p.getterFunc p.setterFunc p.enumerable hd
  · exact compat_configurable ext d p hc

end GojaModel.C11
