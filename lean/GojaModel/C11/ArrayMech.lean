/-
  C11 (deepening round 2): a REGENERATED tie for one exotic target — array.go:391 `defineArrayLength`, the decision function
  behind Object.defineProperty(array, "length", …) (shared by arrayObject and sparseArrayObject).  Hand transcription here;
  the regenerated function is GojaModel/Generated/C11_Array.lean (`gen_defineArrayLength`), Tie3.lean proves them equal, and
  Props2.lean relates the mechanism to the spec-level `arrSetLength` of Exotic.lean.
-/
import GojaModel.C11.Model
import GojaModel.C11.Exotic

namespace GojaModel.C11

/-- the `*valueProperty` of the length property, as far as defineArrayLength touches it -/
structure LenProp where
  writable : Bool
  deriving DecidableEq, Repr

/-- array.go:424-429 `Reject:` tail -/
def lenFinish (ret w throw : Bool) : Out (Bool × Bool) :=
  if !ret then (if throw then .typeError else .ok (false, w)) else .ok (true, w)

/-- array.go:391 defineArrayLength(prop, descr, setter, throw).  `newLenOf` = toLengthUint32(descr.Value) (none: RangeError),
`setter n` = the result of `a.setLength(n, false)`.  Result: (returned bool, prop.writable afterwards). -/
def defineArrayLengthMech (prop : LenProp) (oldLen : Nat) (d : Desc) (newLenOf : Option Nat) (setter : Nat → Bool)
    (throw : Bool) : Out (Bool × Bool) :=
  if d.value.isSome && newLenOf.isNone then .typeError                                   -- :395 conversion first
  else if d.configurable == .tru || d.enumerable == .tru || d.getter.isSome || d.setter.isSome then
    lenFinish false prop.writable throw                                                  -- :398-401
  else
    let ret := if d.value.isSome then
        (if oldLen != newLenOf.getD 0 then setter (newLenOf.getD 0) else true)           -- :403-407
      else true                                                                          -- :409
    if d.writable != .notSet then                                                        -- :412
      if prop.writable then lenFinish ret d.writable.bool throw                          -- :415 prop.writable = w
      else if d.writable.bool then lenFinish false prop.writable throw                   -- :417-420
      else lenFinish ret prop.writable throw
    else lenFinish ret prop.writable throw

/-- what `a.setLength(n, false)` answers in state `s` (array.go:134 + _setLengthInt): needs a writable length; growing always
succeeds, shrinking succeeds iff no non-configurable element is in the way -/
def setterSpec (A : AEnv) (s : AState) (n : Nat) : Bool :=
  s.lenW && (decide (n ≥ s.len) || (maxBlocker A n s.o.props).isNone)

end GojaModel.C11
