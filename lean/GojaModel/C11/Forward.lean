/-
  C11 forwarding transparency: lemmas.  A forwarding proxy layer over a LAWFUL object (one whose internal
  methods satisfy the essential invariants of ECMA-262 §6.1.7.3, phrased through the §10.5 checks, and whose
  query methods are pure) is that object.
-/
import GojaModel.C11.Model
import GojaModel.C11.Lemmas

namespace GojaModel.C11

/-- a caller-supplied descriptor that passed ToPropertyDescriptor -/
def PD.WF (d : PD) : Prop := ¬ (d.isAccessorDescriptor = true ∧ d.isDataDescriptor = true)

instance (d : PD) : Decidable d.WF := by unfold PD.WF; exact inferInstance

/-- the pure queries of an object: extensibility, own property, prototype, own keys as functions of the state -/
structure Queries (σ : Type) where
  ext : σ → Bool
  own : Key → σ → Option Cur
  proto : σ → Option Nat
  keys : σ → List Key

/-- Essential internal-method invariants (§6.1.7.3), each phrased as "the result passes the §10.5 check against
the state the method leaves behind", plus purity and totality of the four query methods — everything except the
invariant of [[DefineOwnProperty]], which comes in two strengths below. -/
structure LawfulCore {σ : Type} (q : Queries σ) (T : Ops σ) : Prop where
  isExt_eq : ∀ s, T.isExt s = (.ok (q.ext s), s)
  getOwn_eq : ∀ k s, T.getOwn k s = (.ok (q.own k s), s)
  getProto_eq : ∀ s, T.getProto s = (.ok (q.proto s), s)
  ownKeys_eq : ∀ s, T.ownKeys s = (.ok (q.keys s), s)
  keys_nodup : ∀ s, (q.keys s).Nodup
  setProto_inv : ∀ p s s', T.setProto p s = (.ok true, s') → q.ext s' = true ∨ q.proto s' = p
  prevExt_inv : ∀ s s', T.prevExt s = (.ok true, s') → q.ext s' = false
  define_wf : ∀ k d s, ¬ d.WF → T.define k d s = (.typeError, s)
  has_inv : ∀ k s s', T.has k s = (.ok false, s') → specHasCheck (q.own k s') (q.ext s') = .ok ()
  get_inv : ∀ k r s v s', T.get k r s = (.ok v, s') → specGetCheck (q.own k s') v = .ok ()
  set_inv : ∀ k v r s s', T.set k v r s = (.ok true, s') → specSetCheck (q.own k s') v = .ok ()
  delete_inv : ∀ k s s', T.delete k s = (.ok true, s') → specDeleteCheck true (q.own k s') (q.ext s') false = .ok ()
  /-- an object without [[Call]] / [[Construct]]: invoking them is a TypeError that leaves the state alone (the fields are
  only meaningful under the flags; this pins the convention) -/
  call_nc : T.callable = false → ∀ this args s, T.call this args s = (.typeError, s)
  construct_nc : T.constructor = false → ∀ args nt s, T.construct args nt s = (.typeError, s)

/-- LAWFUL: additionally, every successful [[DefineOwnProperty]] leaves a property compatible with the descriptor -/
structure Lawful {σ : Type} (q : Queries σ) (T : Ops σ) : Prop extends LawfulCore q T where
  define_inv : ∀ k d s s', T.define k d s = (.ok true, s') → specDefineCheck (q.own k s') (q.ext s') d = .ok ()

/-- LAWFUL ON admissible inputs: the [[DefineOwnProperty]] invariant is required only for (key, descriptor, state)
triples in `adm`.  Needed for objects whose define CONVERTS the value it stores (Array `length`: ToUint32), for which
ECMA-262 itself makes a forwarding proxy non-transparent on the non-canonical values. -/
structure LawfulOn {σ : Type} (adm : Key → PD → σ → Prop) (q : Queries σ) (T : Ops σ) : Prop extends LawfulCore q T where
  define_inv_on : ∀ k d s s', adm k d s → T.define k d s = (.ok true, s') →
    specDefineCheck (q.own k s') (q.ext s') d = .ok ()

theorem Lawful.toOn {σ : Type} {q : Queries σ} {T : Ops σ} (h : Lawful q T) (adm : Key → PD → σ → Prop) : LawfulOn adm q T :=
  { h.toLawfulCore with define_inv_on := fun k d s s' _ hd => h.define_inv k d s s' hd }

/-! ### round trips between the spec view and the implementation view of a property / descriptor -/

theorem Cur.toTProp_wf (c : Cur) : c.toTProp.WF := by
  cases c with
  | data v w e c => cases w <;> cases e <;> cases c <;> simp [Cur.toTProp, TProp.WF, VProp.WF]
  | acc g s e c => simp [Cur.toTProp, TProp.WF, VProp.WF]

theorem Cur.toTProp_toCur (c : Cur) : c.toTProp.toCur = some c := by
  cases c with
  | data v w e c => cases w <;> cases e <;> cases c <;> simp [Cur.toTProp, TProp.toCur, propToValueProp, VProp.toCur]
  | acc g s e c => simp [Cur.toTProp, TProp.toCur, propToValueProp, VProp.toCur]

theorem optCur_wf (c : Option Cur) : (optCurToTProp c).WF := by
  cases c with
  | none => simp [optCurToTProp, TProp.WF]
  | some c => exact Cur.toTProp_wf c

theorem optCur_toCur (c : Option Cur) : (optCurToTProp c).toCur = c := by
  cases c with
  | none => simp [optCurToTProp, TProp.toCur, propToValueProp]
  | some c => exact Cur.toTProp_toCur c

theorem asObj_roundtrip (g : Option Nat) :
    asObj (some (match g with | some f => Val.obj f | none => Val.undef)) = g := by
  cases g <;> simp [asObj]

theorem flag_roundtrip (w : Option Bool) :
    (match w with | none => Flag.notSet | some b => Flag.ofBool b).toOpt = w := by
  cases w with
  | none => rfl
  | some b => cases b <;> rfl

theorem accMap_roundtrip (g : Option (Option Nat)) :
    (g.map (fun g => match g with | some f => Val.obj f | none => Val.undef)).map (fun v => asObj (some v)) = g := by
  cases g with
  | none => rfl
  | some g => cases g <;> simp [asObj]

theorem PD.toDesc_toPD (d : PD) : d.toDesc.toPD = d := by
  rcases d with ⟨v, w, g, s, e, c⟩
  rcases g with _ | (_ | _) <;> rcases s with _ | (_ | _) <;> rcases w with _ | (_ | _) <;>
    rcases e with _ | (_ | _) <;> rcases c with _ | (_ | _) <;> rfl

theorem PD.toDesc_valid (d : PD) (h : d.WF) : d.toDesc.Valid := by
  rcases d with ⟨v, w, g, s, e, c⟩
  simp only [PD.WF, PD.isAccessorDescriptor, PD.isDataDescriptor] at h
  refine ⟨?_, ?_, ?_⟩
  · cases g with
    | none => simp [PD.toDesc, accessorFieldValid]
    | some g => cases g <;> simp [PD.toDesc, accessorFieldValid]
  · cases s with
    | none => simp [PD.toDesc, accessorFieldValid]
    | some s => cases s <;> simp [PD.toDesc, accessorFieldValid]
  · cases v <;> cases w <;> cases g <;> cases s <;> simp_all [PD.toDesc, Flag.ofBool] <;>
      (rename_i b; cases b <;> simp)


/-! ### honest answers pass the mechanism checks -/

/-- completeness of [[GetOwnProperty]]'s check for the honest answer: the exact descriptor of an existing
property is accepted, and what the proxy reports is that property again -/
theorem gopd_honest (c : Cur) (ext : Bool) :
    ∃ r, gopdCheckWith isCompatible toValueProp c.toTProp ext (.obj c.toDesc) = .ok r ∧ r.toCur = some c := by
  cases c with
  | data v w e c =>
    cases w <;> cases e <;> cases c <;>
      simp [gopdCheckWith, Cur.toTProp, Cur.toDesc, Desc.complete, isCompatible, propToValueProp, Flag.ofBool,
        Flag.bool, Desc.isGeneric, Desc.isData, Desc.isAccessor, sameAs, toValueProp, toValuePropWith, TProp.toCur,
        VProp.toCur, asObj]
  | acc g s e c =>
    cases e <;> cases c <;> cases g <;> cases s <;>
      simp [gopdCheckWith, Cur.toTProp, Cur.toDesc, Desc.complete, isCompatible, propToValueProp, Flag.ofBool,
        Flag.bool, Desc.isGeneric, Desc.isData, Desc.isAccessor, sameAs, toValueProp, toValuePropWith, TProp.toCur,
        VProp.toCur, asObj]

theorem loop1_honest (ks : List Key) : ∀ (kl set : List Key), (∀ k ∈ ks, k ∉ set) → ks.Nodup →
    loop1With ownKeysStep1 (ks.map KItem.key) kl set = .ok (kl ++ ks, ks.reverse ++ set) := by
  induction ks with
  | nil => intro kl set _ _; simp [loop1With]
  | cons k rest ih =>
    intro kl set hnot hnd
    have hk : k ∉ set := hnot k (by simp)
    rw [List.nodup_cons] at hnd
    simp only [List.map_cons, loop1With, ownKeysStep1]
    have : set.contains k = false := by simpa using hk
    simp only [this]
    rw [show (if false = true then (Out.typeError : Out (List Key × List Key)) else Out.ok (kl ++ [k], k :: set)) =
          Out.ok (kl ++ [k], k :: set) from rfl]
    simp only []
    rw [ih (kl ++ [k]) (k :: set) (by
      intro x hx
      have h1 : x ∉ set := hnot x (by simp [hx])
      have h2 : x ≠ k := by intro e; subst e; exact hnd.1 hx
      simp [h1, h2]) hnd.2]
    simp

theorem loop2_honest (ext : Bool) (ks : List Key) : ∀ (set : List Key), set.Perm ks →
    loop2With (ownKeysStep2 ext) (ks.map (fun k => (k, true))) set = .ok [] := by
  induction ks with
  | nil => intro set h; simp [loop2With, List.Perm.eq_nil h]
  | cons k rest ih =>
    intro set h
    have hk : k ∈ set := h.symm.subset (by simp)
    have hc : set.contains k = true := by simpa using hk
    simp only [List.map_cons, loop2With, ownKeysStep2, hc]
    simp only [if_true]
    apply ih
    have h1 : set.Perm (k :: set.erase k) := List.perm_cons_erase hk
    exact List.Perm.cons_inv (h1.symm.trans h)

/-- completeness of [[OwnPropertyKeys]]'s check for the honest answer -/
theorem ownKeys_honest (ext : Bool) (ks : List Key) (h : ks.Nodup) :
    mechOwnKeys ext (ks.map (fun k => (k, true))) (ks.map KItem.key) = .ok ks := by
  simp only [mechOwnKeys, ownKeysWith]
  rw [loop1_honest ks [] [] (by simp) h]
  simp only [List.nil_append, List.append_nil]
  rw [loop2_honest ext ks ks.reverse (List.reverse_perm ks)]
  simp [ownKeysFinish]

/-- monadic glue -/
@[simp] theorem bindR_ok {σ α β : Type} (a : α) (s : σ) (k : α → σ → R β × σ) : bindR (.ok a, s) k = k a s := rfl
@[simp] theorem bindR_te {σ α β : Type} (s : σ) (k : α → σ → R β × σ) :
    bindR ((.typeError : R α), s) k = (.typeError, s) := rfl
@[simp] theorem chk_ok {σ α : Type} (a : α) (s : σ) : chk (.ok ()) a s = (.ok a, s) := rfl

theorem Ops.ext' {σ : Type} {A B : Ops σ}
    (h1 : A.getProto = B.getProto) (h2 : A.setProto = B.setProto) (h3 : A.isExt = B.isExt) (h4 : A.prevExt = B.prevExt)
    (h5 : A.getOwn = B.getOwn) (h6 : A.define = B.define) (h7 : A.has = B.has) (h8 : A.get = B.get)
    (h9 : A.set = B.set) (h10 : A.delete = B.delete) (h11 : A.ownKeys = B.ownKeys)
    (h12 : A.callable = B.callable) (h13 : A.constructor = B.constructor) (h14 : A.call = B.call)
    (h15 : A.construct = B.construct) : A = B := by
  cases A; cases B; simp_all


/-! ### a concrete lawful object (non-vacuity of `Lawful`): fixed non-configurable, non-writable data
properties; prototype and extensibility are mutable state -/

structure FState where
  ext : Bool
  proto : Option Nat
  deriving DecidableEq, Repr

def fLookup (props : List (Key × Val)) (k : Key) : Option Cur :=
  match props.find? (fun kv => kv.1 == k) with
  | some kv => some (.data kv.2 false true false)
  | none => none

/-- an object whose own properties are the given frozen data properties -/
def frozenOps (props : List (Key × Val)) : Ops FState where
  getProto := fun s => (.ok s.proto, s)
  setProto := fun p s => if s.ext then (.ok true, { s with proto := p }) else (.ok (decide (p = s.proto)), s)
  isExt := fun s => (.ok s.ext, s)
  prevExt := fun s => (.ok true, { s with ext := false })
  getOwn := fun k s => (.ok (fLookup props k), s)
  define := fun _ d s => if d.isAccessorDescriptor && d.isDataDescriptor then (.typeError, s) else (.ok false, s)
  has := fun k s => (.ok (fLookup props k).isSome, s)
  get := fun k _ s => (.ok (match fLookup props k with | some (.data v _ _ _) => v | _ => .undef), s)
  set := fun _ _ _ s => (.ok false, s)
  delete := fun k s => (.ok (fLookup props k).isNone, s)
  ownKeys := fun s => (.ok ((props.map (·.1)).eraseDups), s)
  callable := false
  constructor := false
  call := fun _ _ s => (.typeError, s)
  construct := fun _ _ s => (.typeError, s)

def frozenQueries (props : List (Key × Val)) : Queries FState where
  ext := fun s => s.ext
  own := fun k _ => fLookup props k
  proto := fun s => s.proto
  keys := fun _ => (props.map (·.1)).eraseDups

theorem eraseDups_nodup {α : Type} [DecidableEq α] (l : List α) : l.eraseDups.Nodup := by
  have : ∀ n (l : List α), l.length ≤ n → l.eraseDups.Nodup := by
    intro n
    induction n with
    | zero => intro l hl; have : l = [] := List.eq_nil_of_length_eq_zero (by omega); subst this; simp
    | succ n ih =>
      intro l hl
      cases l with
      | nil => simp
      | cons a rest =>
        rw [List.eraseDups_cons, List.nodup_cons]
        constructor
        · intro hmem
          have := List.mem_eraseDups.mp hmem
          simp at this
        · apply ih
          have := List.length_filter_le (fun b => !b == a) rest
          simp at hl; omega
  exact this l.length l (Nat.le_refl _)

theorem frozen_lawful (props : List (Key × Val)) : Lawful (frozenQueries props) (frozenOps props) where
  isExt_eq := fun _ => rfl
  getOwn_eq := fun _ _ => rfl
  getProto_eq := fun _ => rfl
  ownKeys_eq := fun _ => rfl
  keys_nodup := fun _ => eraseDups_nodup _
  setProto_inv := by
    intro p s s' h
    simp only [frozenOps] at h
    cases he : s.ext <;> simp [he] at h
    · obtain ⟨h1, h2⟩ := h; subst h2; right; simp [frozenQueries, h1]
    · subst h; right; rfl
  prevExt_inv := by
    intro s s' h
    simp only [frozenOps] at h
    injection h with _ h2; subst h2; rfl
  define_wf := by
    intro k d s hwf
    simp only [PD.WF, Classical.not_not] at hwf
    simp [frozenOps, hwf.1, hwf.2]
  define_inv := by
    intro k d s s' h
    simp only [frozenOps] at h
    split at h <;> simp at h
  has_inv := by
    intro k s s' h
    simp only [frozenOps] at h
    injection h with h1 _
    simp only [frozenQueries]
    cases hl : fLookup props k <;> simp_all [specHasCheck]
  get_inv := by
    intro k r s v s' h
    simp only [frozenOps] at h
    injection h with h1 _
    simp only [frozenQueries]
    unfold fLookup at h1 ⊢
    cases hf : props.find? (fun kv => kv.1 == k) <;> simp_all [specGetCheck]
  set_inv := by
    intro k v r s s' h
    simp [frozenOps] at h
  delete_inv := by
    intro k s s' h
    simp only [frozenOps] at h
    injection h with h1 _
    simp only [frozenQueries]
    cases hl : fLookup props k <;> simp_all [specDeleteCheck]
  call_nc := fun _ _ _ _ => rfl
  construct_nc := fun _ _ _ _ => rfl


/-! ### loop invariants of proxyOwnKeys (proxy.go:797-833) -/

theorem loop1_char (items : List KItem) : ∀ (kl set : List Key),
    loop1With ownKeysStep1 items kl set =
      match keysOfItems items with
      | none => .typeError
      | some ks => if ks.Nodup ∧ (∀ k ∈ ks, k ∉ set) then .ok (kl ++ ks, ks.reverse ++ set) else .typeError := by
  induction items with
  | nil => intro kl set; simp [loop1With, keysOfItems]
  | cons it rest ih =>
    intro kl set
    cases it with
    | invalid => simp [loop1With, ownKeysStep1, keysOfItems]
    | key k =>
      simp only [loop1With, ownKeysStep1, keysOfItems]
      by_cases hk : k ∈ set
      · have : set.contains k = true := by simpa using hk
        simp only [this, if_true]
        cases keysOfItems rest with
        | none => simp
        | some ks =>
          simp only [Option.map_some]
          rw [if_neg]
          intro h
          exact h.2 k (by simp) hk
      · have : set.contains k = false := by simpa using hk
        simp only [this]
        rw [show (if false = true then (Out.typeError : Out (List Key × List Key)) else Out.ok (kl ++ [k], k :: set)) =
              Out.ok (kl ++ [k], k :: set) from rfl]
        simp only []
        rw [ih]
        cases keysOfItems rest with
        | none => simp
        | some ks =>
          simp only [Option.map_some]
          by_cases hc : ks.Nodup ∧ ∀ x ∈ ks, x ∉ k :: set
          · rw [if_pos hc, if_pos]
            · simp
            · refine ⟨List.nodup_cons.mpr ⟨?_, hc.1⟩, ?_⟩
              · intro hmem; exact hc.2 k hmem (by simp)
              · intro x hx
                rcases List.mem_cons.mp hx with rfl | hx
                · exact hk
                · intro hs; exact hc.2 x hx (by simp [hs])
          · rw [if_neg hc, if_neg]
            intro h
            apply hc
            refine ⟨(List.nodup_cons.mp h.1).2, ?_⟩
            intro x hx hmem
            rcases List.mem_cons.mp hmem with rfl | hs
            · exact (List.nodup_cons.mp h.1).1 hx
            · exact h.2 x (by simp [hx]) hs

def okCond (ext : Bool) (tk : List (Key × Bool)) (S : List Key) : Prop :=
  ∀ kc ∈ tk, kc.1 ∈ S ∨ (ext = true ∧ kc.2 = true)

theorem loop2_char (ext : Bool) (tk : List (Key × Bool)) : ∀ (S : List Key), S.Nodup → (tk.map (·.1)).Nodup →
    (okCond ext tk S ∧ ∃ S', loop2With (ownKeysStep2 ext) tk S = .ok S' ∧ ∀ x, x ∈ S' ↔ (x ∈ S ∧ x ∉ tk.map (·.1))) ∨
    (¬ okCond ext tk S ∧ loop2With (ownKeysStep2 ext) tk S = .typeError) := by
  induction tk with
  | nil => intro S _ _; left; exact ⟨(by intro kc h; cases h), S, (by simp [loop2With]), (by simp)⟩
  | cons kc rest ih =>
    intro S hS hT
    obtain ⟨k, c⟩ := kc
    simp only [List.map_cons, List.nodup_cons] at hT
    obtain ⟨hkrest, hT'⟩ := hT
    simp only [loop2With, ownKeysStep2]
    by_cases hk : k ∈ S
    · have hc' : S.contains k = true := by simpa using hk
      simp only [hc', if_true]
      have hmem : ∀ x, x ∈ S.erase k ↔ (x ≠ k ∧ x ∈ S) := fun x => hS.mem_erase_iff
      rcases ih (S.erase k) (hS.erase k) hT' with ⟨hcond, S', hS', hx⟩ | ⟨hcond, hte⟩
      · left
        refine ⟨?_, S', hS', ?_⟩
        · intro kc' hkc'
          rcases List.mem_cons.mp hkc' with rfl | hin
          · left; exact hk
          · rcases hcond kc' hin with h | h
            · left; exact ((hmem _).mp h).2
            · right; exact h
        · intro x
          rw [hx x, hmem x]
          simp only [List.map_cons, List.mem_cons, not_or]
          constructor
          · rintro ⟨⟨h1, h2⟩, h3⟩; exact ⟨h2, h1, h3⟩
          · rintro ⟨h2, h1, h3⟩; exact ⟨⟨h1, h2⟩, h3⟩
      · right
        refine ⟨?_, hte⟩
        intro hall
        apply hcond
        intro kc' hin
        rcases hall kc' (List.mem_cons_of_mem _ hin) with h | h
        · left
          refine (hmem _).mpr ⟨?_, h⟩
          intro e
          apply hkrest
          rw [← e]
          exact List.mem_map_of_mem hin
        · right; exact h
    · have hc' : S.contains k = false := by simpa using hk
      simp only [hc']
      cases ext with
      | false =>
        right
        refine ⟨?_, by simp⟩
        intro hall
        rcases hall (k, c) (by simp) with h | h
        · exact hk h
        · simp at h
      | true =>
        cases c with
        | false =>
          right
          refine ⟨?_, by simp⟩
          intro hall
          rcases hall (k, false) (by simp) with h | h
          · exact hk h
          · simp at h
        | true =>
          simp only [Bool.not_true, Bool.false_eq_true, if_false]
          rcases ih S hS hT' with ⟨hcond, S', hS', hx⟩ | ⟨hcond, hte⟩
          · left
            refine ⟨?_, S', hS', ?_⟩
            · intro kc' hkc'
              rcases List.mem_cons.mp hkc' with rfl | hin
              · right; simp
              · exact hcond kc' hin
            · intro x
              rw [hx x]
              simp only [List.map_cons, List.mem_cons, not_or]
              constructor
              · rintro ⟨h1, h2⟩; exact ⟨h1, by intro e; subst e; exact hk h1, h2⟩
              · rintro ⟨h1, _, h3⟩; exact ⟨h1, h3⟩
          · right
            refine ⟨?_, hte⟩
            intro hall
            exact hcond (fun kc' hin => hall kc' (List.mem_cons_of_mem _ hin))



/-! ### [[GetOwnProperty]]: pieces of `gopd_eq_spec` -/

/-- the value proxyGetOwnPropertyDescriptor returns once every check has passed (proxy.go:554-558) -/
def gopdTail (tvp : Desc → VProp) (d : Desc) : TProp :=
  let r := d.complete
  if r.writable == .tru && r.configurable == .tru && r.enumerable == .tru then
    match r.value with
    | some v => .plain v
    | none => .absent
  else .vp (tvp d)

theorem complete_toPD (d : Desc) (h : d.Valid) : d.complete.toPD = d.toPD.complete := by
  rcases d with ⟨v, w, c, e, g, s⟩
  obtain ⟨_, _, hx⟩ := h
  cases v <;> cases w <;> cases c <;> cases e <;> cases g <;> cases s <;>
    simp_all [Desc.complete, Desc.toPD, PD.complete, PD.isGenericDescriptor, PD.isAccessorDescriptor, PD.isDataDescriptor, Flag.toOpt, asObj]

theorem complete_valid (d : Desc) (h : d.Valid) : d.complete.Valid := by
  rcases d with ⟨v, w, c, e, g, s⟩
  obtain ⟨hg, hs, hx⟩ := h
  cases v <;> cases w <;> cases c <;> cases e <;> cases g <;> cases s <;>
    simp_all [Desc.complete, Desc.Valid, accessorFieldValid]

theorem gopdTail_toCur (d : Desc) (h : d.Valid) :
    (gopdTail toValueProp d).toCur = some d.toPD.complete.toCur := by
  rcases d with ⟨v, w, c, e, g, s⟩
  obtain ⟨hg, hs, hx⟩ := h
  rcases accessorField_cases hg with hg | hg | ⟨og, hg⟩ <;>
  rcases accessorField_cases hs with hs | hs | ⟨os, hs⟩ <;>
  subst hg <;> subst hs <;>
  cases v <;> cases w <;> cases c <;> cases e <;>
    simp_all [gopdTail, Desc.complete, Desc.toPD, PD.complete, PD.toCur, PD.isGenericDescriptor, PD.isAccessorDescriptor,
      PD.isDataDescriptor, Flag.toOpt, Flag.bool, toValueProp, toValuePropWith, TProp.toCur, propToValueProp,
      VProp.toCur, asObj]


theorem gopdCheckWith_obj (compat : CompatFn) (tvp : Desc → VProp) (prop : TProp) (ext : Bool) (d : Desc) :
    gopdCheckWith compat tvp prop ext (.obj d) =
      if !compat ext d.complete (propToValueProp prop) then .typeError
      else if d.complete.configurable == .fals then
        match propToValueProp prop with
        | none => .typeError
        | some td =>
          if td.configurable then .typeError
          else if d.complete.writable == .fals && td.writable then .typeError
          else .ok (gopdTail tvp d)
      else .ok (gopdTail tvp d) := by
  simp only [gopdCheckWith, gopdTail]
  generalize d.complete = R
  cases hv : R.value <;>
    cases hf : (R.writable == Flag.tru && R.configurable == Flag.tru && R.enumerable == Flag.tru) <;>
    simp <;> (cases propToValueProp prop <;> rfl)

theorem flag_toOpt_false (f : Flag) : (f.toOpt == some false) = (f == .fals) := by cases f <;> rfl

theorem gopd_core (R : Desc) (T : TProp) (td : Option VProp)
    (e2 : T.toCur = some R.toPD.toCur) (b : Bool) : (∀ p, td = some p → p.WF) →
    (match (if !b then (Out.typeError : Out TProp)
            else if R.configurable == .fals then
              match td with
              | none => .typeError
              | some td =>
                if td.configurable then .typeError
                else if R.writable == .fals && td.writable then .typeError
                else .ok T
            else .ok T) with
      | .ok r => Out.ok r.toCur
      | .typeError => .typeError) =
    (if !b then (Out.typeError : Out (Option Cur))
     else if R.configurable == .fals then
       match td.map VProp.toCur with
       | none => .typeError
       | some td =>
         if td.configurable then .typeError
         else if R.writable == .fals then
           match td with
           | .data _ true _ _ => .typeError
           | _ => .ok (some R.toPD.toCur)
         else .ok (some R.toPD.toCur)
     else .ok (some R.toPD.toCur)) := by
  intro hwf
  cases b
  · simp
  · cases td with
    | none => cases R.configurable <;> simp [e2]
    | some p =>
      have hw := hwf p rfl
      clear hwf
      rcases p with ⟨cv, cw, cc, ce, ca, cg, cs⟩
      cases ca
      · simp [VProp.WF] at hw
        obtain ⟨hv, hg, hs⟩ := hw
        subst hg hs
        cases cv with
        | none => simp at hv
        | some v =>
          cases R.configurable <;> cases R.writable <;> cases cc <;> cases cw <;>
            simp [e2, VProp.toCur, Cur.configurable]
      · simp [VProp.WF] at hw
        obtain ⟨hv, hw'⟩ := hw
        subst hv hw'
        cases R.configurable <;> cases R.writable <;> cases cc <;> simp [e2, VProp.toCur, Cur.configurable]


/-! ### forwarding layers WITH trap logging: definitions -/

abbrev TLog := List (Nat × Trap)

def logAt {β : Type} (i : Nat) : Trap → β × TLog → β × TLog := fun t s => (s.1, s.2 ++ [(i, t)])

/-- `A` (over base state × trap log) behaves as `B` (over the base state) on results and on the base state; the log
component is unconstrained -/
structure SimLog {β : Type} (adm : Key → PD → β → Prop) (A : Ops (β × TLog)) (B : Ops β) : Prop where
  getProto : ∀ b l, ∃ l', A.getProto (b, l) = ((B.getProto b).1, ((B.getProto b).2, l'))
  setProto : ∀ p b l, ∃ l', A.setProto p (b, l) = ((B.setProto p b).1, ((B.setProto p b).2, l'))
  isExt : ∀ b l, ∃ l', A.isExt (b, l) = ((B.isExt b).1, ((B.isExt b).2, l'))
  prevExt : ∀ b l, ∃ l', A.prevExt (b, l) = ((B.prevExt b).1, ((B.prevExt b).2, l'))
  getOwn : ∀ k b l, ∃ l', A.getOwn k (b, l) = ((B.getOwn k b).1, ((B.getOwn k b).2, l'))
  define : ∀ k d b l, adm k d b → ∃ l', A.define k d (b, l) = ((B.define k d b).1, ((B.define k d b).2, l'))
  has : ∀ k b l, ∃ l', A.has k (b, l) = ((B.has k b).1, ((B.has k b).2, l'))
  get : ∀ k r b l, ∃ l', A.get k r (b, l) = ((B.get k r b).1, ((B.get k r b).2, l'))
  set : ∀ k v r b l, ∃ l', A.set k v r (b, l) = ((B.set k v r b).1, ((B.set k v r b).2, l'))
  delete : ∀ k b l, ∃ l', A.delete k (b, l) = ((B.delete k b).1, ((B.delete k b).2, l'))
  ownKeys : ∀ b l, ∃ l', A.ownKeys (b, l) = ((B.ownKeys b).1, ((B.ownKeys b).2, l'))
  callable : A.callable = B.callable
  constructor : A.constructor = B.constructor
  call : ∀ this args b l, ∃ l', A.call this args (b, l) = ((B.call this args b).1, ((B.call this args b).2, l'))
  construct : ∀ args nt b l, ∃ l', A.construct args nt (b, l) = ((B.construct args nt b).1, ((B.construct args nt b).2, l'))

/-- a base object placed next to a trap log it never touches -/
def liftOps {β : Type} (B : Ops β) : Ops (β × TLog) where
  getProto := fun s => ((B.getProto s.1).1, ((B.getProto s.1).2, s.2))
  setProto := fun p s => ((B.setProto p s.1).1, ((B.setProto p s.1).2, s.2))
  isExt := fun s => ((B.isExt s.1).1, ((B.isExt s.1).2, s.2))
  prevExt := fun s => ((B.prevExt s.1).1, ((B.prevExt s.1).2, s.2))
  getOwn := fun k s => ((B.getOwn k s.1).1, ((B.getOwn k s.1).2, s.2))
  define := fun k d s => ((B.define k d s.1).1, ((B.define k d s.1).2, s.2))
  has := fun k s => ((B.has k s.1).1, ((B.has k s.1).2, s.2))
  get := fun k r s => ((B.get k r s.1).1, ((B.get k r s.1).2, s.2))
  set := fun k v r s => ((B.set k v r s.1).1, ((B.set k v r s.1).2, s.2))
  delete := fun k s => ((B.delete k s.1).1, ((B.delete k s.1).2, s.2))
  ownKeys := fun s => ((B.ownKeys s.1).1, ((B.ownKeys s.1).2, s.2))
  callable := B.callable
  constructor := B.constructor
  call := fun this args s => ((B.call this args s.1).1, ((B.call this args s.1).2, s.2))
  construct := fun args nt s => ((B.construct args nt s.1).1, ((B.construct args nt s.1).2, s.2))

end GojaModel.C11
