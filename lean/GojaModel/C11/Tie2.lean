/-
  C11 Tie, deepening round 2: the regenerated skeleton of the enumeration helpers that Enumerate.lean transcribes.
-/
import GojaModel.C11.Enumerate
import GojaModel.Generated.C11_Checks

namespace GojaModel.C11.Tie2
open GojaModel.C11 GojaModel.Generated.C11

/-- proxy.go keys / filterKeys / stringKeys / symbols, token for token (string literals blanked): the loops
`Enumerate.keysEnum`, `filterKeysEnum`, `filterKeysAll`, `proxyTypedKeys` transcribe — own keys from proxyOwnKeys (or the
target's string keys / symbols without trap), then per key: type test, own-property lookup THROUGH THE PROXY
(`p.getOwnPropSym` / `p.getOwnPropStr` / `p.val.getOwnProp`), skip if nil, skip if a non-enumerable valueProperty, compact in
place (`vals[k] = vals[i]; k++`), truncate to `vals[:k]` -/
theorem tie_enumTexts : enumTexts = [
  ("keys", "{ if v , ok : = p . proxyOwnKeys ( ) ; ok { if ! all { k : = 0 for i , key : = range v { prop : = p . val . getOwnProp ( key ) if prop = = nil | | prop = = _undefined { continue } if prop , ok : = prop . ( * valueProperty ) ; ok & & ! prop . enumerable { continue } if k ! = i { v [ k ] = v [ i ] } k + + } v = v [ : k ] } return v } return p . target . self . keys ( all , nil ) }"),
  ("filterKeys", "{ if ! all { k : = 0 for i , val : = range vals { var prop Value if symbols { if s , ok : = val . ( * Symbol ) ; ok { prop = p . getOwnPropSym ( s ) } else { continue } } else { if _ , ok : = val . ( * Symbol ) ; ! ok { prop = p . getOwnPropStr ( val . string ( ) ) } else { continue } } if prop = = nil { continue } if prop , ok : = prop . ( * valueProperty ) ; ok & & ! prop . enumerable { continue } if k ! = i { vals [ k ] = vals [ i ] } k + + } vals = vals [ : k ] } else { k : = 0 for i , val : = range vals { if _ , ok : = val . ( * Symbol ) ; ok ! = symbols { continue } if k ! = i { vals [ k ] = vals [ i ] } k + + } vals = vals [ : k ] } return vals }"),
  ("stringKeys", "{ var keys [ ] Value if vals , ok : = p . proxyOwnKeys ( ) ; ok { keys = vals } else { keys = p . target . self . stringKeys ( true , nil ) } return p . filterKeys ( keys , all , false ) }"),
  ("symbols", "{ var symbols [ ] Value if vals , ok : = p . proxyOwnKeys ( ) ; ok { symbols = vals } else { symbols = p . target . self . symbols ( true , nil ) } symbols = p . filterKeys ( symbols , all , true ) if accum = = nil { return symbols } accum = append ( accum , symbols . . . ) return accum }")
] := by rfl

end GojaModel.C11.Tie2
