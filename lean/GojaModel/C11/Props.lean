/-
  C11 property theorems.  Every `theorem` here is one audited proof obligation.

  Naming: `X_eq_spec` = the mechanism function transcribed from proxy.go (tied to the source by Tie.lean)
  equals the ECMA-262 §10.5 function for ALL inputs: it rejects every trap result the spec rejects
  (soundness: a lying handler is caught) and accepts every result the spec accepts (completeness: an honest
  handler is never rejected).  `_partial` = deliberately weaker (what is missing is said in the comment),
  `_witness` = a proved counter-example showing that the full statement is false for the code as it is.
-/
import GojaModel.C11.Model
import GojaModel.C11.Lemmas
import GojaModel.C11.Forward
import GojaModel.C11.Ordinary
import GojaModel.C11.Exotic

namespace GojaModel.C11

/-! ## IsCompatiblePropertyDescriptor -/

/-- proxy.go:913 `__isCompatibleDescriptor` IS §10.1.6.2 IsCompatiblePropertyDescriptor, for every extensibility,
every descriptor that passed ToPropertyDescriptor and every (well-formed) existing property. -/
theorem isCompatible_eq_spec (ext : Bool) (d : Desc) (cur : Option VProp)
    (hd : d.Valid) (hc : ∀ p, cur = some p → p.WF) :
    isCompatible ext d cur = specIsCompatible ext d.toPD (cur.map VProp.toCur) := by
  cases cur with
  | none => simp [isCompatible, specIsCompatible]
  | some p => simpa using isCompatible_some ext d p hd (hc p rfl)

def witnessDesc : Desc :=
  { value := none, writable := .notSet, configurable := .notSet, enumerable := .notSet,
    getter := some (.obj 1), setter := none }
def witnessProp : VProp :=
  { value := some (.num 1), writable := false, configurable := false, enumerable := false, accessor := false,
    getterFunc := none, setterFunc := none }

/-- REGRESSION (commit 7553bcd): the kind-mismatch branch as it was is NOT the spec function — `{get: f}` against a
non-configurable data property was reported compatible.  Reverting the commit makes `Tie.tie_isCompatible` fail. -/
theorem isCompatible_kindMismatch_prefix_witness :
    ¬ ∀ (ext : Bool) (d : Desc) (cur : Option VProp), d.Valid → (∀ p, cur = some p → p.WF) →
      isCompatibleKindPreFix ext d cur = specIsCompatible ext d.toPD (cur.map VProp.toCur) := by
  intro h
  have := h true witnessDesc (some witnessProp) (by decide) (by intro p hp; cases hp; decide)
  revert this
  decide

def witnessAccDesc : Desc :=
  { value := none, writable := .notSet, configurable := .notSet, enumerable := .notSet,
    getter := some (.obj 1), setter := none }
def witnessAccProp : VProp :=
  { value := none, writable := false, configurable := false, enumerable := false, accessor := true,
    getterFunc := some 1, setterFunc := none }

/-- REGRESSION (commit cc2cbee): the accessor branch as it was (inverted SameAs) is NOT the spec function: the
honest descriptor of a non-configurable accessor was rejected.  Reverting the commit makes `Tie.tie_isCompatible` fail. -/
theorem isCompatible_accessor_prefix_witness :
    ¬ ∀ (ext : Bool) (d : Desc) (cur : Option VProp), d.Valid → (∀ p, cur = some p → p.WF) →
      isCompatiblePreFix ext d cur = specIsCompatible ext d.toPD (cur.map VProp.toCur) := by
  intro h
  have := h true witnessAccDesc (some witnessAccProp) (by decide) (by intro p hp; cases hp; decide)
  revert this
  decide

/-- non-vacuity: the hypotheses of the theorems above hold for a concrete non-trivial input (test) -/
example : witnessDesc.Valid ∧ witnessProp.WF ∧ witnessAccProp.WF := by decide

/-! ## per-trap post-checks -/

theorem propToValueProp_wf {prop : TProp} {td : VProp} (hp : prop.WF) (h : propToValueProp prop = some td) : td.WF := by
  cases prop with
  | absent => simp [propToValueProp] at h
  | plain v => simp [propToValueProp] at h; subst h; simp [VProp.WF]
  | vp p => simp [propToValueProp] at h; subst h; exact hp

/-- §10.5.6 [[DefineOwnProperty]] (trap result, pre-check and post-check) -/
theorem define_eq_spec (prop : TProp) (ext : Bool) (d : Desc) (b thr : Bool) (hd : d.Valid) (hp : prop.WF) :
    mechDefine isCompatible prop ext d b thr = specDefine prop.toCur ext d.toPD b thr := by
  simp only [mechDefine, specDefine, definePostCheckWith, specDefineCheck, TProp.toCur]
  cases b
  · simp
  · cases h : propToValueProp prop with
    | none => cases hc : d.configurable <;> simp [Desc.toPD, Flag.toOpt, hc]
    | some td =>
      have hw := propToValueProp_wf hp h
      simp only [Option.map_some, isCompatible_some ext d td hd hw]
      rcases VProp.wf_shape td hw with ⟨v, hs⟩ | hs <;> rw [hs] <;>
        cases hc : d.configurable <;> cases hw' : d.writable <;> cases td.configurable <;> cases td.writable <;>
        simp [Desc.toPD, Flag.toOpt, hc, hw', VProp.toCur, Cur.configurable] <;>
        split <;> simp

/-- REGRESSION (commit 7553bcd): with the old compatibility function a defineProperty trap that reports success for
`{get: f}` on a non-configurable data property was accepted -/
theorem define_kindMismatch_prefix_witness :
    ¬ ∀ (prop : TProp) (ext : Bool) (d : Desc) (b thr : Bool), d.Valid → prop.WF →
      mechDefine isCompatibleKindPreFix prop ext d b thr = specDefine prop.toCur ext d.toPD b thr := by
  intro h
  have := h (.vp witnessProp) true witnessDesc true false (by decide) (by decide)
  revert this
  decide

/-- §10.5.7 [[HasProperty]] -/
theorem has_eq_spec (prop : TProp) (ext b : Bool) :
    mechHas prop ext b = specHas prop.toCur ext b := by
  simp only [mechHas, specHas, hasCheck, specHasCheck, TProp.toCur]
  cases b
  · cases h : propToValueProp prop with
    | none => simp
    | some td =>
      rcases td with ⟨cv, cw, cc, ce, ca, cg, cs⟩
      cases ca <;> cases cc <;> cases ext <;> simp [VProp.toCur, Cur.configurable]
  · simp

/-- §10.5.8 [[Get]] -/
theorem get_eq_spec (prop : TProp) (v : Val) (hp : prop.WF) :
    mechGet prop v = specGet prop.toCur v := by
  simp only [mechGet, specGet, getCheck, specGetCheck, TProp.toCur]
  cases prop with
  | absent => simp [asValueProperty, propToValueProp]
  | plain x => simp [asValueProperty, propToValueProp, VProp.toCur]
  | vp p =>
    rcases p with ⟨cv, cw, cc, ce, ca, cg, cs⟩
    cases ca
    · simp [TProp.WF, VProp.WF] at hp
      obtain ⟨hv, hg, hs⟩ := hp
      subst hg hs
      cases cv with
      | none => simp at hv
      | some x =>
        cases cc <;> cases cw <;> simp [asValueProperty, propToValueProp, VProp.toCur, sameAs] <;>
          (try split) <;> simp_all
    · simp [TProp.WF, VProp.WF] at hp
      obtain ⟨hv, hw⟩ := hp
      subst hv hw
      cases cc <;> cases cg <;> simp [asValueProperty, propToValueProp, VProp.toCur] <;>
        (try split) <;> simp_all

/-- §10.5.9 [[Set]] -/
theorem set_eq_spec (prop : TProp) (v : Val) (b thr : Bool) (hp : prop.WF) :
    mechSet prop v b thr = specSet prop.toCur v b thr := by
  simp only [mechSet, specSet, setPostCheck, specSetCheck, TProp.toCur]
  cases b
  · simp
  · cases prop with
    | absent => simp [asValueProperty, propToValueProp]
    | plain x => simp [asValueProperty, propToValueProp, VProp.toCur]
    | vp p =>
      rcases p with ⟨cv, cw, cc, ce, ca, cg, cs⟩
      cases ca
      · simp [TProp.WF, VProp.WF] at hp
        obtain ⟨hv, hg, hs⟩ := hp
        subst hg hs
        cases cv with
        | none => simp at hv
        | some x =>
          cases cc <;> cases cw <;> simp [asValueProperty, propToValueProp, VProp.toCur, sameValueNil, sameAs] <;>
            (try split) <;> simp_all <;> grind
      · simp [TProp.WF, VProp.WF] at hp
        obtain ⟨hv, hw⟩ := hp
        subst hv hw
        cases cc <;> cases cs <;> simp [asValueProperty, propToValueProp, VProp.toCur]

/-- §10.5.10 [[Delete]] -/
theorem delete_eq_spec (prop : TProp) (ext b thr : Bool) :
    mechDelete prop ext b thr = specDelete prop.toCur ext b thr := by
  simp only [mechDelete, specDelete, deleteCheck, specDeleteCheck, TProp.toCur]
  cases b
  · cases thr <;> simp
  · cases prop with
    | absent => simp [propToValueProp]
    | plain x => cases ext <;> simp [asValueProperty, propToValueProp, VProp.toCur, Cur.configurable]
    | vp p =>
      rcases p with ⟨cv, cw, cc, ce, ca, cg, cs⟩
      cases ca <;> cases cc <;> cases ext <;> simp [asValueProperty, propToValueProp, VProp.toCur, Cur.configurable]

/-- §10.5.1 [[GetPrototypeOf]] -/
theorem getProto_eq_spec (ext : Bool) (tp : Option Nat) (v : Val) :
    mechGetProto ext tp (some v) = specGetProto ext tp v := by
  cases v <;> cases ext <;> simp [mechGetProto, specGetProto, toObject?, sameObj] <;> grind

/-- §10.5.2 [[SetPrototypeOf]] -/
theorem setProto_eq_spec (ext : Bool) (tp v : Option Nat) (b thr : Bool) :
    mechSetProto ext tp v b thr = specSetProto ext tp v b thr := by
  cases b <;> cases ext <;> cases thr <;> simp [mechSetProto, specSetProto, sameObj] <;> split <;> simp_all

/-- §10.5.3 [[IsExtensible]] -/
theorem isExtensible_eq_spec (ext b : Bool) : mechIsExtensible ext b = specIsExtensible ext b := by
  cases b <;> cases ext <;> simp [mechIsExtensible, specIsExtensible]

/-- §10.5.4 [[PreventExtensions]] -/
theorem preventExtensions_eq_spec (ext b thr : Bool) :
    mechPreventExtensions ext b thr = specPreventExtensions ext b thr := by
  cases b <;> cases ext <;> cases thr <;> simp [mechPreventExtensions, specPreventExtensions]


/-! ## forwarding transparency

`Lawful q T` (Forward.lean): the four query methods of `T` are total and pure, and every other internal
method leaves a state against which its own result passes the §10.5 check — the essential invariants of
§6.1.7.3.  `proxyLayer compat tvp logf T` (Model.lean): a Proxy over `T` whose handler forwards every trap
to Reflect (= the internal method of `T`), built from the mechanism checks of proxy.go.  Trap logging is switched
off (`logf = fun _ s => s`): the log is instrumentation, compared with the implementation by the lock-step
correspondence, not part of what the property calls observable. -/

theorem mechDefine_ok_post {compat : CompatFn} {prop : TProp} {ext : Bool} {d : Desc}
    (h : mechDefine compat prop ext d true false = .ok true) : definePostCheckWith compat prop ext d = .ok () := by
  simp only [mechDefine] at h
  cases hc : definePostCheckWith compat prop ext d with
  | ok u => cases u; rfl
  | typeError => simp [hc] at h

section
variable {σ : Type} {q : Queries σ} {T : Ops σ}

local notation "L" => proxyLayer isCompatible toValueProp (fun (_ : Trap) (s : σ) => s)

theorem layer_getProto (h : LawfulCore q T) : (L T).getProto = T.getProto := by
  funext s
  simp only [proxyLayer, h.getProto_eq, h.isExt_eq, bindR_ok]
  cases q.ext s
  · cases q.proto s <;> simp [mechGetProto, toObject?, sameObj]
  · simp

theorem layer_setProto (h : LawfulCore q T) : (L T).setProto = T.setProto := by
  funext p s
  simp only [proxyLayer]
  rcases hr : T.setProto p s with ⟨r, s'⟩
  cases r with
  | typeError => simp
  | ok b =>
    cases b
    · simp
    · simp only [bindR_ok, if_true, h.isExt_eq, h.getProto_eq]
      rcases h.setProto_inv p s s' hr with he | hp
      · simp [he]
      · cases q.ext s' <;> simp [mechSetProto, sameObj, hp]

theorem layer_isExt (h : LawfulCore q T) : (L T).isExt = T.isExt := by
  funext s
  simp only [proxyLayer, h.isExt_eq, bindR_ok]
  cases q.ext s <;> simp [mechIsExtensible]

theorem layer_prevExt (h : LawfulCore q T) : (L T).prevExt = T.prevExt := by
  funext s
  simp only [proxyLayer]
  rcases hr : T.prevExt s with ⟨r, s'⟩
  cases r with
  | typeError => simp
  | ok b =>
    cases b
    · simp
    · simp [h.isExt_eq, h.prevExt_inv s s' hr, mechPreventExtensions]

theorem layer_getOwn (h : LawfulCore q T) : (L T).getOwn = T.getOwn := by
  funext k s
  simp only [proxyLayer, h.getOwn_eq, h.isExt_eq, bindR_ok]
  cases hc : q.own k s with
  | none => simp [gopdCheckWith, optCurToTProp, propToValueProp, TProp.toOptCur, TProp.toCur]
  | some c =>
    obtain ⟨r, hr, hrc⟩ := gopd_honest c (q.ext s)
    simp [optCurToTProp, hr, TProp.toOptCur, hrc]

theorem layer_define_at (h : LawfulCore q T) (k : Key) (d : PD) (s : σ)
    (hinv : ∀ s', T.define k d s = (.ok true, s') → specDefineCheck (q.own k s') (q.ext s') d = .ok ()) :
    (L T).define k d s = T.define k d s := by
  simp only [proxyLayer]
  by_cases hwf : d.WF
  · rcases hr : T.define k d s with ⟨r, s'⟩
    cases r with
    | typeError => simp
    | ok b =>
      cases b
      · simp
      · simp only [bindR_ok, h.getOwn_eq, h.isExt_eq]
        have hspec := hinv s' hr
        have hm : mechDefine isCompatible (optCurToTProp (q.own k s')) (q.ext s') d.toDesc true false = .ok true := by
          rw [define_eq_spec _ _ _ _ _ (PD.toDesc_valid d hwf) (optCur_wf _), optCur_toCur, PD.toDesc_toPD]
          simp [specDefine, hspec]
        simp [mechDefine_ok_post hm]
  · simp [h.define_wf k d s hwf]

theorem layer_define (h : Lawful q T) : (L T).define = T.define := by
  funext k d s
  exact layer_define_at h.toLawfulCore k d s (fun s' hr => h.define_inv k d s s' hr)

theorem layer_has (h : LawfulCore q T) : (L T).has = T.has := by
  funext k s
  simp only [proxyLayer]
  rcases hr : T.has k s with ⟨r, s'⟩
  cases r with
  | typeError => simp
  | ok b =>
    cases b
    · simp only [bindR_ok, h.getOwn_eq, h.isExt_eq]
      have hspec := h.has_inv k s s' hr
      have hm := has_eq_spec (optCurToTProp (q.own k s')) (q.ext s') false
      rw [optCur_toCur] at hm
      simp only [mechHas, specHas, hspec] at hm
      cases hc : q.own k s' with
      | none => simp [hasCheck, optCurToTProp, propToValueProp]
      | some td =>
        rw [hc] at hspec hm
        cases hcf : td.configurable
        · simp [specHasCheck, hcf] at hspec
        · cases hh : hasCheck (optCurToTProp (some td)) (q.ext s') with
          | ok u => cases u; simp [hcf, hh]
          | typeError => simp [hh] at hm
    · simp

theorem layer_get (h : LawfulCore q T) : (L T).get = T.get := by
  funext k rcv s
  simp only [proxyLayer]
  rcases hr : T.get k rcv s with ⟨r, s'⟩
  cases r with
  | typeError => simp
  | ok v =>
    simp only [bindR_ok, h.getOwn_eq]
    have hspec := h.get_inv k rcv s v s' hr
    have hm := get_eq_spec (optCurToTProp (q.own k s')) v (optCur_wf _)
    rw [optCur_toCur] at hm
    simp only [mechGet, specGet, hspec] at hm
    cases hh : getCheck (optCurToTProp (q.own k s')) v with
    | ok u => cases u; simp
    | typeError => simp [hh] at hm

theorem layer_set (h : LawfulCore q T) : (L T).set = T.set := by
  funext k v rcv s
  simp only [proxyLayer]
  rcases hr : T.set k v rcv s with ⟨r, s'⟩
  cases r with
  | typeError => simp
  | ok b =>
    cases b
    · simp
    · simp only [bindR_ok, h.getOwn_eq]
      have hspec := h.set_inv k v rcv s s' hr
      have hm := set_eq_spec (optCurToTProp (q.own k s')) v true false (optCur_wf _)
      rw [optCur_toCur] at hm
      simp only [mechSet, specSet, hspec] at hm
      cases hh : setPostCheck (optCurToTProp (q.own k s')) v with
      | ok u => cases u; simp
      | typeError => simp [hh] at hm

theorem layer_delete (h : LawfulCore q T) : (L T).delete = T.delete := by
  funext k s
  simp only [proxyLayer]
  rcases hr : T.delete k s with ⟨r, s'⟩
  cases r with
  | typeError => simp
  | ok b =>
    cases b
    · simp [h.getOwn_eq, deleteCheck]
    · simp only [bindR_ok, h.getOwn_eq, h.isExt_eq, Bool.true_and]
      have hspec := h.delete_inv k s s' hr
      have hm := delete_eq_spec (optCurToTProp (q.own k s')) (q.ext s') true false
      rw [optCur_toCur] at hm
      simp only [mechDelete, specDelete, hspec] at hm
      cases hc : q.own k s' with
      | none => simp [deleteCheck, optCurToTProp]
      | some td =>
        rw [hc] at hspec hm
        cases hcf : td.configurable
        · simp [specDeleteCheck, hcf] at hspec
        · cases hh : deleteCheck true (optCurToTProp (some td)) (q.ext s') false with
          | ok u => cases u; simp [hcf, hh]
          | typeError => simp [hh] at hm

theorem layer_ownKeys (h : LawfulCore q T) : (L T).ownKeys = T.ownKeys := by
  funext s
  simp only [proxyLayer, h.ownKeys_eq, h.isExt_eq, bindR_ok, ownKeys_honest (q.ext s) (q.keys s) (h.keys_nodup s)]

theorem bindR_pure {σ α : Type} (m : R α × σ) : bindR m (fun a s => ((.ok a : R α), s)) = m := by
  rcases m with ⟨r, s⟩
  cases r <;> rfl

theorem layer_call (h : LawfulCore q T) : (L T).call = T.call := by
  funext this args s
  simp only [proxyLayer]
  cases hc : T.callable
  · simp [h.call_nc hc]
  · simp [bindR_pure]

theorem layer_construct (h : LawfulCore q T) : (L T).construct = T.construct := by
  funext args nt s
  simp only [proxyLayer]
  cases hc : T.constructor
  · simp [h.construct_nc hc]
  · simp only [Bool.not_true, Bool.false_eq_true, if_false]
    rcases T.construct args nt s with ⟨r, s'⟩
    cases r <;> rfl

/-- FORWARDING TRANSPARENCY, one layer: over a lawful object, the forwarding proxy's internal methods — the eleven
invariant-carrying ones, [[Call]], [[Construct]] — and its callability flags (typeof, IsCallable, IsConstructor)
are the object's own — same result (value, boolean, descriptor, key list or TypeError) and same resulting
state, for every argument and every state. -/
theorem forwarding_transparent (h : Lawful q T) : L T = T :=
  Ops.ext' (layer_getProto h.toLawfulCore) (layer_setProto h.toLawfulCore) (layer_isExt h.toLawfulCore)
    (layer_prevExt h.toLawfulCore) (layer_getOwn h.toLawfulCore) (layer_define h) (layer_has h.toLawfulCore)
    (layer_get h.toLawfulCore) (layer_set h.toLawfulCore) (layer_delete h.toLawfulCore) (layer_ownKeys h.toLawfulCore)
    rfl rfl (layer_call h.toLawfulCore) (layer_construct h.toLawfulCore)

/-- ... lifted to any number of nested layers (induction on the number of layers) -/
theorem forwarding_transparent_layers (h : Lawful q T) (n : Nat) :
    stack isCompatible toValueProp (fun _ _ s => s) T n = T := by
  induction n with
  | zero => rfl
  | succ n ih => simp only [stack, ih]; exact forwarding_transparent h

/-- ... and to whole operation histories: the observations and the final state of any history applied to
`n` forwarding layers are those of the history applied to the target -/
theorem forwarding_transparent_histories (h : Lawful q T) (n : Nat) (ops : List Op) (s : σ) :
    (stack isCompatible toValueProp (fun _ _ s => s) T n).runAll ops s = T.runAll ops s := by
  rw [forwarding_transparent_layers h n]

/-- a proxy layer over a lawful object is lawful again (with the same queries): the invariants are preserved,
so proxies may be used as targets -/
theorem forwarding_lawful (h : Lawful q T) : Lawful q (L T) := by
  rw [forwarding_transparent h]; exact h

/-! ### transparency on ADMISSIBLE inputs (`LawfulOn`): for objects whose [[DefineOwnProperty]] converts what it stores -/

/-- which operations of a history are admissible in a state -/
def Op.adm {σ : Type} (adm : Key → PD → σ → Prop) : Op → σ → Prop
  | .define k d, s => adm k d s
  | _, _ => True

/-- every operation of the history is admissible in the state the TARGET is in when it is applied -/
def admHist {σ : Type} (T : Ops σ) (adm : Key → PD → σ → Prop) : List Op → σ → Prop
  | [], _ => True
  | op :: rest, s => op.adm adm s ∧ admHist T adm rest (T.run op s).2

variable {adm : Key → PD → σ → Prop}

theorem layer_run_on (h : LawfulOn adm q T) (op : Op) (s : σ) (ha : op.adm adm s) : (L T).run op s = T.run op s := by
  have c := h.toLawfulCore
  cases op with
  | define k d =>
    simp only [Ops.run, layer_define_at c k d s (fun s' hr => h.define_inv_on k d s s' ha hr)]
  | getProto => simp only [Ops.run, layer_getProto c]
  | setProto p => simp only [Ops.run, layer_setProto c]
  | isExt => simp only [Ops.run, layer_isExt c]
  | prevExt => simp only [Ops.run, layer_prevExt c]
  | getOwn k => simp only [Ops.run, layer_getOwn c]
  | has k => simp only [Ops.run, layer_has c]
  | get k r => simp only [Ops.run, layer_get c]
  | set k v r => simp only [Ops.run, layer_set c]
  | delete k => simp only [Ops.run, layer_delete c]
  | ownKeys => simp only [Ops.run, layer_ownKeys c]
  | call this args => simp only [Ops.run, layer_call c]; rfl
  | construct args nt => simp only [Ops.run, layer_construct c]; rfl
  | typeof => rfl

/-- a forwarding layer over an object lawful on `adm` is lawful on `adm` -/
theorem lawfulOn_layer (h : LawfulOn adm q T) : LawfulOn adm q (L T) := by
  have c := h.toLawfulCore
  have hdef : ∀ k d s, adm k d s → (L T).define k d s = T.define k d s :=
    fun k d s ha => layer_define_at c k d s (fun s' hr => h.define_inv_on k d s s' ha hr)
  refine { isExt_eq := ?_, getOwn_eq := ?_, getProto_eq := ?_, ownKeys_eq := ?_, keys_nodup := c.keys_nodup,
           setProto_inv := ?_, prevExt_inv := ?_, define_wf := ?_, has_inv := ?_, get_inv := ?_, set_inv := ?_,
           delete_inv := ?_, call_nc := ?_, construct_nc := ?_, define_inv_on := ?_ }
  · rw [layer_isExt c]; exact c.isExt_eq
  · rw [layer_getOwn c]; exact c.getOwn_eq
  · rw [layer_getProto c]; exact c.getProto_eq
  · rw [layer_ownKeys c]; exact c.ownKeys_eq
  · rw [layer_setProto c]; exact c.setProto_inv
  · rw [layer_prevExt c]; exact c.prevExt_inv
  · intro k d s hwf
    rw [layer_define_at c k d s (fun s' hr => by rw [c.define_wf k d s hwf] at hr; simp at hr)]
    exact c.define_wf k d s hwf
  · rw [layer_has c]; exact c.has_inv
  · rw [layer_get c]; exact c.get_inv
  · rw [layer_set c]; exact c.set_inv
  · rw [layer_delete c]; exact c.delete_inv
  · intro hc; rw [layer_call c]; exact c.call_nc hc
  · intro hc; rw [layer_construct c]; exact c.construct_nc hc
  · intro k d s s' ha hr
    rw [hdef k d s ha] at hr
    exact h.define_inv_on k d s s' ha hr

/-- FORWARDING TRANSPARENCY on admissible inputs, n layers: every admissible operation on n forwarding layers over an
object that is lawful on `adm` gives the target's result and the target's next state -/
theorem forwarding_transparent_on (h : LawfulOn adm q T) (n : Nat) (op : Op) (s : σ) (ha : op.adm adm s) :
    (stack isCompatible toValueProp (fun _ _ s => s) T n).run op s = T.run op s := by
  induction n with
  | zero => rfl
  | succ n ih =>
    have hl : LawfulOn adm q (stack isCompatible toValueProp (fun _ _ s => s) T n) := by
      clear ih
      induction n with
      | zero => exact h
      | succ m ihm => exact lawfulOn_layer ihm
    simp only [stack]
    rw [layer_run_on hl op s ha, ih]

/-- … and for every history all of whose operations are admissible where the target meets them -/
theorem forwarding_transparent_on_histories (h : LawfulOn adm q T) (n : Nat) (ops : List Op) :
    ∀ (s : σ), admHist T adm ops s →
      (stack isCompatible toValueProp (fun _ _ s => s) T n).runAll ops s = T.runAll ops s := by
  induction ops with
  | nil => intro s _; rfl
  | cons op rest ih =>
    intro s ha
    simp only [Ops.runAll, forwarding_transparent_on h n op s ha.1]
    rw [ih _ ha.2]

end

/-- REVOKED: every internal method of a revoked proxy throws TypeError — the eleven, [[Call]] and [[Construct]] —
whatever the operation, the state and the (former) target; the state is untouched.  (`typeof` is not an internal
method call: it reads the [[Call]] slot fixed at creation and never throws.) -/
theorem revoked_throws_all {σ : Type} (compat : CompatFn) (tvp : Desc → VProp) (logf : Trap → σ → σ) (T : Ops σ)
    (op : Op) (s : σ) (hop : op ≠ .typeof) :
    ((proxyObj compat tvp logf T true).run op s).1.isTypeError = true ∧
    ((proxyObj compat tvp logf T true).run op s).2 = s := by
  cases op <;> simp [proxyObj, revokedOps, Ops.run, Obs.isTypeError] at hop ⊢

/-- ... and a history of internal-method calls on a revoked proxy is a list of TypeErrors -/
theorem revoked_history_all_throw {σ : Type} (compat : CompatFn) (tvp : Desc → VProp) (logf : Trap → σ → σ) (T : Ops σ)
    (ops : List Op) (hops : ∀ op ∈ ops, op ≠ .typeof) (s : σ) :
    ∀ o ∈ ((proxyObj compat tvp logf T true).runAll ops s).1, o.isTypeError = true := by
  induction ops generalizing s with
  | nil => simp [Ops.runAll]
  | cons op rest ih =>
    intro o ho
    have hop : op ≠ .typeof := hops op (by simp)
    simp only [Ops.runAll, List.mem_cons] at ho
    rcases ho with ho | ho
    · rw [ho]; exact (revoked_throws_all compat tvp logf T op s hop).1
    · rw [(revoked_throws_all compat tvp logf T op s hop).2] at ho
      exact ih (fun op' h' => hops op' (by simp [h'])) s o ho

/-- typeof / IsCallable / IsConstructor of a proxy are those of its target, also after revocation (proxy.go:55-60, :1056) -/
theorem callable_forwarded {σ : Type} (compat : CompatFn) (tvp : Desc → VProp) (logf : Trap → σ → σ) (T : Ops σ) (revoked : Bool) :
    (proxyObj compat tvp logf T revoked).callable = T.callable ∧
    (proxyObj compat tvp logf T revoked).constructor = T.constructor := by
  cases revoked <;> simp [proxyObj, revokedOps, proxyLayer]

/-- … through any number of layers -/
theorem callable_forwarded_layers {σ : Type} (compat : CompatFn) (tvp : Desc → VProp) (logf : Nat → Trap → σ → σ) (T : Ops σ) (n : Nat) :
    (stack compat tvp logf T n).callable = T.callable ∧ (stack compat tvp logf T n).constructor = T.constructor := by
  induction n with
  | zero => exact ⟨rfl, rfl⟩
  | succ n ih => simpa [stack, proxyLayer] using ih

/-- REGRESSION (commit 43d21ca, builtin_object.go:156): with the old toValueProp the honest descriptor of an accessor
property that has neither a getter nor a setter function did not come back as that property -/
theorem gopd_accessor_prefix_witness :
    ¬ ∀ (c : Cur) (ext : Bool), ∃ r, gopdCheckWith isCompatible toValuePropPreFix c.toTProp ext (.obj c.toDesc) = .ok r ∧
        r.toCur = some c := by
  intro h
  obtain ⟨r, hr, hc⟩ := h (.acc none none true true) true
  revert hr hc
  simp [gopdCheckWith, Cur.toTProp, Cur.toDesc, Desc.complete, isCompatible, propToValueProp, Flag.ofBool,
    toValuePropPreFix, toValuePropWith, asObj]
  intro hr
  subst hr
  simp [TProp.toCur, propToValueProp, VProp.toCur]

/-- §10.5.5 [[GetOwnProperty]], the branch where the trap returned undefined or a non-object: sound and complete -/
theorem gopd_undefined_eq_spec (compat : CompatFn) (tvp : Desc → VProp) (prop : TProp) (ext : Bool) (trap : TrapDesc)
    (ht : trap = .undef ∨ trap = .nonObject) :
    (match mechGopd compat tvp prop ext trap with | .ok r => Out.ok r.toCur | .typeError => .typeError) =
      specGopd prop.toCur ext trap.toSpec := by
  rcases ht with ht | ht <;> subst ht
  · cases prop with
    | absent => simp [mechGopd, gopdCheckWith, specGopd, TrapDesc.toSpec, propToValueProp, TProp.toCur]
    | plain v => cases ext <;> simp [mechGopd, gopdCheckWith, specGopd, TrapDesc.toSpec, propToValueProp, TProp.toCur, VProp.toCur, Cur.configurable]
    | vp p =>
      rcases p with ⟨cv, cw, cc, ce, ca, cg, cs⟩
      cases ca <;> cases cc <;> cases ext <;>
        simp [mechGopd, gopdCheckWith, specGopd, TrapDesc.toSpec, propToValueProp, TProp.toCur, VProp.toCur, Cur.configurable]
  · simp [mechGopd, gopdCheckWith, specGopd, TrapDesc.toSpec]

/-- §10.5.5 [[GetOwnProperty]]: for every existing property, every
extensibility and every trap result, the mechanism's outcome — TypeError, undefined, or the reported property — is
the spec's -/
theorem gopd_eq_spec (prop : TProp) (ext : Bool) (trap : TrapDesc)
    (ht : ∀ d, trap = .obj d → d.Valid) (hp : prop.WF) :
    (match mechGopd isCompatible toValueProp prop ext trap with
      | .ok r => Out.ok r.toCur
      | .typeError => .typeError) = specGopd prop.toCur ext trap.toSpec := by
  cases trap with
  | undef => exact gopd_undefined_eq_spec isCompatible toValueProp prop ext .undef (Or.inl rfl)
  | nonObject => exact gopd_undefined_eq_spec isCompatible toValueProp prop ext .nonObject (Or.inr rfl)
  | obj d =>
    have hd := ht d rfl
    have hwf : descWellFormed d = true := by
      obtain ⟨_, _, hx⟩ := hd
      simp only [descWellFormed]
      cases hg : d.getter <;> cases hs : d.setter <;> cases hv : d.value <;> cases hw : d.writable <;>
        simp_all
    have e1 := complete_toPD d hd
    have e2 := gopdTail_toCur d hd
    rw [← e1] at e2
    simp only [mechGopd, hwf, Bool.not_true, Bool.false_eq_true, if_false, specGopd, TrapDesc.toSpec, ← e1]
    rw [gopdCheckWith_obj]
    rw [isCompatible_eq_spec ext d.complete (propToValueProp prop) (complete_valid d hd)
      (fun p hp' => propToValueProp_wf hp hp')]
    simp only [TProp.toCur]
    have hc : (d.complete.toPD.configurable == some false) = (d.complete.configurable == .fals) := flag_toOpt_false _
    have hw : (d.complete.toPD.writable == some false) = (d.complete.writable == .fals) := flag_toOpt_false _
    rw [hc, hw]
    exact gopd_core d.complete (gopdTail toValueProp d) (propToValueProp prop) e2
      (specIsCompatible ext d.complete.toPD ((propToValueProp prop).map VProp.toCur)) (fun p hp' => propToValueProp_wf hp hp')

/-- §10.5.5, completeness for the honest answer (any existing property, any extensibility): accepted, and the
reported property is the target's (corollary-sized; used by `layer_getOwn`). -/
theorem gopd_honest_accepted (c : Cur) (ext : Bool) :
    ∃ r, gopdCheckWith isCompatible toValueProp c.toTProp ext (.obj c.toDesc) = .ok r ∧ r.toCur = some c :=
  gopd_honest c ext

/-- §10.5.11 [[OwnPropertyKeys]]: the mechanism equals the spec for every extensibility, every duplicate-free list of
target keys with their configurability, and every trap result -/
theorem ownKeys_eq_spec (ext : Bool) (tk : List (Key × Bool)) (items : List KItem) (hT : (tk.map (·.1)).Nodup) :
    mechOwnKeys ext tk items = specOwnKeys ext tk items := by
  simp only [mechOwnKeys, ownKeysWith, specOwnKeys, loop1_char items [] []]
  cases keysOfItems items with
  | none => rfl
  | some ks =>
    simp only [List.not_mem_nil, not_false_eq_true, implies_true, and_true, List.nil_append, List.append_nil]
    by_cases hnd : ks.Nodup
    · rw [if_pos hnd]
      simp only []
      have hrev : ks.reverse.Nodup := (List.reverse_perm ks).nodup_iff.mpr hnd
      rcases loop2_char ext tk ks.reverse hrev hT with ⟨hcond, S', hS', hx⟩ | ⟨hcond, hte⟩
      · rw [hS']
        simp only [ownKeysFinish]
        have hA : ∀ kc ∈ tk, kc.2 = false → kc.1 ∈ ks := by
          intro kc hin hf
          rcases hcond kc hin with h | h
          · simpa using h
          · rw [hf] at h; simp at h
        cases ext with
        | true =>
          have : specOwnKeysAccept true tk ks = true := by
            simp only [specOwnKeysAccept, decide_eq_true_eq]
            exact ⟨hnd, hA, by intro h; cases h⟩
          simp [this]
        | false =>
          have hB : ∀ kc ∈ tk, kc.1 ∈ ks := by
            intro kc hin
            rcases hcond kc hin with h | h
            · simpa using h
            · simp at h
          by_cases hS0 : S' = []
          · subst hS0
            have hC : ∀ k ∈ ks, k ∈ tk.map (·.1) := by
              intro k hk
              apply Classical.byContradiction
              intro hn
              have := (hx k).mpr ⟨by simpa using hk, hn⟩
              simp at this
            have : specOwnKeysAccept false tk ks = true := by
              simp only [specOwnKeysAccept, decide_eq_true_eq]
              exact ⟨hnd, hA, fun _ => ⟨hB, hC⟩⟩
            simp [this]
          · have hlen : S'.length > 0 := List.length_pos_iff.mpr hS0
            obtain ⟨x, hxS⟩ := List.exists_mem_of_ne_nil S' hS0
            have hx' := (hx x).mp hxS
            have hks : ks.length > 0 := List.length_pos_iff.mpr (by
              intro e; rw [e] at hx'; simp at hx')
            have : specOwnKeysAccept false tk ks = false := by
              simp only [specOwnKeysAccept, decide_eq_false_iff_not]
              intro h
              have := (h.2.2 trivial).2 x (by simpa using hx'.1)
              exact hx'.2 this
            simp [this, hlen, hks]
      · rw [hte]
        have : specOwnKeysAccept ext tk ks = false := by
          simp only [specOwnKeysAccept, decide_eq_false_iff_not]
          intro h
          apply hcond
          intro kc hin
          by_cases hm : kc.1 ∈ ks
          · left; simpa using hm
          · right
            constructor
            · cases he : ext with
              | true => rfl
              | false => exact absurd ((h.2.2 he).1 kc hin) hm
            · cases hc : kc.2 with
              | true => rfl
              | false => exact absurd (h.2.1 kc hin hc) hm
        simp [this]
    · rw [if_neg hnd]
      have : specOwnKeysAccept ext tk ks = false := by
        simp only [specOwnKeysAccept, decide_eq_false_iff_not]
        intro h; exact hnd h.1
      simp [this]

/-- §10.5.11 [[OwnPropertyKeys]], completeness for the honest answer: the target's own duplicate-free key list is
accepted unchanged whatever the extensibility (used by `layer_ownKeys`). -/
theorem ownKeys_honest_accepted (ext : Bool) (ks : List Key) (h : ks.Nodup) :
    mechOwnKeys ext (ks.map (fun k => (k, true))) (ks.map KItem.key) = .ok ks :=
  ownKeys_honest ext ks h

/-- §10.5.11 soundness, first loop: a trap result with an element that is neither String nor Symbol, or with a
duplicate, is rejected (by the mechanism and by the spec) -/
theorem ownKeys_rejects_invalid (ext : Bool) (tk : List (Key × Bool)) (pre post : List KItem) :
    mechOwnKeys ext tk (pre ++ KItem.invalid :: post) = .typeError ∧
    specOwnKeys ext tk (pre ++ KItem.invalid :: post) = .typeError := by
  constructor
  · simp only [mechOwnKeys, ownKeysWith]
    have : ∀ kl ks, loop1With ownKeysStep1 (pre ++ KItem.invalid :: post) kl ks = .typeError := by
      induction pre with
      | nil => intro kl ks; simp [loop1With, ownKeysStep1]
      | cons a rest ih =>
        intro kl ks
        cases a with
        | invalid => simp [loop1With, ownKeysStep1]
        | key k =>
          simp only [List.cons_append, loop1With, ownKeysStep1]
          split
          · rfl
          · simp [ih]
    simp [this]
  · simp only [specOwnKeys]
    have : keysOfItems (pre ++ KItem.invalid :: post) = none := by
      induction pre with
      | nil => simp [keysOfItems]
      | cons a rest ih => cases a <;> simp [keysOfItems, ih]
    simp [this]

/-- non-vacuity of `Lawful` and of the forwarding theorems: an object with two frozen data properties, mutable
prototype and extensibility is lawful, hence three forwarding layers over it are transparent for every history -/
example (ops : List Op) (s : FState) :
    (stack isCompatible toValueProp (fun _ _ s => s) (frozenOps [(.str 1, .num 7), (.sym 1, .undef)]) 3).runAll ops s =
      (frozenOps [(.str 1, .num 7), (.sym 1, .undef)]).runAll ops s :=
  forwarding_transparent_histories (frozen_lawful _) 3 ops s


/-- §10.5.13 [[Construct]]: the trap result is accepted iff it is an object -/
theorem construct_eq_spec (v : Val) : mechConstruct v = specConstruct v := by
  cases v <;> rfl

/-! ## own-keys: completeness and soundness as corollaries of `ownKeys_eq_spec` -/

theorem keysOfItems_map_key (ks : List Key) : keysOfItems (ks.map KItem.key) = some ks := by
  induction ks with
  | nil => rfl
  | cons k rest ih => simp [keysOfItems, ih]

/-- COMPLETENESS of [[OwnPropertyKeys]]: every trap result the spec admits — any duplicate-free key list that contains
the target's non-configurable keys and, for a non-extensible target, is a permutation of its keys — is accepted
unchanged (not only the target's own list in its own order). -/
theorem ownKeys_complete (ext : Bool) (tk : List (Key × Bool)) (ks : List Key) (hT : (tk.map (·.1)).Nodup)
    (h : specOwnKeysAccept ext tk ks = true) : mechOwnKeys ext tk (ks.map KItem.key) = .ok ks := by
  rw [ownKeys_eq_spec ext tk _ hT]
  simp [specOwnKeys, keysOfItems_map_key, h]

/-- SOUNDNESS of [[OwnPropertyKeys]]: whatever the mechanism accepts is a list of property keys the spec admits -/
theorem ownKeys_sound (ext : Bool) (tk : List (Key × Bool)) (items : List KItem) (ks : List Key)
    (hT : (tk.map (·.1)).Nodup) (h : mechOwnKeys ext tk items = .ok ks) :
    keysOfItems items = some ks ∧ specOwnKeysAccept ext tk ks = true := by
  rw [ownKeys_eq_spec ext tk items hT] at h
  simp only [specOwnKeys] at h
  cases hk : keysOfItems items with
  | none => simp [hk] at h
  | some ks' =>
    simp only [hk] at h
    split at h
    · rename_i hacc
      injection h with h; subst h
      exact ⟨rfl, hacc⟩
    · simp at h


/-! ## the enforced invariants, as a user of ANY proxy sees them

The `…_eq_spec` theorems say the checks are the spec's checks.  The theorems below spell out what that buys for an
ARBITRARY handler (the trap result is universally quantified): whenever the proxy operation completes normally, its result
is consistent with the facts the target guarantees — the list of "invariants enforced" in the NOTEs of ECMA-262 §10.5.1 –
§10.5.11 — on the mechanism functions transcribed from proxy.go. -/

/-- [[GetPrototypeOf]]: for a non-extensible target the proxy reports the target's prototype -/
theorem inv_getPrototypeOf (tp : Option Nat) (v : Val) (r : Option Nat)
    (h : mechGetProto false tp (some v) = .ok r) : r = tp := by
  rw [getProto_eq_spec] at h
  cases v <;> simp [specGetProto] at h <;> (try split at h) <;> simp_all

/-- [[SetPrototypeOf]]: success on a non-extensible target only for the target's own prototype -/
theorem inv_setPrototypeOf (tp p : Option Nat) (b thr : Bool)
    (h : mechSetProto false tp p b thr = .ok true) : p = tp := by
  rw [setProto_eq_spec] at h
  cases b <;> cases thr <;> simp [specSetProto] at h <;> (try split at h) <;> simp_all

/-- [[IsExtensible]]: the proxy reports the target's extensibility -/
theorem inv_isExtensible (ext b r : Bool) (h : mechIsExtensible ext b = .ok r) : r = ext := by
  cases ext <;> cases b <;> simp [mechIsExtensible] at h <;> simp_all

/-- [[PreventExtensions]]: reported success means the target is non-extensible -/
theorem inv_preventExtensions (ext b thr : Bool) (h : mechPreventExtensions ext b thr = .ok true) : ext = false := by
  cases ext <;> cases b <;> cases thr <;> simp [mechPreventExtensions] at h <;> rfl

/-- [[HasProperty]]: a property cannot be reported absent if it is non-configurable, or if it exists and the target is
non-extensible -/
theorem inv_has (prop : TProp) (ext b : Bool) (h : mechHas prop ext b = .ok false) :
    prop.toCur = none ∨ (∃ c, prop.toCur = some c ∧ c.configurable = true ∧ ext = true) := by
  rw [has_eq_spec] at h
  cases b
  · cases hc : prop.toCur with
    | none => left; rfl
    | some c =>
      right
      refine ⟨c, rfl, ?_⟩
      simp only [specHas, hc, specHasCheck] at h
      cases hcf : c.configurable <;> cases ext <;> simp_all
  · simp [specHas] at h

/-- [[Get]]: the value of a non-writable, non-configurable data property is reported exactly; a non-configurable accessor
without getter reads as undefined -/
theorem inv_get (prop : TProp) (hp : prop.WF) (v r : Val) (h : mechGet prop v = .ok r) :
    (∀ x e, prop.toCur = some (.data x false e false) → r = x) ∧
    (∀ s e, prop.toCur = some (.acc none s e false) → r = .undef) := by
  rw [get_eq_spec prop v hp] at h
  constructor
  · intro x e hc
    simp only [specGet, hc, specGetCheck] at h
    split at h <;> simp_all
  · intro s e hc
    simp only [specGet, hc, specGetCheck] at h
    split at h <;> simp_all

/-- [[Set]]: success cannot be reported for a different value of a non-writable, non-configurable data property, nor for
a non-configurable accessor without setter -/
theorem inv_set (prop : TProp) (hp : prop.WF) (v : Val) (b thr : Bool) (h : mechSet prop v b thr = .ok true) :
    (∀ x e, prop.toCur = some (.data x false e false) → v = x) ∧
    (∀ g e, prop.toCur ≠ some (.acc g none e false)) := by
  rw [set_eq_spec prop v b thr hp] at h
  cases b
  · cases thr <;> simp [specSet] at h
  · constructor
    · intro x e hc
      simp only [specSet, hc, specSetCheck] at h
      by_cases hv : v = x
      · exact hv
      · simp [hv] at h
    · intro g e hc
      simp [specSet, hc, specSetCheck] at h

/-- [[Delete]]: success cannot be reported for a non-configurable property, nor for an existing property of a
non-extensible target -/
theorem inv_delete (prop : TProp) (ext b thr : Bool) (h : mechDelete prop ext b thr = .ok true) :
    prop.toCur = none ∨ (∃ c, prop.toCur = some c ∧ c.configurable = true ∧ ext = true) := by
  rw [delete_eq_spec] at h
  cases b
  · cases thr <;> simp [specDelete, specDeleteCheck] at h
  · cases hc : prop.toCur with
    | none => left; rfl
    | some c =>
      right
      refine ⟨c, rfl, ?_⟩
      simp only [specDelete, hc, specDeleteCheck] at h
      cases hcf : c.configurable <;> cases ext <;> simp_all

/-- [[DefineOwnProperty]]: a property cannot be added to a non-extensible target, and cannot be made (or reported)
non-configurable unless a non-configurable property exists on the target -/
theorem inv_define (prop : TProp) (hp : prop.WF) (ext : Bool) (d : Desc) (hd : d.Valid) (b thr : Bool)
    (h : mechDefine isCompatible prop ext d b thr = .ok true) :
    (ext = false → prop.toCur ≠ none) ∧
    (d.configurable = .fals → ∃ c, prop.toCur = some c ∧ c.configurable = false) := by
  rw [define_eq_spec prop ext d b thr hd hp] at h
  cases b
  · cases thr <;> simp [specDefine] at h
  · simp only [specDefine, specDefineCheck] at h
    cases hc : prop.toCur with
    | none =>
      simp only [hc] at h
      constructor
      · intro he; subst he; simp at h
      · intro hcf
        cases ext <;> simp_all [Desc.toPD, Flag.toOpt]
    | some c =>
      simp only [hc] at h
      refine ⟨fun _ => by simp, ?_⟩
      intro hcf
      refine ⟨c, rfl, ?_⟩
      cases hcc : c.configurable
      · rfl
      · exfalso
        have hscf : (d.toPD.configurable == some false) = true := by simp [Desc.toPD, hcf, Flag.toOpt]
        simp only [Bool.not_true, Bool.false_eq_true, if_false, hscf, hcc, Bool.and_self, if_true] at h
        cases hcomp : specIsCompatible ext d.toPD (some c) <;> simp [hcomp] at h

theorem PD.complete_fields (d : PD) : d.complete.configurable.isSome ∧ d.complete.enumerable.isSome := by
  rcases d with ⟨v, w, g, s, e, c⟩
  simp only [PD.complete]
  split <;> simp

/-- in the descriptor branch every normal completion reports the completed descriptor -/
theorem specGopd_desc_result (c : Option Cur) (ext : Bool) (d : PD) (r : Option Cur)
    (h : specGopd c ext (.desc d) = .ok r) :
    r = some d.complete.toCur ∧ specIsCompatible ext d.complete c = true ∧
    (d.complete.configurable = some false → ∃ c0, c = some c0 ∧ c0.configurable = false) := by
  simp only [specGopd] at h
  split at h
  · simp at h
  · rename_i hcomp
    have hcomp' : specIsCompatible ext d.complete c = true := by simpa using hcomp
    split at h
    · rename_i hcf
      have hcf' : d.complete.configurable = some false := by simpa using hcf
      cases c with
      | none => simp at h
      | some c0 =>
        simp only at h
        split at h
        · simp at h
        · rename_i hc0
          have hc0' : c0.configurable = false := by simpa using hc0
          refine ⟨?_, hcomp', fun _ => ⟨c0, rfl, hc0'⟩⟩
          split at h
          · split at h
            · simp at h
            · injection h with h; exact h.symm
          · injection h with h; exact h.symm
    · rename_i hcf
      injection h with h
      exact ⟨h.symm, hcomp', fun hx => by simp [hx] at hcf⟩

/-- [[GetOwnProperty]], arbitrary handler: a non-configurable property cannot be reported absent, nor an existing one on a
non-extensible target; a property absent from a non-extensible target is reported absent; a property cannot be reported
non-configurable unless the target has it non-configurable -/
theorem inv_getOwnProperty (prop : TProp) (hp : prop.WF) (ext : Bool) (trap : TrapDesc)
    (ht : ∀ d, trap = .obj d → d.Valid) (r : TProp) (h : mechGopd isCompatible toValueProp prop ext trap = .ok r) :
    (r.toCur = none → prop.toCur = none ∨ ∃ c, prop.toCur = some c ∧ c.configurable = true ∧ ext = true) ∧
    (prop.toCur = none → ext = false → r.toCur = none) ∧
    (∀ c', r.toCur = some c' → c'.configurable = false → ∃ c, prop.toCur = some c ∧ c.configurable = false) := by
  have hs := gopd_eq_spec prop ext trap ht hp
  rw [h] at hs
  simp only at hs
  cases trap with
  | nonObject => simp [specGopd, TrapDesc.toSpec] at hs
  | undef =>
    simp only [specGopd, TrapDesc.toSpec] at hs
    cases hc : prop.toCur with
    | none =>
      simp only [hc] at hs
      injection hs with hs
      exact ⟨fun _ => Or.inl rfl, (fun _ _ => hs), (fun c' hc' _ => by rw [hs] at hc'; cases hc')⟩
    | some c =>
      simp only [hc] at hs
      cases hcf : c.configurable <;> cases ext <;> simp [hcf] at hs
      exact ⟨fun _ => Or.inr ⟨c, rfl, hcf, rfl⟩, (fun hn => by cases hn), (fun c' hc' _ => by rw [hs] at hc'; cases hc')⟩
  | obj d =>
    simp only [TrapDesc.toSpec] at hs
    obtain ⟨hr, hcomp, hnc⟩ := specGopd_desc_result prop.toCur ext d.toPD r.toCur hs.symm
    refine ⟨(fun hn => by rw [hn] at hr; cases hr), ?_, ?_⟩
    · intro hn he
      rw [hn, he] at hcomp
      simp [specIsCompatible] at hcomp
    · intro c' hc' hcf'
      rw [hr] at hc'
      injection hc' with hc'
      apply hnc
      -- a completed descriptor reports exactly its own `configurable`
      obtain ⟨h1, _⟩ := PD.complete_fields d.toPD
      cases hcc : d.toPD.complete.configurable with
      | none => simp [hcc] at h1
      | some b =>
        have : c'.configurable = b := by
          rw [← hc']; simp only [PD.toCur]; split <;> simp [Cur.configurable, hcc]
        rw [hcf'] at this
        rw [← this]

/-- [[OwnPropertyKeys]]: the result has no duplicates, contains every non-configurable own key of the target, and for a
non-extensible target is exactly the target's key set -/
theorem inv_ownKeys (ext : Bool) (tk : List (Key × Bool)) (items : List KItem) (ks : List Key)
    (hT : (tk.map (·.1)).Nodup) (h : mechOwnKeys ext tk items = .ok ks) :
    ks.Nodup ∧ (∀ kc ∈ tk, kc.2 = false → kc.1 ∈ ks) ∧
    (ext = false → (∀ kc ∈ tk, kc.1 ∈ ks) ∧ ∀ k ∈ ks, k ∈ tk.map (·.1)) := by
  have := (ownKeys_sound ext tk items ks hT h).2
  simp only [specOwnKeysAccept, decide_eq_true_eq] at this
  exact ⟨this.1, fun kc hkc hf => this.2.1 kc hkc hf, fun he => ⟨(this.2.2 he).1, (this.2.2 he).2⟩⟩

/-! ## the ordinary object as a concrete lawful target -/

/-- the ordinary object (§10.1; Ordinary.lean `ordOps`: mutable own properties with full
ValidateAndApplyPropertyDescriptor, prototype, extensibility; prototype chain and getter/setter calls as opaque pure
oracles) satisfies the essential invariants -/
theorem ordObj_lawful (E : Env) : Lawful ordQueries (ordOps E) := ord_lawful E

/-- FORWARDING TRANSPARENCY for a concrete target: any number of forwarding proxy layers over an ordinary object, under
any operation history from any state — same observations, same final object state -/
theorem forwarding_transparent_ordinary (E : Env) (n : Nat) (ops : List Op) (s : OState) :
    (stack isCompatible toValueProp (fun _ _ s => s) (ordOps E) n).runAll ops s = (ordOps E).runAll ops s :=
  forwarding_transparent_histories (ordObj_lawful E) n ops s

def demoEnv : Env :=
  { self := 1, inhHas := fun _ _ => false, inhGet := fun _ _ _ => .undef, inhSet := fun _ _ _ _ => none,
    callGetter := fun _ _ => .num 1, cyc := fun _ => false, callable := true, constructor := true,
    callF := fun _ args s => (.ok (args.headD .undef), s), consF := fun _ _ s => (.ok 9, s) }

/-- test (non-vacuity, and the model really mutates): through two forwarding layers, define a non-configurable
property, fail to delete it, redefine it incompatibly (refused), read it, prevent extensions, fail to add -/
example :
    ((stack isCompatible toValueProp (fun _ _ s => s) (ordOps demoEnv) 2).runAll
      [.define (.str 1) { value := some (.num 7), writable := some false, get := none, set := none,
                          enumerable := some true, configurable := some false },
       .delete (.str 1),
       .define (.str 1) { value := some (.num 8), writable := none, get := none, set := none, enumerable := none, configurable := none },
       .get (.str 1) (.obj 1), .prevExt, .set (.str 2) (.num 1) (.obj 1), .ownKeys]
      { ext := true, proto := none, props := [] }).1 =
    [.bool (.ok true), .bool (.ok false), .bool (.ok false), .val (.ok (.num 7)), .bool (.ok true), .bool (.ok false),
     .keys (.ok [.str 1])] := by
  rw [forwarding_transparent_ordinary]
  decide



/-- test: typeof / call / construct through two layers over a function object -/
example :
    ((stack isCompatible toValueProp (fun _ _ s => s) (ordOps demoEnv) 2).runAll
      [.typeof, .call .undef [.num 5], .construct [] (.obj 1)] { ext := true, proto := none, props := [] }).1 =
    [.kind true true, .val (.ok (.num 5)), .obj (.ok 9)] := by
  rw [forwarding_transparent_ordinary]
  decide

/-! ## exotic targets -/

/-- the String wrapper, and any ordinary object extended by a fixed block of non-writable, non-configurable data
properties synthesised by an exotic [[GetOwnProperty]] (§10.4.3), is lawful -/
theorem string_wrapper_lawful (E : Env) (fx : Fixed) : Lawful (fixedQueries fx) (fixedOps E fx) := fixed_lawful E fx

/-- … hence n forwarding layers over `new String(units)` are transparent for every history -/
theorem forwarding_transparent_string (E : Env) (idx : Nat → Key) (lenKey : Key) (units : List Val) (n : Nat)
    (ops : List Op) (s : OState) :
    (stack isCompatible toValueProp (fun _ _ s => s) (fixedOps E (stringFixed idx lenKey units)) n).runAll ops s =
      (fixedOps E (stringFixed idx lenKey units)).runAll ops s :=
  forwarding_transparent_histories (string_wrapper_lawful E _) n ops s

/-- a function object is an ordinary object with [[Call]] / [[Construct]] (`Env.callable`, `Env.constructor`): n layers
over it forward `typeof`, calls and constructions as well as the eleven other methods -/
theorem forwarding_transparent_function (E : Env) (n : Nat) (ops : List Op) (s : OState) :
    (stack isCompatible toValueProp (fun _ _ s => s) (ordOps E) n).runAll ops s = (ordOps E).runAll ops s ∧
    (stack isCompatible toValueProp (fun _ _ s => s) (ordOps E) n).callable = E.callable ∧
    (stack isCompatible toValueProp (fun _ _ s => s) (ordOps E) n).constructor = E.constructor := by
  refine ⟨forwarding_transparent_ordinary E n ops s, ?_⟩
  have := callable_forwarded_layers isCompatible toValueProp (fun (_ : Nat) (_ : Trap) (s : OState) => s) (ordOps E) n
  simpa [ordOps] using this

/-- the Integer-Indexed exotic object (typed array, §10.4.5: element block addressed by numeric keys, stored values
converted, out-of-range numeric keys inexistent) is lawful -/
theorem typedarray_lawful (T : TEnv) : Lawful (taQueries T) (taOps T) := ta_lawful T

theorem forwarding_transparent_typedarray (T : TEnv) (n : Nat) (ops : List Op) (s : TState) :
    (stack isCompatible toValueProp (fun _ _ s => s) (taOps T) n).runAll ops s = (taOps T).runAll ops s :=
  forwarding_transparent_histories (typedarray_lawful T) n ops s

/-- the mapped arguments exotic object (§10.4.4: index properties aliased to the formal parameters through the parameter
map, unmapped by accessor / non-writable redefinition and by delete) is lawful; a strict (unmapped) arguments object is an
ordinary object (`ordObj_lawful`) -/
theorem arguments_lawful (E : Env) : Lawful argQueries (argOps E) := arg_lawful E

theorem forwarding_transparent_arguments (E : Env) (n : Nat) (ops : List Op) (s : MState) :
    (stack isCompatible toValueProp (fun _ _ s => s) (argOps E) n).runAll ops s = (argOps E).runAll ops s :=
  forwarding_transparent_histories (arguments_lawful E) n ops s

/-- test: through two layers over `arguments` of f(a=10, b=20): read the mapped value, write it (the parameter changes),
redefine index 0 non-writable (mapping removed, value frozen), fail to write, delete index 1 -/
example :
    ((stack isCompatible toValueProp (fun _ _ s => s) (argOps demoEnv) 2).runAll
      [.get (.str 1) (.obj 1), .set (.str 1) (.num 11) (.obj 1), .get (.str 1) (.obj 1),
       .define (.str 1) { value := none, writable := some false, get := none, set := none, enumerable := none, configurable := none },
       .set (.str 1) (.num 12) (.obj 1), .getOwn (.str 1), .delete (.str 2), .has (.str 2)]
      { o := { ext := true, proto := none, props := [(.str 1, .data (.num 10) true true true), (.str 2, .data (.num 20) true true true)] },
        map := [(.str 1, 0), (.str 2, 1)], params := [.num 10, .num 20] }).1 =
    [.val (.ok (.num 10)), .bool (.ok true), .val (.ok (.num 11)), .bool (.ok true), .bool (.ok false),
     .desc (.ok (some (.data (.num 11) false true true))), .bool (.ok true), .bool (.ok false)] := by
  rw [forwarding_transparent_arguments]
  decide

/-- the Array exotic object (§10.4.2: ArraySetLength with conversion and truncation, index definitions bumping `length`)
is lawful on its admissible inputs: `length` descriptors whose value is already the canonical uint32 number -/
theorem array_lawfulOn (A : AEnv) : LawfulOn (arrAdm A) (arrQueries A) (arrOps A) := arr_lawfulOn A

/-- … hence n forwarding layers over an array are transparent for every history whose `length` definitions are canonical -/
theorem forwarding_transparent_array (A : AEnv) (n : Nat) (ops : List Op) (s : AState)
    (ha : admHist (arrOps A) (arrAdm A) ops s) :
    (stack isCompatible toValueProp (fun _ _ s => s) (arrOps A) n).runAll ops s = (arrOps A).runAll ops s :=
  forwarding_transparent_on_histories (array_lawfulOn A) n ops s ha

def demoArr : AEnv :=
  { E := demoEnv, lenKey := .str 0, idxOf := fun k => match k with | .str (n + 1) => some n | _ => none,
    toLen := fun v => match v with
      | .num n => if 0 ≤ n then some n.toNat else none
      | .str 33 => some 3                     -- the string "3": ToUint32("3") = ToNumber("3") = 3
      | _ => none }

/-- SPEC-MANDATED NON-TRANSPARENCY (why `LawfulOn` and not `Lawful` for arrays): defining `length` with a value that
ArraySetLength CONVERTS (here the string "3") together with `writable: false` succeeds on the array but leaves
`length = 3`, which is not SameValue to "3": the essential invariant phrased through §10.5.6 fails, and by §10.5.6 step
16.a a forwarding proxy throws TypeError where the array answers true. -/
theorem arr_noncanonical_length_witness : ¬ Lawful (arrQueries demoArr) (arrOps demoArr) := by
  intro h
  have := h.define_inv (.str 0)
    { value := some (.str 33), writable := some false, get := none, set := none, enumerable := none, configurable := none }
    { o := { ext := true, proto := none, props := [] }, len := 5, lenW := true }
    { o := { ext := true, proto := none, props := [] }, len := 3, lenW := false } (by decide)
  revert this
  decide

/-- test: an admissible history on an array through two layers — define index 4 (length becomes 5), shrink `length` to
2 with a non-configurable element at index 3 in the way (fails, stops at 4), freeze `length`, fail to append -/
example :
    ((stack isCompatible toValueProp (fun _ _ s => s) (arrOps demoArr) 2).runAll
      [.define (.str 5) { value := some (.num 7), writable := some true, get := none, set := none, enumerable := some true, configurable := some true },
       .define (.str 4) { value := some (.num 8), writable := some true, get := none, set := none, enumerable := some true, configurable := some false },
       .get (.str 0) .undef,
       .define (.str 0) { value := some (.num 2), writable := none, get := none, set := none, enumerable := none, configurable := none },
       .get (.str 0) .undef,
       .define (.str 0) { value := none, writable := some false, get := none, set := none, enumerable := none, configurable := none },
       .set (.str 9) (.num 1) (.obj 1)]
      { o := { ext := true, proto := none, props := [] }, len := 0, lenW := true }).1 =
    [.bool (.ok true), .bool (.ok true), .val (.ok (.num 5)), .bool (.ok false), .val (.ok (.num 4)), .bool (.ok true),
     .bool (.ok false)] := by
  rw [forwarding_transparent_array demoArr 2 _ _ (by simp [admHist, Op.adm, arrAdm, demoArr])]
  decide

/-! ## forwarding transparency WITH trap logging

The theorems above switch the trap log off.  Here every layer `i` appends `(i, trap)` to a log kept next to the base
state (`logAt`), exactly as the instrumented handlers of the lock-step correspondence do (Seq.lean runs the same
`stack` over a scripted base).  `SimLog A B`: `A` (over base state × log) returns what `B` (over the base state)
returns and leaves the base state `B` leaves, whatever the log.  A logging forwarding layer preserves `SimLog`
(`simLog_layer`), hence so do n layers (`simLog_stack`) and whole histories (`forwarding_transparent_logged`). -/

section logged
variable {β : Type} {q : Queries β} {B : Ops β} {A : Ops (β × TLog)} {adm : Key → PD → β → Prop}

local notation "LL" i => proxyLayer isCompatible toValueProp (logAt i)

theorem simLog_isExt (h : LawfulCore q B) (hs : SimLog adm A B) (i : Nat) :
    ∀ b l, ∃ l', ((LL i) A).isExt (b, l) = ((B.isExt b).1, ((B.isExt b).2, l')) := by
  intro b l
  simp only [proxyLayer, logAt]
  obtain ⟨l1, h1⟩ := hs.isExt b (l ++ [(i, .isExtensible)])
  rw [h1, h.isExt_eq]
  simp only [bindR_ok]
  obtain ⟨l2, h2⟩ := hs.isExt b l1
  rw [h2, h.isExt_eq]
  simp only [bindR_ok]
  cases q.ext b <;> exact ⟨l2, by simp [mechIsExtensible]⟩


theorem simLog_getProto (h : LawfulCore q B) (hs : SimLog adm A B) (i : Nat) :
    ∀ b l, ∃ l', ((LL i) A).getProto (b, l) = ((B.getProto b).1, ((B.getProto b).2, l')) := by
  intro b l
  simp only [proxyLayer, logAt]
  obtain ⟨l1, h1⟩ := hs.getProto b (l ++ [(i, .getPrototypeOf)])
  rw [h1, h.getProto_eq]
  simp only [bindR_ok]
  obtain ⟨l2, h2⟩ := hs.isExt b l1
  rw [h2, h.isExt_eq]
  simp only [bindR_ok]
  cases he : q.ext b
  · obtain ⟨l3, h3⟩ := hs.getProto b l2
    simp only [Bool.false_eq_true, if_false]
    rw [h3, h.getProto_eq]
    simp only [bindR_ok]
    exact ⟨l3, by cases q.proto b <;> simp [mechGetProto, toObject?, sameObj]⟩
  · exact ⟨l2, by simp⟩

theorem simLog_setProto (h : LawfulCore q B) (hs : SimLog adm A B) (i : Nat) :
    ∀ p b l, ∃ l', ((LL i) A).setProto p (b, l) = ((B.setProto p b).1, ((B.setProto p b).2, l')) := by
  intro p b l
  simp only [proxyLayer, logAt]
  obtain ⟨l1, h1⟩ := hs.setProto p b (l ++ [(i, .setPrototypeOf)])
  rw [h1]
  rcases hr : B.setProto p b with ⟨r, b'⟩
  cases r with
  | typeError => exact ⟨l1, by simp⟩
  | ok bb =>
    cases bb
    · exact ⟨l1, by simp⟩
    · simp only [bindR_ok, if_true]
      obtain ⟨l2, h2⟩ := hs.isExt b' l1
      rw [h2, h.isExt_eq]
      simp only [bindR_ok]
      rcases h.setProto_inv p b b' hr with he | hp
      · exact ⟨l2, by simp [he]⟩
      · cases he : q.ext b'
        · obtain ⟨l3, h3⟩ := hs.getProto b' l2
          simp only [Bool.false_eq_true, if_false]
          rw [h3, h.getProto_eq]
          exact ⟨l3, by simp [mechSetProto, sameObj, hp]⟩
        · exact ⟨l2, by simp⟩

theorem simLog_prevExt (h : LawfulCore q B) (hs : SimLog adm A B) (i : Nat) :
    ∀ b l, ∃ l', ((LL i) A).prevExt (b, l) = ((B.prevExt b).1, ((B.prevExt b).2, l')) := by
  intro b l
  simp only [proxyLayer, logAt]
  obtain ⟨l1, h1⟩ := hs.prevExt b (l ++ [(i, .preventExtensions)])
  rw [h1]
  rcases hr : B.prevExt b with ⟨r, b'⟩
  cases r with
  | typeError => exact ⟨l1, by simp⟩
  | ok bb =>
    cases bb
    · exact ⟨l1, by simp⟩
    · obtain ⟨l2, h2⟩ := hs.isExt b' l1
      simp only [bindR_ok, Bool.not_true, Bool.false_eq_true, if_false]
      rw [h2, h.isExt_eq]
      exact ⟨l2, by simp [h.prevExt_inv b b' hr, mechPreventExtensions]⟩

theorem simLog_getOwn (h : LawfulCore q B) (hs : SimLog adm A B) (i : Nat) :
    ∀ k b l, ∃ l', ((LL i) A).getOwn k (b, l) = ((B.getOwn k b).1, ((B.getOwn k b).2, l')) := by
  intro k b l
  simp only [proxyLayer, logAt]
  obtain ⟨l1, h1⟩ := hs.getOwn k b (l ++ [(i, .getOwnPropertyDescriptor)])
  rw [h1, h.getOwn_eq]
  simp only [bindR_ok]
  obtain ⟨l2, h2⟩ := hs.getOwn k b l1
  rw [h2, h.getOwn_eq]
  simp only [bindR_ok]
  cases hc : q.own k b with
  | none => exact ⟨l2, by simp [gopdCheckWith, optCurToTProp, propToValueProp, TProp.toOptCur, TProp.toCur]⟩
  | some c =>
    obtain ⟨l3, h3⟩ := hs.isExt b l2
    obtain ⟨r, hr, hrc⟩ := gopd_honest c (q.ext b)
    refine ⟨l3, ?_⟩
    simp [optCurToTProp, h3, h.isExt_eq, hr, TProp.toOptCur, hrc]

theorem simLog_ownKeys (h : LawfulCore q B) (hs : SimLog adm A B) (i : Nat) :
    ∀ b l, ∃ l', ((LL i) A).ownKeys (b, l) = ((B.ownKeys b).1, ((B.ownKeys b).2, l')) := by
  intro b l
  simp only [proxyLayer, logAt]
  obtain ⟨l1, h1⟩ := hs.ownKeys b (l ++ [(i, .ownKeys)])
  rw [h1, h.ownKeys_eq]
  simp only [bindR_ok]
  obtain ⟨l2, h2⟩ := hs.isExt b l1
  rw [h2, h.isExt_eq]
  simp only [bindR_ok]
  obtain ⟨l3, h3⟩ := hs.ownKeys b l2
  rw [h3, h.ownKeys_eq]
  exact ⟨l3, by simp [ownKeys_honest (q.ext b) (q.keys b) (h.keys_nodup b)]⟩


theorem simLog_define (h : LawfulOn adm q B) (hs : SimLog adm A B) (i : Nat) :
    ∀ k d b l, adm k d b → ∃ l', ((LL i) A).define k d (b, l) = ((B.define k d b).1, ((B.define k d b).2, l')) := by
  intro k d b l hadm
  simp only [proxyLayer, logAt]
  obtain ⟨l1, h1⟩ := hs.define k d b (l ++ [(i, .defineProperty)]) hadm
  rw [h1]
  by_cases hwf : d.WF
  · rcases hr : B.define k d b with ⟨r, b'⟩
    cases r with
    | typeError => exact ⟨l1, by simp⟩
    | ok bb =>
      cases bb
      · exact ⟨l1, by simp⟩
      · obtain ⟨l2, h2⟩ := hs.getOwn k b' l1
        obtain ⟨l3, h3⟩ := hs.isExt b' l2
        refine ⟨l3, ?_⟩
        simp only [bindR_ok, Bool.not_true, Bool.false_eq_true, if_false]
        rw [h2, h.getOwn_eq]
        simp only [bindR_ok]
        rw [h3, h.isExt_eq]
        simp only [bindR_ok]
        have hspec := h.define_inv_on k d b b' hadm hr
        have hm : mechDefine isCompatible (optCurToTProp (q.own k b')) (q.ext b') d.toDesc true false = .ok true := by
          rw [define_eq_spec _ _ _ _ _ (PD.toDesc_valid d hwf) (optCur_wf _), optCur_toCur, PD.toDesc_toPD]
          simp [specDefine, hspec]
        simp [mechDefine_ok_post hm]
  · exact ⟨l1, by simp [h.define_wf k d b hwf]⟩

theorem simLog_has (h : LawfulCore q B) (hs : SimLog adm A B) (i : Nat) :
    ∀ k b l, ∃ l', ((LL i) A).has k (b, l) = ((B.has k b).1, ((B.has k b).2, l')) := by
  intro k b l
  simp only [proxyLayer, logAt]
  obtain ⟨l1, h1⟩ := hs.has k b (l ++ [(i, .has)])
  rw [h1]
  rcases hr : B.has k b with ⟨r, b'⟩
  cases r with
  | typeError => exact ⟨l1, by simp⟩
  | ok bb =>
    cases bb
    · obtain ⟨l2, h2⟩ := hs.getOwn k b' l1
      simp only [bindR_ok, Bool.false_eq_true, if_false]
      rw [h2, h.getOwn_eq]
      simp only [bindR_ok]
      have hspec := h.has_inv k b b' hr
      have hm := has_eq_spec (optCurToTProp (q.own k b')) (q.ext b') false
      rw [optCur_toCur] at hm
      simp only [mechHas, specHas, hspec] at hm
      cases hc : q.own k b' with
      | none => exact ⟨l2, by simp [hasCheck, optCurToTProp, propToValueProp]⟩
      | some td =>
        rw [hc] at hspec hm
        cases hcf : td.configurable
        · simp [specHasCheck, hcf] at hspec
        · obtain ⟨l3, h3⟩ := hs.isExt b' l2
          refine ⟨l3, ?_⟩
          cases hh : hasCheck (optCurToTProp (some td)) (q.ext b') with
          | ok u => cases u; simp [hcf, h3, h.isExt_eq, hh]
          | typeError => simp [hh] at hm
    · exact ⟨l1, by simp⟩

theorem simLog_get (h : LawfulCore q B) (hs : SimLog adm A B) (i : Nat) :
    ∀ k r b l, ∃ l', ((LL i) A).get k r (b, l) = ((B.get k r b).1, ((B.get k r b).2, l')) := by
  intro k rcv b l
  simp only [proxyLayer, logAt]
  obtain ⟨l1, h1⟩ := hs.get k rcv b (l ++ [(i, .get)])
  rw [h1]
  rcases hr : B.get k rcv b with ⟨r, b'⟩
  cases r with
  | typeError => exact ⟨l1, by simp⟩
  | ok v =>
    obtain ⟨l2, h2⟩ := hs.getOwn k b' l1
    refine ⟨l2, ?_⟩
    simp only [bindR_ok]
    rw [h2, h.getOwn_eq]
    simp only [bindR_ok]
    have hspec := h.get_inv k rcv b v b' hr
    have hm := get_eq_spec (optCurToTProp (q.own k b')) v (optCur_wf _)
    rw [optCur_toCur] at hm
    simp only [mechGet, specGet, hspec] at hm
    cases hh : getCheck (optCurToTProp (q.own k b')) v with
    | ok u => cases u; simp
    | typeError => simp [hh] at hm

theorem simLog_set (h : LawfulCore q B) (hs : SimLog adm A B) (i : Nat) :
    ∀ k v r b l, ∃ l', ((LL i) A).set k v r (b, l) = ((B.set k v r b).1, ((B.set k v r b).2, l')) := by
  intro k v rcv b l
  simp only [proxyLayer, logAt]
  obtain ⟨l1, h1⟩ := hs.set k v rcv b (l ++ [(i, .set)])
  rw [h1]
  rcases hr : B.set k v rcv b with ⟨r, b'⟩
  cases r with
  | typeError => exact ⟨l1, by simp⟩
  | ok bb =>
    cases bb
    · exact ⟨l1, by simp⟩
    · obtain ⟨l2, h2⟩ := hs.getOwn k b' l1
      refine ⟨l2, ?_⟩
      simp only [bindR_ok, Bool.not_true, Bool.false_eq_true, if_false]
      rw [h2, h.getOwn_eq]
      simp only [bindR_ok]
      have hspec := h.set_inv k v rcv b b' hr
      have hm := set_eq_spec (optCurToTProp (q.own k b')) v true false (optCur_wf _)
      rw [optCur_toCur] at hm
      simp only [mechSet, specSet, hspec] at hm
      cases hh : setPostCheck (optCurToTProp (q.own k b')) v with
      | ok u => cases u; simp
      | typeError => simp [hh] at hm

theorem simLog_delete (h : LawfulCore q B) (hs : SimLog adm A B) (i : Nat) :
    ∀ k b l, ∃ l', ((LL i) A).delete k (b, l) = ((B.delete k b).1, ((B.delete k b).2, l')) := by
  intro k b l
  simp only [proxyLayer, logAt]
  obtain ⟨l1, h1⟩ := hs.delete k b (l ++ [(i, .deleteProperty)])
  rw [h1]
  rcases hr : B.delete k b with ⟨r, b'⟩
  cases r with
  | typeError => exact ⟨l1, by simp⟩
  | ok bb =>
    obtain ⟨l2, h2⟩ := hs.getOwn k b' l1
    simp only [bindR_ok]
    rw [h2, h.getOwn_eq]
    simp only [bindR_ok]
    cases bb
    · exact ⟨l2, by simp [deleteCheck]⟩
    · have hspec := h.delete_inv k b b' hr
      have hm := delete_eq_spec (optCurToTProp (q.own k b')) (q.ext b') true false
      rw [optCur_toCur] at hm
      simp only [mechDelete, specDelete, hspec] at hm
      cases hc : q.own k b' with
      | none => exact ⟨l2, by simp [deleteCheck, optCurToTProp]⟩
      | some td =>
        rw [hc] at hspec hm
        cases hcf : td.configurable
        · simp [specDeleteCheck, hcf] at hspec
        · obtain ⟨l3, h3⟩ := hs.isExt b' l2
          refine ⟨l3, ?_⟩
          cases hh : deleteCheck true (optCurToTProp (some td)) (q.ext b') false with
          | ok u => cases u; simp [hcf, h3, h.isExt_eq, hh]
          | typeError => simp [hh] at hm

theorem simLog_call (h : LawfulCore q B) (hs : SimLog adm A B) (i : Nat) :
    ∀ this args b l, ∃ l', ((LL i) A).call this args (b, l) = ((B.call this args b).1, ((B.call this args b).2, l')) := by
  intro this args b l
  simp only [proxyLayer, logAt, hs.callable]
  cases hc : B.callable
  · exact ⟨l, by simp [h.call_nc hc]⟩
  · obtain ⟨l1, h1⟩ := hs.call this args b (l ++ [(i, .apply)])
    refine ⟨l1, ?_⟩
    simp only [Bool.not_true, Bool.false_eq_true, if_false, h1]
    rcases B.call this args b with ⟨r, b'⟩
    cases r <;> rfl

theorem simLog_construct (h : LawfulCore q B) (hs : SimLog adm A B) (i : Nat) :
    ∀ args nt b l, ∃ l', ((LL i) A).construct args nt (b, l) = ((B.construct args nt b).1, ((B.construct args nt b).2, l')) := by
  intro args nt b l
  simp only [proxyLayer, logAt, hs.constructor]
  cases hc : B.constructor
  · exact ⟨l, by simp [h.construct_nc hc]⟩
  · obtain ⟨l1, h1⟩ := hs.construct args nt b (l ++ [(i, .construct)])
    refine ⟨l1, ?_⟩
    simp only [Bool.not_true, Bool.false_eq_true, if_false, h1]
    rcases B.construct args nt b with ⟨r, b'⟩
    cases r <;> rfl

/-- one logging forwarding layer preserves "behaves as B up to the log" -/
theorem simLog_layer (h : LawfulOn adm q B) (hs : SimLog adm A B) (i : Nat) : SimLog adm ((LL i) A) B where
  getProto := simLog_getProto h.toLawfulCore hs i
  setProto := simLog_setProto h.toLawfulCore hs i
  isExt := simLog_isExt h.toLawfulCore hs i
  prevExt := simLog_prevExt h.toLawfulCore hs i
  getOwn := simLog_getOwn h.toLawfulCore hs i
  define := simLog_define h hs i
  has := simLog_has h.toLawfulCore hs i
  get := simLog_get h.toLawfulCore hs i
  set := simLog_set h.toLawfulCore hs i
  delete := simLog_delete h.toLawfulCore hs i
  ownKeys := simLog_ownKeys h.toLawfulCore hs i
  callable := by simp [proxyLayer, hs.callable]
  constructor := by simp [proxyLayer, hs.constructor]
  call := simLog_call h.toLawfulCore hs i
  construct := simLog_construct h.toLawfulCore hs i

theorem simLog_lift (B : Ops β) : SimLog adm (liftOps B) B where
  getProto := fun _ l => ⟨l, rfl⟩
  setProto := fun _ _ l => ⟨l, rfl⟩
  isExt := fun _ l => ⟨l, rfl⟩
  prevExt := fun _ l => ⟨l, rfl⟩
  getOwn := fun _ _ l => ⟨l, rfl⟩
  define := fun _ _ _ l _ => ⟨l, rfl⟩
  has := fun _ _ l => ⟨l, rfl⟩
  get := fun _ _ _ l => ⟨l, rfl⟩
  set := fun _ _ _ _ l => ⟨l, rfl⟩
  delete := fun _ _ l => ⟨l, rfl⟩
  ownKeys := fun _ l => ⟨l, rfl⟩
  callable := rfl
  constructor := rfl
  call := fun _ _ _ l => ⟨l, rfl⟩
  construct := fun _ _ _ l => ⟨l, rfl⟩

theorem simLog_stack (h : LawfulOn adm q B) (n : Nat) :
    SimLog adm (stack isCompatible toValueProp (fun i => logAt i) (liftOps B) n) B := by
  induction n with
  | zero => exact simLog_lift B
  | succ n ih => exact simLog_layer h ih (n + 1)

theorem simLog_run (hs : SimLog adm A B) (op : Op) (b : β) (l : TLog) (ha : op.adm adm b) :
    (A.run op (b, l)).1 = (B.run op b).1 ∧ (A.run op (b, l)).2.1 = (B.run op b).2 := by
  cases op with
  | getProto => obtain ⟨l', e⟩ := hs.getProto b l; simp [Ops.run, e]
  | setProto p => obtain ⟨l', e⟩ := hs.setProto p b l; simp [Ops.run, e]
  | isExt => obtain ⟨l', e⟩ := hs.isExt b l; simp [Ops.run, e]
  | prevExt => obtain ⟨l', e⟩ := hs.prevExt b l; simp [Ops.run, e]
  | getOwn k => obtain ⟨l', e⟩ := hs.getOwn k b l; simp [Ops.run, e]
  | define k d => obtain ⟨l', e⟩ := hs.define k d b l ha; simp [Ops.run, e]
  | has k => obtain ⟨l', e⟩ := hs.has k b l; simp [Ops.run, e]
  | get k r => obtain ⟨l', e⟩ := hs.get k r b l; simp [Ops.run, e]
  | set k v r => obtain ⟨l', e⟩ := hs.set k v r b l; simp [Ops.run, e]
  | delete k => obtain ⟨l', e⟩ := hs.delete k b l; simp [Ops.run, e]
  | ownKeys => obtain ⟨l', e⟩ := hs.ownKeys b l; simp [Ops.run, e]
  | call this args =>
    obtain ⟨l', e⟩ := hs.call this args b l
    simp only [Ops.run, hs.callable]
    cases B.callable <;> simp [e]
  | construct args nt =>
    obtain ⟨l', e⟩ := hs.construct args nt b l
    simp only [Ops.run, hs.constructor]
    cases B.constructor <;> simp [e]
  | typeof => simp [Ops.run, hs.callable, hs.constructor]

theorem simLog_runAll (hs : SimLog adm A B) (ops : List Op) : ∀ (b : β) (l : TLog), admHist B adm ops b →
    (A.runAll ops (b, l)).1 = (B.runAll ops b).1 ∧ (A.runAll ops (b, l)).2.1 = (B.runAll ops b).2 := by
  induction ops with
  | nil => intro b l _; simp [Ops.runAll]
  | cons op rest ih =>
    intro b l ha
    have h1 := simLog_run hs op b l ha.1
    have ha2 := ha.2
    simp only [Ops.runAll]
    rcases hA : A.run op (b, l) with ⟨o, b1, l1⟩
    rcases hB : B.run op b with ⟨o', b1'⟩
    rw [hA, hB] at h1
    rw [hB] at ha2
    simp only at h1 ha2
    obtain ⟨rfl, rfl⟩ := h1
    have h2 := ih b1 l1 ha2
    rcases hA2 : A.runAll rest (b1, l1) with ⟨os, b2, l2⟩
    rcases hB2 : B.runAll rest b1 with ⟨os', b2'⟩
    rw [hA2, hB2] at h2
    simp only at h2
    obtain ⟨rfl, rfl⟩ := h2
    simp

theorem admHist_true (T : Ops β) (ops : List Op) : ∀ b, admHist T (fun _ _ _ => True) ops b := by
  induction ops with
  | nil => intro b; trivial
  | cons op rest ih => intro b; exact ⟨by cases op <;> trivial, ih _⟩

/-- the instrumented system on admissible inputs: n logging forwarding layers over an object lawful on `adm` -/
theorem forwarding_transparent_logged_on (h : LawfulOn adm q B) (n : Nat) (ops : List Op) (b : β) (l : TLog)
    (ha : admHist B adm ops b) :
    ((stack isCompatible toValueProp (fun i => logAt i) (liftOps B) n).runAll ops (b, l)).1 = (B.runAll ops b).1 ∧
    ((stack isCompatible toValueProp (fun i => logAt i) (liftOps B) n).runAll ops (b, l)).2.1 = (B.runAll ops b).2 :=
  simLog_runAll (simLog_stack h n) ops b l ha

/-- FORWARDING TRANSPARENCY of the instrumented system: n logging forwarding layers over a lawful object, any history,
any initial log — the observations and the final base state are those of the history applied to the object itself -/
theorem forwarding_transparent_logged (h : Lawful q B) (n : Nat) (ops : List Op) (b : β) (l : TLog) :
    ((stack isCompatible toValueProp (fun i => logAt i) (liftOps B) n).runAll ops (b, l)).1 = (B.runAll ops b).1 ∧
    ((stack isCompatible toValueProp (fun i => logAt i) (liftOps B) n).runAll ops (b, l)).2.1 = (B.runAll ops b).2 :=
  forwarding_transparent_logged_on (h.toOn (fun _ _ _ => True)) n ops b l (admHist_true B ops b)

end logged

/-- … for an array, on histories whose `length` definitions are canonical -/
theorem forwarding_transparent_logged_array (A : AEnv) (n : Nat) (ops : List Op) (s : AState) (l : TLog)
    (ha : admHist (arrOps A) (arrAdm A) ops s) :
    ((stack isCompatible toValueProp (fun i => logAt i) (liftOps (arrOps A)) n).runAll ops (s, l)).1 = ((arrOps A).runAll ops s).1 ∧
    ((stack isCompatible toValueProp (fun i => logAt i) (liftOps (arrOps A)) n).runAll ops (s, l)).2.1 = ((arrOps A).runAll ops s).2 :=
  forwarding_transparent_logged_on (array_lawfulOn A) n ops s l ha

/-- … for the ordinary object -/
theorem forwarding_transparent_logged_ordinary (E : Env) (n : Nat) (ops : List Op) (s : OState) (l : TLog) :
    ((stack isCompatible toValueProp (fun i => logAt i) (liftOps (ordOps E)) n).runAll ops (s, l)).1 = ((ordOps E).runAll ops s).1 ∧
    ((stack isCompatible toValueProp (fun i => logAt i) (liftOps (ordOps E)) n).runAll ops (s, l)).2.1 = ((ordOps E).runAll ops s).2 :=
  forwarding_transparent_logged (ordObj_lawful E) n ops s l

end GojaModel.C11
