/-
  C11: the ORDINARY object (ECMA-262 §10.1) as an `Ops` table, and the proof that it is `Lawful` — so that the
  forwarding-transparency theorems apply to a concrete, mutable target.

  State: extensibility, prototype, own properties (association list, first match wins).  The prototype CHAIN is not
  a heap here: what the chain answers for [[HasProperty]] / [[Get]] / [[Set]] of a key that is not an own property,
  what a getter call returns and whether a prototype assignment would create a cycle are opaque pure oracles
  (`Env`) — the invariants of §6.1.7.3 constrain an operation only through the object's OWN properties.
-/
import GojaModel.C11.Model
import GojaModel.C11.Forward

namespace GojaModel.C11

structure OState where
  ext : Bool
  proto : Option Nat
  props : List (Key × Cur)
  deriving DecidableEq, Repr

/-- everything outside the object that its internal methods consult -/
structure Env where
  self : Nat                                   -- identity of the object (to recognise itself as receiver)
  inhHas : Option Nat → Key → Bool             -- parent.[[HasProperty]](k)
  inhGet : Option Nat → Key → Val → Val        -- parent.[[Get]](k, receiver)
  inhSet : Option Nat → Key → Val → Val → Option Bool   -- parent.[[Set]] decided it (setter / read-only); none = no such property
  callGetter : Nat → Val → Val                 -- Call(getter, receiver)
  cyc : Option Nat → Bool                      -- would this prototype create a cycle?
  callable : Bool                              -- a function object is an ordinary object with [[Call]] (and [[Construct]])
  constructor : Bool
  callF : Val → List Val → OState → R Val × OState     -- the function body: any state transformer
  consF : List Val → Val → OState → R Nat × OState

def oLookup (props : List (Key × Cur)) (k : Key) : Option Cur :=
  match props with
  | [] => none
  | (k', c) :: rest => if k' = k then some c else oLookup rest k

/-- replace the first entry for `k` or append -/
def oUpsert (props : List (Key × Cur)) (k : Key) (c : Cur) : List (Key × Cur) :=
  match props with
  | [] => [(k, c)]
  | (k', c') :: rest => if k' = k then (k, c) :: rest else (k', c') :: oUpsert rest k c

def oRemove (props : List (Key × Cur)) (k : Key) : List (Key × Cur) :=
  match props with
  | [] => []
  | (k', c) :: rest => if k' = k then oRemove rest k else (k', c) :: oRemove rest k

theorem oLookup_upsert (props : List (Key × Cur)) (k : Key) (c : Cur) : oLookup (oUpsert props k c) k = some c := by
  induction props with
  | nil => simp [oUpsert, oLookup]
  | cons kc rest ih =>
    obtain ⟨k', c'⟩ := kc
    by_cases h : k' = k
    · simp [oUpsert, oLookup, h]
    · simp [oUpsert, oLookup, h, ih]

theorem oLookup_remove (props : List (Key × Cur)) (k : Key) : oLookup (oRemove props k) k = none := by
  induction props with
  | nil => simp [oRemove, oLookup]
  | cons kc rest ih =>
    obtain ⟨k', c'⟩ := kc
    by_cases h : k' = k
    · simp [oRemove, h, ih]
    · simp [oRemove, oLookup, h, ih]

/-- §10.1.6.3 ValidateAndApplyPropertyDescriptor step 6: the property that results from applying `d` to `cur` -/
def applyDesc (d : PD) (cur : Cur) : Cur :=
  match cur with
  | .data v w e c =>
    if d.isAccessorDescriptor then                                              -- 6.a data -> accessor
      .acc (d.get.getD none) (d.set.getD none) (d.enumerable.getD e) (d.configurable.getD c)
    else .data (d.value.getD v) (d.writable.getD w) (d.enumerable.getD e) (d.configurable.getD c)   -- 6.c
  | .acc g s e c =>
    if d.isDataDescriptor then                                                  -- 6.b accessor -> data
      .data (d.value.getD .undef) (d.writable.getD false) (d.enumerable.getD e) (d.configurable.getD c)
    else .acc (d.get.getD g) (d.set.getD s) (d.enumerable.getD e) (d.configurable.getD c)           -- 6.c

/-- §10.1.6.3 step 2.c/2.d: the property created from `d` when there is none -/
def createFrom (d : PD) : Cur :=
  if d.isAccessorDescriptor then
    .acc (d.get.getD none) (d.set.getD none) (d.enumerable.getD false) (d.configurable.getD false)
  else .data (d.value.getD .undef) (d.writable.getD false) (d.enumerable.getD false) (d.configurable.getD false)

/-- the ordinary object's internal methods (§10.1.1 – §10.1.11) -/
def ordOps (E : Env) : Ops OState where
  getProto := fun s => (.ok s.proto, s)                                          -- §10.1.1
  setProto := fun p s =>                                                         -- §10.1.2
    if p = s.proto then (.ok true, s)
    else if !s.ext then (.ok false, s)
    else if E.cyc p then (.ok false, s)
    else (.ok true, { s with proto := p })
  isExt := fun s => (.ok s.ext, s)                                               -- §10.1.3
  prevExt := fun s => (.ok true, { s with ext := false })                        -- §10.1.4
  getOwn := fun k s => (.ok (oLookup s.props k), s)                              -- §10.1.5
  define := fun k d s =>                                                         -- §10.1.6 (+ ToPropertyDescriptor's rejection)
    if d.isAccessorDescriptor && d.isDataDescriptor then (.typeError, s)
    else match oLookup s.props k with
      | none => if !s.ext then (.ok false, s) else (.ok true, { s with props := oUpsert s.props k (createFrom d) })
      | some cur =>
        if !specIsCompatible s.ext d (some cur) then (.ok false, s)
        else (.ok true, { s with props := oUpsert s.props k (applyDesc d cur) })
  has := fun k s =>                                                              -- §10.1.7
    match oLookup s.props k with
    | some _ => (.ok true, s)
    | none => (.ok (E.inhHas s.proto k), s)
  get := fun k rcv s =>                                                          -- §10.1.8
    match oLookup s.props k with
    | some (.data v _ _ _) => (.ok v, s)
    | some (.acc (some g) _ _ _) => (.ok (E.callGetter g rcv), s)
    | some (.acc none _ _ _) => (.ok .undef, s)
    | none => (.ok (E.inhGet s.proto k rcv), s)
  set := fun k v rcv s =>                                                        -- §10.1.9 OrdinarySetWithOwnDescriptor
    match oLookup s.props k with
    | some (.data _ w e c) =>
      if !w then (.ok false, s)
      else if rcv = .obj E.self then (.ok true, { s with props := oUpsert s.props k (.data v w e c) })
      else (.ok true, s)                          -- the receiver is another object: its state is not this state
    | some (.acc _ (some _) _ _) => (.ok true, s) -- Call(setter, receiver, v): effects outside this state
    | some (.acc _ none _ _) => (.ok false, s)
    | none =>
      match E.inhSet s.proto k v rcv with
      | some b => (.ok b, s)
      | none =>
        if rcv = .obj E.self then
          if !s.ext then (.ok false, s)
          else (.ok true, { s with props := oUpsert s.props k (.data v true true true) })
        else (.ok true, s)
  delete := fun k s =>                                                           -- §10.1.10
    match oLookup s.props k with
    | none => (.ok true, s)
    | some cur => if cur.configurable then (.ok true, { s with props := oRemove s.props k }) else (.ok false, s)
  ownKeys := fun s => (.ok ((s.props.map (·.1)).eraseDups), s)                   -- §10.1.11 (order of creation)
  callable := E.callable
  constructor := E.constructor
  call := fun this args s => if E.callable then E.callF this args s else (.typeError, s)       -- §10.2.1
  construct := fun args nt s => if E.constructor then E.consF args nt s else (.typeError, s)   -- §10.2.2

def ordQueries : Queries OState where
  ext := fun s => s.ext
  own := fun k s => oLookup s.props k
  proto := fun s => s.proto
  keys := fun s => (s.props.map (·.1)).eraseDups

/-- the property created from a well-formed descriptor passes [[DefineOwnProperty]]'s proxy check on an extensible object -/
theorem createFrom_ok (d : PD) (hwf : d.WF) : specDefineCheck (some (createFrom d)) true d = .ok () := by
  rcases d with ⟨v, w, g, s, e, c⟩
  simp only [PD.WF, PD.isAccessorDescriptor, PD.isDataDescriptor] at hwf
  rcases g with _ | g <;> rcases s with _ | s <;> rcases w with _ | (_ | _) <;> rcases e with _ | (_ | _) <;>
    rcases c with _ | (_ | _) <;> cases v <;>
    simp_all [specDefineCheck, createFrom, specIsCompatible, PD.isAccessorDescriptor, PD.isDataDescriptor,
      PD.isGenericDescriptor, Cur.configurable, Cur.enumerable, Cur.isAccessor]


/-- §10.1.6.3: after a validated application the resulting property passes the proxy's [[DefineOwnProperty]] check
(it is compatible with the descriptor that produced it) — existing data property -/
theorem applyDesc_ok_data (d : PD) (hwf : d.WF) (ext : Bool) (v : Val) (w e c : Bool)
    (hc : specIsCompatible ext d (some (.data v w e c)) = true) :
    specDefineCheck (some (applyDesc d (.data v w e c))) ext d = .ok () := by
  rcases d with ⟨dv, dw, dg, ds, de, dc⟩
  simp only [PD.WF, PD.isAccessorDescriptor, PD.isDataDescriptor] at hwf
  rcases dg with _ | dg <;> rcases ds with _ | ds <;> rcases dw with _ | (_ | _) <;> rcases de with _ | (_ | _) <;>
    rcases dc with _ | (_ | _) <;> cases dv <;> cases w <;> cases e <;> cases c <;>
    simp_all [specDefineCheck, applyDesc, specIsCompatible, PD.isAccessorDescriptor, PD.isDataDescriptor,
      PD.isGenericDescriptor, Cur.configurable, Cur.enumerable, Cur.isAccessor]

/-- … existing accessor property -/
theorem applyDesc_ok_acc (d : PD) (hwf : d.WF) (ext : Bool) (g s : Option Nat) (e c : Bool)
    (hc : specIsCompatible ext d (some (.acc g s e c)) = true) :
    specDefineCheck (some (applyDesc d (.acc g s e c))) ext d = .ok () := by
  rcases d with ⟨dv, dw, dg, ds, de, dc⟩
  simp only [PD.WF, PD.isAccessorDescriptor, PD.isDataDescriptor] at hwf
  rcases dg with _ | dg <;> rcases ds with _ | ds <;> rcases dw with _ | (_ | _) <;> rcases de with _ | (_ | _) <;>
    rcases dc with _ | (_ | _) <;> cases dv <;> cases e <;> cases c <;>
    simp_all [specDefineCheck, applyDesc, specIsCompatible, PD.isAccessorDescriptor, PD.isDataDescriptor,
      PD.isGenericDescriptor, Cur.configurable, Cur.enumerable, Cur.isAccessor]

theorem applyDesc_ok (d : PD) (hwf : d.WF) (ext : Bool) (cur : Cur)
    (hc : specIsCompatible ext d (some cur) = true) :
    specDefineCheck (some (applyDesc d cur)) ext d = .ok () := by
  cases cur with
  | data v w e c => exact applyDesc_ok_data d hwf ext v w e c hc
  | acc g s e c => exact applyDesc_ok_acc d hwf ext g s e c hc


/-- THE ORDINARY OBJECT IS LAWFUL: its internal methods satisfy the essential invariants (each result passes the §10.5
check against the state it leaves), its query methods are total and pure, ill-formed descriptors are rejected. -/
theorem ord_lawful (E : Env) : Lawful ordQueries (ordOps E) where
  isExt_eq := fun _ => rfl
  getOwn_eq := fun _ _ => rfl
  getProto_eq := fun _ => rfl
  ownKeys_eq := fun _ => rfl
  keys_nodup := fun _ => eraseDups_nodup _
  setProto_inv := by
    intro p s s' h
    simp only [ordOps] at h
    split at h
    · injection h with _ h2; subst h2; right; simp [ordQueries, *]
    · split at h
      · simp at h
      · split at h
        · simp at h
        · injection h with _ h2; subst h2; right; rfl
  prevExt_inv := by
    intro s s' h
    simp only [ordOps] at h
    injection h with _ h2; subst h2; rfl
  define_wf := by
    intro k d s hwf
    simp only [PD.WF, Classical.not_not] at hwf
    simp [ordOps, hwf.1, hwf.2]
  define_inv := by
    intro k d s s' h
    simp only [ordOps] at h
    split at h
    · simp at h
    · rename_i hbad
      have hwf : d.WF := by
        simp only [PD.WF]; intro hh; apply hbad; simp [hh.1, hh.2]
      split at h
      · rename_i hl
        split at h
        · simp at h
        · rename_i hext
          injection h with _ h2; subst h2
          simp only [ordQueries, oLookup_upsert]
          have : s.ext = true := by simpa using hext
          rw [this]; exact createFrom_ok d hwf
      · rename_i cur hl
        split at h
        · simp at h
        · rename_i hcomp
          injection h with _ h2; subst h2
          simp only [ordQueries, oLookup_upsert]
          exact applyDesc_ok d hwf s.ext cur (by simpa using hcomp)
  has_inv := by
    intro k s s' h
    simp only [ordOps] at h
    split at h
    · simp at h
    · rename_i hl
      injection h with _ h2; subst h2
      simp [ordQueries, hl, specHasCheck]
  get_inv := by
    intro k r s v s' h
    simp only [ordOps] at h
    split at h <;> (injection h with h1 h2; subst h2; injection h1 with h1; subst h1) <;>
      rename_i hl <;> (try simp only [ordQueries, hl, specGetCheck]) <;> (try (split <;> simp_all))
  set_inv := by
    intro k v r s s' h
    simp only [ordOps] at h
    split at h
    · rename_i v0 w e c hl
      split at h
      · simp at h
      · rename_i hw
        have hw' : w = true := by simpa using hw
        subst hw'
        split at h
        · injection h with _ h2; subst h2
          simp only [ordQueries, oLookup_upsert, specSetCheck]
        · injection h with _ h2; subst h2
          simp only [ordQueries, hl, specSetCheck]
    · rename_i hl
      injection h with _ h2; subst h2
      simp only [ordQueries, hl, specSetCheck]
    · simp at h
    · rename_i hl
      split at h
      · injection h with _ h2; subst h2
        simp only [ordQueries, hl, specSetCheck]
      · split at h
        · split at h
          · simp at h
          · injection h with _ h2; subst h2
            simp only [ordQueries, oLookup_upsert, specSetCheck]
        · injection h with _ h2; subst h2
          simp only [ordQueries, hl, specSetCheck]
  delete_inv := by
    intro k s s' h
    simp only [ordOps] at h
    split at h
    · rename_i hl
      injection h with _ h2; subst h2
      simp [ordQueries, hl, specDeleteCheck]
    · split at h
      · injection h with _ h2; subst h2
        simp [ordQueries, oLookup_remove, specDeleteCheck]
      · simp at h
  call_nc := by intro hc this args s; simp only [ordOps] at hc ⊢; simp [hc]
  construct_nc := by intro hc args nt s; simp only [ordOps] at hc ⊢; simp [hc]

end GojaModel.C11
