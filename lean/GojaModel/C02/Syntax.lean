/-
  C02 / MiniJS — abstract syntax.

  Function literals are not nested in expressions: a program carries a table of function
  definitions (`Prog.funs`) and the expression `func k` / the statement `fdecl x k` refer to entry
  `k`.  (The generator prints the nested JS source for goja and this flattened form for the model;
  the flattening is a change of representation only: entry `k` is the literal that stands at the
  place of `func k`.)  This keeps closures in the heap free of syntax, so that two programs that
  differ by a statement-level rewrite run on *equal* states.

  `outside` nodes stand for syntax outside MiniJS (`eval(..)`, `with`): evaluating one leaves the
  fragment (`Res.unsup`).  They only ever occur in dead code.
-/
namespace GojaModel.C02

abbrev Name := String

inductive Lit where
  | undef | null | bool (b : Bool) | num (i : Int) | str (s : String)
  deriving Repr, Inhabited, DecidableEq

inductive UnOp where
  | neg | plus | not | typeof | void
  deriving Repr, Inhabited, DecidableEq

inductive BinOp where
  | add | sub | mul | mod | lt | le | gt | ge | seq | sne
  deriving Repr, Inhabited, DecidableEq

inductive LogOp where
  | and | or | nullish
  deriving Repr, Inhabited, DecidableEq

inductive PropKind where
  | data | getter | setter
  deriving Repr, Inhabited, DecidableEq

mutual
inductive Expr where
  | lit (l : Lit)
  | var (x : Name)
  | this
  | func (idx : Nat)                                  -- function expression / arrow (table index)
  | log (e : Expr)                                    -- host `log(e)`
  | unop (op : UnOp) (e : Expr)
  | binop (op : BinOp) (a b : Expr)
  | logic (op : LogOp) (a b : Expr)
  | cond (c a b : Expr)
  | comma (a b : Expr)
  | assign (x : Name) (e : Expr)                      -- x = e
  | assignOp (op : BinOp) (x : Name) (e : Expr)       -- x op= e
  | update (inc pre : Bool) (x : Name)                -- x++ ++x x-- --x
  | call (f : Expr) (args : List Expr)
  | mcall (o : Expr) (k : Name) (args : List Expr)    -- o.k(args)
  | obj (props : List PropDef)
  | arr (elems : List Expr)
  | get (o : Expr) (k : Name)                         -- o.k
  | idx (o i : Expr)                                  -- o[i]
  | set (o : Expr) (k : Name) (v : Expr)              -- o.k = v
  | setIdx (o i v : Expr)                             -- o[i] = v
  | outside (why : String)                             -- outside MiniJS
inductive PropDef where
  | mk (kind : PropKind) (k : Name) (e : Expr)
end

instance : Inhabited Expr := ⟨.lit .undef⟩
instance : Inhabited PropDef := ⟨.mk .data "" default⟩

inductive DeclKind where
  | var | let | const
  deriving Repr, Inhabited, DecidableEq

structure Declr where
  x : Name
  init : Option Expr
  deriving Inhabited

inductive ForInit where
  | none
  | expr (e : Expr)
  | decl (k : DeclKind) (ds : List Declr)
  deriving Inhabited

mutual
inductive Stmt where
  | expr (e : Expr)
  | decl (k : DeclKind) (ds : List Declr)
  | fdecl (x : Name) (idx : Nat)                      -- function declaration (table index)
  | empty
  | block (ss : List Stmt)
  | ite (c : Expr) (t e : Stmt)                       -- no else = `else ;` (same completion)
  | while (c : Expr) (b : Stmt)
  | doWhile (b : Stmt) (c : Expr)
  | for (init : ForInit) (test upd : Option Expr) (b : Stmt)
  | forOf (k : DeclKind) (x : Name) (e : Expr) (b : Stmt)      -- for (k x of e) b   (arrays only)
  | brk (l : Option Name)
  | cont (l : Option Name)
  | ret (e : Option Expr)
  | throw (e : Expr)
  | try (b : List Stmt) (hasCatch : Bool) (param : Option Name) (cb : List Stmt)
        (hasFin : Bool) (fb : List Stmt)
  | labeled (l : Name) (s : Stmt)
  | switch (e : Expr) (cases : List Case)
  | outside (why : String)                             -- outside MiniJS (e.g. `with(o){}`)
inductive Case where
  | mk (test : Option Expr) (body : List Stmt)
end

instance : Inhabited Stmt := ⟨.empty⟩
instance : Inhabited Case := ⟨.mk none []⟩

def Case.body : Case → List Stmt
  | .mk _ b => b
def Case.test : Case → Option Expr
  | .mk t _ => t

inductive FunKind where
  | normal | arrow
  deriving Repr, Inhabited, DecidableEq

structure Param where
  x : Name
  dflt : Option Expr
  deriving Inhabited

structure FunDef where
  kind : FunKind
  params : List Param
  rest : Option Name
  body : List Stmt
  deriving Inhabited

structure Prog where
  strict : Bool
  funs : List FunDef
  body : List Stmt
  deriving Inhabited

/-! ### Declared names (hoisting) -/

def declNames (ds : List Declr) : List Name := ds.map (·.x)

/- `var`-declared names of a statement, not crossing function boundaries (function bodies live in
the table, so this is plain structural descent). -/
mutual
def varNamesS : Stmt → List Name
  | .decl .var ds => declNames ds
  | .block ss => varNamesL ss
  | .ite _ t e => varNamesS t ++ varNamesS e
  | .while _ b => varNamesS b
  | .doWhile b _ => varNamesS b
  | .for (.decl .var ds) _ _ b => declNames ds ++ varNamesS b
  | .for _ _ _ b => varNamesS b
  | .forOf .var x _ b => x :: varNamesS b
  | .forOf _ _ _ b => varNamesS b
  | .try b _ _ cb _ fb => varNamesL b ++ (varNamesL cb ++ varNamesL fb)
  | .labeled _ s => varNamesS s
  | .switch _ cs => varNamesC cs
  | _ => []
def varNamesL : List Stmt → List Name
  | [] => []
  | s :: ss => varNamesS s ++ varNamesL ss
def varNamesC : List Case → List Name
  | [] => []
  | (.mk _ b) :: cs => varNamesL b ++ varNamesC cs
end

/-- Lexically declared names (name, mutable?) at the top level of a statement list. -/
def lexDeclsS : Stmt → List (Name × Bool)
  | .decl .let ds => (declNames ds).map (·, true)
  | .decl .const ds => (declNames ds).map (·, false)
  | _ => []
def lexDeclsL (ss : List Stmt) : List (Name × Bool) := ss.flatMap lexDeclsS

/-- Function declarations at the top level of a statement list. -/
def funDeclsS : Stmt → List (Name × Nat)
  | .fdecl x k => [(x, k)]
  | _ => []
def funDeclsL (ss : List Stmt) : List (Name × Nat) := ss.flatMap funDeclsS

def caseBodies : List Case → List Stmt
  | [] => []
  | (.mk _ b) :: cs => b ++ caseBodies cs

end GojaModel.C02
