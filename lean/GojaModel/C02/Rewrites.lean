/-
  C02 — the rewrite catalogue as syntactic functions on MiniJS programs.

  Every rewrite is applied EVERYWHERE it is applicable (all statement lists of the script body and
  of every function body, at any nesting depth, including `switch` case lists); the side condition is
  decided per site by the rewrite itself, a site that fails it is left alone.  The generator's
  metamorphic variants INSERT dead code / no-op statements / blocks; the functions here go the other
  way (ELIMINATE), so `R (variant) = R (original)`-style facts plus `R_sound` license the comparison.
-/
import GojaModel.C02.Syntax

namespace GojaModel.C02

def isAbrupt : Stmt → Bool
  | .ret _ => true | .throw _ => true | .brk _ => true | .cont _ => true | _ => false

/-- A statement list that declares nothing (no hoisted `var`, no let/const, no function). -/
def noDecls (ss : List Stmt) : Bool :=
  (varNamesL ss).isEmpty && (lexDeclsL ss).isEmpty && (funDeclsL ss).isEmpty

/-- The first statement certainly produces a value or a throw/return (so the running completion
value in front of it is irrelevant). -/
def startsValued : List Stmt → Bool
  | (.expr _) :: _ => true
  | (.throw _) :: _ => true
  | (.ret (some _)) :: _ => true
  | _ => false

/-! ### The generic traversal: one pass over every statement list, deciding per position -/

inductive Action where
  | keep        -- keep the statement (rewritten inside), go on
  | cutAfter    -- keep the statement, drop the rest of the list
  | dropHead    -- drop the statement, go on
  deriving DecidableEq

mutual
def gS (act : Stmt → List Stmt → Action) : Stmt → Stmt
  | .block ss => .block (gL act ss)
  | .ite c t e => .ite c (gS act t) (gS act e)
  | .while c b => .while c (gS act b)
  | .doWhile b c => .doWhile (gS act b) c
  | .for i t u b => .for i t u (gS act b)
  | .forOf k x e b => .forOf k x e (gS act b)
  | .try b hc p cb hf fb => .try (gL act b) hc p (gL act cb) hf (gL act fb)
  | .labeled l s => .labeled l (gS act s)
  | .switch e cs => .switch e (gC act cs)
  | s => s
def gL (act : Stmt → List Stmt → Action) : List Stmt → List Stmt
  | [] => []
  | s :: ss =>
    match act s ss with
    | .keep => gS act s :: gL act ss
    | .cutAfter => [gS act s]
    | .dropHead => gL act ss
def gC (act : Stmt → List Stmt → Action) : List Case → List Case
  | [] => []
  | (.mk t b) :: cs => .mk t (gL act b) :: gC act cs
end

/-! ### dead_code_after_abrupt -/

def dcAct (s : Stmt) (ss : List Stmt) : Action :=
  if isAbrupt s && noDecls ss then .cutAfter else .keep

/-! ### elimination of no-op statements in front of a valued statement
    (`if(false){…}` dead branches, `(()=>x);` closure creations) -/

/-- `if (false) S` without else, `S` declaring no `var` (S may contain `eval`/`with` = outside). -/
def isDeadIf : Stmt → Bool
  | .ite (.lit (.bool false)) t .empty => (varNamesS t).isEmpty
  | _ => false

/-- An expression statement that only creates a closure. -/
def isNoopClosure : Stmt → Bool
  | .expr (.func _) => true
  | _ => false

def elAct (p : Stmt → Bool) (s : Stmt) (ss : List Stmt) : Action :=
  if p s && startsValued ss then .dropHead else .keep

/-! ### Programs -/

def FunDef.mapBody (f : List Stmt → List Stmt) (fd : FunDef) : FunDef := { fd with body := f fd.body }

def Prog.mapBodies (f : List Stmt → List Stmt) (P : Prog) : Prog :=
  { P with funs := P.funs.map (FunDef.mapBody f), body := f P.body }

def deadCodeAfterAbrupt (P : Prog) : Prog := P.mapBodies (gL dcAct)
def ifFalseDeadBranch (P : Prog) : Prog := P.mapBodies (gL (elAct isDeadIf))
def noopClosureCapture (P : Prog) : Prog := P.mapBodies (gL (elAct isNoopClosure))

/-! ### size (driver only: did the rewrite change anything?) -/
mutual
def sizeS : Stmt → Nat
  | .block ss => 1 + sizeL ss
  | .ite _ t e => 1 + sizeS t + sizeS e
  | .while _ b => 1 + sizeS b
  | .doWhile b _ => 1 + sizeS b
  | .for _ _ _ b => 1 + sizeS b
  | .forOf _ _ _ b => 1 + sizeS b
  | .try b _ _ cb _ fb => 1 + sizeL b + sizeL cb + sizeL fb
  | .labeled _ s => 1 + sizeS s
  | .switch _ cs => 1 + sizeC cs
  | _ => 1
def sizeL : List Stmt → Nat
  | [] => 0
  | s :: ss => sizeS s + sizeL ss
def sizeC : List Case → Nat
  | [] => 0
  | (.mk _ b) :: cs => 1 + sizeL b + sizeC cs
end

def progSize (P : Prog) : Nat := sizeL P.body + (P.funs.map (fun fd => sizeL fd.body)).sum

def rewriteByName : String → Option (Prog → Prog)
  | "deadcode" => some deadCodeAfterAbrupt
  | "iffalse" => some ifFalseDeadBranch
  | "noop" => some noopClosureCapture
  | _ => none

end GojaModel.C02
