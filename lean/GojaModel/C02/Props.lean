import GojaModel.C02.Model
import GojaModel.C02.Rewrites
namespace GojaModel.C02
theorem eval_zero (P : Prog) (t : Task) (env : Env) (st : St) : eval P 0 t env st = .timeout := rfl
end GojaModel.C02
