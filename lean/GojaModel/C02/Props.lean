/-
  C02 — property theorems about the MiniJS reference interpreter (`eval`, `run` in Model.lean).

  * interpreter sanity: more fuel never changes a finished outcome (`eval_fuel_mono`, `run_fuel_mono`),
    hence the outcome of a program is unique (`run_outcome_unique`); determinism for a fixed fuel is by
    construction (`eval` is a function).
  * rewrite soundness, for ALL programs of the modelled syntax, ALL fuels, environments and states: the
    rewritten program evaluates in lock-step to the SAME result (same completion, same heap/store, same
    log) with the SAME fuel.  Each rewrite is a syntactic function that is applied at every position
    where its decidable side condition holds (the side condition is part of the function):
      dead_code_after_abrupt   statements after return/throw/break/continue that declare nothing are dropped
      if_false_dead_branch     `if(false) S` (S without `var`; S may contain eval/with = `outside`) in front
                               of an expression statement / throw / return e is dropped
      noop_closure_capture     `(()=>x);` (any closure-creating expression statement) in front of such a
                               statement is dropped
    `list_rewrite_sound` is the generic theorem they are instances of.
      block_wrap               every wrappable statement (not a let/const/function declaration, not a loop or
                               labelled statement) is put into a block of its own.  This changes the evaluation
                               depth, so the theorem is an inequational simulation in both directions
                               (`block_wrap_le`, `block_wrap_ge`) and, from them, equality of finished outcomes
                               (`block_wrap_sound`).
      expr_stmt_vs_value_position   in every FUNCTION body, `e;` becomes `void e;` (the statement's value is dropped;
                               the script body, whose completion value is observable, is left alone).  Inside a
                               function body completion values are unobservable but threaded through lists, loops,
                               switch and try, so the simulation relation is "equal up to the values of
                               normal/break/continue completions" (`Res.qle`), collapsing to equality at the call
                               boundary; both directions (`expr_stmt_void_le`, `expr_stmt_void_ge`) and equality of
                               finished script outcomes (`expr_stmt_vs_value_position_sound`).
                               The second form of this rewrite, `e;` -> `(e, 0);`, is proved the same way
                               (`expr_stmt_comma_le/_ge/_body`, `expr_stmt_comma_sound`, Comma.lean).
  NOT proved (exercised by the correspondence only): iife_wrap, const_inline, toString re-evaluation.
-/
import GojaModel.C02.Instances
import GojaModel.C02.Wrap
import GojaModel.C02.Erase
import GojaModel.C02.Comma

namespace GojaModel.C02

/-! ### interpreter sanity -/

/-- More fuel never changes a finished outcome (any task, environment, state). -/
theorem eval_fuel_mono (P : Prog) {n m : Nat} (h : n ≤ m) (t : Task) (env : Env) (st : St) (r : Res)
    (hr : eval P n t env st = r) (hfin : r ≠ .timeout) : eval P m t env st = r := by
  rcases eval_le_of_le P h t env st with h1 | h1
  · rw [hr] at h1; exact absurd h1 hfin
  · rw [← h1, hr]

/-- Same for whole scripts. -/
theorem run_fuel_mono (P : Prog) {n m : Nat} (h : n ≤ m) (r : Res)
    (hr : run P n = r) (hfin : r ≠ .timeout) : run P m = r := by
  have hS : ∀ s l env st, Res.le (evalS P n s l env st) (evalS P m s l env st) :=
    fun s l env st => eval_le_of_le P h (.stmt s l) env st
  have := evalBlock_mono hS P.body
    (allocNames (varNamesL P.body).eraseDups ⟨some .undef, true⟩ [] emptySt).1
    (allocNames (varNamesL P.body).eraseDups ⟨some .undef, true⟩ [] emptySt).2
  rcases this with h1 | h1
  · have : run P n = .timeout := h1
    rw [hr] at this; exact absurd this hfin
  · have : run P n = run P m := h1
    rw [← this, hr]

/-- The finished outcome of a script does not depend on the fuel. -/
theorem run_outcome_unique (P : Prog) (n m : Nat) (r1 r2 : Res)
    (h1 : run P n = r1) (h2 : run P m = r2) (f1 : r1 ≠ .timeout) (f2 : r2 ≠ .timeout) : r1 = r2 := by
  rcases Nat.le_total n m with h | h
  · rw [← run_fuel_mono P h r1 h1 f1, h2]
  · rw [← h1, run_fuel_mono P h r2 h2 f2]

/-! ### rewrite soundness -/

/-- Generic: a per-position list rewrite whose decisions satisfy `ActOK` preserves evaluation of every
task in every environment and state, with the same fuel. -/
theorem list_rewrite_sound {act : Stmt → List Stmt → Action} (ok : ActOK act) (P : Prog) (n : Nat)
    (t : Task) (env : Env) (st : St) :
    eval (P.mapBodies (gL act)) n (mapTask act t) env st = eval P n t env st :=
  eval_g ok P n t env st

theorem dead_code_after_abrupt_sound (P : Prog) (n : Nat) : run (deadCodeAfterAbrupt P) n = run P n :=
  run_g dcAct_ok P n

theorem dead_code_after_abrupt_sound_eval (P : Prog) (n : Nat) (t : Task) (env : Env) (st : St) :
    eval (deadCodeAfterAbrupt P) n (mapTask dcAct t) env st = eval P n t env st :=
  eval_g dcAct_ok P n t env st

theorem if_false_dead_branch_sound (P : Prog) (n : Nat) : run (ifFalseDeadBranch P) n = run P n :=
  run_g (elAct_ok isDeadIf_ok) P n

theorem if_false_dead_branch_sound_eval (P : Prog) (n : Nat) (t : Task) (env : Env) (st : St) :
    eval (ifFalseDeadBranch P) n (mapTask (elAct isDeadIf) t) env st = eval P n t env st :=
  eval_g (elAct_ok isDeadIf_ok) P n t env st

theorem noop_closure_capture_sound (P : Prog) (n : Nat) : run (noopClosureCapture P) n = run P n :=
  run_g (elAct_ok isNoopClosure_ok) P n

theorem noop_closure_capture_sound_eval (P : Prog) (n : Nat) (t : Task) (env : Env) (st : St) :
    eval (noopClosureCapture P) n (mapTask (elAct isNoopClosure) t) env st = eval P n t env st :=
  eval_g (elAct_ok isNoopClosure_ok) P n t env st

/-- Observable outcomes (completion kind + rendered value + log) agree as a corollary. -/
theorem rewrites_preserve_outcome (P : Prog) (n : Nat) :
    (run (deadCodeAfterAbrupt P) n).show = (run P n).show ∧
    (run (ifFalseDeadBranch P) n).show = (run P n).show ∧
    (run (noopClosureCapture P) n).show = (run P n).show := by
  rw [dead_code_after_abrupt_sound, if_false_dead_branch_sound, noop_closure_capture_sound]
  exact ⟨rfl, rfl, rfl⟩

/-! ### block_wrap (depth-changing rewrite: simulation up to fuel) -/

/-- Whatever the block-wrapped program finishes with fuel `n`, the original finishes with fuel `n`, equally
(any task, environment, state). -/
theorem block_wrap_le (P : Prog) (n : Nat) (t : Task) (env : Env) (st : St) :
    Res.le (eval (blockWrap P) n (wMap.T t) env st) (eval P n t env st) :=
  wrap_le P n t env st

/-- Whatever the original finishes with fuel `n`, the block-wrapped program finishes with fuel `2n`, equally. -/
theorem block_wrap_ge (P : Prog) (n : Nat) (t : Task) (env : Env) (st : St) :
    Res.le (eval P n t env st) (eval (blockWrap P) (2 * n) (wMap.T t) env st) :=
  le_wrap P n t env st

/-- A script and its block-wrapped version have the same finished outcomes. -/
theorem block_wrap_sound (P : Prog) (r : Res) (hfin : r ≠ .timeout) :
    (∃ n, run (blockWrap P) n = r) ↔ (∃ n, run P n = r) := by
  constructor
  · rintro ⟨n, h⟩
    rcases run_wrap_le P n with h1 | h1
    · rw [h] at h1; exact absurd h1 hfin
    · exact ⟨n, by rw [← h1, h]⟩
  · rintro ⟨n, h⟩
    rcases run_le_wrap P n with h1 | h1
    · rw [h] at h1; exact absurd h1 hfin
    · exact ⟨2 * n, by rw [← h1, h]⟩

/-! ### expr_stmt_vs_value_position (value of an expression statement dropped inside function bodies) -/

/-- Every task (script statements, expressions, calls, loops) of the rewritten program finishes, with the same
fuel, only with what the original finishes with. -/
theorem expr_stmt_void_le (P : Prog) (n : Nat) (t : Task) (env : Env) (st : St) :
    Res.le (eval (exprStmtVoid P) n t env st) (eval P n t env st) :=
  (void_inv1 P n).A t env st

theorem expr_stmt_void_ge (P : Prog) (n : Nat) (t : Task) (env : Env) (st : St) :
    Res.le (eval P n t env st) (eval (exprStmtVoid P) (2 * n) t env st) :=
  (void_inv2 P n).A t env st

/-- Inside function bodies the rewritten statements agree with the originals up to erased completion values. -/
theorem expr_stmt_void_body (P : Prog) (n : Nat) (s : Stmt) (l : List Name) (env : Env) (st : St) :
    Res.qle (eval (exprStmtVoid P) n (.stmt (vS s) l) env st) (eval P n (.stmt s l) env st) :=
  (void_inv1 P n).S s l env st

/-- A script and its `void`-rewritten version have the same finished outcomes (completion value included). -/
theorem expr_stmt_vs_value_position_sound (P : Prog) (r : Res) (hfin : r ≠ .timeout) :
    (∃ n, run (exprStmtVoid P) n = r) ↔ (∃ n, run P n = r) := by
  constructor
  · rintro ⟨n, h⟩
    rcases run_void_le P n with h1 | h1
    · rw [h] at h1; exact absurd h1 hfin
    · exact ⟨n, by rw [← h1, h]⟩
  · rintro ⟨n, h⟩
    rcases run_le_void P n with h1 | h1
    · rw [h] at h1; exact absurd h1 hfin
    · exact ⟨2 * n, by rw [← h1, h]⟩

/-! ### expr_stmt_vs_value_position, second form: `e;` ↦ `(e, 0);` inside function bodies -/

theorem expr_stmt_comma_le (P : Prog) (n : Nat) (t : Task) (env : Env) (st : St) :
    Res.le (eval (exprStmtComma P) n t env st) (eval P n t env st) :=
  (comma_inv1 P n).A t env st

theorem expr_stmt_comma_ge (P : Prog) (n : Nat) (t : Task) (env : Env) (st : St) :
    Res.le (eval P n t env st) (eval (exprStmtComma P) (2 * n) t env st) :=
  (comma_inv2 P n).A t env st

theorem expr_stmt_comma_body (P : Prog) (n : Nat) (s : Stmt) (l : List Name) (env : Env) (st : St) :
    Res.qle (eval (exprStmtComma P) n (.stmt (cS s) l) env st) (eval P n (.stmt s l) env st) :=
  (comma_inv1 P n).S s l env st

/-- A script and its `(e, 0)`-rewritten version have the same finished outcomes (completion value included). -/
theorem expr_stmt_comma_sound (P : Prog) (r : Res) (hfin : r ≠ .timeout) :
    (∃ n, run (exprStmtComma P) n = r) ↔ (∃ n, run P n = r) := by
  constructor
  · rintro ⟨n, h⟩
    rcases run_comma_le P n with h1 | h1
    · rw [h] at h1; exact absurd h1 hfin
    · exact ⟨n, by rw [← h1, h]⟩
  · rintro ⟨n, h⟩
    rcases run_le_comma P n with h1 | h1
    · rw [h] at h1; exact absurd h1 hfin
    · exact ⟨2 * n, by rw [← h1, h]⟩

/-! ### non-vacuity (tests on literals: the rewrites do change concrete programs) -/

/-- `log(1); if (false) { eval("") } throw 2; log(3)` inside a function that is called. -/
def demo : Prog :=
  { strict := true,
    funs := [⟨.normal, [], none,
      [.expr (.log (.lit (.num 1))),
       .ite (.lit (.bool false)) (.block [.outside "eval"]) .empty,
       .expr (.func 0),
       .throw (.lit (.num 2)),
       .expr (.log (.lit (.num 3)))]⟩],
    body := [.expr (.call (.func 0) [])] }

example : progSize (deadCodeAfterAbrupt demo) = 8 ∧ progSize demo = 9 := by decide
example : progSize (ifFalseDeadBranch demo) = 5 := by decide
example : progSize (noopClosureCapture demo) = 8 := by decide
example : (run demo 10).show = "T 2 | 1" := by decide
example : progSize (blockWrap demo) = 18 := by decide
example : (run (blockWrap demo) 10).show = "T 2 | 1" := by decide
example : (run (exprStmtVoid demo) 10).show = "T 2 | 1" := by decide
example : (run (exprStmtComma demo) 10).show = "T 2 | 1" := by decide
example : progSize (exprStmtVoid demo) = progSize demo ∧ (exprStmtVoid demo).funs.map (fun fd => fd.body.length) = [5] := by decide

end GojaModel.C02
