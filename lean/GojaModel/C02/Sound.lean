/-
  C02 — soundness of the generic list rewrite `gL act` (applied to every statement list of a program)
  under semantic side conditions on the per-position decision `act` (`ActOK`).
  Result: `eval (P.mapBodies (gL act)) n (mapTask act t) = eval P n t` for ALL n, t, environments and
  states — the rewritten program runs in lock-step on EQUAL states (closures hold table indices, not
  syntax), with the same fuel.
-/
import GojaModel.C02.Mono
import GojaModel.C02.Rewrites

namespace GojaModel.C02

abbrev evalS (P : Prog) (n : Nat) : RecS := fun s l => eval P n (.stmt s l)
abbrev evalE (P : Prog) (n : Nat) : RecE := fun e => eval P n (.expr e)
abbrev evalC (P : Prog) (n : Nat) : RecC := fun f t a => eval P n (.call f t a) []

structure ActOK (act : Stmt → List Stmt → Action) : Prop where
  cut : ∀ s ss, act s ss = .cutAfter → isAbrupt s = true ∧ noDecls ss = true
  drop_decl : ∀ s ss, act s ss = .dropHead → varNamesS s = [] ∧ lexDeclsS s = [] ∧ funDeclsS s = []
  drop_sem : ∀ s ss, act s ss = .dropHead →
    ∀ (rest : List Stmt) (P : Prog) (n : Nat) (V : Option Val) (env : Env) (st : St),
      evalStmts (evalS P n) (s :: (ss ++ rest)) V env st = evalStmts (evalS P n) (ss ++ rest) V env st

/-! ### declarations are preserved -/

theorem noDecls_elim {ss : List Stmt} (h : noDecls ss = true) :
    varNamesL ss = [] ∧ lexDeclsL ss = [] ∧ funDeclsL ss = [] := by
  simp [noDecls, List.isEmpty_iff] at h
  exact ⟨h.1.1, h.1.2, h.2⟩

theorem lexDeclsL_cons (s : Stmt) (ss : List Stmt) : lexDeclsL (s :: ss) = lexDeclsS s ++ lexDeclsL ss := by
  simp [lexDeclsL]
theorem funDeclsL_cons (s : Stmt) (ss : List Stmt) : funDeclsL (s :: ss) = funDeclsS s ++ funDeclsL ss := by
  simp [funDeclsL]
theorem lexDeclsL_append (a b : List Stmt) : lexDeclsL (a ++ b) = lexDeclsL a ++ lexDeclsL b := by
  simp [lexDeclsL]
theorem funDeclsL_append (a b : List Stmt) : funDeclsL (a ++ b) = funDeclsL a ++ funDeclsL b := by
  simp [funDeclsL]

section
variable {act : Stmt → List Stmt → Action}

theorem lexDeclsS_g (s : Stmt) : lexDeclsS (gS act s) = lexDeclsS s := by
  cases s <;> simp [gS, lexDeclsS]
theorem funDeclsS_g (s : Stmt) : funDeclsS (gS act s) = funDeclsS s := by
  cases s <;> simp [gS, funDeclsS]

theorem lexDeclsL_g (ok : ActOK act) : ∀ ss, lexDeclsL (gL act ss) = lexDeclsL ss
  | [] => by simp [gL]
  | s :: ss => by
    have ih := lexDeclsL_g ok ss
    unfold gL
    cases h : act s ss with
    | keep => simp [lexDeclsL_cons, lexDeclsS_g, ih]
    | cutAfter =>
      have := (noDecls_elim (ok.cut s ss h).2).2.1
      rw [lexDeclsL_cons, lexDeclsL_cons, lexDeclsS_g, this]; simp [lexDeclsL]
    | dropHead =>
      have := (ok.drop_decl s ss h).2.1
      simp [lexDeclsL_cons, this, ih]

theorem funDeclsL_g (ok : ActOK act) : ∀ ss, funDeclsL (gL act ss) = funDeclsL ss
  | [] => by simp [gL]
  | s :: ss => by
    have ih := funDeclsL_g ok ss
    unfold gL
    cases h : act s ss with
    | keep => simp [funDeclsL_cons, funDeclsS_g, ih]
    | cutAfter =>
      have := (noDecls_elim (ok.cut s ss h).2).2.2
      rw [funDeclsL_cons, funDeclsL_cons, funDeclsS_g, this]; simp [funDeclsL]
    | dropHead =>
      have := (ok.drop_decl s ss h).2.2
      simp [funDeclsL_cons, this, ih]

mutual
theorem varNamesS_g (ok : ActOK act) : ∀ s, varNamesS (gS act s) = varNamesS s
  | .expr _ => by simp [gS]
  | .decl _ _ => by simp [gS]
  | .fdecl _ _ => by simp [gS]
  | .empty => by simp [gS]
  | .block ss => by simp [gS, varNamesS, varNamesL_g ok ss]
  | .ite _ t e => by simp [gS, varNamesS, varNamesS_g ok t, varNamesS_g ok e]
  | .while _ b => by simp [gS, varNamesS, varNamesS_g ok b]
  | .doWhile b _ => by simp [gS, varNamesS, varNamesS_g ok b]
  | .for i _ _ b => by
    have := varNamesS_g ok b
    cases i with
    | none => simp [gS, varNamesS, this]
    | expr e => simp [gS, varNamesS, this]
    | decl k ds => cases k <;> simp [gS, varNamesS, this]
  | .forOf k _ _ b => by
    have := varNamesS_g ok b
    cases k <;> simp [gS, varNamesS, this]
  | .brk _ => by simp [gS]
  | .cont _ => by simp [gS]
  | .ret _ => by simp [gS]
  | .throw _ => by simp [gS]
  | .try b _ _ cb _ fb => by simp [gS, varNamesS, varNamesL_g ok b, varNamesL_g ok cb, varNamesL_g ok fb]
  | .labeled _ s => by simp [gS, varNamesS, varNamesS_g ok s]
  | .switch _ cs => by simp [gS, varNamesS, varNamesC_g ok cs]
  | .outside _ => by simp [gS]
theorem varNamesL_g (ok : ActOK act) : ∀ ss, varNamesL (gL act ss) = varNamesL ss
  | [] => by simp [gL]
  | s :: ss => by
    have ih := varNamesL_g ok ss
    have ihs := varNamesS_g ok s
    unfold gL
    cases h : act s ss with
    | keep => simp [varNamesL, ihs, ih]
    | cutAfter =>
      have := (noDecls_elim (ok.cut s ss h).2).1
      simp [varNamesL, ihs, this]
    | dropHead =>
      have := (ok.drop_decl s ss h).1
      simp [varNamesL, this, ih]
theorem varNamesC_g (ok : ActOK act) : ∀ cs, varNamesC (gC act cs) = varNamesC cs
  | [] => by simp [gC]
  | (.mk _ b) :: cs => by simp [gC, varNamesC, varNamesL_g ok b, varNamesC_g ok cs]
end

theorem enterBlock_congr {a b : List Stmt} (h1 : lexDeclsL a = lexDeclsL b) (h2 : funDeclsL a = funDeclsL b)
    (env : Env) (st : St) : enterBlock a env st = enterBlock b env st := by
  unfold enterBlock; rw [h1, h2]

theorem enterBlock_g (ok : ActOK act) (ss : List Stmt) (env : Env) (st : St) :
    enterBlock (gL act ss) env st = enterBlock ss env st :=
  enterBlock_congr (lexDeclsL_g ok ss) (funDeclsL_g ok ss) env st

theorem caseBodies_decls_g (ok : ActOK act) : ∀ cs,
    lexDeclsL (caseBodies (gC act cs)) = lexDeclsL (caseBodies cs) ∧
    funDeclsL (caseBodies (gC act cs)) = funDeclsL (caseBodies cs)
  | [] => by simp [gC]
  | (.mk _ b) :: cs => by
    have ih := caseBodies_decls_g ok cs
    simp [gC, caseBodies, lexDeclsL_append, funDeclsL_append, lexDeclsL_g ok b, funDeclsL_g ok b, ih.1, ih.2]

theorem gC_drop : ∀ (cs : List Case) (i : Nat), (gC act cs).drop i = gC act (cs.drop i)
  | [], i => by simp [gC]
  | c :: cs, 0 => by simp
  | (.mk t b) :: cs, i + 1 => by simp [gC, gC_drop cs i]

theorem defaultIdx_g : ∀ (cs : List Case) (i : Nat), defaultIdx (gC act cs) i = defaultIdx cs i
  | [], _ => by simp [gC]
  | (.mk none b) :: cs, i => by simp [gC, defaultIdx]
  | (.mk (some t) b) :: cs, i => by simp [gC, defaultIdx, defaultIdx_g cs (i + 1)]

theorem findCase_g (recE : RecE) (dv : Val) : ∀ (cs : List Case) (i : Nat) (env : Env) (st : St),
    findCase recE dv (gC act cs) i env st = findCase recE dv cs i env st
  | [], _, _, _ => by simp [gC]
  | (.mk none b) :: cs, i, env, st => by simp [gC, findCase, findCase_g recE dv cs (i + 1)]
  | (.mk (some t) b) :: cs, i, env, st => by
    have ih := findCase_g recE dv cs (i + 1) env
    simp [gC, findCase, ih]

/-! ### abrupt statements never complete normally -/

theorem bindVal_ne_normal {r : Res} {k : Val → St → Res} {x : Option Val} {y : St}
    (hk : ∀ v st, k v st ≠ .done (.normal x) y) : bindVal r k ≠ .done (.normal x) y := by
  cases r with
  | timeout => simp [bindVal]
  | unsup w => simp [bindVal]
  | done c st =>
    cases c with
    | normal v =>
      cases v with
      | none => simp [bindVal]
      | some v => simpa [bindVal] using hk v st
    | brk l v => simp [bindVal]
    | cont l v => simp [bindVal]
    | ret v => simp [bindVal]
    | thr v => simp [bindVal]

theorem eval_abrupt_not_normal (P : Prog) {s : Stmt} (hs : isAbrupt s = true) :
    ∀ (n : Nat) (l : List Name) (env : Env) (st : St) (x : Option Val) (y : St),
      eval P n (.stmt s l) env st ≠ .done (.normal x) y
  | 0, _, _, _, _, _ => by intro h; cases h
  | n + 1, l, env, st, x, y => by
    cases s with
    | ret e =>
      cases e with
      | none => simp [eval, step, stepStmt]
      | some e =>
        simp only [eval, step, stepStmt]
        exact bindVal_ne_normal (by intro v st h; cases h)
    | throw e =>
      simp only [eval, step, stepStmt]
      exact bindVal_ne_normal (by intro v st h; cases h)
    | brk l => simp [eval, step, stepStmt]
    | cont l => simp [eval, step, stepStmt]
    | _ => simp [isAbrupt] at hs

/-! ### the simulation -/

def mapTask (act : Stmt → List Stmt → Action) : Task → Task
  | .expr e => .expr e
  | .stmt s l => .stmt (gS act s) l
  | .call f t a => .call f t a
  | .whileLoop c b l V => .whileLoop c (gS act b) l V
  | .doLoop b c l V => .doLoop (gS act b) c l V
  | .forLoop per t u b l V => .forLoop per t u (gS act b) l V
  | .forOfLoop k x arr i b l V => .forOfLoop k x arr i (gS act b) l V


/-- Statement lists, generalised over a continuation list (needed for `switch` case blocks). -/
theorem evalStmts_g (ok : ActOK act) (P : Prog) (n : Nat) {P' : Prog}
    (hS : ∀ s l env st, evalS P' n (gS act s) l env st = evalS P n s l env st) :
    ∀ (ss rest' rest : List Stmt),
      (∀ V env st, evalStmts (evalS P' n) rest' V env st = evalStmts (evalS P n) rest V env st) →
      ∀ V env st, evalStmts (evalS P' n) (gL act ss ++ rest') V env st =
                  evalStmts (evalS P n) (ss ++ rest) V env st
  | [], rest', rest, h, V, env, st => by simpa [gL] using h V env st
  | s :: ss, rest', rest, h, V, env, st => by
    have ih := evalStmts_g ok P n hS ss rest' rest h
    unfold gL
    cases hact : act s ss with
    | keep =>
      simp only [List.cons_append, evalStmts, hS, ih]
    | cutAfter =>
      have hab := (ok.cut s ss hact).1
      have hs : gS act s = s := by cases s <;> simp [isAbrupt] at hab <;> simp [gS]
      have hne := eval_abrupt_not_normal P hab n [] env st
      simp only [List.cons_append, List.nil_append, evalStmts]
      have h1 := hS s [] env st
      rw [hs] at h1
      rw [hs, h1]
      cases hr : evalS P n s [] env st with
      | timeout => rfl
      | unsup w => rfl
      | done c st1 =>
        cases c with
        | normal v => exact absurd hr (hne v st1)
        | _ => rfl
    | dropHead =>
      simp only []
      rw [ih V env st]
      exact (ok.drop_sem s ss hact rest P n V env st).symm

theorem evalStmts_g0 (ok : ActOK act) (P : Prog) (n : Nat) {P' : Prog}
    (hS : ∀ s l env st, evalS P' n (gS act s) l env st = evalS P n s l env st)
    (ss : List Stmt) (V : Option Val) (env : Env) (st : St) :
    evalStmts (evalS P' n) (gL act ss) V env st = evalStmts (evalS P n) ss V env st := by
  have := evalStmts_g ok P n hS ss [] [] (by intro V env st; rfl) V env st
  simpa using this

theorem evalBlock_g (ok : ActOK act) (P : Prog) (n : Nat) {P' : Prog}
    (hS : ∀ s l env st, evalS P' n (gS act s) l env st = evalS P n s l env st)
    (ss : List Stmt) (env : Env) (st : St) :
    evalBlock (evalS P' n) (gL act ss) env st = evalBlock (evalS P n) ss env st := by
  unfold evalBlock
  rw [enterBlock_g ok]
  exact evalStmts_g0 ok P n hS ss _ _ _

theorem evalStmts_caseBodies_g (ok : ActOK act) (P : Prog) (n : Nat) {P' : Prog}
    (hS : ∀ s l env st, evalS P' n (gS act s) l env st = evalS P n s l env st) :
    ∀ (cs : List Case) (V : Option Val) (env : Env) (st : St),
      evalStmts (evalS P' n) (caseBodies (gC act cs)) V env st =
      evalStmts (evalS P n) (caseBodies cs) V env st
  | [], _, _, _ => by simp [gC, caseBodies, evalStmts]
  | (.mk t b) :: cs, V, env, st => by
    simp only [gC, caseBodies]
    exact evalStmts_g ok P n hS b _ _ (evalStmts_caseBodies_g ok P n hS cs) V env st

theorem stepStmt_g (ok : ActOK act) (P : Prog) (n : Nat) {P' : Prog} (recE : RecE)
    (ih : ∀ t env st, eval P' n (mapTask act t) env st = eval P n t env st)
    (s : Stmt) (l : List Name) (env : Env) (st : St) :
    stepStmt recE (evalS P' n) (eval P' n) (gS act s) l env st =
    stepStmt recE (evalS P n) (eval P n) s l env st := by
  have hS : ∀ s l env st, evalS P' n (gS act s) l env st = evalS P n s l env st :=
    fun s l env st => ih (.stmt s l) env st
  cases s with
  | expr e => rfl
  | decl k ds => rfl
  | fdecl x i => rfl
  | empty => rfl
  | brk l => rfl
  | cont l => rfl
  | ret e => cases e <;> rfl
  | throw e => rfl
  | outside w => rfl
  | block ss => simp only [gS, stepStmt]; exact evalBlock_g ok P n hS ss env st
  | ite c t e =>
    have : ∀ v st1, evalS P' n (if toBool v = true then gS act t else gS act e) [] env st1 =
        evalS P n (if toBool v = true then t else e) [] env st1 := by
      intro v st1; split <;> exact hS _ _ _ _
    simp only [gS, stepStmt, this]
  | «while» c b => simp only [gS, stepStmt]; exact ih (.whileLoop c b l .undef) env st
  | doWhile b c => simp only [gS, stepStmt]; exact ih (.doLoop b c l .undef) env st
  | «for» i t u b =>
    have hT : ∀ per V env st, eval P' n (.forLoop per t u (gS act b) l V) env st =
        eval P n (.forLoop per t u b l V) env st := fun per V env st => ih (.forLoop per t u b l V) env st
    simp only [gS, stepStmt, evalFor, hT]
  | forOf k x e b =>
    have hT : ∀ arr i V env st, eval P' n (.forOfLoop k x arr i (gS act b) l V) env st =
        eval P n (.forOfLoop k x arr i b l V) env st := fun arr i V env st => ih (.forOfLoop k x arr i b l V) env st
    simp only [gS, stepStmt, evalForOf, hT]
  | «try» b hc p cb hf fb =>
    simp only [gS, stepStmt, evalTry, evalCatch, evalFinally, evalBlock_g ok P n hS]
  | labeled l' s => simp only [gS, stepStmt, hS]
  | switch e cs =>
    simp only [gS, stepStmt, evalSwitch,
      enterBlock_congr (caseBodies_decls_g ok cs).1 (caseBodies_decls_g ok cs).2, findCase_g,
      caseStart, defaultIdx_g, runCases, gC_drop, evalStmts_caseBodies_g ok P n hS]

theorem mapBodies_funs (f : List Stmt → List Stmt) (P : Prog) :
    (P.mapBodies f).funs = P.funs.map (FunDef.mapBody f) := rfl
theorem mapBodies_body (f : List Stmt → List Stmt) (P : Prog) : (P.mapBodies f).body = f P.body := rfl

theorem stepCall_g (ok : ActOK act) (P : Prog) (n : Nat) (recE : RecE)
    (ih : ∀ t env st, eval (P.mapBodies (gL act)) n (mapTask act t) env st = eval P n t env st)
    (f t : Val) (a : List Val) (st : St) :
    stepCall (P.mapBodies (gL act)).funs recE (evalS (P.mapBodies (gL act)) n) f t a st =
    stepCall P.funs recE (evalS P n) f t a st := by
  have hS : ∀ s l env st, evalS (P.mapBodies (gL act)) n (gS act s) l env st = evalS P n s l env st :=
    fun s l env st => ih (.stmt s l) env st
  cases f with
  | clos idx cenv =>
    simp only [stepCall, mapBodies_funs, List.getElem?_map]
    cases h : P.funs[idx]? with
    | none => rfl
    | some fd =>
      simp only [Option.map, FunDef.mapBody, varNamesL_g ok, evalBlock_g ok P n hS]
  | _ => rfl

theorem step_g (ok : ActOK act) (P : Prog) (n : Nat)
    (ih : ∀ t env st, eval (P.mapBodies (gL act)) n (mapTask act t) env st = eval P n t env st)
    (t : Task) (env : Env) (st : St) :
    step (P.mapBodies (gL act)) (eval (P.mapBodies (gL act)) n) (mapTask act t) env st =
    step P (eval P n) t env st := by
  have hE : (fun e => eval (P.mapBodies (gL act)) n (.expr e)) = (fun e => eval P n (.expr e)) :=
    funext fun e => funext fun env => funext fun st => ih (.expr e) env st
  have hC : (fun f t a => eval (P.mapBodies (gL act)) n (.call f t a) []) =
      (fun f t a => eval P n (.call f t a) []) :=
    funext fun f => funext fun t => funext fun a => funext fun st => ih (.call f t a) [] st
  have hS : ∀ s l env st, evalS (P.mapBodies (gL act)) n (gS act s) l env st = evalS P n s l env st :=
    fun s l env st => ih (.stmt s l) env st
  cases t with
  | expr e =>
    simp only [mapTask, step]
    rw [hE, hC]; rfl
  | stmt s l =>
    simp only [mapTask, step]
    rw [hE]
    exact stepStmt_g ok P n _ ih s l env st
  | call f t a =>
    simp only [mapTask, step]
    rw [hE]
    exact stepCall_g ok P n _ ih f t a st
  | whileLoop c b l V =>
    have hT : ∀ V env st, eval (P.mapBodies (gL act)) n (.whileLoop c (gS act b) l V) env st =
        eval P n (.whileLoop c b l V) env st := fun V env st => ih (.whileLoop c b l V) env st
    simp only [mapTask, step]
    rw [hE]
    simp only [stepWhile, hS, hT]
  | doLoop b c l V =>
    have hT : ∀ V env st, eval (P.mapBodies (gL act)) n (.doLoop (gS act b) c l V) env st =
        eval P n (.doLoop b c l V) env st := fun V env st => ih (.doLoop b c l V) env st
    simp only [mapTask, step]
    rw [hE]
    simp only [stepDo, hS, hT]
  | forLoop per t u b l V =>
    have hT : ∀ V env st, eval (P.mapBodies (gL act)) n (.forLoop per t u (gS act b) l V) env st =
        eval P n (.forLoop per t u b l V) env st := fun V env st => ih (.forLoop per t u b l V) env st
    simp only [mapTask, step]
    rw [hE]
    simp only [stepFor, forBody, hS, hT]
  | forOfLoop k x arr i b l V =>
    have hT : ∀ i V env st, eval (P.mapBodies (gL act)) n (.forOfLoop k x arr i (gS act b) l V) env st =
        eval P n (.forOfLoop k x arr i b l V) env st := fun i V env st => ih (.forOfLoop k x arr i b l V) env st
    simp only [mapTask, step, stepForOf, hS, hT]

/-- Lock-step simulation: the rewritten program evaluates every (rewritten) task exactly like the
original, with the same fuel, on the same state. -/
theorem eval_g (ok : ActOK act) (P : Prog) : ∀ (n : Nat) (t : Task) (env : Env) (st : St),
    eval (P.mapBodies (gL act)) n (mapTask act t) env st = eval P n t env st
  | 0, _, _, _ => rfl
  | n + 1, t, env, st => step_g ok P n (eval_g ok P n) t env st

theorem run_g (ok : ActOK act) (P : Prog) (n : Nat) : run (P.mapBodies (gL act)) n = run P n := by
  have hS : ∀ s l env st, evalS (P.mapBodies (gL act)) n (gS act s) l env st = evalS P n s l env st :=
    fun s l env st => eval_g ok P n (.stmt s l) env st
  simp only [run, mapBodies_body, varNamesL_g ok]
  exact evalBlock_g ok P n hS P.body _ _

end
end GojaModel.C02
