/-
  C02 — fuel monotonicity of the MiniJS evaluator.
  `Res.le a b` : `a` is `timeout` or equal to `b` (information order on results).
  Every one-level evaluator is monotone in the evaluators it receives for sub-tasks.
-/
import GojaModel.C02.Model

namespace GojaModel.C02

def Res.le (a b : Res) : Prop := a = .timeout ∨ a = b

theorem Res.le_refl (a : Res) : Res.le a a := Or.inr rfl
theorem Res.timeout_le (a : Res) : Res.le .timeout a := Or.inl rfl

theorem Res.le_trans {a b c : Res} (h1 : Res.le a b) (h2 : Res.le b c) : Res.le a c := by
  rcases h1 with h | h
  · exact Or.inl h
  · subst h; exact h2

theorem bindVal_mono {r1 r2 : Res} {k1 k2 : Val → St → Res}
    (h : Res.le r1 r2) (hk : ∀ v st, Res.le (k1 v st) (k2 v st)) :
    Res.le (bindVal r1 k1) (bindVal r2 k2) := by
  rcases h with h | h
  · subst h; exact Or.inl rfl
  · subst h; unfold bindVal; split <;> first | exact hk _ _ | exact Res.le_refl _

theorem bindSt_mono {r1 r2 : Res} {k1 k2 : St → Res}
    (h : Res.le r1 r2) (hk : ∀ st, Res.le (k1 st) (k2 st)) :
    Res.le (bindSt r1 k1) (bindSt r2 k2) := by
  rcases h with h | h
  · subst h; exact Or.inl rfl
  · subst h; unfold bindSt; split <;> first | exact hk _ | exact Res.le_refl _

theorem updEmpty_mono {r1 r2 : Res} (V : Val) (h : Res.le r1 r2) :
    Res.le (updEmpty r1 V) (updEmpty r2 V) := by
  rcases h with h | h
  · subst h; exact Or.inl rfl
  · subst h; exact Res.le_refl _

theorem afterBody_mono {r1 r2 : Res} {lbls : List Name} {V : Val} {k1 k2 : Val → St → Res}
    (h : Res.le r1 r2) (hk : ∀ v st, Res.le (k1 v st) (k2 v st)) :
    Res.le (afterBody r1 lbls V k1) (afterBody r2 lbls V k2) := by
  rcases h with h | h
  · subst h; exact Or.inl rfl
  · subst h; unfold afterBody; split
    · split <;> first | exact hk _ _ | exact Res.le_refl _
    · exact Res.le_refl _

theorem finishCall_mono {r1 r2 : Res} (h : Res.le r1 r2) : Res.le (finishCall r1) (finishCall r2) := by
  rcases h with h | h
  · subst h; exact Or.inl rfl
  · subst h; exact Res.le_refl _

/-- The workhorse: structural descent through combinators, closing leaves by hypotheses. -/
macro "mono" : tactic => `(tactic| repeat (first
  | exact Res.le_refl _
  | apply_assumption
  | apply bindVal_mono
  | apply bindSt_mono
  | apply updEmpty_mono
  | apply afterBody_mono
  | apply finishCall_mono
  | intro _
  | split))

section
variable {e1 e2 : RecE} {c1 c2 : RecC} {s1 s2 : RecS} {t1 t2 : RecT}

theorem callVal_mono (hC : ∀ f t a st, Res.le (c1 f t a st) (c2 f t a st)) (f t : Val) (a : List Val) (st : St) :
    Res.le (callVal c1 f t a st) (callVal c2 f t a st) := by
  unfold callVal; mono

theorem getProp_mono (hC : ∀ f t a st, Res.le (c1 f t a st) (c2 f t a st)) (ov : Val) (k : Name) (st : St) :
    Res.le (getProp c1 ov k st) (getProp c2 ov k st) := by
  have := callVal_mono hC
  unfold getProp; mono

theorem setProp_mono (hC : ∀ f t a st, Res.le (c1 f t a st) (c2 f t a st)) (b : Bool) (ov : Val) (k : Name)
    (v : Val) (st : St) : Res.le (setProp b c1 ov k v st) (setProp b c2 ov k v st) := by
  have := callVal_mono hC
  unfold setProp; mono

theorem getIdx_mono (hC : ∀ f t a st, Res.le (c1 f t a st) (c2 f t a st)) (ov iv : Val) (st : St) :
    Res.le (getIdx c1 ov iv st) (getIdx c2 ov iv st) := by
  have := getProp_mono hC
  unfold getIdx; mono

theorem setIdx_mono (hC : ∀ f t a st, Res.le (c1 f t a st) (c2 f t a st)) (b : Bool) (ov iv v : Val) (st : St) :
    Res.le (setIdx b c1 ov iv v st) (setIdx b c2 ov iv v st) := by
  have := setProp_mono hC
  unfold setIdx; mono

theorem evalArgs_mono (hE : ∀ e env st, Res.le (e1 e env st) (e2 e env st)) :
    ∀ (es : List Expr) (env : Env) (st : St) (acc : List Val) (k1 k2 : List Val → St → Res),
      (∀ vs st, Res.le (k1 vs st) (k2 vs st)) →
      Res.le (evalArgs e1 es env st acc k1) (evalArgs e2 es env st acc k2)
  | [], _, _, _, _, _, hk => hk _ _
  | e :: es, env, st, acc, k1, k2, hk => by
    unfold evalArgs
    apply bindVal_mono (hE _ _ _)
    intro v st1
    exact evalArgs_mono hE es env st1 (v :: acc) k1 k2 hk

theorem evalProps_mono (hE : ∀ e env st, Res.le (e1 e env st) (e2 e env st)) :
    ∀ (ps : List PropDef) (env : Env) (st : St) (acc : List (Name × Slot))
      (k1 k2 : List (Name × Slot) → St → Res),
      (∀ vs st, Res.le (k1 vs st) (k2 vs st)) →
      Res.le (evalProps e1 ps env st acc k1) (evalProps e2 ps env st acc k2)
  | [], _, _, _, _, _, hk => hk _ _
  | (.mk kind name e) :: ps, env, st, acc, k1, k2, hk => by
    unfold evalProps
    apply bindVal_mono (hE _ _ _)
    intro v st1
    exact evalProps_mono hE ps env st1 _ k1 k2 hk

end
end GojaModel.C02

namespace GojaModel.C02
section
variable {e1 e2 : RecE} {c1 c2 : RecC} {s1 s2 : RecS} {t1 t2 : RecT}

theorem evalUnopExpr_mono (hE : ∀ e env st, Res.le (e1 e env st) (e2 e env st))
    (op : UnOp) (a : Expr) (env : Env) (st : St) :
    Res.le (evalUnopExpr e1 op a env st) (evalUnopExpr e2 op a env st) := by
  unfold evalUnopExpr
  split
  · exact Res.le_refl _
  · apply bindVal_mono (hE _ _ _); intro _ _; exact Res.le_refl _

macro "monoE" : tactic => `(tactic| repeat (first
  | exact Res.le_refl _
  | apply bindVal_mono
  | apply_assumption
  | intro _
  | split))

theorem evalExpr_mono (hE : ∀ e env st, Res.le (e1 e env st) (e2 e env st))
    (hC : ∀ f t a st, Res.le (c1 f t a st) (c2 f t a st)) (b : Bool) (e : Expr) (env : Env) (st : St) :
    Res.le (evalExpr b e1 c1 e env st) (evalExpr b e2 c2 e env st) := by
  cases e with
  | lit l => exact Res.le_refl _
  | var x => exact Res.le_refl _
  | this => exact Res.le_refl _
  | func i => exact Res.le_refl _
  | outside w => exact Res.le_refl _
  | update i p x => exact Res.le_refl _
  | log a =>
    simp only [evalExpr]
    apply bindVal_mono (hE _ _ _); intro v st1; exact Res.le_refl _
  | unop op a => simp only [evalExpr]; exact evalUnopExpr_mono hE op a env st
  | binop op a b =>
    simp only [evalExpr]
    apply bindVal_mono (hE _ _ _); intro va st1
    apply bindVal_mono (hE _ _ _); intro vb st2; exact Res.le_refl _
  | logic op a b =>
    simp only [evalExpr]
    apply bindVal_mono (hE _ _ _); intro va st1
    split
    · exact Res.le_refl _
    · exact bindVal_mono (hE _ _ _) (fun _ _ => Res.le_refl _)
  | cond c a b =>
    simp only [evalExpr]
    apply bindVal_mono (hE _ _ _); intro vc st1
    exact bindVal_mono (hE _ _ _) (fun _ _ => Res.le_refl _)
  | comma a b =>
    simp only [evalExpr]
    apply bindVal_mono (hE _ _ _); intro vc st1
    exact bindVal_mono (hE _ _ _) (fun _ _ => Res.le_refl _)
  | assign x a =>
    simp only [evalExpr]
    apply bindVal_mono (hE _ _ _); intro v st1; exact Res.le_refl _
  | assignOp op x a =>
    simp only [evalExpr]
    apply bindVal_mono (Res.le_refl _); intro old st1
    apply bindVal_mono (hE _ _ _); intro v st2; exact Res.le_refl _
  | call f args =>
    simp only [evalExpr]
    apply bindVal_mono (hE _ _ _); intro fv st1
    apply evalArgs_mono hE; intro vs st2
    exact callVal_mono hC _ _ _ _
  | mcall o k args =>
    simp only [evalExpr]
    apply bindVal_mono (hE _ _ _); intro ov st1
    apply bindVal_mono (getProp_mono hC _ _ _); intro fv st2
    apply evalArgs_mono hE; intro vs st3
    exact callVal_mono hC _ _ _ _
  | obj ps =>
    simp only [evalExpr]
    apply evalProps_mono hE; intro vs st2; exact Res.le_refl _
  | arr es =>
    simp only [evalExpr]
    apply evalArgs_mono hE; intro vs st2; exact Res.le_refl _
  | get o k =>
    simp only [evalExpr]
    apply bindVal_mono (hE _ _ _); intro ov st1
    exact getProp_mono hC _ _ _
  | idx o i =>
    simp only [evalExpr]
    apply bindVal_mono (hE _ _ _); intro ov st1
    apply bindVal_mono (hE _ _ _); intro iv st2
    exact getIdx_mono hC _ _ _
  | set o k v =>
    simp only [evalExpr]
    apply bindVal_mono (hE _ _ _); intro ov st1
    apply bindVal_mono (hE _ _ _); intro vv st2
    exact setProp_mono hC _ _ _ _ _
  | setIdx o i v =>
    simp only [evalExpr]
    apply bindVal_mono (hE _ _ _); intro ov st1
    apply bindVal_mono (hE _ _ _); intro iv st2
    apply bindVal_mono (hE _ _ _); intro vv st3
    exact setIdx_mono hC _ _ _ _ _

theorem evalStmts_mono (hS : ∀ s l env st, Res.le (s1 s l env st) (s2 s l env st)) :
    ∀ (ss : List Stmt) (V : Option Val) (env : Env) (st : St),
      Res.le (evalStmts s1 ss V env st) (evalStmts s2 ss V env st)
  | [], _, _, _ => Res.le_refl _
  | s :: ss, V, env, st => by
    unfold evalStmts
    rcases hS s [] env st with h | h
    · rw [h]; exact Or.inl rfl
    · rw [h]; split
      · exact evalStmts_mono hS ss _ env _
      · exact Res.le_refl _
      · exact Res.le_refl _

theorem evalDeclrs_mono (hE : ∀ e env st, Res.le (e1 e env st) (e2 e env st)) :
    ∀ (ds : List Declr) (b : Bool) (env : Env) (st : St),
      Res.le (evalDeclrs e1 ds b env st) (evalDeclrs e2 ds b env st)
  | [], _, _, _ => Res.le_refl _
  | d :: ds, b, env, st => by
    unfold evalDeclrs
    split
    · apply bindVal_mono (hE _ _ _); intro v st1; exact evalDeclrs_mono hE ds b env _
    · split
      · exact evalDeclrs_mono hE ds b env _
      · exact evalDeclrs_mono hE ds b env _

theorem findCase_mono (hE : ∀ e env st, Res.le (e1 e env st) (e2 e env st)) (dv : Val) :
    ∀ (cs : List Case) (i : Nat) (env : Env) (st : St),
      Res.le (findCase e1 dv cs i env st) (findCase e2 dv cs i env st)
  | [], _, _, _ => Res.le_refl _
  | (.mk none _) :: cs, i, env, st => by
    unfold findCase; exact findCase_mono hE dv cs (i + 1) env st
  | (.mk (some t) _) :: cs, i, env, st => by
    unfold findCase
    apply bindVal_mono (hE _ _ _); intro tv st1
    split
    · exact Res.le_refl _
    · exact Res.le_refl _
    · exact findCase_mono hE dv cs (i + 1) env st1

theorem evalBlock_mono (hS : ∀ s l env st, Res.le (s1 s l env st) (s2 s l env st))
    (ss : List Stmt) (env : Env) (st : St) :
    Res.le (evalBlock s1 ss env st) (evalBlock s2 ss env st) := by
  unfold evalBlock; exact evalStmts_mono hS _ _ _ _

theorem evalCatch_mono (hS : ∀ s l env st, Res.le (s1 s l env st) (s2 s l env st))
    (p : Option Name) (cb : List Stmt) (v : Val) (env : Env) (st : St) :
    Res.le (evalCatch s1 p cb v env st) (evalCatch s2 p cb v env st) := by
  have := evalBlock_mono hS
  unfold evalCatch; mono

theorem evalFinally_mono (hS : ∀ s l env st, Res.le (s1 s l env st) (s2 s l env st))
    {r1 r2 : Res} (h : Res.le r1 r2) (hf : Bool) (fb : List Stmt) (env : Env) :
    Res.le (evalFinally s1 r1 hf fb env) (evalFinally s2 r2 hf fb env) := by
  rcases h with h | h
  · subst h; unfold evalFinally; split
    · exact Or.inl rfl
    · exact Or.inl rfl
  · subst h
    unfold evalFinally
    split
    · exact Res.le_refl _
    · split
      · rcases evalBlock_mono hS fb env ‹St› with h | h
        · rw [h]; exact Or.inl rfl
        · rw [h]; exact Res.le_refl _
      · exact Res.le_refl _

theorem evalTry_mono (hS : ∀ s l env st, Res.le (s1 s l env st) (s2 s l env st))
    (b : List Stmt) (hc : Bool) (p : Option Name) (cb : List Stmt) (hf : Bool) (fb : List Stmt)
    (env : Env) (st : St) :
    Res.le (evalTry s1 b hc p cb hf fb env st) (evalTry s2 b hc p cb hf fb env st) := by
  unfold evalTry
  apply evalFinally_mono hS
  rcases evalBlock_mono hS b env st with h | h
  · rw [h]; exact Or.inl rfl
  · rw [h]
    split
    · split
      · exact evalCatch_mono hS _ _ _ _ _
      · exact Res.le_refl _
    · exact Res.le_refl _

end
end GojaModel.C02

namespace GojaModel.C02
section
variable {e1 e2 : RecE} {c1 c2 : RecC} {s1 s2 : RecS} {t1 t2 : RecT}

theorem runCases_mono (hS : ∀ s l env st, Res.le (s1 s l env st) (s2 s l env st))
    (cs : List Case) (start : Option Nat) (env : Env) (st : St) :
    Res.le (runCases s1 cs start env st) (runCases s2 cs start env st) := by
  cases start with
  | none => exact Res.le_refl _
  | some i =>
    simp only [runCases]
    rcases evalStmts_mono hS (caseBodies (cs.drop i)) (some .undef) env st with h | h
    · rw [h]; exact Or.inl rfl
    · rw [h]; exact Res.le_refl _

theorem evalSwitch_mono (hE : ∀ e env st, Res.le (e1 e env st) (e2 e env st))
    (hS : ∀ s l env st, Res.le (s1 s l env st) (s2 s l env st))
    (e : Expr) (cs : List Case) (env : Env) (st : St) :
    Res.le (evalSwitch e1 s1 e cs env st) (evalSwitch e2 s2 e cs env st) := by
  unfold evalSwitch
  apply bindVal_mono (hE _ _ _); intro dv st1
  apply bindVal_mono (findCase_mono hE _ _ _ _ _); intro r st3
  exact runCases_mono hS _ _ _ _

theorem evalFor_mono (hE : ∀ e env st, Res.le (e1 e env st) (e2 e env st))
    (hT : ∀ t env st, Res.le (t1 t env st) (t2 t env st))
    (init : ForInit) (test upd : Option Expr) (b : Stmt) (l : List Name) (env : Env) (st : St) :
    Res.le (evalFor e1 t1 init test upd b l env st) (evalFor e2 t2 init test upd b l env st) := by
  unfold evalFor
  split
  · exact hT _ _ _
  · apply bindVal_mono (hE _ _ _); intro _ _; exact hT _ _ _
  · apply bindSt_mono (evalDeclrs_mono hE _ _ _ _); intro _; exact hT _ _ _
  · apply bindSt_mono (evalDeclrs_mono hE _ _ _ _); intro _; exact hT _ _ _

theorem evalForOf_mono (hE : ∀ e env st, Res.le (e1 e env st) (e2 e env st))
    (hT : ∀ t env st, Res.le (t1 t env st) (t2 t env st))
    (k : DeclKind) (x : Name) (e : Expr) (b : Stmt) (l : List Name) (env : Env) (st : St) :
    Res.le (evalForOf e1 t1 k x e b l env st) (evalForOf e2 t2 k x e b l env st) := by
  unfold evalForOf
  apply bindVal_mono (hE _ _ _); intro v st1
  split
  · split
    · split
      · exact hT _ _ _
      · exact Res.le_refl _
    · exact Res.le_refl _
  · exact Res.le_refl _
  · exact Res.le_refl _
  · exact Res.le_refl _

theorem stepStmt_mono (hE : ∀ e env st, Res.le (e1 e env st) (e2 e env st))
    (hS : ∀ s l env st, Res.le (s1 s l env st) (s2 s l env st))
    (hT : ∀ t env st, Res.le (t1 t env st) (t2 t env st))
    (s : Stmt) (l : List Name) (env : Env) (st : St) :
    Res.le (stepStmt e1 s1 t1 s l env st) (stepStmt e2 s2 t2 s l env st) := by
  cases s with
  | expr e => simp only [stepStmt]; exact bindVal_mono (hE _ _ _) (fun _ _ => Res.le_refl _)
  | decl k ds => simp only [stepStmt]; exact evalDeclrs_mono hE _ _ _ _
  | fdecl x i => exact Res.le_refl _
  | empty => exact Res.le_refl _
  | block ss => simp only [stepStmt]; exact evalBlock_mono hS _ _ _
  | ite c t e =>
    simp only [stepStmt]
    apply bindVal_mono (hE _ _ _); intro v st1
    exact updEmpty_mono _ (hS _ _ _ _)
  | «while» c b => simp only [stepStmt]; exact hT _ _ _
  | doWhile b c => simp only [stepStmt]; exact hT _ _ _
  | «for» i t u b => simp only [stepStmt]; exact evalFor_mono hE hT _ _ _ _ _ _ _
  | forOf k x e b => simp only [stepStmt]; exact evalForOf_mono hE hT _ _ _ _ _ _ _
  | brk l => exact Res.le_refl _
  | cont l => exact Res.le_refl _
  | ret e =>
    cases e with
    | none => exact Res.le_refl _
    | some e => simp only [stepStmt]; exact bindVal_mono (hE _ _ _) (fun _ _ => Res.le_refl _)
  | throw e => simp only [stepStmt]; exact bindVal_mono (hE _ _ _) (fun _ _ => Res.le_refl _)
  | «try» b hc p cb hf fb => simp only [stepStmt]; exact evalTry_mono hS _ _ _ _ _ _ _ _
  | labeled l' s =>
    simp only [stepStmt]
    rcases hS s (l' :: l) env st with h | h
    · rw [h]; exact Or.inl rfl
    · rw [h]; exact Res.le_refl _
  | switch e cs => simp only [stepStmt]; exact evalSwitch_mono hE hS _ _ _ _
  | outside w => exact Res.le_refl _

theorem stepWhile_mono (hE : ∀ e env st, Res.le (e1 e env st) (e2 e env st))
    (hS : ∀ s l env st, Res.le (s1 s l env st) (s2 s l env st))
    (hT : ∀ t env st, Res.le (t1 t env st) (t2 t env st))
    (c : Expr) (b : Stmt) (l : List Name) (V : Val) (env : Env) (st : St) :
    Res.le (stepWhile e1 s1 t1 c b l V env st) (stepWhile e2 s2 t2 c b l V env st) := by
  unfold stepWhile
  apply bindVal_mono (hE _ _ _); intro tv st1
  split
  · exact Res.le_refl _
  · exact afterBody_mono (hS _ _ _ _) (fun _ _ => hT _ _ _)

theorem stepDo_mono (hE : ∀ e env st, Res.le (e1 e env st) (e2 e env st))
    (hS : ∀ s l env st, Res.le (s1 s l env st) (s2 s l env st))
    (hT : ∀ t env st, Res.le (t1 t env st) (t2 t env st))
    (b : Stmt) (c : Expr) (l : List Name) (V : Val) (env : Env) (st : St) :
    Res.le (stepDo e1 s1 t1 b c l V env st) (stepDo e2 s2 t2 b c l V env st) := by
  unfold stepDo
  apply afterBody_mono (hS _ _ _ _); intro V' st2
  apply bindVal_mono (hE _ _ _); intro tv st3
  split
  · exact Res.le_refl _
  · exact hT _ _ _

theorem forBody_mono (hE : ∀ e env st, Res.le (e1 e env st) (e2 e env st))
    (hS : ∀ s l env st, Res.le (s1 s l env st) (s2 s l env st))
    (hT : ∀ t env st, Res.le (t1 t env st) (t2 t env st))
    (per : List Name) (test upd : Option Expr) (b : Stmt) (l : List Name) (V : Val) (env : Env) (st : St) :
    Res.le (forBody e1 s1 t1 per test upd b l V env st) (forBody e2 s2 t2 per test upd b l V env st) := by
  unfold forBody
  apply afterBody_mono (hS _ _ _ _); intro V' st2
  split
  · exact hT _ _ _
  · apply bindVal_mono (hE _ _ _); intro _ _; exact hT _ _ _

theorem stepFor_mono (hE : ∀ e env st, Res.le (e1 e env st) (e2 e env st))
    (hS : ∀ s l env st, Res.le (s1 s l env st) (s2 s l env st))
    (hT : ∀ t env st, Res.le (t1 t env st) (t2 t env st))
    (per : List Name) (test upd : Option Expr) (b : Stmt) (l : List Name) (V : Val) (env : Env) (st : St) :
    Res.le (stepFor e1 s1 t1 per test upd b l V env st) (stepFor e2 s2 t2 per test upd b l V env st) := by
  unfold stepFor
  split
  · exact forBody_mono hE hS hT _ _ _ _ _ _ _ _
  · apply bindVal_mono (hE _ _ _); intro tv st1
    split
    · exact Res.le_refl _
    · exact forBody_mono hE hS hT _ _ _ _ _ _ _ _

theorem stepForOf_mono (hS : ∀ s l env st, Res.le (s1 s l env st) (s2 s l env st))
    (hT : ∀ t env st, Res.le (t1 t env st) (t2 t env st))
    (k : DeclKind) (x : Name) (arr i : Nat) (b : Stmt) (l : List Name) (V : Val) (env : Env) (st : St) :
    Res.le (stepForOf s1 t1 k x arr i b l V env st) (stepForOf s2 t2 k x arr i b l V env st) := by
  unfold stepForOf
  split
  · exact Res.le_refl _
  · split
    · exact afterBody_mono (hS _ _ _ _) (fun _ _ => hT _ _ _)
    · exact Res.le_refl _

theorem bindParams_mono (hE : ∀ e env st, Res.le (e1 e env st) (e2 e env st)) :
    ∀ (ps : List Param) (args : List Val) (env : Env) (st : St),
      Res.le (bindParams e1 ps args env st) (bindParams e2 ps args env st)
  | [], _, _, _ => Res.le_refl _
  | p :: ps, args, env, st => by
    unfold bindParams
    split
    · apply bindVal_mono (hE _ _ _); intro v st1; exact bindParams_mono hE ps _ env _
    · exact bindParams_mono hE ps _ env _

theorem stepCall_mono (hE : ∀ e env st, Res.le (e1 e env st) (e2 e env st))
    (hS : ∀ s l env st, Res.le (s1 s l env st) (s2 s l env st))
    (funs : List FunDef) (f t : Val) (a : List Val) (st : St) :
    Res.le (stepCall funs e1 s1 f t a st) (stepCall funs e2 s2 f t a st) := by
  unfold stepCall
  split
  · split
    · exact Res.le_refl _
    · apply bindSt_mono (bindParams_mono hE _ _ _ _); intro st3
      exact finishCall_mono (evalBlock_mono hS _ _ _)
  · exact Res.le_refl _

theorem step_mono (P : Prog) (hT : ∀ t env st, Res.le (t1 t env st) (t2 t env st))
    (t : Task) (env : Env) (st : St) : Res.le (step P t1 t env st) (step P t2 t env st) := by
  have hE : ∀ e env st, Res.le (t1 (.expr e) env st) (t2 (.expr e) env st) := fun _ _ _ => hT _ _ _
  have hS : ∀ s l env st, Res.le (t1 (.stmt s l) env st) (t2 (.stmt s l) env st) := fun _ _ _ _ => hT _ _ _
  have hC : ∀ f t a st, Res.le (t1 (.call f t a) [] st) (t2 (.call f t a) [] st) := fun _ _ _ _ => hT _ _ _
  cases t with
  | expr e => exact evalExpr_mono hE hC _ _ _ _
  | stmt s l => exact stepStmt_mono hE hS hT _ _ _ _
  | call f t a => exact stepCall_mono hE hS _ _ _ _ _
  | whileLoop c b l V => exact stepWhile_mono hE hS hT _ _ _ _ _ _
  | doLoop b c l V => exact stepDo_mono hE hS hT _ _ _ _ _ _
  | forLoop per test upd b l V => exact stepFor_mono hE hS hT _ _ _ _ _ _ _ _
  | forOfLoop k x arr i b l V => exact stepForOf_mono hS hT _ _ _ _ _ _ _ _ _

theorem eval_succ_le (P : Prog) : ∀ (n : Nat) (t : Task) (env : Env) (st : St),
    Res.le (eval P n t env st) (eval P (n + 1) t env st)
  | 0, _, _, _ => Res.timeout_le _
  | n + 1, t, env, st => step_mono P (eval_succ_le P n) t env st

theorem eval_le_of_le (P : Prog) {n m : Nat} (h : n ≤ m) (t : Task) (env : Env) (st : St) :
    Res.le (eval P n t env st) (eval P m t env st) := by
  induction h with
  | refl => exact Res.le_refl _
  | step _ ih => exact Res.le_trans ih (eval_succ_le P _ t env st)

end
end GojaModel.C02
