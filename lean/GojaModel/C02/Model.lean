/-
  C02 / MiniJS — the reference interpreter (spec-level model; core Lean only).

  Shape: environments map names to store locations (`Env = List (Name × Nat)`), the store holds
  cells (`none` = uninitialised / TDZ, plus a mutability flag), objects live in a heap, closures
  are values `(function-table index, captured environment)`.  `this` is an ordinary immutable
  binding named "this" created at the entry of a non-arrow function, so arrows see the enclosing one.

  `eval P n` is defined by OPEN RECURSION: `eval P 0 = timeout`, `eval P (n+1) = step P (eval P n)`,
  where `step` is a non-recursive one-level evaluator that receives the evaluator for sub-tasks as
  a parameter.  Statement lists and argument lists are traversed by ordinary list recursion and do
  not consume fuel.  Completion values follow ECMA-262 (UpdateEmpty, LoopContinues,
  BreakableStatement, CaseBlockEvaluation, try/finally).

  Numbers are integers with |i| ≤ 2^53-1; any operation leaving that range, and every operation
  whose JS semantics needs ToPrimitive / NaN / property lookup on primitives, leaves the fragment
  (`Res.unsup`) rather than being modelled.
-/
import GojaModel.C02.Syntax

namespace GojaModel.C02

abbrev Env := List (Name × Nat)

inductive ErrKind where
  | type | ref
  deriving Repr, Inhabited, DecidableEq

inductive Val where
  | undef | null
  | bool (b : Bool)
  | num (i : Int)
  | str (s : String)
  | obj (id : Nat)
  | clos (idx : Nat) (env : Env)
  | err (k : ErrKind)                 -- engine-thrown native error (only its constructor is observable)
  deriving Inhabited

structure Cell where
  v : Option Val                      -- none = uninitialised (TDZ)
  mutable : Bool
  deriving Inhabited

inductive Slot where
  | data (v : Val)
  | acc (g s : Option Val)
  deriving Inhabited

structure Obj where
  isArr : Bool
  props : List (Name × Slot)          -- insertion order
  elems : List Val
  deriving Inhabited

structure St where
  store : Array Cell
  heap : Array Obj
  log : List String                   -- most recent first
  deriving Inhabited

inductive Compl where
  | normal (v : Option Val)
  | brk (l : Option Name) (v : Option Val)
  | cont (l : Option Name) (v : Option Val)
  | ret (v : Val)
  | thr (v : Val)
  deriving Inhabited

inductive Res where
  | timeout
  | unsup (why : String)
  | done (c : Compl) (st : St)
  deriving Inhabited

inductive Task where
  | expr (e : Expr)
  | stmt (s : Stmt) (lbls : List Name)
  | call (f thisV : Val) (args : List Val)
  | whileLoop (c : Expr) (b : Stmt) (lbls : List Name) (V : Val)
  | doLoop (b : Stmt) (c : Expr) (lbls : List Name) (V : Val)
  | forLoop (per : List Name) (test upd : Option Expr) (b : Stmt) (lbls : List Name) (V : Val)
  | forOfLoop (k : DeclKind) (x : Name) (arr : Nat) (i : Nat) (b : Stmt) (lbls : List Name) (V : Val)

abbrev RecE := Expr → Env → St → Res
abbrev RecC := Val → Val → List Val → St → Res
abbrev RecS := Stmt → List Name → Env → St → Res
abbrev RecT := Task → Env → St → Res

/-! ### Combinators -/

def Res.val (v : Val) (st : St) : Res := .done (.normal (some v)) st
def Res.empty (st : St) : Res := .done (.normal none) st
def throwErr (k : ErrKind) (st : St) : Res := .done (.thr (.err k)) st

/-- Continue with the value of an expression-like result; everything else is propagated. -/
def bindVal (r : Res) (k : Val → St → Res) : Res :=
  match r with
  | .done (.normal (some v)) st => k v st
  | .done (.thr v) st => .done (.thr v) st
  | .done _ _ => .unsup "non-value completion in expression position"
  | r => r

/-- Continue after a normal completion (value ignored). -/
def bindSt (r : Res) (k : St → Res) : Res :=
  match r with
  | .done (.normal _) st => k st
  | r => r

def Compl.updateEmpty (c : Compl) (V : Option Val) : Compl :=
  match c with
  | .normal none => .normal V
  | .brk l none => .brk l V
  | .cont l none => .cont l V
  | c => c

def updEmpty (r : Res) (V : Val) : Res :=
  match r with
  | .done c st => .done (c.updateEmpty (some V)) st
  | r => r

/-- ECMA-262 LoopContinues. -/
def loopContinues (c : Compl) (lbls : List Name) : Bool :=
  match c with
  | .normal _ => true
  | .cont none _ => true
  | .cont (some l) _ => lbls.contains l
  | _ => false

def Compl.valueOr (c : Compl) (V : Val) : Val :=
  match c with
  | .normal (some v) => v
  | .cont _ (some v) => v
  | .brk _ (some v) => v
  | _ => V

/-- BreakableStatement: an unlabelled `break` ends here. -/
def loopExit (c : Compl) : Compl :=
  match c with
  | .brk none v => .normal (some (v.getD .undef))
  | c => c

/-! ### Values -/

def litVal : Lit → Val
  | .undef => .undef | .null => .null | .bool b => .bool b | .num i => .num i | .str s => .str s

def toBool : Val → Bool
  | .undef => false | .null => false | .bool b => b
  | .num i => i != 0 | .str s => s != "" | _ => true

def maxSafe : Int := 9007199254740991

def safeNum (i : Int) (st : St) : Res :=
  if -maxSafe ≤ i ∧ i ≤ maxSafe then .val (.num i) st else .unsup "number leaves safe-integer range"

/-- ToString for the primitives the fragment concatenates. -/
def primToString : Val → Option String
  | .undef => some "undefined" | .null => some "null"
  | .bool b => some (if b then "true" else "false")
  | .num i => some (toString i) | .str s => some s
  | _ => none

def typeofVal : Val → String
  | .undef => "undefined" | .null => "object" | .bool _ => "boolean" | .num _ => "number"
  | .str _ => "string" | .obj _ => "object" | .clos _ _ => "function" | .err _ => "object"

/-- `===`; `none` = outside the fragment (function / native-error identity). -/
def strictEq : Val → Val → Option Bool
  | .clos _ _, _ => none | _, .clos _ _ => none
  | .err _, _ => none | _, .err _ => none
  | .undef, .undef => some true | .null, .null => some true
  | .bool a, .bool b => some (a == b) | .num a, .num b => some (a == b)
  | .str a, .str b => some (a == b) | .obj a, .obj b => some (a == b)
  | _, _ => some false

def evalUnop (op : UnOp) (v : Val) (st : St) : Res :=
  match op, v with
  | .not, v => .val (.bool (!toBool v)) st
  | .void, _ => .val .undef st
  | .typeof, v => .val (.str (typeofVal v)) st
  | .neg, .num i => .val (.num (-i)) st
  | .plus, .num i => .val (.num i) st
  | _, _ => .unsup "unary operator on non-number"

def evalBinop (op : BinOp) (a b : Val) (st : St) : Res :=
  match op, a, b with
  | .add, .num x, .num y => safeNum (x + y) st
  | .add, .str x, y => match primToString y with
      | some s => .val (.str (x ++ s)) st | none => .unsup "string + object"
  | .add, x, .str y => match primToString x with
      | some s => .val (.str (s ++ y)) st | none => .unsup "object + string"
  | .sub, .num x, .num y => safeNum (x - y) st
  | .mul, .num x, .num y => safeNum (x * y) st
  | .mod, .num x, .num y => if y == 0 then .unsup "% 0" else .val (.num (Int.tmod x y)) st
  | .lt, .num x, .num y => .val (.bool (x < y)) st
  | .le, .num x, .num y => .val (.bool (x ≤ y)) st
  | .gt, .num x, .num y => .val (.bool (x > y)) st
  | .ge, .num x, .num y => .val (.bool (x ≥ y)) st
  | .lt, .str x, .str y => .val (.bool (x < y)) st
  | .le, .str x, .str y => .val (.bool (x ≤ y)) st
  | .gt, .str x, .str y => .val (.bool (x > y)) st
  | .ge, .str x, .str y => .val (.bool (x ≥ y)) st
  | .seq, x, y => match strictEq x y with
      | some r => .val (.bool r) st | none => .unsup "=== on function/error"
  | .sne, x, y => match strictEq x y with
      | some r => .val (.bool (!r)) st | none => .unsup "!== on function/error"
  | _, _, _ => .unsup "binary operator outside fragment"

/-! ### Rendering (observable form of values) -/

def renderSlot (rv : Val → String) : Name × Slot → String
  | (k, .data v) => k ++ ":" ++ rv v
  | (k, .acc _ _) => k ++ ":<accessor>"

def render (heap : Array Obj) : Nat → Val → String
  | _, .undef => "undefined"
  | _, .null => "null"
  | _, .bool b => if b then "true" else "false"
  | _, .num i => toString i
  | _, .str s => "\"" ++ s ++ "\""
  | _, .clos _ _ => "<function>"
  | _, .err .type => "<TypeError>"
  | _, .err .ref => "<ReferenceError>"
  | 0, .obj id => match heap[id]? with
      | some o => if o.isArr then "<array>" else "<object>"
      | none => "<dangling>"
  | d + 1, .obj id => match heap[id]? with
      | some o =>
        if o.isArr then "[" ++ ",".intercalate (o.elems.map (render heap d)) ++ "]"
        else "{" ++ ",".intercalate (o.props.map (renderSlot (render heap d))) ++ "}"
      | none => "<dangling>"

/-! ### Store / environment -/

def alloc (st : St) (c : Cell) : Nat × St :=
  (st.store.size, { st with store := st.store.push c })

def allocNames (names : List Name) (c : Cell) (env : Env) (st : St) : Env × St :=
  names.foldl (fun (p : Env × St) x => let (l, st') := alloc p.2 c; ((x, l) :: p.1, st')) (env, st)

def allocLex (names : List (Name × Bool)) (env : Env) (st : St) : Env × St :=
  names.foldl (fun (p : Env × St) x =>
    let (l, st') := alloc p.2 ⟨none, x.2⟩; ((x.1, l) :: p.1, st')) (env, st)

/-- Initialise / overwrite a binding unconditionally (declarations, parameters). -/
def initVar (env : Env) (x : Name) (v : Val) (st : St) : St :=
  match env.lookup x with
  | some loc => match st.store[loc]? with
    | some c => { st with store := st.store.set! loc ⟨some v, c.mutable⟩ }
    | none => st
  | none => st

def readVar (env : Env) (x : Name) (st : St) : Res :=
  match env.lookup x with
  | none => throwErr .ref st
  | some loc => match st.store[loc]? with
    | some ⟨some v, _⟩ => .val v st
    | some ⟨none, _⟩ => throwErr .ref st
    | none => .unsup "dangling location"

def writeVar (strict : Bool) (env : Env) (x : Name) (v : Val) (st : St) : Res :=
  match env.lookup x with
  | none => if strict then throwErr .ref st else .unsup "implicit global"
  | some loc => match st.store[loc]? with
    | some ⟨some _, true⟩ => .val v { st with store := st.store.set! loc ⟨some v, true⟩ }
    | some ⟨some _, false⟩ => throwErr .type st
    | some ⟨none, _⟩ => throwErr .ref st
    | none => .unsup "dangling location"

def typeofVar (env : Env) (x : Name) (st : St) : Res :=
  match env.lookup x with
  | none => .val (.str "undefined") st
  | some _ => bindVal (readVar env x st) fun v st1 => .val (.str (typeofVal v)) st1

def allocObj (st : St) (o : Obj) : Nat × St :=
  (st.heap.size, { st with heap := st.heap.push o })

/-- Block / function-body / script entry: lexical declarations start uninitialised, function
declarations are initialised with closures over the new environment. -/
def enterBlock (ss : List Stmt) (env : Env) (st : St) : Env × St :=
  let (env1, st1) := allocLex (lexDeclsL ss) env st
  let fds := funDeclsL ss
  let (env2, st2) := allocNames (fds.map (·.1)) ⟨some .undef, true⟩ env1 st1
  (env2, fds.foldl (fun st (f : Name × Nat) => initVar env2 f.1 (.clos f.2 env2) st) st2)

/-- CreatePerIterationEnvironment: fresh cells holding the current values. -/
def copyBindings (per : List Name) (env : Env) (st : St) : Env × St :=
  per.foldl (fun (p : Env × St) x =>
    match env.lookup x with
    | some loc => match p.2.store[loc]? with
      | some c => let (l, st') := alloc p.2 c; ((x, l) :: p.1, st')
      | none => p
    | none => p) (env, st)

/-! ### Objects -/

def callVal (recC : RecC) (f thisV : Val) (args : List Val) (st : St) : Res :=
  match f with
  | .clos _ _ => recC f thisV args st
  | _ => throwErr .type st

def getProp (recC : RecC) (ov : Val) (k : Name) (st : St) : Res :=
  match ov with
  | .obj id => match st.heap[id]? with
    | none => .unsup "dangling object"
    | some o => match o.props.lookup k with
      | some (.data v) => .val v st
      | some (.acc (some g) _) => callVal recC g ov [] st
      | some (.acc none _) => .val .undef st
      | none => if o.isArr && k == "length" then .val (.num o.elems.length) st else .val .undef st
  | .undef => throwErr .type st
  | .null => throwErr .type st
  | _ => .unsup "property of primitive/function"

def setSlot (props : List (Name × Slot)) (k : Name) (s : Slot) : List (Name × Slot) :=
  if props.any (·.1 == k) then props.map (fun p => if p.1 == k then (k, s) else p)
  else props ++ [(k, s)]

/-- `o.k = v`; the result value is `v`. -/
def setProp (strict : Bool) (recC : RecC) (ov : Val) (k : Name) (v : Val) (st : St) : Res :=
  match ov with
  | .obj id => match st.heap[id]? with
    | none => .unsup "dangling object"
    | some o => match o.props.lookup k with
      | some (.acc _ (some s)) => bindVal (callVal recC s ov [v] st) fun _ st1 => .val v st1
      | some (.acc _ none) => if strict then throwErr .type st else .val v st
      | _ =>
        if o.isArr && k == "length" then .unsup "array length assignment"
        else .val v { st with heap := st.heap.set! id { o with props := setSlot o.props k (.data v) } }
  | .undef => throwErr .type st
  | .null => throwErr .type st
  | _ => .unsup "property of primitive/function"

def getIdx (recC : RecC) (ov iv : Val) (st : St) : Res :=
  match ov, iv with
  | .obj id, .num i => match st.heap[id]? with
    | none => .unsup "dangling object"
    | some o =>
      if o.isArr then
        if i < 0 then .unsup "negative index" else .val (o.elems.getD i.toNat .undef) st
      else getProp recC ov (toString i) st
  | .obj _, .str k => getProp recC ov k st
  | .undef, _ => throwErr .type st
  | .null, _ => throwErr .type st
  | _, _ => .unsup "computed member outside fragment"

def setIdx (strict : Bool) (recC : RecC) (ov iv v : Val) (st : St) : Res :=
  match ov, iv with
  | .obj id, .num i => match st.heap[id]? with
    | none => .unsup "dangling object"
    | some o =>
      if o.isArr then
        if i < 0 then .unsup "negative index"
        else if i.toNat < o.elems.length then
          .val v { st with heap := st.heap.set! id { o with elems := o.elems.set i.toNat v } }
        else if i.toNat == o.elems.length then
          .val v { st with heap := st.heap.set! id { o with elems := o.elems ++ [v] } }
        else .unsup "array hole"
      else setProp strict recC ov (toString i) v st
  | .obj _, .str k => setProp strict recC ov k v st
  | .undef, _ => throwErr .type st
  | .null, _ => throwErr .type st
  | _, _ => .unsup "computed member outside fragment"

/-! ### Expressions (one level; sub-expressions through `recE`, calls through `recC`) -/

def evalArgs (recE : RecE) : List Expr → Env → St → List Val → (List Val → St → Res) → Res
  | [], _, st, acc, k => k acc.reverse st
  | e :: es, env, st, acc, k =>
    bindVal (recE e env st) fun v st1 => evalArgs recE es env st1 (v :: acc) k

def mergeAcc (props : List (Name × Slot)) (k : Name) (isGetter : Bool) (f : Val) : List (Name × Slot) :=
  match props.lookup k with
  | some (.acc g s) => setSlot props k (if isGetter then .acc (some f) s else .acc g (some f))
  | _ => setSlot props k (if isGetter then .acc (some f) none else .acc none (some f))

def evalProps (recE : RecE) : List PropDef → Env → St → List (Name × Slot) →
    (List (Name × Slot) → St → Res) → Res
  | [], _, st, acc, k => k acc st
  | (.mk kind name e) :: ps, env, st, acc, k =>
    bindVal (recE e env st) fun v st1 =>
      evalProps recE ps env st1
        (match kind with
         | .data => setSlot acc name (.data v)
         | .getter => mergeAcc acc name true v
         | .setter => mergeAcc acc name false v) k

def shortCircuits : LogOp → Val → Bool
  | .and, v => !toBool v
  | .or, v => toBool v
  | .nullish, .undef => false
  | .nullish, .null => false
  | .nullish, _ => true

def evalThis (strict : Bool) (env : Env) (st : St) : Res :=
  match env.lookup "this" with
  | none => .unsup "global this"
  | some _ => bindVal (readVar env "this" st) fun v st1 =>
      match v, strict with
      | .undef, false => .unsup "sloppy this = global object"
      | v, _ => .val v st1

def evalUpdate (strict : Bool) (inc pre : Bool) (env : Env) (x : Name) (st : St) : Res :=
  bindVal (readVar env x st) fun old st1 =>
    match old with
    | .num i =>
      let nv := if inc then i + 1 else i - 1
      bindVal (safeNum nv st1) fun _ st2 =>
        bindVal (writeVar strict env x (.num nv) st2) fun _ st3 => .val (.num (if pre then nv else i)) st3
    | _ => .unsup "++/-- on non-number"

/-- `typeof x` on an identifier does not throw for an unresolvable name. -/
def evalUnopExpr (recE : RecE) (op : UnOp) (a : Expr) (env : Env) (st : St) : Res :=
  match op, a with
  | .typeof, .var x => typeofVar env x st
  | _, _ => bindVal (recE a env st) fun v st1 => evalUnop op v st1

def evalExpr (strict : Bool) (recE : RecE) (recC : RecC) (e : Expr) (env : Env) (st : St) : Res :=
  match e with
  | .lit l => .val (litVal l) st
  | .var x => readVar env x st
  | .this => evalThis strict env st
  | .func idx => .val (.clos idx env) st
  | .log a => bindVal (recE a env st) fun v st1 =>
      .val .undef { st1 with log := render st1.heap 2 v :: st1.log }
  | .unop op a => evalUnopExpr recE op a env st
  | .binop op a b => bindVal (recE a env st) fun va st1 =>
      bindVal (recE b env st1) fun vb st2 => evalBinop op va vb st2
  | .logic op a b => bindVal (recE a env st) fun va st1 =>
      if shortCircuits op va then .val va st1 else bindVal (recE b env st1) Res.val
  | .cond c a b => bindVal (recE c env st) fun vc st1 =>
      bindVal (recE (if toBool vc then a else b) env st1) Res.val
  | .comma a b => bindVal (recE a env st) fun _ st1 => bindVal (recE b env st1) Res.val
  | .assign x a => bindVal (recE a env st) fun v st1 => writeVar strict env x v st1
  | .assignOp op x a => bindVal (readVar env x st) fun old st1 =>
      bindVal (recE a env st1) fun v st2 =>
        bindVal (evalBinop op old v st2) fun r st3 => writeVar strict env x r st3
  | .update inc pre x => evalUpdate strict inc pre env x st
  | .call f args => bindVal (recE f env st) fun fv st1 =>
      evalArgs recE args env st1 [] fun vs st2 => callVal recC fv .undef vs st2
  | .mcall o k args => bindVal (recE o env st) fun ov st1 =>
      bindVal (getProp recC ov k st1) fun fv st2 =>
        evalArgs recE args env st2 [] fun vs st3 => callVal recC fv ov vs st3
  | .obj props => evalProps recE props env st [] fun ps st1 =>
      let (id, st2) := allocObj st1 ⟨false, ps, []⟩
      .val (.obj id) st2
  | .arr elems => evalArgs recE elems env st [] fun vs st1 =>
      let (id, st2) := allocObj st1 ⟨true, [], vs⟩
      .val (.obj id) st2
  | .get o k => bindVal (recE o env st) fun ov st1 => getProp recC ov k st1
  | .idx o i => bindVal (recE o env st) fun ov st1 =>
      bindVal (recE i env st1) fun iv st2 => getIdx recC ov iv st2
  | .set o k v => bindVal (recE o env st) fun ov st1 =>
      bindVal (recE v env st1) fun vv st2 => setProp strict recC ov k vv st2
  | .setIdx o i v => bindVal (recE o env st) fun ov st1 =>
      bindVal (recE i env st1) fun iv st2 =>
        bindVal (recE v env st2) fun vv st3 => setIdx strict recC ov iv vv st3
  | .outside why => .unsup why

/-! ### Statements -/

/-- StatementList evaluation with the running completion value `V`. No fuel is consumed here. -/
def evalStmts (recS : RecS) : List Stmt → Option Val → Env → St → Res
  | [], V, _, st => .done (.normal V) st
  | s :: ss, V, env, st =>
    match recS s [] env st with
    | .done (.normal v) st1 => evalStmts recS ss (v.orElse fun _ => V) env st1
    | .done c st1 => .done (c.updateEmpty V) st1
    | r => r

def evalDeclrs (recE : RecE) : List Declr → Bool → Env → St → Res
  | [], _, _, st => .empty st
  | d :: ds, isVar, env, st =>
    match d.init with
    | some e => bindVal (recE e env st) fun v st1 => evalDeclrs recE ds isVar env (initVar env d.x v st1)
    | none =>
      if isVar then evalDeclrs recE ds isVar env st
      else evalDeclrs recE ds isVar env (initVar env d.x .undef st)

def findCase (recE : RecE) (dv : Val) : List Case → Nat → Env → St → Res
  | [], _, _, st => .val .undef st
  | (.mk none _) :: cs, i, env, st => findCase recE dv cs (i + 1) env st
  | (.mk (some t) _) :: cs, i, env, st =>
    bindVal (recE t env st) fun tv st1 =>
      match strictEq dv tv with
      | none => .unsup "=== on function/error"
      | some true => .val (.num i) st1
      | some false => findCase recE dv cs (i + 1) env st1

def defaultIdx : List Case → Nat → Option Nat
  | [], _ => none
  | (.mk none _) :: _, i => some i
  | _ :: cs, i => defaultIdx cs (i + 1)

def evalBlock (recS : RecS) (ss : List Stmt) (env : Env) (st : St) : Res :=
  let p := enterBlock ss env st
  evalStmts recS ss none p.1 p.2

def evalCatch (recS : RecS) (param : Option Name) (cb : List Stmt) (v : Val) (env : Env) (st : St) : Res :=
  match param with
  | none => evalBlock recS cb env st
  | some x =>
    let (l, st1) := alloc st ⟨some v, true⟩
    evalBlock recS cb ((x, l) :: env) st1

def evalFinally (recS : RecS) (r2 : Res) (hasFin : Bool) (fb : List Stmt) (env : Env) : Res :=
  if !hasFin then updEmpty r2 .undef else
  match r2 with
  | .done c2 st2 =>
    match evalBlock recS fb env st2 with
    | .done (.normal _) st3 => .done (c2.updateEmpty (some .undef)) st3
    | r => r
  | r => r

def evalTry (recS : RecS) (b : List Stmt) (hasCatch : Bool) (param : Option Name) (cb : List Stmt)
    (hasFin : Bool) (fb : List Stmt) (env : Env) (st : St) : Res :=
  let r1 := evalBlock recS b env st
  let r2 := match r1 with
    | .done (.thr v) st1 => if hasCatch then evalCatch recS param cb v env st1 else r1
    | r => r
  evalFinally recS r2 hasFin fb env

def caseStart (r : Val) (cases : List Case) : Option Nat :=
  match r with
  | .num i => some i.toNat
  | _ => defaultIdx cases 0

/-- Run the case block from clause `start` on (fall-through), CaseBlockEvaluation's value threading. -/
def runCases (recS : RecS) (cases : List Case) (start : Option Nat) (env : Env) (st : St) : Res :=
  match start with
  | none => .val .undef st
  | some i =>
    match evalStmts recS (caseBodies (cases.drop i)) (some .undef) env st with
    | .done c st4 => .done (loopExit c) st4
    | r => r

def evalSwitch (recE : RecE) (recS : RecS) (e : Expr) (cases : List Case) (env : Env) (st : St) : Res :=
  bindVal (recE e env st) fun dv st1 =>
    let p := enterBlock (caseBodies cases) env st1
    bindVal (findCase recE dv cases 0 p.1 p.2) fun r st3 =>
      runCases recS cases (caseStart r cases) p.1 st3

def evalFor (recE : RecE) (recT : RecT) (init : ForInit) (test upd : Option Expr) (b : Stmt)
    (lbls : List Name) (env : Env) (st : St) : Res :=
  match init with
  | .none => recT (.forLoop [] test upd b lbls .undef) env st
  | .expr e => bindVal (recE e env st) fun _ st1 => recT (.forLoop [] test upd b lbls .undef) env st1
  | .decl .var ds => bindSt (evalDeclrs recE ds true env st) fun st1 =>
      recT (.forLoop [] test upd b lbls .undef) env st1
  | .decl k ds =>
    let names := declNames ds
    let p := allocLex (names.map (·, k == .let)) env st
    bindSt (evalDeclrs recE ds false p.1 p.2) fun st2 =>
      let per := if k == .let then names else []
      let q := copyBindings per p.1 st2
      recT (.forLoop per test upd b lbls .undef) q.1 q.2

/-- `for (k x of e) b`: only arrays are iterated (live: length and elements are read per step, as the array
iterator does); undefined/null are not iterable (TypeError); anything else leaves the fragment. -/
def evalForOf (recE : RecE) (recT : RecT) (k : DeclKind) (x : Name) (e : Expr) (b : Stmt)
    (lbls : List Name) (env : Env) (st : St) : Res :=
  bindVal (recE e env st) fun v st1 =>
    match v with
    | .obj id =>
      match st1.heap[id]? with
      | some o => if o.isArr then recT (.forOfLoop k x id 0 b lbls .undef) env st1
                  else .unsup "for-of over a non-array object"
      | none => .unsup "dangling object"
    | .undef => throwErr .type st1
    | .null => throwErr .type st1
    | _ => .unsup "for-of over a primitive/function"

def stepStmt (recE : RecE) (recS : RecS) (recT : RecT)
    (s : Stmt) (lbls : List Name) (env : Env) (st : St) : Res :=
  match s with
  | .expr e => bindVal (recE e env st) Res.val
  | .decl k ds => evalDeclrs recE ds (k == .var) env st
  | .fdecl _ _ => .empty st
  | .empty => .empty st
  | .block ss => evalBlock recS ss env st
  | .ite c t e => bindVal (recE c env st) fun v st1 =>
      updEmpty (recS (if toBool v then t else e) [] env st1) .undef
  | .while c b => recT (.whileLoop c b lbls .undef) env st
  | .doWhile b c => recT (.doLoop b c lbls .undef) env st
  | .for init test upd b => evalFor recE recT init test upd b lbls env st
  | .forOf k x e b => evalForOf recE recT k x e b lbls env st
  | .brk l => .done (.brk l none) st
  | .cont l => .done (.cont l none) st
  | .ret none => .done (.ret .undef) st
  | .ret (some e) => bindVal (recE e env st) fun v st1 => .done (.ret v) st1
  | .throw e => bindVal (recE e env st) fun v st1 => .done (.thr v) st1
  | .try b hc p cb hf fb => evalTry recS b hc p cb hf fb env st
  | .labeled l s =>
    match recS s (l :: lbls) env st with
    | .done (.brk (some l') v) st1 => if l' == l then .done (.normal v) st1 else .done (.brk (some l') v) st1
    | r => r
  | .switch e cases => evalSwitch recE recS e cases env st
  | .outside why => .unsup why

/-! ### Loops (one iteration per level) -/

def afterBody (r : Res) (lbls : List Name) (V : Val) (k : Val → St → Res) : Res :=
  match r with
  | .done c st2 =>
    if loopContinues c lbls then k (c.valueOr V) st2
    else .done (loopExit (c.updateEmpty (some V))) st2
  | r => r

def stepWhile (recE : RecE) (recS : RecS) (recT : RecT) (c : Expr) (b : Stmt) (lbls : List Name)
    (V : Val) (env : Env) (st : St) : Res :=
  bindVal (recE c env st) fun tv st1 =>
    if !toBool tv then .val V st1 else
    afterBody (recS b [] env st1) lbls V fun V' st2 => recT (.whileLoop c b lbls V') env st2

def stepDo (recE : RecE) (recS : RecS) (recT : RecT) (b : Stmt) (c : Expr) (lbls : List Name)
    (V : Val) (env : Env) (st : St) : Res :=
  afterBody (recS b [] env st) lbls V fun V' st2 =>
    bindVal (recE c env st2) fun tv st3 =>
      if !toBool tv then .val V' st3 else recT (.doLoop b c lbls V') env st3

def forBody (recE : RecE) (recS : RecS) (recT : RecT) (per : List Name) (test upd : Option Expr)
    (b : Stmt) (lbls : List Name) (V : Val) (env : Env) (st1 : St) : Res :=
  afterBody (recS b [] env st1) lbls V fun V' st2 =>
    let q := copyBindings per env st2
    match upd with
    | none => recT (.forLoop per test upd b lbls V') q.1 q.2
    | some u => bindVal (recE u q.1 q.2) fun _ st4 => recT (.forLoop per test upd b lbls V') q.1 st4

def stepFor (recE : RecE) (recS : RecS) (recT : RecT) (per : List Name) (test upd : Option Expr)
    (b : Stmt) (lbls : List Name) (V : Val) (env : Env) (st : St) : Res :=
  match test with
  | none => forBody recE recS recT per test upd b lbls V env st
  | some t => bindVal (recE t env st) fun tv st1 =>
      if !toBool tv then .val V st1 else forBody recE recS recT per test upd b lbls V env st1

/-- One step of for-of: bind element `i` (fresh binding per iteration for let/const), run the body. -/
def stepForOf (recS : RecS) (recT : RecT) (k : DeclKind) (x : Name) (arr i : Nat) (b : Stmt)
    (lbls : List Name) (V : Val) (env : Env) (st : St) : Res :=
  match st.heap[arr]? with
  | none => .unsup "dangling object"
  | some o =>
    if i < o.elems.length then
      let v := o.elems.getD i .undef
      let p : Env × St := match k with
        | .var => (env, initVar env x v st)
        | _ => let q := alloc st ⟨some v, k == .let⟩; ((x, q.1) :: env, q.2)
      afterBody (recS b [] p.1 p.2) lbls V fun V' st2 => recT (.forOfLoop k x arr (i + 1) b lbls V') env st2
    else .val V st

/-! ### Calls -/

def bindParams (recE : RecE) : List Param → List Val → Env → St → Res
  | [], _, _, st => .empty st
  | p :: ps, args, env, st =>
    match args.headD .undef, p.dflt with
    | .undef, some d => bindVal (recE d env st) fun v st1 =>
        bindParams recE ps args.tail env (initVar env p.x v st1)
    | a, _ => bindParams recE ps args.tail env (initVar env p.x a st)

def bindRest (rest : Option Name) (nparams : Nat) (args : List Val) (env : Env) (st : St) : St :=
  match rest with
  | none => st
  | some r =>
    let (id, st1) := allocObj st ⟨true, [], args.drop nparams⟩
    initVar env r (.obj id) st1

def finishCall (r : Res) : Res :=
  match r with
  | .done (.ret v) st => .val v st
  | .done (.normal _) st => .val .undef st
  | .done (.thr v) st => .done (.thr v) st
  | .done _ _ => .unsup "break/continue escaped a function"
  | r => r

def stepCall (funs : List FunDef) (recE : RecE) (recS : RecS) (f thisV : Val) (args : List Val)
    (st : St) : Res :=
  match f with
  | .clos idx cenv =>
    match funs[idx]? with
    | none => .unsup "bad function index"
    | some fd =>
      let p1 : Env × St := match fd.kind with
        | .arrow => (cenv, st)
        | .normal => let (l, st1) := alloc st ⟨some thisV, false⟩; (("this", l) :: cenv, st1)
      let pnames := fd.params.map (·.x) ++ fd.rest.toList
      let p2 := allocNames pnames ⟨none, true⟩ p1.1 p1.2
      bindSt (bindParams recE fd.params args p2.1 p2.2) fun st3 =>
        let st3' := bindRest fd.rest fd.params.length args p2.1 st3
        let vnames := (varNamesL fd.body).eraseDups.filter (fun x => !pnames.contains x)
        let p3 := allocNames vnames ⟨some .undef, true⟩ p2.1 st3'
        finishCall (evalBlock recS fd.body p3.1 p3.2)
  | _ => .unsup "call of non-closure"

/-! ### The evaluator -/

def step (P : Prog) (rec : RecT) (t : Task) (env : Env) (st : St) : Res :=
  match t with
  | .expr e => evalExpr P.strict (fun e => rec (.expr e)) (fun f t a => rec (.call f t a) []) e env st
  | .stmt s l => stepStmt (fun e => rec (.expr e)) (fun s l => rec (.stmt s l)) rec s l env st
  | .call f t a => stepCall P.funs (fun e => rec (.expr e)) (fun s l => rec (.stmt s l)) f t a st
  | .whileLoop c b l V =>
      stepWhile (fun e => rec (.expr e)) (fun s l => rec (.stmt s l)) rec c b l V env st
  | .doLoop b c l V =>
      stepDo (fun e => rec (.expr e)) (fun s l => rec (.stmt s l)) rec b c l V env st
  | .forLoop per test upd b l V =>
      stepFor (fun e => rec (.expr e)) (fun s l => rec (.stmt s l)) rec per test upd b l V env st
  | .forOfLoop k x arr i b l V =>
      stepForOf (fun s l => rec (.stmt s l)) rec k x arr i b l V env st

/-- Fuel-indexed big-step evaluation. -/
def eval (P : Prog) : Nat → RecT
  | 0 => fun _ _ _ => .timeout
  | n + 1 => step P (eval P n)

def emptySt : St := ⟨#[], #[], []⟩

/-- Script evaluation: GlobalDeclarationInstantiation, then the statement list. -/
def run (P : Prog) (n : Nat) : Res :=
  let vnames := (varNamesL P.body).eraseDups
  let p := allocNames vnames ⟨some .undef, true⟩ [] emptySt
  evalBlock (fun s l => eval P n (.stmt s l)) P.body p.1 p.2

/-- Observable outcome: completion (kind + rendered value) and the log. -/
def Res.show : Res → String
  | .timeout => "timeout"
  | .unsup why => "unsup " ++ why
  | .done c st =>
    (match c with
     | .normal v => "N " ++ render st.heap 2 (v.getD .undef)
     | .thr v => "T " ++ render st.heap 2 v
     | _ => "X illegal completion") ++ " | " ++ ",".intercalate st.log.reverse

end GojaModel.C02
