/-
  C02 driver: one program per line, as an S-expression (format documented in design/C02.md and
  produced by run/c02gen.py), one outcome line per program.

      run <fuel> <sexp>          -> Res.show (run P fuel)
      rw <name> <fuel> <sexp>    -> Res.show (run (R P) fuel)  for the Lean-defined rewrite R
                                     (deadcode | iffalse | noop | blockwrap | exprvoid | exprcomma), "changed=0|1" appended

  Parsing is IO glue (partial defs); it is not part of any theorem.
-/
import GojaModel.Base.Proto
import GojaModel.C02.Model
import GojaModel.C02.Rewrites
import GojaModel.C02.Wrap
import GojaModel.C02.Erase
import GojaModel.C02.Comma

namespace GojaModel.C02.Driver
open GojaModel.C02

inductive SExp where
  | atom (s : String)
  | str (s : String)
  | list (xs : List SExp)
  deriving Inhabited

inductive Tok where
  | lp | rp | atom (s : String) | str (s : String)

partial def tokenize (cs : List Char) (acc : Array Tok) : Array Tok :=
  match cs with
  | [] => acc
  | '(' :: r => tokenize r (acc.push .lp)
  | ')' :: r => tokenize r (acc.push .rp)
  | ' ' :: r => tokenize r acc
  | '"' :: r =>
    let rec go (cs : List Char) (s : List Char) : List Char × List Char :=
      match cs with
      | [] => (s.reverse, [])
      | '\\' :: c :: r => go r (c :: s)
      | '"' :: r => (s.reverse, r)
      | c :: r => go r (c :: s)
    let (s, r') := go r []
    tokenize r' (acc.push (.str (String.ofList s)))
  | c :: r =>
    let rec goA (cs : List Char) (s : List Char) : List Char × List Char :=
      match cs with
      | [] => (s.reverse, [])
      | c :: r => if c == '(' || c == ')' || c == ' ' then (s.reverse, c :: r) else goA r (c :: s)
    let (s, r') := goA r [c]
    tokenize r' (acc.push (.atom (String.ofList s)))

/-- Parse one S-expression starting at token index `i`. -/
partial def parseSExp (ts : Array Tok) (i : Nat) : Option (SExp × Nat) :=
  match ts[i]? with
  | none => none
  | some .rp => none
  | some (.atom s) => some (.atom s, i + 1)
  | some (.str s) => some (.str s, i + 1)
  | some .lp =>
    let rec items (j : Nat) (acc : Array SExp) : Option (SExp × Nat) :=
      match ts[j]? with
      | none => none
      | some .rp => some (.list acc.toList, j + 1)
      | _ => match parseSExp ts j with
        | none => none
        | some (x, j') => items j' (acc.push x)
    items (i + 1) #[]

def atomInt (s : String) : Option Int := s.toInt?
def atomNat (s : String) : Option Nat := s.toNat?

def optName : SExp → Option Name
  | .atom "_" => none
  | .atom s => some s
  | _ => none

def unop? : String → Option UnOp
  | "neg" => some .neg | "plus" => some .plus | "not" => some .not
  | "typeof" => some .typeof | "void" => some .void | _ => none
def binop? : String → Option BinOp
  | "add" => some .add | "sub" => some .sub | "mul" => some .mul | "mod" => some .mod
  | "lt" => some .lt | "le" => some .le | "gt" => some .gt | "ge" => some .ge
  | "seq" => some .seq | "sne" => some .sne | _ => none
def logop? : String → Option LogOp
  | "and" => some .and | "or" => some .or | "nullish" => some .nullish | _ => none
def declKind? : String → Option DeclKind
  | "var" => some .var | "let" => some .let | "const" => some .const | _ => none

mutual
partial def toExpr : SExp → Option Expr
  | .list [.atom "undef"] => some (.lit .undef)
  | .list [.atom "null"] => some (.lit .null)
  | .list [.atom "bool", .atom b] => some (.lit (.bool (b == "1")))
  | .list [.atom "num", .atom n] => (atomInt n).map fun i => .lit (.num i)
  | .list [.atom "str", .str s] => some (.lit (.str s))
  | .list [.atom "var", .atom x] => some (.var x)
  | .list [.atom "this"] => some .this
  | .list [.atom "func", .atom k] => (atomNat k).map .func
  | .list [.atom "log", e] => (toExpr e).map .log
  | .list [.atom "un", .atom op, e] => do some (.unop (← unop? op) (← toExpr e))
  | .list [.atom "bin", .atom op, a, b] => do some (.binop (← binop? op) (← toExpr a) (← toExpr b))
  | .list [.atom "logic", .atom op, a, b] => do some (.logic (← logop? op) (← toExpr a) (← toExpr b))
  | .list [.atom "cond", c, a, b] => do some (.cond (← toExpr c) (← toExpr a) (← toExpr b))
  | .list [.atom "comma", a, b] => do some (.comma (← toExpr a) (← toExpr b))
  | .list [.atom "assign", .atom x, e] => do some (.assign x (← toExpr e))
  | .list [.atom "assignop", .atom op, .atom x, e] => do some (.assignOp (← binop? op) x (← toExpr e))
  | .list [.atom "update", .atom inc, .atom pre, .atom x] => some (.update (inc == "1") (pre == "1") x)
  | .list [.atom "call", f, .list args] => do some (.call (← toExpr f) (← toExprs args))
  | .list [.atom "mcall", o, .atom k, .list args] => do some (.mcall (← toExpr o) k (← toExprs args))
  | .list [.atom "obj", .list ps] => do some (.obj (← toProps ps))
  | .list [.atom "arr", .list es] => do some (.arr (← toExprs es))
  | .list [.atom "get", o, .atom k] => do some (.get (← toExpr o) k)
  | .list [.atom "idx", o, i] => do some (.idx (← toExpr o) (← toExpr i))
  | .list [.atom "set", o, .atom k, v] => do some (.set (← toExpr o) k (← toExpr v))
  | .list [.atom "setidx", o, i, v] => do some (.setIdx (← toExpr o) (← toExpr i) (← toExpr v))
  | .list [.atom "opaque", .str w] => some (.outside w)
  | _ => none
partial def toExprs : List SExp → Option (List Expr)
  | [] => some []
  | x :: xs => do some ((← toExpr x) :: (← toExprs xs))
partial def toProps : List SExp → Option (List PropDef)
  | [] => some []
  | (.list [.atom kind, .atom k, e]) :: xs => do
    let pk ← (match kind with
      | "data" => some PropKind.data | "getter" => some .getter | "setter" => some .setter | _ => none)
    some (.mk pk k (← toExpr e) :: (← toProps xs))
  | _ => none
end

def toOptExpr : SExp → Option (Option Expr)
  | .atom "_" => some none
  | x => (toExpr x).map some

def toDeclrs : List SExp → Option (List Declr)
  | [] => some []
  | (.list [.atom "d", .atom x]) :: r => do some (⟨x, none⟩ :: (← toDeclrs r))
  | (.list [.atom "d", .atom x, e]) :: r => do some (⟨x, some (← toExpr e)⟩ :: (← toDeclrs r))
  | _ => none

def toForInit : SExp → Option ForInit
  | .list [.atom "none"] => some .none
  | .list [.atom "expr", e] => (toExpr e).map .expr
  | .list [.atom "decl", .atom k, .list ds] => do some (.decl (← declKind? k) (← toDeclrs ds))
  | _ => none

mutual
partial def toStmt : SExp → Option Stmt
  | .list [.atom "expr", e] => (toExpr e).map .expr
  | .list [.atom "decl", .atom k, .list ds] => do some (.decl (← declKind? k) (← toDeclrs ds))
  | .list [.atom "fdecl", .atom x, .atom k] => (atomNat k).map (.fdecl x)
  | .list [.atom "empty"] => some .empty
  | .list [.atom "block", .list ss] => do some (.block (← toStmts ss))
  | .list [.atom "if", c, t, e] => do some (.ite (← toExpr c) (← toStmt t) (← toStmt e))
  | .list [.atom "while", c, b] => do some (.while (← toExpr c) (← toStmt b))
  | .list [.atom "do", b, c] => do some (.doWhile (← toStmt b) (← toExpr c))
  | .list [.atom "for", i, t, u, b] => do
      some (.for (← toForInit i) (← toOptExpr t) (← toOptExpr u) (← toStmt b))
  | .list [.atom "forof", .atom k, .atom x, e, b] => do
      some (.forOf (← declKind? k) x (← toExpr e) (← toStmt b))
  | .list [.atom "break", l] => some (.brk (optName l))
  | .list [.atom "continue", l] => some (.cont (optName l))
  | .list [.atom "return", e] => do some (.ret (← toOptExpr e))
  | .list [.atom "throw", e] => (toExpr e).map .throw
  | .list [.atom "try", .list b, .atom hc, p, .list cb, .atom hf, .list fb] => do
      some (.try (← toStmts b) (hc == "1") (optName p) (← toStmts cb) (hf == "1") (← toStmts fb))
  | .list [.atom "label", .atom l, s] => do some (.labeled l (← toStmt s))
  | .list [.atom "switch", e, .list cs] => do some (.switch (← toExpr e) (← toCases cs))
  | .list [.atom "sopaque", .str w] => some (.outside w)
  | _ => none
partial def toStmts : List SExp → Option (List Stmt)
  | [] => some []
  | x :: xs => do some ((← toStmt x) :: (← toStmts xs))
partial def toCases : List SExp → Option (List Case)
  | [] => some []
  | (.list [.atom "case", t, .list ss]) :: r => do
      some (.mk (← toOptExpr t) (← toStmts ss) :: (← toCases r))
  | _ => none
end

def toParams : List SExp → Option (List Param)
  | [] => some []
  | (.list [.atom "p", .atom x]) :: r => do some (⟨x, none⟩ :: (← toParams r))
  | (.list [.atom "p", .atom x, e]) :: r => do some (⟨x, some (← toExpr e)⟩ :: (← toParams r))
  | _ => none

def toFuns : List SExp → Option (List FunDef)
  | [] => some []
  | (.list [.atom "fn", .atom kind, .list ps, rest, .list body]) :: r => do
      let k := if kind == "arrow" then FunKind.arrow else .normal
      some (⟨k, ← toParams ps, optName rest, ← toStmts body⟩ :: (← toFuns r))
  | _ => none

def toProg : SExp → Option Prog
  | .list [.atom "prog", .atom strict, .list fs, .list body] => do
      some ⟨strict == "1", ← toFuns fs, ← toStmts body⟩
  | _ => none

def parseProg (s : String) : Option Prog :=
  match parseSExp (tokenize s.toList #[]) 0 with
  | some (x, _) => toProg x
  | none => none

def splitWord (s : String) : String × String :=
  let cs := s.toList
  (String.ofList (cs.takeWhile (· != ' ')), String.ofList ((cs.dropWhile (· != ' ')).drop 1))

def handle (line : String) : String :=
  let (cmd, rest) := splitWord line
  if cmd == "run" then
    let (fuel, src) := splitWord rest
    match fuel.toNat?, parseProg src with
    | some n, some P => (run P n).show
    | _, _ => "parse-error"
  else if cmd == "rw" then
    let (name, rest2) := splitWord rest
    let (fuel, src) := splitWord rest2
    if name == "exprcomma" then
      match fuel.toNat?, parseProg src with
      | some n, some P => (run (exprStmtComma P) (2 * n)).show ++ " | changed=1"
      | _, _ => "parse-error"
    else if name == "exprvoid" then
      -- depth-changing rewrite (theorem expr_stmt_void_ge): doubled fuel
      match fuel.toNat?, parseProg src with
      | some n, some P => (run (exprStmtVoid P) (2 * n)).show ++ " | changed=1"
      | _, _ => "parse-error"
    else if name == "blockwrap" then
      -- depth-changing rewrite: run the wrapped program with twice the fuel (theorem block_wrap_ge)
      match fuel.toNat?, parseProg src with
      | some n, some P =>
        let P' := blockWrap P
        (run P' (2 * n)).show ++ " | changed=" ++ (if progSize P' == progSize P then "0" else "1")
      | _, _ => "parse-error"
    else
    match fuel.toNat?, parseProg src, rewriteByName name with
    | some n, some P, some R =>
      let P' := R P
      (run P' n).show ++ " | changed=" ++ (if progSize P' == progSize P then "0" else "1")
    | _, _, _ => "parse-error"
  else "bad-command"

def main : IO Unit := GojaModel.Proto.lineMap handle

end GojaModel.C02.Driver
