/-
  C02 — expr_stmt_vs_value_position: inside FUNCTION BODIES an expression statement `e;` may be replaced by
  `void e;` (the value of the statement is dropped): the result of every call, the log, the heap and the store
  are unchanged.

  The completion VALUE of a statement inside a function body is unobservable (a call returns through `return` or
  yields undefined), but it is threaded through statement lists, loops, switch and try.  So the simulation relation
  is `Res.qle` = "timeout, or equal after erasing the values of normal/break/continue completions"; at the call
  boundary (`finishCall`) it collapses to `Res.le`.  The rewrite also changes the evaluation depth of the
  statement by one, so — as for block_wrap — there are two directions (same fuel / doubled fuel).
  The statement-level lemmas are proved once for two arbitrary structure-respecting statement maps (`SMapOK`).
-/
import GojaModel.C02.Wrap

namespace GojaModel.C02

def Compl.erase : Compl → Compl
  | .normal _ => .normal none
  | .brk l _ => .brk l none
  | .cont l _ => .cont l none
  | c => c

def Res.erase : Res → Res
  | .done c st => .done c.erase st
  | r => r

/-- timeout, or equal up to the values of normal / break / continue completions. -/
def Res.qle (a b : Res) : Prop := a = .timeout ∨ a.erase = b.erase

theorem Res.qle_refl (a : Res) : Res.qle a a := Or.inr rfl
theorem Res.timeout_qle (a : Res) : Res.qle .timeout a := Or.inl rfl
theorem Res.qle_of_le {a b : Res} (h : Res.le a b) : Res.qle a b := by
  rcases h with h | h
  · exact Or.inl h
  · subst h; exact Or.inr rfl

theorem Res.qle_trans_le {a b c : Res} (h1 : Res.qle a b) (h2 : Res.le b c) : Res.qle a c := by
  rcases h1 with h | h
  · exact Or.inl h
  · rcases h2 with h2 | h2
    · subst h2
      cases a <;> simp [Res.erase] at h
      exact Or.inl rfl
    · subst h2; exact Or.inr h

theorem Res.le_trans_qle {a b c : Res} (h1 : Res.le a b) (h2 : Res.qle b c) : Res.qle a c := by
  rcases h1 with h | h
  · exact Or.inl h
  · subst h; exact h2

theorem Compl.erase_updateEmpty (c : Compl) (V : Option Val) : (c.updateEmpty V).erase = c.erase := by
  cases c with
  | normal v => cases v <;> rfl
  | brk l v => cases v <;> rfl
  | cont l v => cases v <;> rfl
  | ret v => rfl
  | thr v => rfl

theorem Compl.erase_loopContinues {c1 c2 : Compl} (h : c1.erase = c2.erase) (l : List Name) :
    loopContinues c1 l = loopContinues c2 l := by
  cases c1 <;> cases c2 <;> simp [Compl.erase] at h <;> try rfl
  · rename_i l1 v1 l2 v2; subst h; cases l1 <;> rfl

theorem Compl.erase_loopExit {c1 c2 : Compl} (h : c1.erase = c2.erase) : (loopExit c1).erase = (loopExit c2).erase := by
  cases c1 <;> cases c2 <;> simp [Compl.erase] at h <;> try rfl
  · rename_i l1 v1 l2 v2; subst h; cases l1 <;> rfl
  · rename_i l1 v1 l2 v2; subst h; rfl
  · rename_i v1 v2; subst h; rfl
  · rename_i v1 v2; subst h; rfl

/-- Elimination of `qle`. -/
theorem Res.qle_elim {a b : Res} (h : Res.qle a b) :
    a = .timeout ∨ (∃ w, a = .unsup w ∧ b = .unsup w) ∨
    (∃ c1 c2 st, a = .done c1 st ∧ b = .done c2 st ∧ c1.erase = c2.erase) := by
  rcases h with h | h
  · exact Or.inl h
  · cases a with
    | timeout => exact Or.inl rfl
    | unsup w =>
      cases b <;> simp [Res.erase] at h
      subst h; exact Or.inr (Or.inl ⟨_, rfl, rfl⟩)
    | done c st =>
      cases b <;> simp [Res.erase] at h
      obtain ⟨h1, h2⟩ := h
      subst h2; exact Or.inr (Or.inr ⟨_, _, _, rfl, rfl, h1⟩)

/-! ### combinators -/

theorem bindVal_q {r1 r2 : Res} {k1 k2 : Val → St → Res} (h : Res.le r1 r2)
    (hk : ∀ v st, Res.qle (k1 v st) (k2 v st)) : Res.qle (bindVal r1 k1) (bindVal r2 k2) := by
  rcases h with h | h
  · subst h; exact Or.inl rfl
  · subst h; unfold bindVal; split <;> first | exact hk _ _ | exact Res.qle_refl _

theorem bindSt_q {r1 r2 : Res} {k1 k2 : St → Res} (h : Res.le r1 r2)
    (hk : ∀ st, Res.qle (k1 st) (k2 st)) : Res.qle (bindSt r1 k1) (bindSt r2 k2) := by
  rcases h with h | h
  · subst h; exact Or.inl rfl
  · subst h; unfold bindSt; split <;> first | exact hk _ | exact Res.qle_refl _

theorem updEmpty_q {r1 r2 : Res} (V1 V2 : Val) (h : Res.qle r1 r2) :
    Res.qle (updEmpty r1 V1) (updEmpty r2 V2) := by
  rcases Res.qle_elim h with h | ⟨w, h1, h2⟩ | ⟨c1, c2, st, h1, h2, hc⟩
  · subst h; exact Or.inl rfl
  · subst h1; subst h2; exact Or.inr rfl
  · subst h1; subst h2
    exact Or.inr (by simp only [updEmpty, Res.erase, Compl.erase_updateEmpty, hc])

theorem afterBody_q {r1 r2 : Res} {l : List Name} {V1 V2 : Val} {k1 k2 : Val → St → Res}
    (h : Res.qle r1 r2) (hk : ∀ v1 v2 st, Res.qle (k1 v1 st) (k2 v2 st)) :
    Res.qle (afterBody r1 l V1 k1) (afterBody r2 l V2 k2) := by
  rcases Res.qle_elim h with h | ⟨w, h1, h2⟩ | ⟨c1, c2, st, h1, h2, hc⟩
  · subst h; exact Or.inl rfl
  · subst h1; subst h2; exact Or.inr rfl
  · subst h1; subst h2
    simp only [afterBody, Compl.erase_loopContinues hc l]
    split
    · exact hk _ _ _
    · refine Or.inr ?_
      simp only [Res.erase]
      rw [Compl.erase_loopExit (c1 := c1.updateEmpty (some V1)) (c2 := c2.updateEmpty (some V2))
        (by simp only [Compl.erase_updateEmpty, hc])]

/-- At the call boundary the erased values do not matter any more. -/
theorem finishCall_q {r1 r2 : Res} (h : Res.qle r1 r2) : Res.le (finishCall r1) (finishCall r2) := by
  rcases Res.qle_elim h with h | ⟨w, h1, h2⟩ | ⟨c1, c2, st, h1, h2, hc⟩
  · subst h; exact Or.inl rfl
  · subst h1; subst h2; exact Or.inr rfl
  · subst h1; subst h2
    cases c1 <;> cases c2 <;> simp [Compl.erase] at hc <;> first
      | exact Or.inr rfl
      | (subst hc; exact Or.inr rfl)
      | (obtain ⟨h1, h2⟩ := hc; subst h1; exact Or.inr rfl)

/-! ### statement level, for two arbitrary maps -/
section
variable {a b : SMap} {e1 e2 : RecE} {s1 s2 : RecS} {t1 t2 : RecT}

theorem evalStmts_simq (ha : SMapOK a) (hb : SMapOK b)
    (hS : ∀ s l env st, Res.qle (s1 (a.S s) l env st) (s2 (b.S s) l env st)) :
    ∀ (ss rest1 rest2 : List Stmt),
      (∀ V1 V2 env st, Res.qle (evalStmts s1 rest1 V1 env st) (evalStmts s2 rest2 V2 env st)) →
      ∀ V1 V2 env st, Res.qle (evalStmts s1 (a.L ss ++ rest1) V1 env st) (evalStmts s2 (b.L ss ++ rest2) V2 env st)
  | [], rest1, rest2, h, V1, V2, env, st => by
    rw [ha.L_nil, hb.L_nil]; exact h V1 V2 env st
  | s :: ss, rest1, rest2, h, V1, V2, env, st => by
    have ih := evalStmts_simq ha hb hS ss rest1 rest2 h
    rw [ha.L_cons, hb.L_cons]
    simp only [List.cons_append, evalStmts]
    rcases Res.qle_elim (hS s [] env st) with h1 | ⟨w, h1, h2⟩ | ⟨c1, c2, st1, h1, h2, hc⟩
    · rw [h1]; exact Or.inl rfl
    · rw [h1, h2]; exact Or.inr rfl
    · rw [h1, h2]
      cases c1 <;> cases c2 <;> simp [Compl.erase] at hc
      · exact ih _ _ _ _
      · subst hc; exact Or.inr (by simp only [Res.erase]; rw [Compl.erase_updateEmpty, Compl.erase_updateEmpty]; rfl)
      · subst hc; exact Or.inr (by simp only [Res.erase]; rw [Compl.erase_updateEmpty, Compl.erase_updateEmpty]; rfl)
      · subst hc; exact Or.inr rfl
      · subst hc; exact Or.inr rfl

theorem evalStmts_simq0 (ha : SMapOK a) (hb : SMapOK b)
    (hS : ∀ s l env st, Res.qle (s1 (a.S s) l env st) (s2 (b.S s) l env st))
    (ss : List Stmt) (V1 V2 : Option Val) (env : Env) (st : St) :
    Res.qle (evalStmts s1 (a.L ss) V1 env st) (evalStmts s2 (b.L ss) V2 env st) := by
  have := evalStmts_simq ha hb hS ss [] []
    (fun _ _ _ _ => Or.inr (by simp only [evalStmts, Res.erase, Compl.erase])) V1 V2 env st
  simpa using this

theorem evalBlock_simq (ha : SMapOK a) (hb : SMapOK b)
    (hS : ∀ s l env st, Res.qle (s1 (a.S s) l env st) (s2 (b.S s) l env st))
    (ss : List Stmt) (env : Env) (st : St) :
    Res.qle (evalBlock s1 (a.L ss) env st) (evalBlock s2 (b.L ss) env st) := by
  unfold evalBlock
  rw [ha.enterBlockL, hb.enterBlockL]
  exact evalStmts_simq0 ha hb hS ss _ _ _ _

theorem evalStmts_caseBodies_simq (ha : SMapOK a) (hb : SMapOK b)
    (hS : ∀ s l env st, Res.qle (s1 (a.S s) l env st) (s2 (b.S s) l env st)) :
    ∀ (cs : List Case) (V1 V2 : Option Val) (env : Env) (st : St),
      Res.qle (evalStmts s1 (caseBodies (a.C cs)) V1 env st) (evalStmts s2 (caseBodies (b.C cs)) V2 env st)
  | [], _, _, _, _ => by
    rw [ha.C_nil, hb.C_nil]; exact Or.inr (by simp only [caseBodies, evalStmts, Res.erase, Compl.erase])
  | (.mk t bd) :: cs, V1, V2, env, st => by
    rw [ha.C_cons, hb.C_cons]
    simp only [caseBodies]
    exact evalStmts_simq ha hb hS bd _ _ (evalStmts_caseBodies_simq ha hb hS cs) V1 V2 env st

theorem evalFinally_simq (ha : SMapOK a) (hb : SMapOK b)
    (hS : ∀ s l env st, Res.qle (s1 (a.S s) l env st) (s2 (b.S s) l env st))
    {r1 r2 : Res} (h : Res.qle r1 r2) (hf : Bool) (fb : List Stmt) (env : Env) :
    Res.qle (evalFinally s1 r1 hf (a.L fb) env) (evalFinally s2 r2 hf (b.L fb) env) := by
  unfold evalFinally
  split
  · exact updEmpty_q _ _ h
  · rcases Res.qle_elim h with h | ⟨w, h1, h2⟩ | ⟨c1, c2, st, h1, h2, hc⟩
    · subst h; exact Or.inl rfl
    · subst h1; subst h2; exact Or.inr rfl
    · subst h1; subst h2
      simp only []
      rcases Res.qle_elim (evalBlock_simq ha hb hS fb env st) with h | ⟨w, h1, h2⟩ | ⟨d1, d2, st3, h1, h2, hd⟩
      · rw [h]; exact Or.inl rfl
      · rw [h1, h2]; exact Or.inr rfl
      · rw [h1, h2]
        cases d1 <;> cases d2 <;> simp [Compl.erase] at hd
        · exact Or.inr (by simp only [Res.erase, Compl.erase_updateEmpty, hc])
        · subst hd; exact Or.inr rfl
        · subst hd; exact Or.inr rfl
        · subst hd; exact Or.inr rfl
        · subst hd; exact Or.inr rfl

theorem evalCatch_simq (ha : SMapOK a) (hb : SMapOK b)
    (hS : ∀ s l env st, Res.qle (s1 (a.S s) l env st) (s2 (b.S s) l env st))
    (p : Option Name) (cb : List Stmt) (v : Val) (env : Env) (st : St) :
    Res.qle (evalCatch s1 p (a.L cb) v env st) (evalCatch s2 p (b.L cb) v env st) := by
  unfold evalCatch
  split
  · exact evalBlock_simq ha hb hS _ _ _
  · exact evalBlock_simq ha hb hS _ _ _

theorem evalTry_simq (ha : SMapOK a) (hb : SMapOK b)
    (hS : ∀ s l env st, Res.qle (s1 (a.S s) l env st) (s2 (b.S s) l env st))
    (bd : List Stmt) (hc : Bool) (p : Option Name) (cb : List Stmt) (hf : Bool) (fb : List Stmt)
    (env : Env) (st : St) :
    Res.qle (evalTry s1 (a.L bd) hc p (a.L cb) hf (a.L fb) env st)
            (evalTry s2 (b.L bd) hc p (b.L cb) hf (b.L fb) env st) := by
  unfold evalTry
  apply evalFinally_simq ha hb hS
  rcases Res.qle_elim (evalBlock_simq ha hb hS bd env st) with h | ⟨w, h1, h2⟩ | ⟨c1, c2, st1, h1, h2, hcc⟩
  · rw [h]; exact Or.inl rfl
  · rw [h1, h2]; exact Or.inr rfl
  · rw [h1, h2]
    cases c1 <;> cases c2 <;> simp [Compl.erase] at hcc
    · exact Or.inr rfl
    · subst hcc; exact Or.inr rfl
    · subst hcc; exact Or.inr rfl
    · subst hcc; exact Or.inr rfl
    · subst hcc
      simp only []
      split
      · exact evalCatch_simq ha hb hS _ _ _ _ _
      · exact Or.inr rfl

theorem runCases_simq (ha : SMapOK a) (hb : SMapOK b)
    (hS : ∀ s l env st, Res.qle (s1 (a.S s) l env st) (s2 (b.S s) l env st))
    (cs : List Case) (start : Option Nat) (env : Env) (st : St) :
    Res.qle (runCases s1 (a.C cs) start env st) (runCases s2 (b.C cs) start env st) := by
  cases start with
  | none => exact Res.qle_refl _
  | some i =>
    simp only [runCases, ha.C_drop, hb.C_drop]
    rcases Res.qle_elim (evalStmts_caseBodies_simq ha hb hS (cs.drop i) (some .undef) (some .undef) env st)
      with h | ⟨w, h1, h2⟩ | ⟨c1, c2, st1, h1, h2, hc⟩
    · rw [h]; exact Or.inl rfl
    · rw [h1, h2]; exact Or.inr rfl
    · rw [h1, h2]; exact Or.inr (by simp only [Res.erase, Compl.erase_loopExit hc])

theorem evalSwitch_simq (ha : SMapOK a) (hb : SMapOK b) (hE : ∀ e env st, Res.le (e1 e env st) (e2 e env st))
    (hS : ∀ s l env st, Res.qle (s1 (a.S s) l env st) (s2 (b.S s) l env st))
    (e : Expr) (cs : List Case) (env : Env) (st : St) :
    Res.qle (evalSwitch e1 s1 e (a.C cs) env st) (evalSwitch e2 s2 e (b.C cs) env st) := by
  unfold evalSwitch
  apply bindVal_q (hE _ _ _); intro dv st1
  rw [enterBlock_congr (ha.caseDecls cs).1 (ha.caseDecls cs).2,
      enterBlock_congr (hb.caseDecls cs).1 (hb.caseDecls cs).2]
  simp only [ha.findCase, hb.findCase]
  apply bindVal_q (findCase_mono hE _ _ _ _ _); intro r st3
  have hcs : caseStart r (a.C cs) = caseStart r (b.C cs) := by
    unfold caseStart; split
    · rfl
    · rw [ha.defaultIdx, hb.defaultIdx]
  rw [hcs]
  exact runCases_simq ha hb hS _ _ _ _

theorem evalFor_simq (hE : ∀ e env st, Res.le (e1 e env st) (e2 e env st))
    (init : ForInit) (test upd : Option Expr) (bd : Stmt) (l : List Name)
    (hT : ∀ per V1 V2 env st, Res.qle (t1 (.forLoop per test upd (a.S bd) l V1) env st)
                                       (t2 (.forLoop per test upd (b.S bd) l V2) env st))
    (env : Env) (st : St) :
    Res.qle (evalFor e1 t1 init test upd (a.S bd) l env st) (evalFor e2 t2 init test upd (b.S bd) l env st) := by
  unfold evalFor
  split
  · exact hT _ _ _ _ _
  · apply bindVal_q (hE _ _ _); intro _ _; exact hT _ _ _ _ _
  · apply bindSt_q (evalDeclrs_mono hE _ _ _ _); intro _; exact hT _ _ _ _ _
  · apply bindSt_q (evalDeclrs_mono hE _ _ _ _); intro _; exact hT _ _ _ _ _

/-- Loop tasks are related for ARBITRARY running values on the two sides. -/
structure LoopQ (a b : SMap) (t1 t2 : RecT) : Prop where
  w : ∀ c bd l V1 V2 env st, Res.qle (t1 (.whileLoop c (a.S bd) l V1) env st) (t2 (.whileLoop c (b.S bd) l V2) env st)
  d : ∀ bd c l V1 V2 env st, Res.qle (t1 (.doLoop (a.S bd) c l V1) env st) (t2 (.doLoop (b.S bd) c l V2) env st)
  f : ∀ per test upd bd l V1 V2 env st,
    Res.qle (t1 (.forLoop per test upd (a.S bd) l V1) env st) (t2 (.forLoop per test upd (b.S bd) l V2) env st)
  o : ∀ k x arr i bd l V1 V2 env st,
    Res.qle (t1 (.forOfLoop k x arr i (a.S bd) l V1) env st) (t2 (.forOfLoop k x arr i (b.S bd) l V2) env st)

theorem stepStmt_simq (ha : SMapOK a) (hb : SMapOK b) (hE : ∀ e env st, Res.le (e1 e env st) (e2 e env st))
    (hS : ∀ s l env st, Res.qle (s1 (a.S s) l env st) (s2 (b.S s) l env st))
    (hT : LoopQ a b t1 t2)
    (s : Stmt) (l : List Name) (env : Env) (st : St) :
    Res.qle (stepStmt e1 s1 t1 (a.I s) l env st) (stepStmt e2 s2 t2 (b.I s) l env st) := by
  cases s with
  | expr e =>
    rw [ha.I_expr, hb.I_expr]; simp only [stepStmt]
    exact bindVal_q (hE _ _ _) (fun _ _ => Res.qle_refl _)
  | decl k ds =>
    rw [ha.I_decl, hb.I_decl]; simp only [stepStmt]; exact Res.qle_of_le (evalDeclrs_mono hE _ _ _ _)
  | fdecl x i => rw [ha.I_fdecl, hb.I_fdecl]; exact Res.qle_refl _
  | empty => rw [ha.I_empty, hb.I_empty]; exact Res.qle_refl _
  | block ss => rw [ha.I_block, hb.I_block]; simp only [stepStmt]; exact evalBlock_simq ha hb hS _ _ _
  | ite c t e =>
    rw [ha.I_ite, hb.I_ite]; simp only [stepStmt]
    apply bindVal_q (hE _ _ _); intro v st1
    apply updEmpty_q
    split
    · exact hS _ _ _ _
    · exact hS _ _ _ _
  | «while» c bd => rw [ha.I_while, hb.I_while]; simp only [stepStmt]; exact hT.w _ _ _ _ _ _ _
  | doWhile bd c => rw [ha.I_doWhile, hb.I_doWhile]; simp only [stepStmt]; exact hT.d _ _ _ _ _ _ _
  | «for» i t u bd =>
    rw [ha.I_for, hb.I_for]; simp only [stepStmt]
    exact evalFor_simq hE i t u bd l (fun per V1 V2 env st => hT.f per t u bd l V1 V2 env st) env st
  | forOf k x e bd =>
    rw [ha.I_forOf, hb.I_forOf]; simp only [stepStmt, evalForOf]
    apply bindVal_q (hE _ _ _); intro v st1
    split
    · split
      · split
        · exact hT.o _ _ _ _ _ _ _ _ _ _
        · exact Res.qle_refl _
      · exact Res.qle_refl _
    · exact Res.qle_refl _
    · exact Res.qle_refl _
    · exact Res.qle_refl _
  | brk l' => rw [ha.I_brk, hb.I_brk]; exact Res.qle_refl _
  | cont l' => rw [ha.I_cont, hb.I_cont]; exact Res.qle_refl _
  | ret e =>
    rw [ha.I_ret, hb.I_ret]
    cases e with
    | none => exact Res.qle_refl _
    | some e => simp only [stepStmt]; exact bindVal_q (hE _ _ _) (fun _ _ => Res.qle_refl _)
  | throw e =>
    rw [ha.I_throw, hb.I_throw]; simp only [stepStmt]
    exact bindVal_q (hE _ _ _) (fun _ _ => Res.qle_refl _)
  | «try» bd hc p cb hf fb =>
    rw [ha.I_try, hb.I_try]; simp only [stepStmt]; exact evalTry_simq ha hb hS _ _ _ _ _ _ _ _
  | labeled l' s =>
    rw [ha.I_labeled, hb.I_labeled]; simp only [stepStmt]
    rcases Res.qle_elim (hS s (l' :: l) env st) with h | ⟨w, h1, h2⟩ | ⟨c1, c2, st1, h1, h2, hc⟩
    · rw [h]; exact Or.inl rfl
    · rw [h1, h2]; exact Or.inr rfl
    · rw [h1, h2]
      cases c1 <;> cases c2 <;> simp [Compl.erase] at hc
      · exact Or.inr rfl
      · subst hc
        rename_i lb v1 v2
        cases lb with
        | none => exact Or.inr rfl
        | some l'' =>
          simp only []
          split
          · exact Or.inr rfl
          · exact Or.inr rfl
      · subst hc; exact Or.inr rfl
      · subst hc; exact Or.inr rfl
      · subst hc; exact Or.inr rfl
  | switch e cs =>
    rw [ha.I_switch, hb.I_switch]; simp only [stepStmt]; exact evalSwitch_simq ha hb hE hS _ _ _ _
  | outside w => rw [ha.I_outside, hb.I_outside]; exact Res.qle_refl _

theorem stepWhile_simq (hE : ∀ e env st, Res.le (e1 e env st) (e2 e env st))
    (hS : ∀ s l env st, Res.qle (s1 (a.S s) l env st) (s2 (b.S s) l env st))
    (hT : LoopQ a b t1 t2) (c : Expr) (bd : Stmt) (l : List Name) (V1 V2 : Val) (env : Env) (st : St) :
    Res.qle (stepWhile e1 s1 t1 c (a.S bd) l V1 env st) (stepWhile e2 s2 t2 c (b.S bd) l V2 env st) := by
  unfold stepWhile
  apply bindVal_q (hE _ _ _); intro tv st1
  split
  · exact Or.inr rfl
  · exact afterBody_q (hS _ _ _ _) (fun v1 v2 st2 => hT.w c bd l v1 v2 env st2)

theorem stepDo_simq (hE : ∀ e env st, Res.le (e1 e env st) (e2 e env st))
    (hS : ∀ s l env st, Res.qle (s1 (a.S s) l env st) (s2 (b.S s) l env st))
    (hT : LoopQ a b t1 t2) (bd : Stmt) (c : Expr) (l : List Name) (V1 V2 : Val) (env : Env) (st : St) :
    Res.qle (stepDo e1 s1 t1 (a.S bd) c l V1 env st) (stepDo e2 s2 t2 (b.S bd) c l V2 env st) := by
  unfold stepDo
  apply afterBody_q (hS _ _ _ _); intro v1 v2 st2
  apply bindVal_q (hE _ _ _); intro tv st3
  split
  · exact Or.inr rfl
  · exact hT.d bd c l v1 v2 env st3

theorem stepFor_simq (hE : ∀ e env st, Res.le (e1 e env st) (e2 e env st))
    (hS : ∀ s l env st, Res.qle (s1 (a.S s) l env st) (s2 (b.S s) l env st))
    (hT : LoopQ a b t1 t2) (per : List Name) (test upd : Option Expr) (bd : Stmt) (l : List Name)
    (V1 V2 : Val) (env : Env) (st : St) :
    Res.qle (stepFor e1 s1 t1 per test upd (a.S bd) l V1 env st)
            (stepFor e2 s2 t2 per test upd (b.S bd) l V2 env st) := by
  have hbody : ∀ env st1, Res.qle (forBody e1 s1 t1 per test upd (a.S bd) l V1 env st1)
      (forBody e2 s2 t2 per test upd (b.S bd) l V2 env st1) := by
    intro env st1
    unfold forBody
    apply afterBody_q (hS _ _ _ _); intro v1 v2 st2
    split
    · exact hT.f per test _ bd l v1 v2 _ _
    · apply bindVal_q (hE _ _ _); intro _ st4; exact hT.f per test _ bd l v1 v2 _ _
  unfold stepFor
  split
  · exact hbody _ _
  · apply bindVal_q (hE _ _ _); intro tv st1
    split
    · exact Or.inr rfl
    · exact hbody _ _

theorem stepForOf_simq
    (hS : ∀ s l env st, Res.qle (s1 (a.S s) l env st) (s2 (b.S s) l env st))
    (hT : LoopQ a b t1 t2) (k : DeclKind) (x : Name) (arr i : Nat) (bd : Stmt) (l : List Name)
    (V1 V2 : Val) (env : Env) (st : St) :
    Res.qle (stepForOf s1 t1 k x arr i (a.S bd) l V1 env st) (stepForOf s2 t2 k x arr i (b.S bd) l V2 env st) := by
  unfold stepForOf
  split
  · exact Res.qle_refl _
  · split
    · exact afterBody_q (hS _ _ _ _) (fun v1 v2 st2 => hT.o k x arr (i + 1) bd l v1 v2 env st2)
    · exact Or.inr rfl

/-- A call of a function whose body is mapped on both sides: the erased values vanish at `finishCall`. -/
theorem stepCall_simq (ha : SMapOK a) (hb : SMapOK b) (hE : ∀ e env st, Res.le (e1 e env st) (e2 e env st))
    (hS : ∀ s l env st, Res.qle (s1 (a.S s) l env st) (s2 (b.S s) l env st))
    (funs : List FunDef) (f t : Val) (args : List Val) (st : St) :
    Res.le (stepCall (funs.map (FunDef.mapBody a.L)) e1 s1 f t args st)
           (stepCall (funs.map (FunDef.mapBody b.L)) e2 s2 f t args st) := by
  cases f with
  | clos idx cenv =>
    simp only [stepCall, List.getElem?_map]
    cases h : funs[idx]? with
    | none => exact Res.le_refl _
    | some fd =>
      simp only [Option.map, FunDef.mapBody, ha.varL, hb.varL]
      apply bindSt_mono (bindParams_mono hE _ _ _ _); intro st3
      exact finishCall_q (evalBlock_simq ha hb hS _ _ _)
  | _ => exact Res.le_refl _

end
/-! ### the rewrite: `e;` ↦ `void e;` in every function body -/

def voidTop (orig inner : Stmt) : Stmt :=
  match orig with
  | .expr e => .expr (.unop .void e)
  | _ => inner

mutual
def vI : Stmt → Stmt
  | .block ss => .block (vL ss)
  | .ite c t e => .ite c (voidTop t (vI t)) (voidTop e (vI e))
  | .while c b => .while c (voidTop b (vI b))
  | .doWhile b c => .doWhile (voidTop b (vI b)) c
  | .for i t u b => .for i t u (voidTop b (vI b))
  | .forOf k x e b => .forOf k x e (voidTop b (vI b))
  | .try b hc p cb hf fb => .try (vL b) hc p (vL cb) hf (vL fb)
  | .labeled l s => .labeled l (voidTop s (vI s))
  | .switch e cs => .switch e (vC cs)
  | s => s
def vL : List Stmt → List Stmt
  | [] => []
  | s :: ss => voidTop s (vI s) :: vL ss
def vC : List Case → List Case
  | [] => []
  | (.mk t b) :: cs => .mk t (vL b) :: vC cs
end

def vS (s : Stmt) : Stmt := voidTop s (vI s)
def vMap : SMap := ⟨vS, vI, vL, vC⟩

/-- Function bodies rewritten, script body untouched (its completion value is observable). -/
def exprStmtVoid (P : Prog) : Prog := { P with funs := P.funs.map (FunDef.mapBody vL) }

theorem vI_lex (s : Stmt) : lexDeclsS (vI s) = lexDeclsS s := by cases s <;> simp [vI, lexDeclsS]
theorem vI_fun (s : Stmt) : funDeclsS (vI s) = funDeclsS s := by cases s <;> simp [vI, funDeclsS]
theorem vS_lex (s : Stmt) : lexDeclsS (vS s) = lexDeclsS s := by
  cases s <;> simp [vS, voidTop, vI, lexDeclsS]
theorem vS_fun (s : Stmt) : funDeclsS (vS s) = funDeclsS s := by
  cases s <;> simp [vS, voidTop, vI, funDeclsS]

mutual
theorem vI_var : ∀ s, varNamesS (vI s) = varNamesS s
  | .expr _ => by simp [vI]
  | .decl _ _ => by simp [vI]
  | .fdecl _ _ => by simp [vI]
  | .empty => by simp [vI]
  | .block ss => by simp [vI, varNamesS, vL_var ss]
  | .ite _ t e => by simp [vI, varNamesS, vS_var' t, vS_var' e]
  | .while _ b => by simp [vI, varNamesS, vS_var' b]
  | .doWhile b _ => by simp [vI, varNamesS, vS_var' b]
  | .for i _ _ b => by
    have := vS_var' b
    cases i with
    | none => simp [vI, varNamesS, this]
    | expr e => simp [vI, varNamesS, this]
    | decl k ds => cases k <;> simp [vI, varNamesS, this]
  | .forOf k _ _ b => by
    have := vS_var' b
    cases k <;> simp [vI, varNamesS, this]
  | .brk _ => by simp [vI]
  | .cont _ => by simp [vI]
  | .ret _ => by simp [vI]
  | .throw _ => by simp [vI]
  | .try b _ _ cb _ fb => by simp [vI, varNamesS, vL_var b, vL_var cb, vL_var fb]
  | .labeled _ s => by simp [vI, varNamesS, vS_var' s]
  | .switch _ cs => by simp [vI, varNamesS, vC_var cs]
  | .outside _ => by simp [vI]
theorem vS_var' : ∀ s, varNamesS (voidTop s (vI s)) = varNamesS s
  | .expr _ => by simp [voidTop, varNamesS]
  | .decl k ds => by simp only [voidTop]; exact vI_var _
  | .fdecl _ _ => by simp only [voidTop]; exact vI_var _
  | .empty => by simp only [voidTop]; exact vI_var _
  | .block ss => by simp only [voidTop]; exact vI_var _
  | .ite _ t e => by simp only [voidTop]; exact vI_var _
  | .while _ b => by simp only [voidTop]; exact vI_var _
  | .doWhile b _ => by simp only [voidTop]; exact vI_var _
  | .for i _ _ b => by simp only [voidTop]; exact vI_var _
  | .forOf _ _ _ b => by simp only [voidTop]; exact vI_var _
  | .brk _ => by simp only [voidTop]; exact vI_var _
  | .cont _ => by simp only [voidTop]; exact vI_var _
  | .ret _ => by simp only [voidTop]; exact vI_var _
  | .throw _ => by simp only [voidTop]; exact vI_var _
  | .try b _ _ cb _ fb => by simp only [voidTop]; exact vI_var _
  | .labeled _ s => by simp only [voidTop]; exact vI_var _
  | .switch _ cs => by simp only [voidTop]; exact vI_var _
  | .outside _ => by simp only [voidTop]; exact vI_var _
theorem vL_var : ∀ ss, varNamesL (vL ss) = varNamesL ss
  | [] => by simp [vL]
  | s :: ss => by simp [vL, varNamesL, vS_var' s, vL_var ss]
theorem vC_var : ∀ cs, varNamesC (vC cs) = varNamesC cs
  | [] => by simp [vC]
  | (.mk _ b) :: cs => by simp [vC, varNamesC, vL_var b, vC_var cs]
end

theorem vMap_ok : SMapOK vMap where
  I_expr := by intros; simp [vMap, vI]
  I_decl := by intros; simp [vMap, vI]
  I_fdecl := by intros; simp [vMap, vI]
  I_empty := by simp [vMap, vI]
  I_brk := by intros; simp [vMap, vI]
  I_cont := by intros; simp [vMap, vI]
  I_ret := by intros; simp [vMap, vI]
  I_throw := by intros; simp [vMap, vI]
  I_outside := by intros; simp [vMap, vI]
  I_block := by intros; simp [vMap, vI]
  I_ite := by intros; simp [vMap, vI, vS]
  I_while := by intros; simp [vMap, vI, vS]
  I_doWhile := by intros; simp [vMap, vI, vS]
  I_for := by intros; simp [vMap, vI, vS]
  I_forOf := by intros; simp [vMap, vI, vS]
  I_try := by intros; simp [vMap, vI]
  I_labeled := by intros; simp [vMap, vI, vS]
  I_switch := by intros; simp [vMap, vI]
  L_nil := by simp [vMap, vL]
  L_cons := by intros; simp [vMap, vL, vS]
  C_nil := by simp [vMap, vC]
  C_cons := by intros; simp [vMap, vC]
  lex_S := vS_lex
  fun_S := vS_fun
  var_S := fun s => vS_var' s

/-! ### helpers for the outer inductions -/

theorem map_mapBody_id (funs : List FunDef) : funs.map (FunDef.mapBody idMap.L) = funs := by
  induction funs with
  | nil => rfl
  | cons fd fs ih => simp only [List.map, ih]; rfl

/-- Everything but a call evaluates independently of the function table. -/
theorem step_funs_irrel (P : Prog) (r : RecT) (t : Task) (env : Env) (st : St)
    (h : ∀ f th a, t ≠ .call f th a) : step (exprStmtVoid P) r t env st = step P r t env st := by
  cases t with
  | call f th a => exact absurd rfl (h f th a)
  | _ => rfl

/-- One level of `void e;` against `e;` (left: the rewritten statement, two levels; right: one level). -/
theorem void_stmt_q {x y : Res} (h : Res.le x y) :
    Res.qle (bindVal (bindVal x fun v st1 => evalUnop .void v st1) Res.val) (bindVal y Res.val) := by
  rcases h with h | h
  · subst h; exact Or.inl rfl
  · subst h
    cases x with
    | timeout => exact Or.inl rfl
    | unsup w => exact Or.inr rfl
    | done c st =>
      cases c with
      | normal v => cases v <;> exact Or.inr rfl
      | _ => exact Or.inr rfl

theorem stmt_void_q {x y : Res} (h : Res.le x y) :
    Res.qle (bindVal x Res.val) (bindVal (bindVal y fun v st1 => evalUnop .void v st1) Res.val) := by
  rcases h with h | h
  · subst h; exact Or.inl rfl
  · subst h
    cases x with
    | timeout => exact Or.inl rfl
    | unsup w => exact Or.inr rfl
    | done c st =>
      cases c with
      | normal v => cases v <;> exact Or.inr rfl
      | _ => exact Or.inr rfl

theorem eval_void_expr (P' : Prog) (m : Nat) (e : Expr) (env : Env) (st : St) :
    eval P' (m + 1) (.expr (.unop .void e)) env st =
      bindVal (eval P' m (.expr e) env st) fun v st1 => evalUnop .void v st1 := by
  simp only [eval, step, evalExpr, evalUnopExpr]

theorem vS_not_expr {s : Stmt} (h : ∀ e, s ≠ .expr e) : vS s = vI s := by
  cases s with
  | expr e => exact absurd rfl (h e)
  | _ => rfl

/-! ### direction 1: rewritten ≤ original, same fuel -/

structure VoidInv1 (P : Prog) (n : Nat) : Prop where
  A : ∀ t env st, Res.le (eval (exprStmtVoid P) n t env st) (eval P n t env st)
  S : ∀ s l env st, Res.qle (eval (exprStmtVoid P) n (.stmt (vS s) l) env st) (eval P n (.stmt s l) env st)
  T : LoopQ vMap idMap (eval (exprStmtVoid P) n) (eval P n)

theorem void_inv1 (P : Prog) : ∀ n, VoidInv1 P n
  | 0 => ⟨fun _ _ _ => Or.inl rfl, fun _ _ _ _ => Or.inl rfl,
          ⟨fun _ _ _ _ _ _ _ => Or.inl rfl, fun _ _ _ _ _ _ _ => Or.inl rfl, fun _ _ _ _ _ _ _ _ _ => Or.inl rfl,
           fun _ _ _ _ _ _ _ _ _ _ => Or.inl rfl⟩⟩
  | n + 1 => by
    have ih := void_inv1 P n
    have hE : ∀ e env st, Res.le (eval (exprStmtVoid P) n (.expr e) env st) (eval P n (.expr e) env st) :=
      fun e env st => ih.A _ env st
    have hSq : ∀ s l env st, Res.qle (evalS (exprStmtVoid P) n (vMap.S s) l env st) (evalS P n (idMap.S s) l env st) :=
      fun s l env st => ih.S s l env st
    refine ⟨?_, ?_, ⟨?_, ?_, ?_, ?_⟩⟩
    · intro t env st
      cases t with
      | call f th a =>
        have := stepCall_simq vMap_ok idMap_ok hE hSq P.funs f th a st
        rw [map_mapBody_id] at this
        exact this
      | expr e =>
        show Res.le (step (exprStmtVoid P) _ _ env st) _
        rw [step_funs_irrel P _ _ env st (by intro f th a h; cases h)]
        exact step_mono P ih.A _ env st
      | stmt s l =>
        show Res.le (step (exprStmtVoid P) _ _ env st) _
        rw [step_funs_irrel P _ _ env st (by intro f th a h; cases h)]
        exact step_mono P ih.A _ env st
      | whileLoop c b l V =>
        show Res.le (step (exprStmtVoid P) _ _ env st) _
        rw [step_funs_irrel P _ _ env st (by intro f th a h; cases h)]
        exact step_mono P ih.A _ env st
      | doLoop b c l V =>
        show Res.le (step (exprStmtVoid P) _ _ env st) _
        rw [step_funs_irrel P _ _ env st (by intro f th a h; cases h)]
        exact step_mono P ih.A _ env st
      | forLoop per test upd b l V =>
        show Res.le (step (exprStmtVoid P) _ _ env st) _
        rw [step_funs_irrel P _ _ env st (by intro f th a h; cases h)]
        exact step_mono P ih.A _ env st
      | forOfLoop k x arr i b l V =>
        show Res.le (step (exprStmtVoid P) _ _ env st) _
        rw [step_funs_irrel P _ _ env st (by intro f th a h; cases h)]
        exact step_mono P ih.A _ env st
    · intro s l env st
      have hgen : ∀ s : Stmt, (∀ e, s ≠ .expr e) →
          Res.qle (eval (exprStmtVoid P) (n + 1) (.stmt (vS s) l) env st) (eval P (n + 1) (.stmt s l) env st) := by
        intro s hs
        rw [vS_not_expr hs]
        exact stepStmt_simq vMap_ok idMap_ok hE hSq ih.T s l env st
      cases s with
      | expr e =>
        show Res.qle (bindVal (eval (exprStmtVoid P) n (.expr (.unop .void e)) env st) Res.val)
          (bindVal (eval P n (.expr e) env st) Res.val)
        cases n with
        | zero => exact Or.inl rfl
        | succ m =>
          rw [eval_void_expr]
          exact void_stmt_q (Res.le_trans ((void_inv1 P m).A _ env st) (eval_succ_le P m _ env st))
      | _ => exact hgen _ (by intro e h; cases h)
    · intro c bd l V1 V2 env st
      exact stepWhile_simq hE hSq ih.T c bd l V1 V2 env st
    · intro bd c l V1 V2 env st
      exact stepDo_simq hE hSq ih.T bd c l V1 V2 env st
    · intro per test upd bd l V1 V2 env st
      exact stepFor_simq hE hSq ih.T per test upd bd l V1 V2 env st
    · intro k x arr i bd l V1 V2 env st
      exact stepForOf_simq hSq ih.T k x arr i bd l V1 V2 env st

/-! ### direction 2: original ≤ rewritten with doubled fuel -/

structure VoidInv2 (P : Prog) (n : Nat) : Prop where
  A : ∀ t env st, Res.le (eval P n t env st) (eval (exprStmtVoid P) (2 * n) t env st)
  S : ∀ s l env st, Res.qle (eval P n (.stmt s l) env st) (eval (exprStmtVoid P) (2 * n) (.stmt (vS s) l) env st)
  T : LoopQ idMap vMap (eval P n) (eval (exprStmtVoid P) (2 * n))

theorem void_inv2 (P : Prog) : ∀ n, VoidInv2 P n
  | 0 => ⟨fun _ _ _ => Or.inl rfl, fun _ _ _ _ => Or.inl rfl,
          ⟨fun _ _ _ _ _ _ _ => Or.inl rfl, fun _ _ _ _ _ _ _ => Or.inl rfl, fun _ _ _ _ _ _ _ _ _ => Or.inl rfl,
           fun _ _ _ _ _ _ _ _ _ _ => Or.inl rfl⟩⟩
  | n + 1 => by
    have ih := void_inv2 P n
    have h2 : 2 * (n + 1) = (2 * n + 1) + 1 := by omega
    -- everything one level up on the right
    have hA1 : ∀ t env st, Res.le (eval P n t env st) (eval (exprStmtVoid P) (2 * n + 1) t env st) :=
      fun t env st => Res.le_trans (ih.A t env st) (eval_succ_le _ _ _ env st)
    have hE1 : ∀ e env st, Res.le (eval P n (.expr e) env st) (eval (exprStmtVoid P) (2 * n + 1) (.expr e) env st) :=
      fun e env st => hA1 _ env st
    have hS1 : ∀ s l env st, Res.qle (evalS P n (idMap.S s) l env st) (evalS (exprStmtVoid P) (2 * n + 1) (vMap.S s) l env st) :=
      fun s l env st => Res.qle_trans_le (ih.S s l env st) (eval_succ_le _ _ _ env st)
    have hT1 : LoopQ idMap vMap (eval P n) (eval (exprStmtVoid P) (2 * n + 1)) :=
      ⟨fun c bd l V1 V2 env st => Res.qle_trans_le (ih.T.w c bd l V1 V2 env st) (eval_succ_le _ _ _ env st),
       fun bd c l V1 V2 env st => Res.qle_trans_le (ih.T.d bd c l V1 V2 env st) (eval_succ_le _ _ _ env st),
       fun per test upd bd l V1 V2 env st => Res.qle_trans_le (ih.T.f per test upd bd l V1 V2 env st) (eval_succ_le _ _ _ env st),
       fun k x arr i bd l V1 V2 env st => Res.qle_trans_le (ih.T.o k x arr i bd l V1 V2 env st) (eval_succ_le _ _ _ env st)⟩
    refine ⟨?_, ?_, ⟨?_, ?_, ?_, ?_⟩⟩
    · intro t env st
      rw [h2]
      cases t with
      | call f th a =>
        have := stepCall_simq idMap_ok vMap_ok hE1 hS1 P.funs f th a st
        rw [map_mapBody_id] at this
        exact this
      | expr e =>
        show Res.le _ (step (exprStmtVoid P) _ _ env st)
        rw [step_funs_irrel P _ _ env st (by intro f th a h; cases h)]
        exact step_mono P hA1 _ env st
      | stmt s l =>
        show Res.le _ (step (exprStmtVoid P) _ _ env st)
        rw [step_funs_irrel P _ _ env st (by intro f th a h; cases h)]
        exact step_mono P hA1 _ env st
      | whileLoop c b l V =>
        show Res.le _ (step (exprStmtVoid P) _ _ env st)
        rw [step_funs_irrel P _ _ env st (by intro f th a h; cases h)]
        exact step_mono P hA1 _ env st
      | doLoop b c l V =>
        show Res.le _ (step (exprStmtVoid P) _ _ env st)
        rw [step_funs_irrel P _ _ env st (by intro f th a h; cases h)]
        exact step_mono P hA1 _ env st
      | forLoop per test upd b l V =>
        show Res.le _ (step (exprStmtVoid P) _ _ env st)
        rw [step_funs_irrel P _ _ env st (by intro f th a h; cases h)]
        exact step_mono P hA1 _ env st
      | forOfLoop k x arr i b l V =>
        show Res.le _ (step (exprStmtVoid P) _ _ env st)
        rw [step_funs_irrel P _ _ env st (by intro f th a h; cases h)]
        exact step_mono P hA1 _ env st
    · intro s l env st
      rw [h2]
      have hgen : ∀ s : Stmt, (∀ e, s ≠ .expr e) →
          Res.qle (eval P (n + 1) (.stmt s l) env st) (eval (exprStmtVoid P) (2 * n + 1 + 1) (.stmt (vS s) l) env st) := by
        intro s hs
        rw [vS_not_expr hs]
        exact stepStmt_simq idMap_ok vMap_ok hE1 hS1 hT1 s l env st
      cases s with
      | expr e =>
        show Res.qle (bindVal (eval P n (.expr e) env st) Res.val)
          (bindVal (eval (exprStmtVoid P) (2 * n + 1) (.expr (.unop .void e)) env st) Res.val)
        rw [eval_void_expr]
        exact stmt_void_q (ih.A _ env st)
      | _ => exact hgen _ (by intro e h; cases h)
    · intro c bd l V1 V2 env st
      rw [h2]
      exact stepWhile_simq hE1 hS1 hT1 c bd l V1 V2 env st
    · intro bd c l V1 V2 env st
      rw [h2]
      exact stepDo_simq hE1 hS1 hT1 bd c l V1 V2 env st
    · intro per test upd bd l V1 V2 env st
      rw [h2]
      exact stepFor_simq hE1 hS1 hT1 per test upd bd l V1 V2 env st
    · intro k x arr i bd l V1 V2 env st
      rw [h2]
      exact stepForOf_simq hS1 hT1 k x arr i bd l V1 V2 env st

/-! ### scripts -/

theorem run_void_le (P : Prog) (n : Nat) : Res.le (run (exprStmtVoid P) n) (run P n) := by
  have hS : ∀ s l env st, Res.le (evalS (exprStmtVoid P) n s l env st) (evalS P n s l env st) :=
    fun s l env st => (void_inv1 P n).A _ env st
  exact evalBlock_mono hS P.body _ _

theorem run_le_void (P : Prog) (n : Nat) : Res.le (run P n) (run (exprStmtVoid P) (2 * n)) := by
  have hS : ∀ s l env st, Res.le (evalS P n s l env st) (evalS (exprStmtVoid P) (2 * n) s l env st) :=
    fun s l env st => (void_inv2 P n).A _ env st
  exact evalBlock_mono hS P.body _ _

end GojaModel.C02
