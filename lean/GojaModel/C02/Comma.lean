/-
  C02 — expr_stmt_vs_value_position, second form: inside function bodies `e;` may be replaced by `(e, 0);`
  (the statement then has the value 0 instead of the value of e).  Same technique as Erase.lean (relation `Res.qle`,
  generic statement lemmas for two `SMapOK` maps, collapse at the call boundary); only the map and the one-level
  lemma for the rewritten expression statement differ.  The text below is the `void` development with the comma map.
-/
import GojaModel.C02.Erase

namespace GojaModel.C02

/-! ### the rewrite: `e;` ↦ `(e, 0);` in every function body -/

def commaTop (orig inner : Stmt) : Stmt :=
  match orig with
  | .expr e => .expr (.comma e (.lit (.num 0)))
  | _ => inner

mutual
def cI : Stmt → Stmt
  | .block ss => .block (cL ss)
  | .ite c t e => .ite c (commaTop t (cI t)) (commaTop e (cI e))
  | .while c b => .while c (commaTop b (cI b))
  | .doWhile b c => .doWhile (commaTop b (cI b)) c
  | .for i t u b => .for i t u (commaTop b (cI b))
  | .forOf k x e b => .forOf k x e (commaTop b (cI b))
  | .try b hc p cb hf fb => .try (cL b) hc p (cL cb) hf (cL fb)
  | .labeled l s => .labeled l (commaTop s (cI s))
  | .switch e cs => .switch e (cC cs)
  | s => s
def cL : List Stmt → List Stmt
  | [] => []
  | s :: ss => commaTop s (cI s) :: cL ss
def cC : List Case → List Case
  | [] => []
  | (.mk t b) :: cs => .mk t (cL b) :: cC cs
end

def cS (s : Stmt) : Stmt := commaTop s (cI s)
def cMap : SMap := ⟨cS, cI, cL, cC⟩

/-- Function bodies rewritten, script body untouched (its completion value is observable). -/
def exprStmtComma (P : Prog) : Prog := { P with funs := P.funs.map (FunDef.mapBody cL) }

theorem cI_lex (s : Stmt) : lexDeclsS (cI s) = lexDeclsS s := by cases s <;> simp [cI, lexDeclsS]
theorem cI_fun (s : Stmt) : funDeclsS (cI s) = funDeclsS s := by cases s <;> simp [cI, funDeclsS]
theorem cS_lex (s : Stmt) : lexDeclsS (cS s) = lexDeclsS s := by
  cases s <;> simp [cS, commaTop, cI, lexDeclsS]
theorem cS_fun (s : Stmt) : funDeclsS (cS s) = funDeclsS s := by
  cases s <;> simp [cS, commaTop, cI, funDeclsS]

mutual
theorem cI_var : ∀ s, varNamesS (cI s) = varNamesS s
  | .expr _ => by simp [cI]
  | .decl _ _ => by simp [cI]
  | .fdecl _ _ => by simp [cI]
  | .empty => by simp [cI]
  | .block ss => by simp [cI, varNamesS, cL_var ss]
  | .ite _ t e => by simp [cI, varNamesS, cS_var' t, cS_var' e]
  | .while _ b => by simp [cI, varNamesS, cS_var' b]
  | .doWhile b _ => by simp [cI, varNamesS, cS_var' b]
  | .for i _ _ b => by
    have := cS_var' b
    cases i with
    | none => simp [cI, varNamesS, this]
    | expr e => simp [cI, varNamesS, this]
    | decl k ds => cases k <;> simp [cI, varNamesS, this]
  | .forOf k _ _ b => by
    have := cS_var' b
    cases k <;> simp [cI, varNamesS, this]
  | .brk _ => by simp [cI]
  | .cont _ => by simp [cI]
  | .ret _ => by simp [cI]
  | .throw _ => by simp [cI]
  | .try b _ _ cb _ fb => by simp [cI, varNamesS, cL_var b, cL_var cb, cL_var fb]
  | .labeled _ s => by simp [cI, varNamesS, cS_var' s]
  | .switch _ cs => by simp [cI, varNamesS, cC_var cs]
  | .outside _ => by simp [cI]
theorem cS_var' : ∀ s, varNamesS (commaTop s (cI s)) = varNamesS s
  | .expr _ => by simp [commaTop, varNamesS]
  | .decl k ds => by simp only [commaTop]; exact cI_var _
  | .fdecl _ _ => by simp only [commaTop]; exact cI_var _
  | .empty => by simp only [commaTop]; exact cI_var _
  | .block ss => by simp only [commaTop]; exact cI_var _
  | .ite _ t e => by simp only [commaTop]; exact cI_var _
  | .while _ b => by simp only [commaTop]; exact cI_var _
  | .doWhile b _ => by simp only [commaTop]; exact cI_var _
  | .for i _ _ b => by simp only [commaTop]; exact cI_var _
  | .forOf _ _ _ b => by simp only [commaTop]; exact cI_var _
  | .brk _ => by simp only [commaTop]; exact cI_var _
  | .cont _ => by simp only [commaTop]; exact cI_var _
  | .ret _ => by simp only [commaTop]; exact cI_var _
  | .throw _ => by simp only [commaTop]; exact cI_var _
  | .try b _ _ cb _ fb => by simp only [commaTop]; exact cI_var _
  | .labeled _ s => by simp only [commaTop]; exact cI_var _
  | .switch _ cs => by simp only [commaTop]; exact cI_var _
  | .outside _ => by simp only [commaTop]; exact cI_var _
theorem cL_var : ∀ ss, varNamesL (cL ss) = varNamesL ss
  | [] => by simp [cL]
  | s :: ss => by simp [cL, varNamesL, cS_var' s, cL_var ss]
theorem cC_var : ∀ cs, varNamesC (cC cs) = varNamesC cs
  | [] => by simp [cC]
  | (.mk _ b) :: cs => by simp [cC, varNamesC, cL_var b, cC_var cs]
end

theorem cMap_ok : SMapOK cMap where
  I_expr := by intros; simp [cMap, cI]
  I_decl := by intros; simp [cMap, cI]
  I_fdecl := by intros; simp [cMap, cI]
  I_empty := by simp [cMap, cI]
  I_brk := by intros; simp [cMap, cI]
  I_cont := by intros; simp [cMap, cI]
  I_ret := by intros; simp [cMap, cI]
  I_throw := by intros; simp [cMap, cI]
  I_outside := by intros; simp [cMap, cI]
  I_block := by intros; simp [cMap, cI]
  I_ite := by intros; simp [cMap, cI, cS]
  I_while := by intros; simp [cMap, cI, cS]
  I_doWhile := by intros; simp [cMap, cI, cS]
  I_for := by intros; simp [cMap, cI, cS]
  I_forOf := by intros; simp [cMap, cI, cS]
  I_try := by intros; simp [cMap, cI]
  I_labeled := by intros; simp [cMap, cI, cS]
  I_switch := by intros; simp [cMap, cI]
  L_nil := by simp [cMap, cL]
  L_cons := by intros; simp [cMap, cL, cS]
  C_nil := by simp [cMap, cC]
  C_cons := by intros; simp [cMap, cC]
  lex_S := cS_lex
  fun_S := cS_fun
  var_S := fun s => cS_var' s

/-! ### helpers for the outer inductions -/

/-- Everything but a call evaluates independently of the function table. -/
theorem step_funs_irrel_c (P : Prog) (r : RecT) (t : Task) (env : Env) (st : St)
    (h : ∀ f th a, t ≠ .call f th a) : step (exprStmtComma P) r t env st = step P r t env st := by
  cases t with
  | call f th a => exact absurd rfl (h f th a)
  | _ => rfl

/-- One level of `(e, 0);` against `e;` (the literal already evaluated). -/
theorem comma_stmt_q {x y : Res} (h : Res.le x y) :
    Res.qle (bindVal (bindVal x fun (_ : Val) st1 => bindVal (Res.val (.num 0) st1) Res.val) Res.val) (bindVal y Res.val) := by
  rcases h with h | h
  · subst h; exact Or.inl rfl
  · subst h
    cases x with
    | timeout => exact Or.inl rfl
    | unsup w => exact Or.inr rfl
    | done c st =>
      cases c with
      | normal v => cases v <;> exact Or.inr rfl
      | _ => exact Or.inr rfl

theorem stmt_comma_q {x y : Res} (h : Res.le x y) :
    Res.qle (bindVal x Res.val) (bindVal (bindVal y fun (_ : Val) st1 => bindVal (Res.val (.num 0) st1) Res.val) Res.val) := by
  rcases h with h | h
  · subst h; exact Or.inl rfl
  · subst h
    cases x with
    | timeout => exact Or.inl rfl
    | unsup w => exact Or.inr rfl
    | done c st =>
      cases c with
      | normal v => cases v <;> exact Or.inr rfl
      | _ => exact Or.inr rfl

theorem eval_comma_expr (P' : Prog) (m : Nat) (e : Expr) (env : Env) (st : St) :
    eval P' (m + 1 + 1) (.expr (.comma e (.lit (.num 0)))) env st =
      bindVal (eval P' (m + 1) (.expr e) env st) fun (_ : Val) st1 => bindVal (Res.val (.num 0) st1) Res.val := by
  simp only [eval, step, evalExpr, litVal]

theorem cS_not_expr {s : Stmt} (h : ∀ e, s ≠ .expr e) : cS s = cI s := by
  cases s with
  | expr e => exact absurd rfl (h e)
  | _ => rfl

/-! ### direction 1: rewritten ≤ original, same fuel -/

structure CommaInv1 (P : Prog) (n : Nat) : Prop where
  A : ∀ t env st, Res.le (eval (exprStmtComma P) n t env st) (eval P n t env st)
  S : ∀ s l env st, Res.qle (eval (exprStmtComma P) n (.stmt (cS s) l) env st) (eval P n (.stmt s l) env st)
  T : LoopQ cMap idMap (eval (exprStmtComma P) n) (eval P n)

theorem comma_inv1 (P : Prog) : ∀ n, CommaInv1 P n
  | 0 => ⟨fun _ _ _ => Or.inl rfl, fun _ _ _ _ => Or.inl rfl,
          ⟨fun _ _ _ _ _ _ _ => Or.inl rfl, fun _ _ _ _ _ _ _ => Or.inl rfl, fun _ _ _ _ _ _ _ _ _ => Or.inl rfl,
           fun _ _ _ _ _ _ _ _ _ _ => Or.inl rfl⟩⟩
  | n + 1 => by
    have ih := comma_inv1 P n
    have hE : ∀ e env st, Res.le (eval (exprStmtComma P) n (.expr e) env st) (eval P n (.expr e) env st) :=
      fun e env st => ih.A _ env st
    have hSq : ∀ s l env st, Res.qle (evalS (exprStmtComma P) n (cMap.S s) l env st) (evalS P n (idMap.S s) l env st) :=
      fun s l env st => ih.S s l env st
    refine ⟨?_, ?_, ⟨?_, ?_, ?_, ?_⟩⟩
    · intro t env st
      cases t with
      | call f th a =>
        have := stepCall_simq cMap_ok idMap_ok hE hSq P.funs f th a st
        rw [map_mapBody_id] at this
        exact this
      | expr e =>
        show Res.le (step (exprStmtComma P) _ _ env st) _
        rw [step_funs_irrel_c P _ _ env st (by intro f th a h; cases h)]
        exact step_mono P ih.A _ env st
      | stmt s l =>
        show Res.le (step (exprStmtComma P) _ _ env st) _
        rw [step_funs_irrel_c P _ _ env st (by intro f th a h; cases h)]
        exact step_mono P ih.A _ env st
      | whileLoop c b l V =>
        show Res.le (step (exprStmtComma P) _ _ env st) _
        rw [step_funs_irrel_c P _ _ env st (by intro f th a h; cases h)]
        exact step_mono P ih.A _ env st
      | doLoop b c l V =>
        show Res.le (step (exprStmtComma P) _ _ env st) _
        rw [step_funs_irrel_c P _ _ env st (by intro f th a h; cases h)]
        exact step_mono P ih.A _ env st
      | forLoop per test upd b l V =>
        show Res.le (step (exprStmtComma P) _ _ env st) _
        rw [step_funs_irrel_c P _ _ env st (by intro f th a h; cases h)]
        exact step_mono P ih.A _ env st
      | forOfLoop k x arr i b l V =>
        show Res.le (step (exprStmtComma P) _ _ env st) _
        rw [step_funs_irrel_c P _ _ env st (by intro f th a h; cases h)]
        exact step_mono P ih.A _ env st
    · intro s l env st
      have hgen : ∀ s : Stmt, (∀ e, s ≠ .expr e) →
          Res.qle (eval (exprStmtComma P) (n + 1) (.stmt (cS s) l) env st) (eval P (n + 1) (.stmt s l) env st) := by
        intro s hs
        rw [cS_not_expr hs]
        exact stepStmt_simq cMap_ok idMap_ok hE hSq ih.T s l env st
      cases s with
      | expr e =>
        show Res.qle (bindVal (eval (exprStmtComma P) n (.expr (.comma e (.lit (.num 0)))) env st) Res.val)
          (bindVal (eval P n (.expr e) env st) Res.val)
        match n with
        | 0 => exact Or.inl rfl
        | 1 =>
          -- the comma expression gets fuel 1, its operand fuel 0
          exact Or.inl (by simp only [eval, step, evalExpr, bindVal])
        | m + 2 =>
          rw [eval_comma_expr]
          exact comma_stmt_q (Res.le_trans ((comma_inv1 P (m + 1)).A _ env st) (eval_succ_le P (m + 1) _ env st))
      | _ => exact hgen _ (by intro e h; cases h)
    · intro c bd l V1 V2 env st
      exact stepWhile_simq hE hSq ih.T c bd l V1 V2 env st
    · intro bd c l V1 V2 env st
      exact stepDo_simq hE hSq ih.T bd c l V1 V2 env st
    · intro per test upd bd l V1 V2 env st
      exact stepFor_simq hE hSq ih.T per test upd bd l V1 V2 env st
    · intro k x arr i bd l V1 V2 env st
      exact stepForOf_simq hSq ih.T k x arr i bd l V1 V2 env st

/-! ### direction 2: original ≤ rewritten with doubled fuel -/

structure CommaInv2 (P : Prog) (n : Nat) : Prop where
  A : ∀ t env st, Res.le (eval P n t env st) (eval (exprStmtComma P) (2 * n) t env st)
  S : ∀ s l env st, Res.qle (eval P n (.stmt s l) env st) (eval (exprStmtComma P) (2 * n) (.stmt (cS s) l) env st)
  T : LoopQ idMap cMap (eval P n) (eval (exprStmtComma P) (2 * n))

theorem comma_inv2 (P : Prog) : ∀ n, CommaInv2 P n
  | 0 => ⟨fun _ _ _ => Or.inl rfl, fun _ _ _ _ => Or.inl rfl,
          ⟨fun _ _ _ _ _ _ _ => Or.inl rfl, fun _ _ _ _ _ _ _ => Or.inl rfl, fun _ _ _ _ _ _ _ _ _ => Or.inl rfl,
           fun _ _ _ _ _ _ _ _ _ _ => Or.inl rfl⟩⟩
  | n + 1 => by
    have ih := comma_inv2 P n
    have h2 : 2 * (n + 1) = (2 * n + 1) + 1 := by omega
    -- everything one level up on the right
    have hA1 : ∀ t env st, Res.le (eval P n t env st) (eval (exprStmtComma P) (2 * n + 1) t env st) :=
      fun t env st => Res.le_trans (ih.A t env st) (eval_succ_le _ _ _ env st)
    have hE1 : ∀ e env st, Res.le (eval P n (.expr e) env st) (eval (exprStmtComma P) (2 * n + 1) (.expr e) env st) :=
      fun e env st => hA1 _ env st
    have hS1 : ∀ s l env st, Res.qle (evalS P n (idMap.S s) l env st) (evalS (exprStmtComma P) (2 * n + 1) (cMap.S s) l env st) :=
      fun s l env st => Res.qle_trans_le (ih.S s l env st) (eval_succ_le _ _ _ env st)
    have hT1 : LoopQ idMap cMap (eval P n) (eval (exprStmtComma P) (2 * n + 1)) :=
      ⟨fun c bd l V1 V2 env st => Res.qle_trans_le (ih.T.w c bd l V1 V2 env st) (eval_succ_le _ _ _ env st),
       fun bd c l V1 V2 env st => Res.qle_trans_le (ih.T.d bd c l V1 V2 env st) (eval_succ_le _ _ _ env st),
       fun per test upd bd l V1 V2 env st => Res.qle_trans_le (ih.T.f per test upd bd l V1 V2 env st) (eval_succ_le _ _ _ env st),
       fun k x arr i bd l V1 V2 env st => Res.qle_trans_le (ih.T.o k x arr i bd l V1 V2 env st) (eval_succ_le _ _ _ env st)⟩
    refine ⟨?_, ?_, ⟨?_, ?_, ?_, ?_⟩⟩
    · intro t env st
      rw [h2]
      cases t with
      | call f th a =>
        have := stepCall_simq idMap_ok cMap_ok hE1 hS1 P.funs f th a st
        rw [map_mapBody_id] at this
        exact this
      | expr e =>
        show Res.le _ (step (exprStmtComma P) _ _ env st)
        rw [step_funs_irrel_c P _ _ env st (by intro f th a h; cases h)]
        exact step_mono P hA1 _ env st
      | stmt s l =>
        show Res.le _ (step (exprStmtComma P) _ _ env st)
        rw [step_funs_irrel_c P _ _ env st (by intro f th a h; cases h)]
        exact step_mono P hA1 _ env st
      | whileLoop c b l V =>
        show Res.le _ (step (exprStmtComma P) _ _ env st)
        rw [step_funs_irrel_c P _ _ env st (by intro f th a h; cases h)]
        exact step_mono P hA1 _ env st
      | doLoop b c l V =>
        show Res.le _ (step (exprStmtComma P) _ _ env st)
        rw [step_funs_irrel_c P _ _ env st (by intro f th a h; cases h)]
        exact step_mono P hA1 _ env st
      | forLoop per test upd b l V =>
        show Res.le _ (step (exprStmtComma P) _ _ env st)
        rw [step_funs_irrel_c P _ _ env st (by intro f th a h; cases h)]
        exact step_mono P hA1 _ env st
      | forOfLoop k x arr i b l V =>
        show Res.le _ (step (exprStmtComma P) _ _ env st)
        rw [step_funs_irrel_c P _ _ env st (by intro f th a h; cases h)]
        exact step_mono P hA1 _ env st
    · intro s l env st
      rw [h2]
      have hgen : ∀ s : Stmt, (∀ e, s ≠ .expr e) →
          Res.qle (eval P (n + 1) (.stmt s l) env st) (eval (exprStmtComma P) (2 * n + 1 + 1) (.stmt (cS s) l) env st) := by
        intro s hs
        rw [cS_not_expr hs]
        exact stepStmt_simq idMap_ok cMap_ok hE1 hS1 hT1 s l env st
      cases s with
      | expr e =>
        show Res.qle (bindVal (eval P n (.expr e) env st) Res.val)
          (bindVal (eval (exprStmtComma P) (2 * n + 1) (.expr (.comma e (.lit (.num 0)))) env st) Res.val)
        match n, ih with
        | 0, _ => exact Or.inl rfl
        | k + 1, ih =>
          have h3 : 2 * (k + 1) + 1 = (2 * k + 1) + 1 + 1 := by omega
          have h4 : 2 * (k + 1) = (2 * k + 1) + 1 := by omega
          rw [h3, eval_comma_expr]
          have := ih.A (.expr e) env st
          rw [h4] at this
          exact stmt_comma_q this
      | _ => exact hgen _ (by intro e h; cases h)
    · intro c bd l V1 V2 env st
      rw [h2]
      exact stepWhile_simq hE1 hS1 hT1 c bd l V1 V2 env st
    · intro bd c l V1 V2 env st
      rw [h2]
      exact stepDo_simq hE1 hS1 hT1 bd c l V1 V2 env st
    · intro per test upd bd l V1 V2 env st
      rw [h2]
      exact stepFor_simq hE1 hS1 hT1 per test upd bd l V1 V2 env st
    · intro k x arr i bd l V1 V2 env st
      rw [h2]
      exact stepForOf_simq hS1 hT1 k x arr i bd l V1 V2 env st

/-! ### scripts -/

theorem run_comma_le (P : Prog) (n : Nat) : Res.le (run (exprStmtComma P) n) (run P n) := by
  have hS : ∀ s l env st, Res.le (evalS (exprStmtComma P) n s l env st) (evalS P n s l env st) :=
    fun s l env st => (comma_inv1 P n).A _ env st
  exact evalBlock_mono hS P.body _ _

theorem run_le_comma (P : Prog) (n : Nat) : Res.le (run P n) (run (exprStmtComma P) (2 * n)) := by
  have hS : ∀ s l env st, Res.le (evalS P n s l env st) (evalS (exprStmtComma P) (2 * n) s l env st) :=
    fun s l env st => (comma_inv2 P n).A _ env st
  exact evalBlock_mono hS P.body _ _

end GojaModel.C02
