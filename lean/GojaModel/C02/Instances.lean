/-
  C02 — the catalogue rewrites satisfy the side conditions of the generic soundness theorem.
-/
import GojaModel.C02.Sound

namespace GojaModel.C02

/-! ### dead_code_after_abrupt -/

theorem dcAct_ok : ActOK dcAct where
  cut := by
    intro s ss h
    unfold dcAct at h
    split at h
    · rename_i hc; simpa using hc
    · cases h
  drop_decl := by
    intro s ss h; unfold dcAct at h; split at h <;> cases h
  drop_sem := by
    intro s ss h; unfold dcAct at h; split at h <;> cases h

/-! ### no-op statements in front of a valued statement -/

/-- Results a "valued" statement (expression statement, throw, return e) can produce: never an
empty normal completion, never break/continue — so the running completion value before it is irrelevant. -/
def Res.valued : Res → Prop
  | .done (.normal none) _ => False
  | .done (.brk _ _) _ => False
  | .done (.cont _ _) _ => False
  | _ => True

theorem bindVal_valued {r : Res} {k : Val → St → Res} (hk : ∀ v st, (k v st).valued) :
    (bindVal r k).valued := by
  cases r with
  | timeout => simp [bindVal, Res.valued]
  | unsup w => simp [bindVal, Res.valued]
  | done c st =>
    cases c with
    | normal v =>
      cases v with
      | none => simp [bindVal, Res.valued]
      | some v => simpa [bindVal] using hk v st
    | brk l v => simp [bindVal, Res.valued]
    | cont l v => simp [bindVal, Res.valued]
    | ret v => simp [bindVal, Res.valued]
    | thr v => simp [bindVal, Res.valued]

theorem eval_valued (P : Prog) {E : Stmt} {tl : List Stmt} (h : startsValued (E :: tl) = true) :
    ∀ (n : Nat) (l : List Name) (env : Env) (st : St), (eval P n (.stmt E l) env st).valued
  | 0, _, _, _ => by simp [eval, Res.valued]
  | n + 1, l, env, st => by
    cases E with
    | expr e =>
      simp only [eval, step, stepStmt]
      exact bindVal_valued (by intro v st; simp [Res.val, Res.valued])
    | throw e =>
      simp only [eval, step, stepStmt]
      exact bindVal_valued (by intro v st; simp [Res.valued])
    | ret e =>
      cases e with
      | none => simp [startsValued] at h
      | some e =>
        simp only [eval, step, stepStmt]
        exact bindVal_valued (by intro v st; simp [Res.valued])
    | _ => simp [startsValued] at h

theorem evalStmts_head_valued (recS : RecS) (E : Stmt) (tl : List Stmt) (V1 V2 : Option Val) (env : Env)
    (st : St) (h : (recS E [] env st).valued) :
    evalStmts recS (E :: tl) V1 env st = evalStmts recS (E :: tl) V2 env st := by
  unfold evalStmts
  cases hr : recS E [] env st with
  | timeout => rfl
  | unsup w => rfl
  | done c st1 =>
    rw [hr] at h
    cases c with
    | normal v =>
      cases v with
      | none => simp [Res.valued] at h
      | some v => simp [Option.orElse]
    | brk l v => simp [Res.valued] at h
    | cont l v => simp [Res.valued] at h
    | ret v => simp [Compl.updateEmpty]
    | thr v => simp [Compl.updateEmpty]

theorem eval_valued_low (P : Prog) {E : Stmt} {tl : List Stmt} (h : startsValued (E :: tl) = true)
    (l : List Name) (env : Env) (st : St) : eval P 1 (.stmt E l) env st = .timeout := by
  cases E with
  | expr e => simp [eval, step, stepStmt, bindVal]
  | throw e => simp [eval, step, stepStmt, bindVal]
  | ret e =>
    cases e with
    | none => simp [startsValued] at h
    | some e => simp [eval, step, stepStmt, bindVal]
  | _ => simp [startsValued] at h

structure NoopOK (p : Stmt → Bool) : Prop where
  decl : ∀ s, p s = true → varNamesS s = [] ∧ lexDeclsS s = [] ∧ funDeclsS s = []
  low : ∀ s, p s = true → ∀ (P : Prog) (l : List Name) (env : Env) (st : St),
    eval P 1 (.stmt s l) env st = .timeout
  sem : ∀ s, p s = true → ∀ (P : Prog) (n : Nat) (env : Env) (st : St),
    ∃ v, eval P (n + 2) (.stmt s []) env st = .done (.normal (some v)) st

theorem elAct_ok {p : Stmt → Bool} (hp : NoopOK p) : ActOK (elAct p) where
  cut := by
    intro s ss h; unfold elAct at h; split at h <;> cases h
  drop_decl := by
    intro s ss h
    unfold elAct at h
    split at h
    · rename_i hc
      simp only [Bool.and_eq_true] at hc
      exact hp.decl s hc.1
    · cases h
  drop_sem := by
    intro s ss h rest P n V env st
    unfold elAct at h
    split at h
    · rename_i hc
      simp only [Bool.and_eq_true] at hc
      obtain ⟨hps, hv⟩ := hc
      cases ss with
      | nil => simp [startsValued] at hv
      | cons E tl =>
        have hv' : startsValued (E :: (tl ++ rest)) = true := by
          cases E with
          | expr e => rfl
          | throw e => rfl
          | ret e =>
            cases e with
            | none => simp [startsValued] at hv
            | some e => rfl
          | _ => simp [startsValued] at hv
        simp only [List.cons_append]
        match n with
        | 0 => simp [evalStmts, evalS, eval]
        | 1 =>
          have h1 := hp.low s hps P [] env st
          have h2 := eval_valued_low P hv' [] env st
          simp only [evalStmts, evalS, h1, h2]
        | n + 2 =>
          obtain ⟨v, hv2⟩ := hp.sem s hps P n env st
          have := evalStmts_head_valued (evalS P (n + 2)) E (tl ++ rest)
            ((some v).orElse fun _ => V) V env st (eval_valued P hv' (n + 2) [] env st)
          conv => lhs; unfold evalStmts
          simp only [evalS] at this ⊢
          rw [hv2]
          exact this
    · cases h

theorem isDeadIf_ok : NoopOK isDeadIf where
  decl := by
    intro s h
    unfold isDeadIf at h
    split at h
    · simp only [List.isEmpty_iff] at h
      simp [varNamesS, h, lexDeclsS, funDeclsS]
    · cases h
  low := by
    intro s h P l env st
    unfold isDeadIf at h
    split at h
    · simp [eval, step, stepStmt, bindVal]
    · cases h
  sem := by
    intro s h P n env st
    unfold isDeadIf at h
    split at h
    · exact ⟨.undef, by
        simp [eval, step, stepStmt, evalExpr, bindVal, Res.val, litVal, toBool, updEmpty, Res.empty,
          Compl.updateEmpty]⟩
    · cases h

theorem isNoopClosure_ok : NoopOK isNoopClosure where
  decl := by
    intro s h
    unfold isNoopClosure at h
    split at h
    · simp [varNamesS, lexDeclsS, funDeclsS]
    · cases h
  low := by
    intro s h P l env st
    unfold isNoopClosure at h
    split at h
    · simp [eval, step, stepStmt, bindVal]
    · cases h
  sem := by
    intro s h P n env st
    unfold isNoopClosure at h
    split at h
    · rename_i k
      exact ⟨.clos k env, by simp [eval, step, stepStmt, evalExpr, bindVal, Res.val]⟩
    · cases h

end GojaModel.C02
