/-
  C02 — block_wrap: wrapping statements into blocks (`s` ↦ `{ s }`) preserves the outcome.

  Unlike the list rewrites of Sound.lean this rewrite changes the evaluation depth, so the result is an
  INEQUATIONAL simulation in both directions (`Res.le` = "timeout or equal"):
      eval (W P) n (wT t)  ≤  eval P n t              (what the wrapped program finishes, the original finishes too)
      eval P n t           ≤  eval (W P) (2n) (wT t)  (and conversely, with twice the fuel)
  `W` wraps EVERY wrappable statement (at every depth, in every function body) in its own block; wrappable =
  not a lexical/function declaration (a block would change its scope) and not a loop / labelled statement
  (the label set of an enclosing label must still reach the loop).

  The core (`stepStmt_sim`, `step_sim`) is proved once for two arbitrary structure-respecting statement maps
  (`SMapOK`), of which the identity and the wrapping map are instances; the two directions are the two ways
  of placing them.
-/
import GojaModel.C02.Sound

namespace GojaModel.C02

/-- A statement map given by its action on statements in statement position (`S`), on the inside of a
statement (`I`), on statement lists (`L`) and case lists (`C`). -/
structure SMap where
  S : Stmt → Stmt
  I : Stmt → Stmt
  L : List Stmt → List Stmt
  C : List Case → List Case

structure SMapOK (m : SMap) : Prop where
  I_expr : ∀ e, m.I (.expr e) = .expr e
  I_decl : ∀ k ds, m.I (.decl k ds) = .decl k ds
  I_fdecl : ∀ x i, m.I (.fdecl x i) = .fdecl x i
  I_empty : m.I .empty = .empty
  I_brk : ∀ l, m.I (.brk l) = .brk l
  I_cont : ∀ l, m.I (.cont l) = .cont l
  I_ret : ∀ e, m.I (.ret e) = .ret e
  I_throw : ∀ e, m.I (.throw e) = .throw e
  I_outside : ∀ w, m.I (.outside w) = .outside w
  I_block : ∀ ss, m.I (.block ss) = .block (m.L ss)
  I_ite : ∀ c t e, m.I (.ite c t e) = .ite c (m.S t) (m.S e)
  I_while : ∀ c b, m.I (.while c b) = .while c (m.S b)
  I_doWhile : ∀ b c, m.I (.doWhile b c) = .doWhile (m.S b) c
  I_for : ∀ i t u b, m.I (.for i t u b) = .for i t u (m.S b)
  I_forOf : ∀ k x e b, m.I (.forOf k x e b) = .forOf k x e (m.S b)
  I_try : ∀ b hc p cb hf fb, m.I (.try b hc p cb hf fb) = .try (m.L b) hc p (m.L cb) hf (m.L fb)
  I_labeled : ∀ l s, m.I (.labeled l s) = .labeled l (m.S s)
  I_switch : ∀ e cs, m.I (.switch e cs) = .switch e (m.C cs)
  L_nil : m.L [] = []
  L_cons : ∀ s ss, m.L (s :: ss) = m.S s :: m.L ss
  C_nil : m.C [] = []
  C_cons : ∀ t b cs, m.C (.mk t b :: cs) = .mk t (m.L b) :: m.C cs
  lex_S : ∀ s, lexDeclsS (m.S s) = lexDeclsS s
  fun_S : ∀ s, funDeclsS (m.S s) = funDeclsS s
  var_S : ∀ s, varNamesS (m.S s) = varNamesS s

def SMap.T (m : SMap) : Task → Task
  | .expr e => .expr e
  | .stmt s l => .stmt (m.S s) l
  | .call f t a => .call f t a
  | .whileLoop c b l V => .whileLoop c (m.S b) l V
  | .doLoop b c l V => .doLoop (m.S b) c l V
  | .forLoop per t u b l V => .forLoop per t u (m.S b) l V
  | .forOfLoop k x arr i b l V => .forOfLoop k x arr i (m.S b) l V

/-! ### consequences of `SMapOK` -/
section

theorem SMapOK.lexL {m : SMap} (ok : SMapOK m) : ∀ ss, lexDeclsL (m.L ss) = lexDeclsL ss
  | [] => by rw [ok.L_nil]
  | s :: ss => by rw [ok.L_cons, lexDeclsL_cons, lexDeclsL_cons, ok.lex_S, SMapOK.lexL ok ss]

theorem SMapOK.funL {m : SMap} (ok : SMapOK m) : ∀ ss, funDeclsL (m.L ss) = funDeclsL ss
  | [] => by rw [ok.L_nil]
  | s :: ss => by rw [ok.L_cons, funDeclsL_cons, funDeclsL_cons, ok.fun_S, SMapOK.funL ok ss]

theorem SMapOK.varL {m : SMap} (ok : SMapOK m) : ∀ ss, varNamesL (m.L ss) = varNamesL ss
  | [] => by rw [ok.L_nil]
  | s :: ss => by rw [ok.L_cons]; simp only [varNamesL]; rw [ok.var_S, SMapOK.varL ok ss]

theorem SMapOK.enterBlockL {m : SMap} (ok : SMapOK m) (ss : List Stmt) (env : Env) (st : St) :
    enterBlock (m.L ss) env st = enterBlock ss env st :=
  enterBlock_congr (ok.lexL ss) (ok.funL ss) env st

theorem SMapOK.caseDecls {m : SMap} (ok : SMapOK m) : ∀ cs,
    lexDeclsL (caseBodies (m.C cs)) = lexDeclsL (caseBodies cs) ∧
    funDeclsL (caseBodies (m.C cs)) = funDeclsL (caseBodies cs)
  | [] => by rw [ok.C_nil]; exact ⟨rfl, rfl⟩
  | (.mk t b) :: cs => by
    have ih := SMapOK.caseDecls ok cs
    rw [ok.C_cons]
    simp only [caseBodies, lexDeclsL_append, funDeclsL_append, ok.lexL, ok.funL, ih.1, ih.2, and_self]

theorem SMapOK.C_drop {m : SMap} (ok : SMapOK m) : ∀ (cs : List Case) (i : Nat), (m.C cs).drop i = m.C (cs.drop i)
  | [], i => by rw [ok.C_nil]; simp [ok.C_nil]
  | c :: cs, 0 => by simp
  | (.mk t b) :: cs, i + 1 => by rw [ok.C_cons]; simp [SMapOK.C_drop ok cs i]

theorem SMapOK.defaultIdx {m : SMap} (ok : SMapOK m) : ∀ (cs : List Case) (i : Nat), defaultIdx (m.C cs) i = defaultIdx cs i
  | [], _ => by rw [ok.C_nil]
  | (.mk none b) :: cs, i => by rw [ok.C_cons]; simp [GojaModel.C02.defaultIdx]
  | (.mk (some t) b) :: cs, i => by
    rw [ok.C_cons]; simp [GojaModel.C02.defaultIdx, SMapOK.defaultIdx ok cs (i + 1)]

theorem SMapOK.findCase {m : SMap} (ok : SMapOK m) (recE : RecE) (dv : Val) : ∀ (cs : List Case) (i : Nat) (env : Env) (st : St),
    findCase recE dv (m.C cs) i env st = findCase recE dv cs i env st
  | [], _, _, _ => by rw [ok.C_nil]
  | (.mk none b) :: cs, i, env, st => by
    rw [ok.C_cons]; simp [GojaModel.C02.findCase, SMapOK.findCase ok recE dv cs (i + 1)]
  | (.mk (some t) b) :: cs, i, env, st => by
    have ih := SMapOK.findCase ok recE dv cs (i + 1) env
    rw [ok.C_cons]; simp [GojaModel.C02.findCase, ih]

end

/-! ### the one-level simulation, for two arbitrary maps -/
section
variable {a b : SMap}
variable {e1 e2 : RecE} {s1 s2 : RecS} {t1 t2 : RecT}

theorem evalStmts_sim (ha : SMapOK a) (hb : SMapOK b)
    (hS : ∀ s l env st, Res.le (s1 (a.S s) l env st) (s2 (b.S s) l env st)) :
    ∀ (ss rest1 rest2 : List Stmt),
      (∀ V env st, Res.le (evalStmts s1 rest1 V env st) (evalStmts s2 rest2 V env st)) →
      ∀ V env st, Res.le (evalStmts s1 (a.L ss ++ rest1) V env st) (evalStmts s2 (b.L ss ++ rest2) V env st)
  | [], rest1, rest2, h, V, env, st => by
    rw [ha.L_nil, hb.L_nil]; exact h V env st
  | s :: ss, rest1, rest2, h, V, env, st => by
    have ih := evalStmts_sim ha hb hS ss rest1 rest2 h
    rw [ha.L_cons, hb.L_cons]
    simp only [List.cons_append, evalStmts]
    rcases hS s [] env st with h1 | h1
    · rw [h1]; exact Or.inl rfl
    · rw [h1]
      split
      · exact ih _ _ _
      · exact Res.le_refl _
      · exact Res.le_refl _

theorem evalStmts_sim0 (ha : SMapOK a) (hb : SMapOK b)
    (hS : ∀ s l env st, Res.le (s1 (a.S s) l env st) (s2 (b.S s) l env st))
    (ss : List Stmt) (V : Option Val) (env : Env) (st : St) :
    Res.le (evalStmts s1 (a.L ss) V env st) (evalStmts s2 (b.L ss) V env st) := by
  have := evalStmts_sim ha hb hS ss [] [] (fun _ _ _ => Res.le_refl _) V env st
  simpa using this

theorem evalBlock_sim (ha : SMapOK a) (hb : SMapOK b)
    (hS : ∀ s l env st, Res.le (s1 (a.S s) l env st) (s2 (b.S s) l env st))
    (ss : List Stmt) (env : Env) (st : St) :
    Res.le (evalBlock s1 (a.L ss) env st) (evalBlock s2 (b.L ss) env st) := by
  unfold evalBlock
  rw [ha.enterBlockL, hb.enterBlockL]
  exact evalStmts_sim0 ha hb hS ss _ _ _

theorem evalStmts_caseBodies_sim (ha : SMapOK a) (hb : SMapOK b)
    (hS : ∀ s l env st, Res.le (s1 (a.S s) l env st) (s2 (b.S s) l env st)) :
    ∀ (cs : List Case) (V : Option Val) (env : Env) (st : St),
      Res.le (evalStmts s1 (caseBodies (a.C cs)) V env st) (evalStmts s2 (caseBodies (b.C cs)) V env st)
  | [], _, _, _ => by rw [ha.C_nil, hb.C_nil]; exact Res.le_refl _
  | (.mk t bd) :: cs, V, env, st => by
    rw [ha.C_cons, hb.C_cons]
    simp only [caseBodies]
    exact evalStmts_sim ha hb hS bd _ _ (evalStmts_caseBodies_sim ha hb hS cs) V env st

theorem evalFinally_sim (ha : SMapOK a) (hb : SMapOK b)
    (hS : ∀ s l env st, Res.le (s1 (a.S s) l env st) (s2 (b.S s) l env st))
    {r1 r2 : Res} (h : Res.le r1 r2) (hf : Bool) (fb : List Stmt) (env : Env) :
    Res.le (evalFinally s1 r1 hf (a.L fb) env) (evalFinally s2 r2 hf (b.L fb) env) := by
  rcases h with h | h
  · subst h; unfold evalFinally; split
    · exact Or.inl rfl
    · exact Or.inl rfl
  · subst h
    unfold evalFinally
    split
    · exact Res.le_refl _
    · split
      · rcases evalBlock_sim ha hb hS fb env ‹St› with h | h
        · rw [h]; exact Or.inl rfl
        · rw [h]; exact Res.le_refl _
      · exact Res.le_refl _

theorem evalCatch_sim (ha : SMapOK a) (hb : SMapOK b)
    (hS : ∀ s l env st, Res.le (s1 (a.S s) l env st) (s2 (b.S s) l env st))
    (p : Option Name) (cb : List Stmt) (v : Val) (env : Env) (st : St) :
    Res.le (evalCatch s1 p (a.L cb) v env st) (evalCatch s2 p (b.L cb) v env st) := by
  unfold evalCatch
  split
  · exact evalBlock_sim ha hb hS _ _ _
  · exact evalBlock_sim ha hb hS _ _ _

theorem evalTry_sim (ha : SMapOK a) (hb : SMapOK b)
    (hS : ∀ s l env st, Res.le (s1 (a.S s) l env st) (s2 (b.S s) l env st))
    (bd : List Stmt) (hc : Bool) (p : Option Name) (cb : List Stmt) (hf : Bool) (fb : List Stmt)
    (env : Env) (st : St) :
    Res.le (evalTry s1 (a.L bd) hc p (a.L cb) hf (a.L fb) env st)
           (evalTry s2 (b.L bd) hc p (b.L cb) hf (b.L fb) env st) := by
  unfold evalTry
  apply evalFinally_sim ha hb hS
  rcases evalBlock_sim ha hb hS bd env st with h | h
  · rw [h]; exact Or.inl rfl
  · rw [h]
    split
    · split
      · exact evalCatch_sim ha hb hS _ _ _ _ _
      · exact Res.le_refl _
    · exact Res.le_refl _

theorem runCases_sim (ha : SMapOK a) (hb : SMapOK b)
    (hS : ∀ s l env st, Res.le (s1 (a.S s) l env st) (s2 (b.S s) l env st))
    (cs : List Case) (start : Option Nat) (env : Env) (st : St) :
    Res.le (runCases s1 (a.C cs) start env st) (runCases s2 (b.C cs) start env st) := by
  cases start with
  | none => exact Res.le_refl _
  | some i =>
    simp only [runCases, ha.C_drop, hb.C_drop]
    rcases evalStmts_caseBodies_sim ha hb hS (cs.drop i) (some .undef) env st with h | h
    · rw [h]; exact Or.inl rfl
    · rw [h]; exact Res.le_refl _

theorem evalSwitch_sim (ha : SMapOK a) (hb : SMapOK b) (hE : ∀ e env st, Res.le (e1 e env st) (e2 e env st))
    (hS : ∀ s l env st, Res.le (s1 (a.S s) l env st) (s2 (b.S s) l env st))
    (e : Expr) (cs : List Case) (env : Env) (st : St) :
    Res.le (evalSwitch e1 s1 e (a.C cs) env st) (evalSwitch e2 s2 e (b.C cs) env st) := by
  unfold evalSwitch
  apply bindVal_mono (hE _ _ _); intro dv st1
  rw [enterBlock_congr (ha.caseDecls cs).1 (ha.caseDecls cs).2,
      enterBlock_congr (hb.caseDecls cs).1 (hb.caseDecls cs).2]
  simp only [ha.findCase, hb.findCase]
  apply bindVal_mono (findCase_mono hE _ _ _ _ _); intro r st3
  have hcs : caseStart r (a.C cs) = caseStart r (b.C cs) := by
    unfold caseStart; split
    · rfl
    · rw [ha.defaultIdx, hb.defaultIdx]
  rw [hcs]
  exact runCases_sim ha hb hS _ _ _ _

theorem evalFor_sim (hE : ∀ e env st, Res.le (e1 e env st) (e2 e env st))
    (init : ForInit) (test upd : Option Expr) (bd : Stmt) (l : List Name)
    (hT : ∀ per V env st, Res.le (t1 (.forLoop per test upd (a.S bd) l V) env st)
                                  (t2 (.forLoop per test upd (b.S bd) l V) env st))
    (env : Env) (st : St) :
    Res.le (evalFor e1 t1 init test upd (a.S bd) l env st) (evalFor e2 t2 init test upd (b.S bd) l env st) := by
  unfold evalFor
  split
  · exact hT _ _ _ _
  · apply bindVal_mono (hE _ _ _); intro _ _; exact hT _ _ _ _
  · apply bindSt_mono (evalDeclrs_mono hE _ _ _ _); intro _; exact hT _ _ _ _
  · apply bindSt_mono (evalDeclrs_mono hE _ _ _ _); intro _; exact hT _ _ _ _

theorem evalForOf_sim (hE : ∀ e env st, Res.le (e1 e env st) (e2 e env st))
    (k : DeclKind) (x : Name) (e : Expr) (bd : Stmt) (l : List Name)
    (hT : ∀ arr i V env st, Res.le (t1 (.forOfLoop k x arr i (a.S bd) l V) env st)
                                    (t2 (.forOfLoop k x arr i (b.S bd) l V) env st))
    (env : Env) (st : St) :
    Res.le (evalForOf e1 t1 k x e (a.S bd) l env st) (evalForOf e2 t2 k x e (b.S bd) l env st) := by
  unfold evalForOf
  apply bindVal_mono (hE _ _ _); intro v st1
  split
  · split
    · split
      · exact hT _ _ _ _ _
      · exact Res.le_refl _
    · exact Res.le_refl _
  · exact Res.le_refl _
  · exact Res.le_refl _
  · exact Res.le_refl _

theorem stepStmt_sim (ha : SMapOK a) (hb : SMapOK b) (hE : ∀ e env st, Res.le (e1 e env st) (e2 e env st))
    (hS : ∀ s l env st, Res.le (s1 (a.S s) l env st) (s2 (b.S s) l env st))
    (hT : ∀ t env st, Res.le (t1 (a.T t) env st) (t2 (b.T t) env st))
    (s : Stmt) (l : List Name) (env : Env) (st : St) :
    Res.le (stepStmt e1 s1 t1 (a.I s) l env st) (stepStmt e2 s2 t2 (b.I s) l env st) := by
  cases s with
  | expr e =>
    rw [ha.I_expr, hb.I_expr]; simp only [stepStmt]
    exact bindVal_mono (hE _ _ _) (fun _ _ => Res.le_refl _)
  | decl k ds => rw [ha.I_decl, hb.I_decl]; simp only [stepStmt]; exact evalDeclrs_mono hE _ _ _ _
  | fdecl x i => rw [ha.I_fdecl, hb.I_fdecl]; exact Res.le_refl _
  | empty => rw [ha.I_empty, hb.I_empty]; exact Res.le_refl _
  | block ss => rw [ha.I_block, hb.I_block]; simp only [stepStmt]; exact evalBlock_sim ha hb hS _ _ _
  | ite c t e =>
    rw [ha.I_ite, hb.I_ite]; simp only [stepStmt]
    apply bindVal_mono (hE _ _ _); intro v st1
    apply updEmpty_mono
    split
    · exact hS _ _ _ _
    · exact hS _ _ _ _
  | «while» c bd =>
    rw [ha.I_while, hb.I_while]; simp only [stepStmt]; exact hT (.whileLoop c bd l .undef) env st
  | doWhile bd c =>
    rw [ha.I_doWhile, hb.I_doWhile]; simp only [stepStmt]; exact hT (.doLoop bd c l .undef) env st
  | «for» i t u bd =>
    rw [ha.I_for, hb.I_for]; simp only [stepStmt]
    exact evalFor_sim hE i t u bd l (fun per V env st => hT (.forLoop per t u bd l V) env st) env st
  | forOf k x e bd =>
    rw [ha.I_forOf, hb.I_forOf]; simp only [stepStmt]
    exact evalForOf_sim hE k x e bd l (fun arr i V env st => hT (.forOfLoop k x arr i bd l V) env st) env st
  | brk l' => rw [ha.I_brk, hb.I_brk]; exact Res.le_refl _
  | cont l' => rw [ha.I_cont, hb.I_cont]; exact Res.le_refl _
  | ret e =>
    rw [ha.I_ret, hb.I_ret]
    cases e with
    | none => exact Res.le_refl _
    | some e => simp only [stepStmt]; exact bindVal_mono (hE _ _ _) (fun _ _ => Res.le_refl _)
  | throw e =>
    rw [ha.I_throw, hb.I_throw]; simp only [stepStmt]
    exact bindVal_mono (hE _ _ _) (fun _ _ => Res.le_refl _)
  | «try» bd hc p cb hf fb =>
    rw [ha.I_try, hb.I_try]; simp only [stepStmt]; exact evalTry_sim ha hb hS _ _ _ _ _ _ _ _
  | labeled l' s =>
    rw [ha.I_labeled, hb.I_labeled]; simp only [stepStmt]
    rcases hS s (l' :: l) env st with h | h
    · rw [h]; exact Or.inl rfl
    · rw [h]; exact Res.le_refl _
  | switch e cs =>
    rw [ha.I_switch, hb.I_switch]; simp only [stepStmt]; exact evalSwitch_sim ha hb hE hS _ _ _ _
  | outside w => rw [ha.I_outside, hb.I_outside]; exact Res.le_refl _

theorem stepCall_sim (ha : SMapOK a) (hb : SMapOK b) (hE : ∀ e env st, Res.le (e1 e env st) (e2 e env st))
    (hS : ∀ s l env st, Res.le (s1 (a.S s) l env st) (s2 (b.S s) l env st))
    (funs : List FunDef) (f t : Val) (args : List Val) (st : St) :
    Res.le (stepCall (funs.map (FunDef.mapBody a.L)) e1 s1 f t args st)
           (stepCall (funs.map (FunDef.mapBody b.L)) e2 s2 f t args st) := by
  cases f with
  | clos idx cenv =>
    simp only [stepCall, List.getElem?_map]
    cases h : funs[idx]? with
    | none => exact Res.le_refl _
    | some fd =>
      simp only [Option.map, FunDef.mapBody, ha.varL, hb.varL]
      apply bindSt_mono (bindParams_mono hE _ _ _ _); intro st3
      exact finishCall_mono (evalBlock_sim ha hb hS _ _ _)
  | _ => exact Res.le_refl _

/-- One level of evaluation: `a` applied inside on the left program, `b` inside on the right program. -/
theorem step_sim (ha : SMapOK a) (hb : SMapOK b) (P : Prog) (hT : ∀ t env st, Res.le (t1 (a.T t) env st) (t2 (b.T t) env st))
    (t : Task) (env : Env) (st : St) :
    Res.le
      (match t with
       | .stmt s l => step (P.mapBodies a.L) t1 (.stmt (a.I s) l) env st
       | t => step (P.mapBodies a.L) t1 (a.T t) env st)
      (match t with
       | .stmt s l => step (P.mapBodies b.L) t2 (.stmt (b.I s) l) env st
       | t => step (P.mapBodies b.L) t2 (b.T t) env st) := by
  have hE : ∀ e env st, Res.le (t1 (.expr e) env st) (t2 (.expr e) env st) := fun e env st => hT (.expr e) env st
  have hS : ∀ s l env st, Res.le (t1 (.stmt (a.S s) l) env st) (t2 (.stmt (b.S s) l) env st) :=
    fun s l env st => hT (.stmt s l) env st
  have hC : ∀ f t args st, Res.le (t1 (.call f t args) [] st) (t2 (.call f t args) [] st) :=
    fun f t args st => hT (.call f t args) [] st
  cases t with
  | expr e => exact evalExpr_mono hE hC _ _ _ _
  | stmt s l => exact stepStmt_sim ha hb hE hS hT s l env st
  | call f t args => exact stepCall_sim ha hb hE hS P.funs f t args st
  | whileLoop c bd l V =>
    simp only [SMap.T, step, stepWhile]
    apply bindVal_mono (hE _ _ _); intro tv st1
    split
    · exact Res.le_refl _
    · exact afterBody_mono (hS _ _ _ _) (fun V' st2 => hT (.whileLoop c bd l V') env st2)
  | doLoop bd c l V =>
    simp only [SMap.T, step, stepDo]
    apply afterBody_mono (hS _ _ _ _); intro V' st2
    apply bindVal_mono (hE _ _ _); intro tv st3
    split
    · exact Res.le_refl _
    · exact hT (.doLoop bd c l V') env st3
  | forLoop per test upd bd l V =>
    have hbody : ∀ env st1, Res.le
        (forBody (fun e => t1 (.expr e)) (fun s l => t1 (.stmt s l)) t1 per test upd (a.S bd) l V env st1)
        (forBody (fun e => t2 (.expr e)) (fun s l => t2 (.stmt s l)) t2 per test upd (b.S bd) l V env st1) := by
      intro env st1
      unfold forBody
      apply afterBody_mono (hS _ _ _ _); intro V' st2
      split
      · exact hT (.forLoop per test _ bd l V') _ _
      · apply bindVal_mono (hE _ _ _); intro _ st4; exact hT (.forLoop per test _ bd l V') _ _
    simp only [SMap.T, step, stepFor]
    split
    · exact hbody _ _
    · apply bindVal_mono (hE _ _ _); intro tv st1
      split
      · exact Res.le_refl _
      · exact hbody _ _
  | forOfLoop k x arr i bd l V =>
    simp only [SMap.T, step, stepForOf]
    split
    · exact Res.le_refl _
    · split
      · exact afterBody_mono (hS _ _ _ _) (fun V' st2 => hT (.forOfLoop k x arr (i + 1) bd l V') env st2)
      · exact Res.le_refl _

end

/-! ### the two instances: identity and wrapping -/

def idMap : SMap := ⟨fun s => s, fun s => s, fun ss => ss, fun cs => cs⟩

theorem idMap_ok : SMapOK idMap := by
  constructor <;> intros <;> rfl

def lblFree : Stmt → Bool
  | .while _ _ => false
  | .doWhile _ _ => false
  | .for _ _ _ _ => false
  | .forOf _ _ _ _ => false
  | .labeled _ _ => false
  | _ => true

/-- May this statement be put into a block of its own? -/
def wrappable (s : Stmt) : Bool := lblFree s && (lexDeclsS s).isEmpty && (funDeclsS s).isEmpty

def wrapIf (orig inner : Stmt) : Stmt := if wrappable orig then .block [inner] else inner

mutual
def wI : Stmt → Stmt
  | .block ss => .block (wL ss)
  | .ite c t e => .ite c (wrapIf t (wI t)) (wrapIf e (wI e))
  | .while c b => .while c (wrapIf b (wI b))
  | .doWhile b c => .doWhile (wrapIf b (wI b)) c
  | .for i t u b => .for i t u (wrapIf b (wI b))
  | .forOf k x e b => .forOf k x e (wrapIf b (wI b))
  | .try b hc p cb hf fb => .try (wL b) hc p (wL cb) hf (wL fb)
  | .labeled l s => .labeled l (wrapIf s (wI s))
  | .switch e cs => .switch e (wC cs)
  | s => s
def wL : List Stmt → List Stmt
  | [] => []
  | s :: ss => wrapIf s (wI s) :: wL ss
def wC : List Case → List Case
  | [] => []
  | (.mk t b) :: cs => .mk t (wL b) :: wC cs
end

def wS (s : Stmt) : Stmt := wrapIf s (wI s)

def wMap : SMap := ⟨wS, wI, wL, wC⟩

/-- The rewrite: every wrappable statement of every body gets its own block. -/
def blockWrap (P : Prog) : Prog := P.mapBodies wL

theorem wI_lex (s : Stmt) : lexDeclsS (wI s) = lexDeclsS s := by cases s <;> simp [wI, lexDeclsS]
theorem wI_fun (s : Stmt) : funDeclsS (wI s) = funDeclsS s := by cases s <;> simp [wI, funDeclsS]

theorem wS_lex (s : Stmt) : lexDeclsS (wS s) = lexDeclsS s := by
  unfold wS wrapIf
  split
  · rename_i h
    simp only [wrappable, Bool.and_eq_true, List.isEmpty_iff] at h
    rw [h.1.2]; rfl
  · exact wI_lex s

theorem wS_fun (s : Stmt) : funDeclsS (wS s) = funDeclsS s := by
  unfold wS wrapIf
  split
  · rename_i h
    simp only [wrappable, Bool.and_eq_true, List.isEmpty_iff] at h
    rw [h.2]; rfl
  · exact wI_fun s

mutual
theorem wI_var : ∀ s, varNamesS (wI s) = varNamesS s
  | .expr _ => by simp [wI]
  | .decl _ _ => by simp [wI]
  | .fdecl _ _ => by simp [wI]
  | .empty => by simp [wI]
  | .block ss => by simp [wI, varNamesS, wL_var ss]
  | .ite _ t e => by simp [wI, varNamesS, wS_var' t, wS_var' e]
  | .while _ b => by simp [wI, varNamesS, wS_var' b]
  | .doWhile b _ => by simp [wI, varNamesS, wS_var' b]
  | .for i _ _ b => by
    have := wS_var' b
    cases i with
    | none => simp [wI, varNamesS, this]
    | expr e => simp [wI, varNamesS, this]
    | decl k ds => cases k <;> simp [wI, varNamesS, this]
  | .forOf k _ _ b => by
    have := wS_var' b
    cases k <;> simp [wI, varNamesS, this]
  | .brk _ => by simp [wI]
  | .cont _ => by simp [wI]
  | .ret _ => by simp [wI]
  | .throw _ => by simp [wI]
  | .try b _ _ cb _ fb => by simp [wI, varNamesS, wL_var b, wL_var cb, wL_var fb]
  | .labeled _ s => by simp [wI, varNamesS, wS_var' s]
  | .switch _ cs => by simp [wI, varNamesS, wC_var cs]
  | .outside _ => by simp [wI]
theorem wS_var' : ∀ s, varNamesS (wrapIf s (wI s)) = varNamesS s
  | s => by
    unfold wrapIf
    split
    · simp only [varNamesS, varNamesL, List.append_nil]; exact wI_var _
    · exact wI_var _
theorem wL_var : ∀ ss, varNamesL (wL ss) = varNamesL ss
  | [] => by simp [wL]
  | s :: ss => by simp [wL, varNamesL, wS_var' s, wL_var ss]
theorem wC_var : ∀ cs, varNamesC (wC cs) = varNamesC cs
  | [] => by simp [wC]
  | (.mk _ b) :: cs => by simp [wC, varNamesC, wL_var b, wC_var cs]
end

theorem wMap_ok : SMapOK wMap where
  I_expr := by intros; simp [wMap, wI]
  I_decl := by intros; simp [wMap, wI]
  I_fdecl := by intros; simp [wMap, wI]
  I_empty := by simp [wMap, wI]
  I_brk := by intros; simp [wMap, wI]
  I_cont := by intros; simp [wMap, wI]
  I_ret := by intros; simp [wMap, wI]
  I_throw := by intros; simp [wMap, wI]
  I_outside := by intros; simp [wMap, wI]
  I_block := by intros; simp [wMap, wI]
  I_ite := by intros; simp [wMap, wI, wS]
  I_while := by intros; simp [wMap, wI, wS]
  I_doWhile := by intros; simp [wMap, wI, wS]
  I_for := by intros; simp [wMap, wI, wS]
  I_forOf := by intros; simp [wMap, wI, wS]
  I_try := by intros; simp [wMap, wI]
  I_labeled := by intros; simp [wMap, wI, wS]
  I_switch := by intros; simp [wMap, wI]
  L_nil := by simp [wMap, wL]
  L_cons := by intros; simp [wMap, wL, wS]
  C_nil := by simp [wMap, wC]
  C_cons := by intros; simp [wMap, wC]
  lex_S := wS_lex
  fun_S := wS_fun
  var_S := fun s => wS_var' s

/-! ### unwrapping a single-statement block -/

theorem evalBlock_single (recS : RecS) (x : Stmt) (hl : lexDeclsS x = []) (hf : funDeclsS x = [])
    (env : Env) (st : St) : evalBlock recS [x] env st = recS x [] env st := by
  have h1 : lexDeclsL [x] = [] := by rw [lexDeclsL_cons, hl]; rfl
  have h2 : funDeclsL [x] = [] := by rw [funDeclsL_cons, hf]; rfl
  simp only [evalBlock, enterBlock, h1, h2, allocLex, allocNames, List.foldl, List.map, evalStmts]
  cases hr : recS x [] env st with
  | timeout => rfl
  | unsup w => rfl
  | done c st1 =>
    cases c with
    | normal v => cases v <;> rfl
    | brk l v => cases v <;> rfl
    | cont l v => cases v <;> rfl
    | ret v => rfl
    | thr v => rfl

theorem stepStmt_lbl (e : RecE) (r : RecS) (t : RecT) (s : Stmt) (h : lblFree s = true)
    (l : List Name) (env : Env) (st : St) :
    stepStmt e r t s l env st = stepStmt e r t s [] env st := by
  cases s with
  | ret e => cases e <;> rfl
  | «while» c b => simp [lblFree] at h
  | doWhile b c => simp [lblFree] at h
  | «for» i t u b => simp [lblFree] at h
  | forOf k x e b => simp [lblFree] at h
  | labeled l' s => simp [lblFree] at h
  | _ => rfl

theorem wI_lblFree (s : Stmt) : lblFree (wI s) = lblFree s := by
  cases s <;> simp [wI, lblFree]

theorem idMap_T (t : Task) : idMap.T t = t := by cases t <;> rfl

theorem mapBodies_id (P : Prog) : P.mapBodies idMap.L = P := by
  cases P with
  | mk strict funs body =>
    have : List.map (FunDef.mapBody idMap.L) funs = funs := by
      induction funs with
      | nil => rfl
      | cons fd fs ih => simp only [List.map, ih]; rfl
    simp only [Prog.mapBodies, this]; rfl

theorem wrappable_inner {s : Stmt} (h : wrappable s = true) :
    lblFree s = true ∧ lexDeclsS (wI s) = [] ∧ funDeclsS (wI s) = [] := by
  simp only [wrappable, Bool.and_eq_true, List.isEmpty_iff] at h
  exact ⟨h.1.1, by rw [wI_lex, h.1.2], by rw [wI_fun, h.2]⟩

/-- The statement task of a wrappable statement, one level down: `{ s' }` evaluates like `s'`. -/
theorem eval_wrapped (P' : Prog) (n : Nat) {s : Stmt} (h : wrappable s = true) (l : List Name) (env : Env) (st : St) :
    eval P' (n + 1) (.stmt (wS s) l) env st = eval P' n (.stmt (wI s) []) env st := by
  obtain ⟨_, hl, hf⟩ := wrappable_inner h
  have : wS s = .block [wI s] := by simp [wS, wrapIf, h]
  rw [this]
  simp only [eval, step, stepStmt]
  exact evalBlock_single _ _ hl hf env st

theorem wS_not_wrappable {s : Stmt} (h : wrappable s = false) : wS s = wI s := by
  simp [wS, wrapIf, h]

/-! ### direction 1: the wrapped program is below the original, with the same fuel -/

theorem wrap_le (P : Prog) : ∀ (n : Nat) (t : Task) (env : Env) (st : St),
    Res.le (eval (blockWrap P) n (wMap.T t) env st) (eval P n t env st)
  | 0, _, _, _ => Or.inl rfl
  | n + 1, t, env, st => by
    have ih := wrap_le P n
    have hsame : ∀ t env st, Res.le (eval (blockWrap P) n (wMap.T t) env st) (eval P n (idMap.T t) env st) := by
      intro t env st; rw [idMap_T]; exact ih t env st
    have key := step_sim wMap_ok idMap_ok P hsame
    rw [mapBodies_id] at key
    cases t with
    | stmt s l =>
      cases hw : wrappable s with
      | true =>
        show Res.le (eval (blockWrap P) (n + 1) (.stmt (wS s) l) env st) _
        rw [eval_wrapped _ n hw]
        cases n with
        | zero => exact Or.inl rfl
        | succ m =>
          have hT : ∀ t env st, Res.le (eval (blockWrap P) m (wMap.T t) env st)
              (eval P (m + 1) (idMap.T t) env st) := by
            intro t env st; rw [idMap_T]
            exact Res.le_trans (eval_succ_le _ m _ env st) (ih t env st)
          have k2 := step_sim wMap_ok idMap_ok P hT (.stmt s []) env st
          rw [mapBodies_id] at k2
          have hl := (wrappable_inner hw).1
          show Res.le (step (blockWrap P) (eval (blockWrap P) m) (.stmt (wI s) []) env st)
            (step P (eval P (m + 1)) (.stmt s l) env st)
          simp only [step] at k2 ⊢
          rw [stepStmt_lbl _ _ _ s hl l]
          exact k2
      | false =>
        show Res.le (eval (blockWrap P) (n + 1) (.stmt (wS s) l) env st) _
        rw [wS_not_wrappable hw]
        exact key (.stmt s l) env st
    | expr e => exact key (.expr e) env st
    | call f t a => exact key (.call f t a) env st
    | whileLoop c b l V => exact key (.whileLoop c b l V) env st
    | doLoop b c l V => exact key (.doLoop b c l V) env st
    | forLoop per test upd b l V => exact key (.forLoop per test upd b l V) env st
    | forOfLoop k x arr i b l V => exact key (.forOfLoop k x arr i b l V) env st

/-! ### direction 2: the original is below the wrapped program with twice the fuel -/

theorem le_wrap (P : Prog) : ∀ (n : Nat) (t : Task) (env : Env) (st : St),
    Res.le (eval P n t env st) (eval (blockWrap P) (2 * n) (wMap.T t) env st)
  | 0, _, _, _ => Or.inl rfl
  | n + 1, t, env, st => by
    have ih := le_wrap P n
    have h2 : 2 * (n + 1) = (2 * n + 1) + 1 := by omega
    rw [h2]
    have hT0 : ∀ t env st, Res.le (eval P n (idMap.T t) env st) (eval (blockWrap P) (2 * n) (wMap.T t) env st) := by
      intro t env st; rw [idMap_T]; exact ih t env st
    have hT1 : ∀ t env st, Res.le (eval P n (idMap.T t) env st) (eval (blockWrap P) (2 * n + 1) (wMap.T t) env st) := by
      intro t env st
      exact Res.le_trans (hT0 t env st) (eval_succ_le _ _ _ env st)
    have key := step_sim idMap_ok wMap_ok P hT1
    rw [mapBodies_id] at key
    cases t with
    | stmt s l =>
      cases hw : wrappable s with
      | true =>
        show Res.le _ (eval (blockWrap P) (2 * n + 1 + 1) (.stmt (wS s) l) env st)
        rw [eval_wrapped _ (2 * n + 1) hw]
        have k2 := step_sim idMap_ok wMap_ok P hT0 (.stmt s []) env st
        rw [mapBodies_id] at k2
        have hl := (wrappable_inner hw).1
        show Res.le (step P (eval P n) (.stmt s l) env st)
          (step (blockWrap P) (eval (blockWrap P) (2 * n)) (.stmt (wI s) []) env st)
        simp only [step] at k2 ⊢
        rw [stepStmt_lbl _ _ _ s hl l]
        exact k2
      | false =>
        show Res.le _ (eval (blockWrap P) (2 * n + 1 + 1) (.stmt (wS s) l) env st)
        rw [wS_not_wrappable hw]
        exact key (.stmt s l) env st
    | expr e => exact key (.expr e) env st
    | call f t a => exact key (.call f t a) env st
    | whileLoop c b l V => exact key (.whileLoop c b l V) env st
    | doLoop b c l V => exact key (.doLoop b c l V) env st
    | forLoop per test upd b l V => exact key (.forLoop per test upd b l V) env st
    | forOfLoop k x arr i b l V => exact key (.forOfLoop k x arr i b l V) env st

/-! ### scripts -/

theorem run_wrap_le (P : Prog) (n : Nat) : Res.le (run (blockWrap P) n) (run P n) := by
  have hS : ∀ s l env st, Res.le (evalS (blockWrap P) n (wMap.S s) l env st) (evalS P n (idMap.S s) l env st) :=
    fun s l env st => wrap_le P n (.stmt s l) env st
  have := evalBlock_sim wMap_ok idMap_ok hS P.body
    (allocNames (varNamesL P.body).eraseDups ⟨some .undef, true⟩ [] emptySt).1
    (allocNames (varNamesL P.body).eraseDups ⟨some .undef, true⟩ [] emptySt).2
  simp only [run, blockWrap, mapBodies_body, wL_var]
  exact this

theorem run_le_wrap (P : Prog) (n : Nat) : Res.le (run P n) (run (blockWrap P) (2 * n)) := by
  have hS : ∀ s l env st, Res.le (evalS P n (idMap.S s) l env st) (evalS (blockWrap P) (2 * n) (wMap.S s) l env st) :=
    fun s l env st => le_wrap P n (.stmt s l) env st
  have := evalBlock_sim idMap_ok wMap_ok hS P.body
    (allocNames (varNamesL P.body).eraseDups ⟨some .undef, true⟩ [] emptySt).1
    (allocNames (varNamesL P.body).eraseDups ⟨some .undef, true⟩ [] emptySt).2
  simp only [run, blockWrap, mapBodies_body, wL_var]
  exact this

end GojaModel.C02
