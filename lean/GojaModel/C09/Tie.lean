/-
  C09 — Tie: decision facts REGENERATED from /repo's current source on every run (extract/c09.go →
  GojaModel/Generated/C09_Decisions.lean) are interpreted here and proved EQUAL to the functions of the mechanism
  model (not merely compared with a pinned copy): a change of the rebasing arithmetic of vm.suspend / vm.resume, of the
  assignments generator.enterNextFinallyFrame makes when it enters a finally block, of the halted() test in
  generator.step1's returning loop or of the start/completed prelude of generatorObject.throw / _return breaks a theorem.

  Codes (extract/c09.go): field 0 tf.iterLen, 1 tf.refLen, 2 tf.sp, 3 tf.callStackLen; operator 0 `=`, 1 `+=`, 2 `-=`;
  operand 0 iterStackLen, 1 refStackLen, 2 sp, 3 len(vm.callStack), 4 len(vm.iterStack), 5 len(vm.refStack).
  enterNextFinallyFrame: lhs 0 vm.sp, 1 vm.stash, 2 vm.privEnv, 3 vm.pc, 4 tf.catchPos, 5 tf.finallyPos, 6 tf.finallyRet;
  rhs 0 tf.sp, 1 tf.stash, 2 tf.privEnv, 3 tf.finallyPos, 4 `-1`, 5 `-2`.
  prelude: state 1 suspendedStart, 5 completed; action 0 `g.state = completed`, 1 `panic(v)`, 2 `return {v, done: true}`, 3 `return {undefined, done: true}`.
-/
import GojaModel.Generated.C09_Decisions
import GojaModel.C09.Model
import GojaModel.C09.Mech

namespace GojaModel.C09.Tie
open GojaModel.C09 GojaModel.C09.Mech GojaModel.Generated.C09

/-- Values of the operands at the site of the loop. -/
structure Operands where
  iterStackLen : Nat := 0
  refStackLen : Nat := 0
  sp : Nat := 0
  callLen : Nat := 0
  iterLen : Nat := 0
  refLen : Nat := 0

def Operands.get (o : Operands) : Nat → Nat
  | 0 => o.iterStackLen | 1 => o.refStackLen | 2 => o.sp | 3 => o.callLen | 4 => o.iterLen | _ => o.refLen

def applyOp (old x : Nat) : Nat → Nat
  | 0 => x | 1 => old + x | _ => old - x

def applyRebase1 (o : Operands) (tf : TryFrame) (s : Nat × Nat × Nat) : TryFrame :=
  match s.1 with
  | 0 => { tf with iterLen := applyOp tf.iterLen (o.get s.2.2) s.2.1 }
  | 1 => { tf with refLen := applyOp tf.refLen (o.get s.2.2) s.2.1 }
  | 2 => { tf with sp := applyOp tf.sp (o.get s.2.2) s.2.1 }
  | _ => { tf with callStackLen := applyOp tf.callStackLen (o.get s.2.2) s.2.1 }

def applyRebase (ops : List (Nat × Nat × Nat)) (o : Operands) (tf : TryFrame) : TryFrame :=
  ops.foldl (applyRebase1 o) tf

/-- The loop body of `vm.suspend` (vm.go:75-80), as it stands in /repo now, IS `TryFrame.toRel`. -/
theorem suspend_rebase_tie (tf : TryFrame) (I R S : Nat) :
    applyRebase suspendRebase { iterStackLen := I, refStackLen := R, sp := S } tf = tf.toRel I R S := by
  simp [applyRebase, suspendRebase, applyRebase1, applyOp, Operands.get, TryFrame.toRel]

/-- The loop body of `vm.resume` (vm.go:99-105), as it stands in /repo now, IS `TryFrame.toAbs`. -/
theorem resume_rebase_tie (tf : TryFrame) (cl il rl sp : Nat) :
    applyRebase resumeRebase { sp := sp, callLen := cl, iterLen := il, refLen := rl } tf = tf.toAbs cl il rl sp := by
  simp [applyRebase, resumeRebase, applyRebase1, applyOp, Operands.get, TryFrame.toAbs]

def applyEnf1 (s : VM × TryFrame) (a : Nat × Nat) : VM × TryFrame :=
  let (vm, tf) := s
  match a.1, a.2 with
  | 0, 0 => ({ vm with stack := vm.stack.take tf.sp }, tf)
  | 1, 1 => ({ vm with cur := { vm.cur with stash := tf.stash } }, tf)
  | 2, 2 => (vm, tf)                                             -- privEnv: not part of the model
  | 3, 3 => ({ vm with cur := { vm.cur with pc := tf.finallyPos } }, tf)
  | 4, 4 => (vm, { tf with catchPos := -1 })
  | 5, 4 => (vm, { tf with finallyPos := -1 })
  | 6, 5 => (vm, { tf with finallyRet := -2 })
  | _, _ => (vm, { tf with exc := some 0, catchPos := 12345 })   -- an assignment the model does not know: poison

/-- The finally-entry block of `generator.enterNextFinallyFrame` (func.go:786-794), as it stands in /repo now, IS what
`Mech.enterNextFinallyFrameLoop` does there — incl. `vm.stash = tf.stash` (seeded change C09-m3 drops it) and the
dead-frame marking of 8004794. -/
theorem enterNextFinallyFrame_entry_tie (vm : VM) (tf : TryFrame) :
    enfEntry.foldl applyEnf1 (vm, tf) =
      ({ vm with stack := vm.stack.take tf.sp, cur := { vm.cur with stash := tf.stash, pc := tf.finallyPos } },
       { tf with catchPos := -1, finallyPos := -1, finallyRet := -2 }) := by
  simp [enfEntry, applyEnf1]

/-- 4bb92ea: the frame pointer is re-taken after `restoreStacks` — the list semantics of `Mech.enterNextFinallyFrame`. -/
theorem enterNextFinallyFrame_retakes_pointer_tie : enfRetakesPointer = true := by decide

/-- 5eca78e: the returning loop continues when the body came back without having halted — `Mech.step1Returning`'s
`.caught` case. -/
theorem step1_continues_when_not_halted_tie : step1ContinuesWhenNotHalted = true := by decide

/-- Run the prelude on a state code: `some 1` = throws v, `some 2` = answers {v, done: true}, `none` = goes on to resume. -/
def runPrelude : List (Nat × Nat) → Nat → Option Nat
  | [], _ => none
  | (st, act) :: rest, s =>
    if s = st then
      match act with
      | 0 => runPrelude rest 5          -- g.state = genStateCompleted
      | a => some a
    else runPrelude rest s

def tagCode : GTag → Nat
  | .start => 1 | .executing => 2 | .susp => 3 | .completed => 5

/-- The prelude of `generatorObject.throw` (func.go), as it stands in /repo now, answers exactly when and how `genPre`
does (seeded change C09-m4 merges the two tests). -/
theorem throw_prelude_tie (tag : GTag) (e : Val) (h : tag ≠ .executing) :
    (match runPrelude throwPrelude (tagCode tag) with
     | some 1 => Pre.answer (.t e) | some _ => Pre.answer (.d e) | none => Pre.resume) = genPre tag ⟨.throw, e⟩ := by
  cases tag <;> simp_all [runPrelude, throwPrelude, tagCode, genPre]

theorem return_prelude_tie (tag : GTag) (v : Val) (h : tag ≠ .executing) :
    (match runPrelude returnPrelude (tagCode tag) with
     | some 1 => Pre.answer (.t v) | some _ => Pre.answer (.d v) | none => Pre.resume) = genPre tag ⟨.ret, v⟩ := by
  cases tag <;> simp_all [runPrelude, returnPrelude, tagCode, genPre]

/-- The prelude of `generatorObject.next`: a completed generator answers `{undefined, done: true}`, every other state goes
on (a not-started one to run the body). -/
theorem next_prelude_tie (tag : GTag) (v : Val) (h : tag ≠ .executing) :
    (match runPrelude nextPrelude (tagCode tag) with
     | some 3 => Pre.answer (.d .undef) | some _ => Pre.answer (.t v) | none => Pre.resume) = genPre tag ⟨.next, v⟩ := by
  cases tag <;> simp_all [runPrelude, nextPrelude, tagCode, genPre]

/-- bf2a7fb: the `restoreStacks`-error branch of `enterNextFinallyFrame` dispatches with `handleThrow` and RETURNS the
uncaught exception (no `vm.throw`, which would panic outside the run loop) — `Mech.enfLoop2`'s `.handled` / `.uncaught`. -/
theorem enterNextFinallyFrame_close_error_tie : enfCloseErrorUsesHandleThrow = true := by decide

/-- bf2a7fb: `step1` unwinds the activation right after the final `restoreStacks`, before reporting its error —
`Mech.step1Returning2`'s `.closeErrorAtEnd` carries the unwound vm. -/
theorem step1_unwinds_before_close_error_tie : step1UnwindsBeforeReportingCloseError = true := by decide

end GojaModel.C09.Tie
