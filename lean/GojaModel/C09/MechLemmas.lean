/-
  C09 helper lemmas for the mechanism model GenCtx (suspend / resume offset rebasing, handleThrow).
-/
import GojaModel.C09.Mech

namespace GojaModel.C09.Mech

/-- Frames pushed while the generator runs record lengths at or above the generator's bases
(`pushTryFrame` records the current lengths, which only grow above `storeLengths`' snapshot). -/
def FramesAbove (fs : List TryFrame) (I R S : Nat) : Prop := ∀ tf ∈ fs, I ≤ tf.iterLen ∧ R ≤ tf.refLen ∧ S ≤ tf.sp

theorem suspend_ectx (vm : VM) (T I R : Nat) :
    (suspend vm T I R).1 =
      { ctx := vm.cur, stack := vm.stack.drop (vm.cur.sb - 1).toNat,
        tryStack := (vm.tryStack.drop T).map (fun tf => tf.toRel I R (vm.cur.sb - 1).toNat),
        iterStack := vm.iterStack.drop I, refStack := vm.refStack.drop R } := by
  simp only [suspend]
  split <;> split <;> split <;> simp_all [List.drop_eq_nil_of_le, Nat.le_of_not_lt]

theorem suspend_vm (vm : VM) (T I R : Nat) :
    (suspend vm T I R).2 =
      { vm with tryStack := vm.tryStack.take T, iterStack := vm.iterStack.take I, refStack := vm.refStack.take R } := by
  simp only [suspend]
  split <;> split <;> split <;> simp_all [List.take_of_length_le, Nat.le_of_not_lt]

/-- The frame a suspended-then-resumed try frame becomes (the statement of `resume_suspend_shift`). -/
def shifted (tf : TryFrame) (I R S : Nat) (vm2 : VM) : TryFrame :=
  { tf with callStackLen := vm2.callStack.length,
            iterLen := tf.iterLen - I + vm2.iterStack.length,
            refLen := tf.refLen - R + vm2.refStack.length,
            sp := tf.sp - S + vm2.stack.length }

theorem toAbs_toRel (tf : TryFrame) (I R S : Nat) (vm2 : VM) :
    (tf.toRel I R S).toAbs vm2.callStack.length vm2.iterStack.length vm2.refStack.length vm2.stack.length
      = shifted tf I R S vm2 := by
  simp [TryFrame.toRel, TryFrame.toAbs, shifted]

theorem relView_shifted (tf : TryFrame) (I R S : Nat) (vm2 : VM) (hI : I ≤ tf.iterLen) (hR : R ≤ tf.refLen) (hS : S ≤ tf.sp) :
    relView (shifted tf I R S vm2) vm2.iterStack.length vm2.refStack.length vm2.stack.length = relView tf I R S := by
  simp only [relView, shifted, TryFrame.toRel]
  congr 1 <;> omega

/-! ## handleThrow: one iteration -/

/-- What `handleThrow` decides at a live frame depends only on its handler positions (vm.go:820-838). -/
def outcomeOf (tf : TryFrame) : Outcome :=
  if tf.catchPos = tryPanicMarker then .uncaught
  else if tf.catchPos ≥ 0 then .caught tf.catchPos
  else if tf.finallyPos ≥ 0 then .toFinally tf.finallyPos
  else .stuck

def TryFrame.dead (tf : TryFrame) : Prop := tf.catchPos = -1 ∧ tf.finallyPos = -1

instance (tf : TryFrame) : Decidable tf.dead := by unfold TryFrame.dead; exact inferInstance

/-- The body of one loop iteration of `handleThrow` at a live top frame `tf` (vm.go:809-838), as a function. -/
def liveStep (ex : Nat) (vm : VM) (tf : TryFrame) : Outcome × List Nat × VM :=
  let vm1 : VM :=
    if tf.callStackLen < vm.callStack.length then
      let c := vm.callStack.getD tf.callStackLen default
      { vm with cur := { c with stash := vm.cur.stash }, callStack := vm.callStack.take tf.callStackLen }
    else vm
  let vm2 : VM := { vm1 with stack := vm1.stack.take tf.sp, cur := { vm1.cur with stash := tf.stash } }
  let (cl, vm3) := restoreStacks vm2 tf.iterLen tf.refLen
  if tf.catchPos = tryPanicMarker then (.uncaught, cl, vm3)
  else if tf.catchPos ≥ 0 then
    (.caught tf.catchPos, cl,
     { vm3 with stack := vm3.stack ++ [ex], cur := { vm3.cur with pc := tf.catchPos },
                tryStack := vm3.tryStack.dropLast ++ [{ tf with catchPos := -1 }] })
  else if tf.finallyPos ≥ 0 then
    (.toFinally tf.finallyPos, cl,
     { vm3 with cur := { vm3.cur with pc := tf.finallyPos },
                tryStack := vm3.tryStack.dropLast ++ [{ tf with exc := some ex, finallyPos := -1, finallyRet := -1 }] })
  else (.stuck, cl, vm3)

theorem handleThrow_live_top (ex : Nat) (vm : VM) (fs : List TryFrame) (tf : TryFrame)
    (h : vm.tryStack = fs ++ [tf]) (hlive : ¬ tf.dead) : handleThrow ex vm = liveStep ex vm tf := by
  unfold handleThrow
  rw [h]
  simp only [List.length_append, List.length_cons, List.length_nil, Nat.zero_add]
  unfold handleThrowLoop
  simp only [h, List.getLast?_append, List.getLast?_singleton, Option.some_or]
  unfold TryFrame.dead at hlive
  simp only [hlive, if_false, liveStep, restoreStacks, List.nil_append]
  split <;> (try split) <;> (try split) <;> (try split) <;> simp_all

theorem liveStep_outcome (ex : Nat) (vm : VM) (tf : TryFrame) : (liveStep ex vm tf).1 = outcomeOf tf := by
  simp only [liveStep, restoreStacks, outcomeOf]
  split <;> (try split) <;> (try split) <;> simp_all

theorem handleThrow_outcome_top (ex : Nat) (vm : VM) (fs : List TryFrame) (tf : TryFrame)
    (h : vm.tryStack = fs ++ [tf]) (hlive : ¬ tf.dead) : (handleThrow ex vm).1 = outcomeOf tf := by
  rw [handleThrow_live_top ex vm fs tf h hlive, liveStep_outcome]

/-- A dead frame on top is popped and the search continues below it (vm.go:804-807). -/
theorem handleThrow_dead_pops (ex : Nat) (vm : VM) (fs : List TryFrame) (tf : TryFrame)
    (h : vm.tryStack = fs ++ [tf]) (hdead : tf.dead) :
    handleThrow ex vm = handleThrow ex { vm with tryStack := fs } := by
  unfold handleThrow
  rw [h]
  simp only [List.length_append, List.length_cons, List.length_nil, Nat.zero_add]
  conv => lhs; unfold handleThrowLoop
  unfold TryFrame.dead at hdead
  simp [h, hdead]

theorem shifted_handlers (tf : TryFrame) (I R S : Nat) (vm2 : VM) :
    (shifted tf I R S vm2).catchPos = tf.catchPos ∧ (shifted tf I R S vm2).finallyPos = tf.finallyPos ∧
    (shifted tf I R S vm2).finallyRet = tf.finallyRet ∧ (shifted tf I R S vm2).stash = tf.stash ∧
    (shifted tf I R S vm2).exc = tf.exc := by
  simp [shifted]

theorem outcomeOf_congr {a b : TryFrame} (hc : b.catchPos = a.catchPos) (hf : b.finallyPos = a.finallyPos) :
    outcomeOf b = outcomeOf a := by simp [outcomeOf, hc, hf]

/-- The handler `handleThrow` selects inside a segment of frames depends only on the frames' handler positions. -/
theorem handleThrow_outcome_segment (ex : Nat) (f : TryFrame → TryFrame)
    (hf : ∀ tf, (f tf).catchPos = tf.catchPos ∧ (f tf).finallyPos = tf.finallyPos)
    (rs : List TryFrame) :
    ∀ (vm1 vm2 : VM) (lo1 lo2 : List TryFrame),
      vm1.tryStack = lo1 ++ rs.reverse → vm2.tryStack = lo2 ++ (rs.reverse).map f → (∃ tf ∈ rs, ¬ tf.dead) →
      (handleThrow ex vm1).1 = (handleThrow ex vm2).1 := by
  induction rs with
  | nil => intro _ _ _ _ _ _ h; obtain ⟨_, hm, _⟩ := h; cases hm
  | cons tf rs ih =>
    intro vm1 vm2 lo1 lo2 h1 h2 hlive
    have h1' : vm1.tryStack = (lo1 ++ rs.reverse) ++ [tf] := by simp [h1]
    have h2' : vm2.tryStack = (lo2 ++ rs.reverse.map f) ++ [f tf] := by simp [h2]
    by_cases hd : tf.dead
    · have hd2 : (f tf).dead := by
        unfold TryFrame.dead at *; rw [(hf tf).1, (hf tf).2]; exact hd
      rw [handleThrow_dead_pops ex vm1 _ tf h1' hd, handleThrow_dead_pops ex vm2 _ (f tf) h2' hd2]
      apply ih _ _ lo1 lo2 rfl rfl
      obtain ⟨t, hm, hl⟩ := hlive
      cases hm with
      | head => exact absurd hd hl
      | tail _ hm' => exact ⟨t, hm', hl⟩
    · have hd2 : ¬ (f tf).dead := by
        unfold TryFrame.dead at *; rw [(hf tf).1, (hf tf).2]; exact hd
      rw [handleThrow_outcome_top ex vm1 _ tf h1' hd, handleThrow_outcome_top ex vm2 _ (f tf) h2' hd2]
      exact (outcomeOf_congr (hf tf).1 (hf tf).2).symm

/-! ## Re-basing a generator-owned vm part onto a caller's vm

`g` describes the generator-owned part of a vm with all offsets relative to its own bottom (no caller below);
`rebase lo g` puts it on top of the caller's vm `lo`. `suspend`/`resume` move a generator part from one caller to
another; every mechanism step that only touches the generator-owned part commutes with `rebase`. -/

def shiftCtx (d : Nat) (c : Ctx) : Ctx := { c with sb := c.sb + d }

def shiftFrame (lo : VM) (tf : TryFrame) : TryFrame :=
  { tf with callStackLen := tf.callStackLen + lo.callStack.length, iterLen := tf.iterLen + lo.iterStack.length,
            refLen := tf.refLen + lo.refStack.length, sp := tf.sp + lo.stack.length }

def rebase (lo g : VM) : VM :=
  { cur := shiftCtx lo.stack.length g.cur
    stack := lo.stack ++ g.stack
    callStack := lo.callStack ++ g.callStack.map (shiftCtx lo.stack.length)
    iterStack := lo.iterStack ++ g.iterStack
    refStack := lo.refStack ++ g.refStack
    tryStack := lo.tryStack ++ g.tryStack.map (shiftFrame lo) }

def rebaseRes (lo : VM) (r : Outcome × List Nat × VM) : Outcome × List Nat × VM := (r.1, r.2.1, rebase lo r.2.2)

theorem shiftFrame_dead (lo : VM) (tf : TryFrame) : (shiftFrame lo tf).dead ↔ tf.dead := by
  simp [TryFrame.dead, shiftFrame]

theorem take_add_length {α : Type} (l : List α) (n : Nat) : List.take (n + l.length) l = l :=
  List.take_of_length_le (by omega)

theorem drop_add_length {α : Type} (l : List α) (n : Nat) : List.drop (n + l.length) l = [] :=
  List.drop_of_length_le (by omega)

theorem getD_append_map_shift (a b : List Ctx) (d i : Nat) (h : i < b.length) :
    (a ++ b.map (shiftCtx d)).getD (i + a.length) default = shiftCtx d (b.getD i default) := by
  simp [List.getD_eq_getElem?_getD, List.getElem?_append_right, h]

/-- One live iteration of `handleThrow` commutes with re-basing (state equality, incl. extra call frames). -/
theorem liveStep_rebase (ex : Nat) (lo g : VM) (tf : TryFrame) (fs : List TryFrame) (hg : g.tryStack = fs ++ [tf]) :
    liveStep ex (rebase lo g) (shiftFrame lo tf) = rebaseRes lo (liveStep ex g tf) := by
  simp only [liveStep, rebaseRes, restoreStacks, shiftFrame, rebase, List.length_append, List.length_map]
  have hlt : (tf.callStackLen + lo.callStack.length < lo.callStack.length + g.callStack.length) ↔
      (tf.callStackLen < g.callStack.length) := by omega
  by_cases hc : tf.callStackLen < g.callStack.length
  · have hget := getD_append_map_shift lo.callStack g.callStack lo.stack.length tf.callStackLen hc
    simp only [hlt, hc, if_true, hget, hg]
    split <;> (try split) <;> (try split) <;>
      simp_all [shiftCtx, List.take_append, List.drop_append, take_add_length, drop_add_length,
                List.map_append, List.dropLast_concat, ← List.append_assoc, shiftFrame, List.map_take]
  · simp only [hlt, hc, if_false, hg]
    split <;> (try split) <;> (try split) <;>
      simp_all [shiftCtx, List.take_append, List.drop_append, take_add_length, drop_add_length,
                List.map_append, List.dropLast_concat, ← List.append_assoc, shiftFrame]

/-- `handleThrow` commutes with re-basing — equality of outcome, closed iterators AND resulting vm state — through any
number of dead frames, provided some frame of the generator-owned part is live (the exception is handled there). -/
theorem handleThrow_rebase (ex : Nat) (lo : VM) (rs : List TryFrame) :
    ∀ (g : VM) (fs : List TryFrame), g.tryStack = fs ++ rs.reverse → (∃ tf ∈ rs, ¬ tf.dead) →
      handleThrow ex (rebase lo g) = rebaseRes lo (handleThrow ex g) := by
  induction rs with
  | nil => intro _ _ _ h; obtain ⟨_, hm, _⟩ := h; cases hm
  | cons tf rs ih =>
    intro g fs hg hlive
    have hg' : g.tryStack = (fs ++ rs.reverse) ++ [tf] := by simp [hg]
    have hr' : (rebase lo g).tryStack = (lo.tryStack ++ (fs ++ rs.reverse).map (shiftFrame lo)) ++ [shiftFrame lo tf] := by
      simp [rebase, hg]
    by_cases hd : tf.dead
    · have hd2 : (shiftFrame lo tf).dead := (shiftFrame_dead lo tf).2 hd
      rw [handleThrow_dead_pops ex g _ tf hg' hd, handleThrow_dead_pops ex (rebase lo g) _ _ hr' hd2]
      have hreb : { rebase lo g with tryStack := lo.tryStack ++ (fs ++ rs.reverse).map (shiftFrame lo) }
          = rebase lo { g with tryStack := fs ++ rs.reverse } := by simp [rebase]
      rw [hreb]
      apply ih _ fs rfl
      obtain ⟨t, hm, hl⟩ := hlive
      cases hm with
      | head => exact absurd hd hl
      | tail _ hm' => exact ⟨t, hm', hl⟩
    · have hd2 : ¬ (shiftFrame lo tf).dead := fun h => hd ((shiftFrame_dead lo tf).1 h)
      rw [handleThrow_live_top ex g _ tf hg' hd, handleThrow_live_top ex (rebase lo g) _ _ hr' hd2]
      exact liveStep_rebase ex lo g tf _ hg'

/-! ### suspend / resume as a change of base -/

/-- A generator-owned part as it stands at a yield: running in the generator's own frame (no call frames above it,
relative `sb` = 1: slot 0 of its stack segment is the callee) and every try frame pushed at that call depth. -/
def AtYield (g : VM) : Prop := g.callStack = [] ∧ g.cur.sb = 1 ∧ ∀ tf ∈ g.tryStack, tf.callStackLen = 0

theorem resume_suspend_rebase (lo vm2 g : VM) (hg : AtYield g) :
    resume vm2 (suspend (rebase lo g) lo.tryStack.length lo.iterStack.length lo.refStack.length).1 = rebase vm2 g := by
  obtain ⟨hc, hsb, hf⟩ := hg
  simp only [suspend_ectx, resume, rebase, shiftCtx, hsb, hc, List.map_nil, List.append_nil, List.drop_left,
    List.map_map]
  have e1 : ((1 : Int) + ↑lo.stack.length - 1).toNat = lo.stack.length := by omega
  rw [e1, List.drop_left]
  congr 1
  · cases hcur : g.cur; simp_all; omega
  · congr 1
    apply List.map_congr_left
    intro tf htf
    have := hf tf htf
    cases tf
    simp_all [TryFrame.toRel, TryFrame.toAbs, shiftFrame]

/-! ## enterNextFinallyFrame (as repaired by 8004794) -/

theorem enf_top_fin (n : Nat) (vm : VM) (fs : List TryFrame) (tf : TryFrame) (cl : List Nat)
    (h : vm.tryStack = fs ++ [tf]) (hc : tf.callStackLen = vm.callStack.length) (hfin : tf.finallyPos ≥ 0) :
    enterNextFinallyFrameLoop [] (n + 1) vm cl =
      (true, cl ++ (restoreStacks vm tf.iterLen tf.refLen).1,
       { (restoreStacks vm tf.iterLen tf.refLen).2 with
           stack := vm.stack.take tf.sp,
           cur := { vm.cur with stash := tf.stash, pc := tf.finallyPos },
           tryStack := fs ++ [{ tf with catchPos := -1, finallyPos := -1, finallyRet := -2 }] }) := by
  unfold enterNextFinallyFrameLoop
  simp [h, hc, hfin, restoreStacks]

theorem enf_top_skip (n : Nat) (vm : VM) (fs : List TryFrame) (tf : TryFrame) (cl : List Nat)
    (h : vm.tryStack = fs ++ [tf]) (hc : tf.callStackLen = vm.callStack.length) (hfin : ¬ tf.finallyPos ≥ 0) :
    enterNextFinallyFrameLoop [] (n + 1) vm cl =
      enterNextFinallyFrameLoop [] n { (restoreStacks vm tf.iterLen tf.refLen).2 with tryStack := fs }
        (cl ++ (restoreStacks vm tf.iterLen tf.refLen).1) := by
  conv => lhs; unfold enterNextFinallyFrameLoop
  simp [h, hc, hfin, restoreStacks]

/-- The frame whose finally block return(v) enters is left DEAD for `handleThrow` (catchPos = finallyPos = -1): an
exception raised inside that finally block is dispatched to the enclosing handlers, exactly as if the frame had
been popped — the content of repair 8004794. -/
theorem return_finally_frame_is_dead (ex : Nat) (vm : VM) (fs : List TryFrame) (tf : TryFrame)
    (h : vm.tryStack = fs ++ [tf]) (hc : tf.callStackLen = vm.callStack.length) (hfin : tf.finallyPos ≥ 0) :
    (enterNextFinallyFrame [] vm).1 = true ∧
    handleThrow ex (enterNextFinallyFrame [] vm).2.2
      = handleThrow ex { (enterNextFinallyFrame [] vm).2.2 with tryStack := fs } := by
  have e : enterNextFinallyFrame [] vm = enterNextFinallyFrameLoop [] (fs.length + 1) vm [] := by
    simp [enterNextFinallyFrame, h]
  rw [e, enf_top_fin fs.length vm fs tf [] h hc hfin]
  refine ⟨rfl, ?_⟩
  exact handleThrow_dead_pops ex _ fs _ rfl (by simp [TryFrame.dead])

/-- Regression lemma about the OLD marking (catchPos = tryPanicMarker, before 8004794): `handleThrow` stopped at that
frame and reported the exception as leaving the generator, whatever handlers enclosed it. -/
theorem old_marking_escapes_prefix_witness (ex : Nat) (vm : VM) (fs : List TryFrame) (tf : TryFrame)
    (h : vm.tryStack = fs ++ [{ tf with catchPos := tryPanicMarker, finallyPos := -1, finallyRet := -2 }]) :
    (handleThrow ex vm).1 = .uncaught := by
  rw [handleThrow_outcome_top ex vm fs _ h (by simp [TryFrame.dead, tryPanicMarker])]
  simp [outcomeOf]

/-! ### Every well-formed vm is a re-based generator part -/

def lowerOf (vm : VM) (T I R S C : Nat) : VM :=
  { cur := default, stack := vm.stack.take S, callStack := vm.callStack.take C, iterStack := vm.iterStack.take I,
    refStack := vm.refStack.take R, tryStack := vm.tryStack.take T }

def genOf (vm : VM) (T I R S C : Nat) : VM :=
  { cur := { vm.cur with sb := vm.cur.sb - S }
    stack := vm.stack.drop S
    callStack := (vm.callStack.drop C).map (fun c => { c with sb := c.sb - S })
    iterStack := vm.iterStack.drop I
    refStack := vm.refStack.drop R
    tryStack := (vm.tryStack.drop T).map (fun tf =>
      { tf with callStackLen := tf.callStackLen - C, iterLen := tf.iterLen - I, refLen := tf.refLen - R, sp := tf.sp - S }) }

/-- Any vm whose generator-owned try frames record lengths at or above the bases `(T, I, R, S, C)` IS `rebase lo g`
for its lower part `lo` and its relative generator part `g`: the `rebase` theorems apply to every such vm. -/
theorem rebase_decompose (vm : VM) (T I R S C : Nat)
    (hS : S ≤ vm.stack.length) (hC : C ≤ vm.callStack.length) (hI : I ≤ vm.iterStack.length) (hR : R ≤ vm.refStack.length)
    (hf : ∀ tf ∈ vm.tryStack.drop T, C ≤ tf.callStackLen ∧ I ≤ tf.iterLen ∧ R ≤ tf.refLen ∧ S ≤ tf.sp) :
    rebase (lowerOf vm T I R S C) (genOf vm T I R S C) = vm := by
  cases vm with
  | mk cur stack callStack iterStack refStack tryStack =>
    simp only [rebase, lowerOf, genOf, shiftCtx, List.length_take, List.map_map, List.take_append_drop] at *
    have e1 : min S stack.length = S := Nat.min_eq_left hS
    have e2 : min C callStack.length = C := Nat.min_eq_left hC
    have e3 : min I iterStack.length = I := Nat.min_eq_left hI
    have e4 : min R refStack.length = R := Nat.min_eq_left hR
    simp only [e1]
    congr 1
    · cases cur; simp
    · conv => rhs; rw [← List.take_append_drop C callStack]
      congr 1
      conv => rhs; rw [← List.map_id (List.drop C callStack)]
      apply List.map_congr_left
      intro c _
      cases c; simp [shiftCtx]
    · conv => rhs; rw [← List.take_append_drop T tryStack]
      congr 1
      conv => rhs; rw [← List.map_id (List.drop T tryStack)]
      apply List.map_congr_left
      intro tf htf
      have := hf tf htf
      cases tf
      simp_all [shiftFrame]

end GojaModel.C09.Mech

namespace GojaModel.C09.Mech

/-- The try stack after one live iteration of `handleThrow`: only the top frame changes. -/
theorem liveStep_tryStack_caught (ex : Nat) (vm : VM) (tf : TryFrame) (h1 : tf.catchPos ≠ tryPanicMarker) (h2 : tf.catchPos ≥ 0) :
    (liveStep ex vm tf).2.2.tryStack = vm.tryStack.dropLast ++ [{ tf with catchPos := -1 }] := by
  simp only [liveStep, restoreStacks, h1, h2, if_true, if_false]
  split <;> simp

theorem liveStep_tryStack_finally (ex : Nat) (vm : VM) (tf : TryFrame) (h1 : tf.catchPos = -1) (h2 : tf.finallyPos ≥ 0) :
    (liveStep ex vm tf).2.2.tryStack = vm.tryStack.dropLast ++ [{ tf with exc := some ex, finallyPos := -1, finallyRet := -1 }] := by
  have hm : tf.catchPos ≠ tryPanicMarker := by rw [h1]; decide
  have hn : ¬ tf.catchPos ≥ 0 := by rw [h1]; decide
  simp only [liveStep, restoreStacks, hm, hn, h2, if_true, if_false]
  split <;> simp

end GojaModel.C09.Mech

namespace GojaModel.C09.Mech

/-- The `try` instruction (pushTryFrame) commutes with a change of caller. -/
theorem pushTryFrame_rebase (lo g : VM) (cp fp : Int) :
    pushTryFrame (rebase lo g) cp fp = rebase lo (pushTryFrame g cp fp) := by
  simp [pushTryFrame, rebase, shiftFrame, shiftCtx, Nat.add_comm]

/-- `leaveTry` / `leaveFinally` (popTryFrame) commute with a change of caller as long as a generator-owned frame is popped. -/
theorem popTryFrame_rebase (lo g : VM) (h : g.tryStack ≠ []) :
    popTryFrame (rebase lo g) = rebase lo (popTryFrame g) := by
  simp only [popTryFrame, rebase]
  congr 1
  rw [List.dropLast_append_of_ne_nil (by simpa using h)]
  simp [List.map_dropLast]

/-- `restoreStacks` to lengths recorded by a generator-owned frame commutes with a change of caller (same iterators closed). -/
theorem restoreStacks_rebase (lo g : VM) (i r : Nat) :
    restoreStacks (rebase lo g) (i + lo.iterStack.length) (r + lo.refStack.length)
      = ((restoreStacks g i r).1, rebase lo (restoreStacks g i r).2) := by
  simp [restoreStacks, rebase, List.drop_append, List.take_append, take_add_length, drop_add_length]

end GojaModel.C09.Mech
