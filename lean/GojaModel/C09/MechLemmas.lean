/-
  C09 helper lemmas for the mechanism model GenCtx (suspend / resume offset rebasing).
-/
import GojaModel.C09.Mech

namespace GojaModel.C09.Mech

/-- Frames pushed while the generator runs record lengths at or above the generator's bases
(`pushTryFrame` records the current lengths, which only grow above `storeLengths`' snapshot). -/
def FramesAbove (fs : List TryFrame) (I R : Nat) : Prop := ∀ tf ∈ fs, I ≤ tf.iterLen ∧ R ≤ tf.refLen

theorem suspend_ectx (vm : VM) (T I R : Nat) :
    (suspend vm T I R).1 =
      { ctx := vm.cur, stack := vm.stack.drop (vm.cur.sb - 1).toNat,
        tryStack := (vm.tryStack.drop T).map (fun tf => tf.toRel I R (vm.cur.sb - 1)),
        iterStack := vm.iterStack.drop I, refStack := vm.refStack.drop R } := by
  simp only [suspend]
  split <;> split <;> split <;> simp_all [List.drop_eq_nil_of_le, Nat.le_of_not_lt]

theorem suspend_vm (vm : VM) (T I R : Nat) :
    (suspend vm T I R).2 =
      { vm with tryStack := vm.tryStack.take T, iterStack := vm.iterStack.take I, refStack := vm.refStack.take R } := by
  simp only [suspend]
  split <;> split <;> split <;> simp_all [List.take_of_length_le, Nat.le_of_not_lt]

/-- The frame a suspended-then-resumed try frame becomes (the statement of `resume_suspend_shift`). -/
def shifted (tf : TryFrame) (I R : Nat) (spBase : Int) (vm2 : VM) : TryFrame :=
  { tf with callStackLen := vm2.callStack.length,
            iterLen := tf.iterLen - I + vm2.iterStack.length,
            refLen := tf.refLen - R + vm2.refStack.length,
            sp := tf.sp - spBase + vm2.stack.length }

theorem toAbs_toRel (tf : TryFrame) (I R : Nat) (spBase : Int) (vm2 : VM) :
    (tf.toRel I R spBase).toAbs vm2.callStack.length vm2.iterStack.length vm2.refStack.length vm2.stack.length
      = shifted tf I R spBase vm2 := by
  simp [TryFrame.toRel, TryFrame.toAbs, shifted]

theorem relView_shifted (tf : TryFrame) (I R : Nat) (spBase : Int) (vm2 : VM) (hI : I ≤ tf.iterLen) (hR : R ≤ tf.refLen) :
    relView (shifted tf I R spBase vm2) vm2.iterStack.length vm2.refStack.length vm2.stack.length = relView tf I R spBase := by
  simp only [relView, shifted, TryFrame.toRel]
  congr 1 <;> omega

theorem getLast?_append_singleton {α : Type} (l : List α) (a : α) : (l ++ [a]).getLast? = some a := by
  simp

theorem dropLast_append_singleton {α : Type} (l : List α) (a : α) : (l ++ [a]).dropLast = l := by
  simp

end GojaModel.C09.Mech

namespace GojaModel.C09.Mech

/-- What `handleThrow` decides at a live frame depends only on its handler positions (vm.go:820-838). -/
def outcomeOf (tf : TryFrame) : Outcome :=
  if tf.catchPos = tryPanicMarker then .uncaught
  else if tf.catchPos ≥ 0 then .caught tf.catchPos
  else if tf.finallyPos ≥ 0 then .toFinally tf.finallyPos
  else .stuck

def TryFrame.dead (tf : TryFrame) : Prop := tf.catchPos = -1 ∧ tf.finallyPos = -1

instance (tf : TryFrame) : Decidable tf.dead := by unfold TryFrame.dead; exact inferInstance

theorem handleThrow_outcome_top (ex : Nat) (vm : VM) (fs : List TryFrame) (tf : TryFrame)
    (h : vm.tryStack = fs ++ [tf]) (hlive : ¬ tf.dead) : (handleThrow ex vm).1 = outcomeOf tf := by
  unfold handleThrow
  rw [h]
  simp only [List.length_append, List.length_cons, List.length_nil, Nat.zero_add]
  unfold handleThrowLoop
  simp only [h, List.getLast?_append, List.getLast?_singleton, Option.some_or]
  unfold TryFrame.dead at hlive
  simp only [hlive, if_false, restoreStacks, outcomeOf]
  split <;> (try split) <;> (try split) <;> simp_all

/-- A dead frame on top is popped and the search continues below it (vm.go:804-807). -/
theorem handleThrow_dead_pops (ex : Nat) (vm : VM) (fs : List TryFrame) (tf : TryFrame)
    (h : vm.tryStack = fs ++ [tf]) (hdead : tf.dead) :
    handleThrow ex vm = handleThrow ex { vm with tryStack := fs } := by
  unfold handleThrow
  rw [h]
  simp only [List.length_append, List.length_cons, List.length_nil, Nat.zero_add]
  conv => lhs; unfold handleThrowLoop
  unfold TryFrame.dead at hdead
  simp [h, hdead]

theorem shifted_handlers (tf : TryFrame) (I R : Nat) (spBase : Int) (vm2 : VM) :
    (shifted tf I R spBase vm2).catchPos = tf.catchPos ∧ (shifted tf I R spBase vm2).finallyPos = tf.finallyPos ∧
    (shifted tf I R spBase vm2).finallyRet = tf.finallyRet ∧ (shifted tf I R spBase vm2).stash = tf.stash ∧
    (shifted tf I R spBase vm2).exc = tf.exc := by
  simp [shifted]

end GojaModel.C09.Mech

namespace GojaModel.C09.Mech

theorem outcomeOf_congr {a b : TryFrame} (hc : b.catchPos = a.catchPos) (hf : b.finallyPos = a.finallyPos) :
    outcomeOf b = outcomeOf a := by simp [outcomeOf, hc, hf]

/-- The handler `handleThrow` selects inside a segment of frames depends only on the frames' handler positions:
two vms whose top segments agree up to a handler-preserving frame map (such as the suspend/resume shift) select
the same handler, whatever lies below the segment, provided some frame of the segment is live. -/
theorem handleThrow_outcome_segment (ex : Nat) (f : TryFrame → TryFrame)
    (hf : ∀ tf, (f tf).catchPos = tf.catchPos ∧ (f tf).finallyPos = tf.finallyPos)
    (rs : List TryFrame) :
    ∀ (vm1 vm2 : VM) (lo1 lo2 : List TryFrame),
      vm1.tryStack = lo1 ++ rs.reverse → vm2.tryStack = lo2 ++ (rs.reverse).map f → (∃ tf ∈ rs, ¬ tf.dead) →
      (handleThrow ex vm1).1 = (handleThrow ex vm2).1 := by
  induction rs with
  | nil => intro _ _ _ _ _ _ h; obtain ⟨_, hm, _⟩ := h; cases hm
  | cons tf rs ih =>
    intro vm1 vm2 lo1 lo2 h1 h2 hlive
    have h1' : vm1.tryStack = (lo1 ++ rs.reverse) ++ [tf] := by simp [h1]
    have h2' : vm2.tryStack = (lo2 ++ rs.reverse.map f) ++ [f tf] := by simp [h2]
    by_cases hd : tf.dead
    · have hd2 : (f tf).dead := by
        unfold TryFrame.dead at *; rw [(hf tf).1, (hf tf).2]; exact hd
      rw [handleThrow_dead_pops ex vm1 _ tf h1' hd, handleThrow_dead_pops ex vm2 _ (f tf) h2' hd2]
      apply ih _ _ lo1 lo2 rfl rfl
      obtain ⟨t, hm, hl⟩ := hlive
      cases hm with
      | head => exact absurd hd hl
      | tail _ hm' => exact ⟨t, hm', hl⟩
    · have hd2 : ¬ (f tf).dead := by
        unfold TryFrame.dead at *; rw [(hf tf).1, (hf tf).2]; exact hd
      rw [handleThrow_outcome_top ex vm1 _ tf h1' hd, handleThrow_outcome_top ex vm2 _ (f tf) h2' hd2]
      exact (outcomeOf_congr (hf tf).1 (hf tf).2).symm

end GojaModel.C09.Mech
