/-
  C09 — property theorems (every `theorem` here is one audited proof obligation).
  Spec model GenReplay (Model.lean): a generator is a state machine driven by next/throw/return.
  Mechanism model GenCtx (Mech.lean): suspend/resume offset rebasing of /repo/vm.go:68-109, func.go:847-880.
-/
import GojaModel.C09.Lemmas
import GojaModel.C09.MechLemmas
import GojaModel.C09.Link
import GojaModel.C09.Layout
import GojaModel.C09.MechReturn
import GojaModel.C09.ReturnSpec
import GojaModel.C09.Async

namespace GojaModel.C09

/-! ## The generator object is a state machine over driver histories -/

/-- Results and log for `h ++ [c]` extend those for `h` by exactly one result and a log suffix: the outcome of a
history never depends on what comes later. -/
theorem genRun_prefix (fuel : Nat) (body : List Stmt) (h : List Cmd) (c : Cmd) :
    ∃ (r : Result) (ev : List Event),
      (genRun fuel body (h ++ [c])).1 = (genRun fuel body h).1 ++ [r] ∧
      (genRun fuel body (h ++ [c])).2 = (genRun fuel body h).2 ++ ev ∧
      (ev, r) = ((genCall fuel (stateAfter fuel (GState.init body) h) c).1,
                 (genCall fuel (stateAfter fuel (GState.init body) h) c).2.1) := by
  refine ⟨_, _, ?_, ?_, rfl⟩ <;> simp [genRun, genRunFrom_append, genRunFrom]

/-- General form: the trace of `h1 ++ h2` is the trace of `h1` followed by the trace of `h2` from the state reached. -/
theorem genRun_append (fuel : Nat) (g : GState) (h1 h2 : List Cmd) :
    genRunFrom fuel g (h1 ++ h2) = genRunFrom fuel g h1 ++ genRunFrom fuel (stateAfter fuel g h1) h2 :=
  genRunFrom_append fuel g h1 h2

/-- The answer of a completed generator (func.go:984, 1009, 1041 / spec 27.5.3.3-4). -/
def completedAnswer (c : Cmd) : Result :=
  match c.kind with
  | .next => .d .undef
  | .throw => .t c.payload
  | .ret => .d c.payload

/-- Once completed, always completed: every later command is answered without running any body code (empty log),
for every history. -/
theorem completed_absorbing (fuel : Nat) (h : List Cmd) :
    genRunFrom fuel .completed h = h.map (fun c => ([], completedAnswer c)) ∧
    (stateAfter fuel .completed h).tag = .completed := by
  induction h with
  | nil => simp [genRunFrom, stateAfter, GState.tag]
  | cons c cs ih =>
    have hc : genCall fuel .completed c = ([], completedAnswer c, .completed) := by
      cases c with
      | mk kind payload => cases kind <;> rfl
    simp [genRunFrom, stateAfter, hc, ih]

/-- throw(e) before the first next(): the generator completes, the body never runs (empty log), e is rethrown. -/
theorem start_throw_completes (fuel : Nat) (c : Conf) (e : Val) :
    genCall fuel (.start c) ⟨.throw, e⟩ = ([], .t e, .completed) := rfl

/-- return(v) before the first next(): `{value: v, done: true}`, completed, the body never runs. -/
theorem start_return_completes (fuel : Nat) (c : Conf) (v : Val) :
    genCall fuel (.start c) ⟨.ret, v⟩ = ([], .d v, .completed) := rfl

/-- Any driver call on an executing generator throws a TypeError and leaves the state alone (func.go:916 validate). -/
theorem executing_reentry_typeerror (fuel : Nat) (cmd : Cmd) :
    genCall fuel .executing cmd = ([], .t .terr, .executing) := rfl

/-- … and that is what a re-entrant call made by the running body evaluates to: an abrupt TypeError at the call. -/
theorem body_reentry_throws (kd : CmdKind) (env : List Val) (k : List Frame) :
    step { ctl := .evalE (.reent kd), env := env, k := k }
      = .cont { ctl := .abrupt (.thr .terr), env := env, k := k } [] := by
  cases kd <;> rfl

/-- The first next(v) ignores v. -/
theorem start_next_ignores_payload (fuel : Nat) (c : Conf) (v w : Val) :
    genCall fuel (.start c) ⟨.next, v⟩ = genCall fuel (.start c) ⟨.next, w⟩ := rfl

/-! ## return(v) runs every pending finally block exactly once, innermost first -/

/-- Unwinding a return completion through ANY continuation stack whose pending finally blocks are straight-line
logs reaches the bottom with the log `finLogs k`: each pending finally block's log exactly once, in stack order
(innermost first), iterators of enclosing for-of loops closed in between; then the generator answers
`{value: v, done: true}`. -/
theorem return_runs_finallies_once (v : Val) (k : List Frame) (env : List Val) (hk : SimpleFins k) :
    Reach { ctl := .abrupt (.ret v), env := env, k := k } (finLogs k) { ctl := .abrupt (.ret v), env := env, k := [] } ∧
    step { ctl := .abrupt (.ret v), env := env, k := [] } = .finished (.d v) [] :=
  ⟨unwind_ret v k env hk, rfl⟩

/-- The same at the level of the fuelled interpreter / generator object: with enough fuel, return(v) on a generator
suspended at a plain yield under `k` logs exactly `finLogs k` and completes with v. -/
theorem return_cmd_runs_finallies_once (v : Val) (k : List Frame) (env : List Val) (ctl : Ctl) (hk : SimpleFins k) :
    ∃ m, ∀ n, genCall (n + m) (.susp { ctl := ctl, env := env, k := k } none) ⟨.ret, v⟩ = (finLogs k, .d v, .completed) := by
  obtain ⟨m, hm⟩ := run_of_reach (unwind_ret v k env hk)
  refine ⟨m + 1, ?_⟩
  intro n
  have h1 : n + (m + 1) = (n + 1) + m := by omega
  simp only [genCall, genPre, GState.tag, resumeCtl]
  rw [h1, hm]
  simp [run, step, stepAbrupt, ofRun]

/-- A yield inside a finally block that runs because of return(v) re-suspends the generator: the call answers
`{value: a, done: false}`, and the pending return completion is kept in the continuation (frame `finK`). -/
theorem return_yield_in_finally_resuspends (fuel : Nat) (v a : Val) (cc : Option (Nat × List Stmt)) (rest : List Stmt)
    (k : List Frame) (env : List Val) (ctl : Ctl) :
    genCall (fuel + 5)
        (.susp { ctl := ctl, env := env, k := .tryK cc (some (.expr (.yld (.lit a)) :: rest)) :: k } none) ⟨.ret, v⟩
      = ([], .y a, .susp { ctl := .val .undef, env := env, k := .seqK rest :: (.finK (some (.ret v))) :: k } none) := by
  cases cc <;> rfl

/-- … and when it is resumed by next(), the rest of the finally block runs and the pending return continues outward. -/
theorem resumed_finally_continues_return (v w : Val) (vs : List Val) (k : List Frame) (env : List Val) (hk : SimpleFins k) :
    Reach { ctl := .val w, env := env, k := .seqK (litLogs vs) :: (.finK (some (.ret v))) :: k }
          (vs.map showVal ++ finLogs k) { ctl := .abrupt (.ret v), env := env, k := [] } := by
  have s1 : step { ctl := .val w, env := env, k := .seqK (litLogs vs) :: (.finK (some (.ret v))) :: k }
      = .cont { ctl := .exec (litLogs vs), env := env, k := (.finK (some (.ret v))) :: k } [] := rfl
  have r1 := reach_litLogs vs env ((.finK (some (.ret v))) :: k)
  have s2 : step { ctl := .val .undef, env := env, k := (.finK (some (.ret v))) :: k }
      = .cont { ctl := .abrupt (.ret v), env := env, k := k } [] := rfl
  have := Reach.cons s1 (Reach.trans r1 (Reach.cons s2 (unwind_ret v k env hk)))
  simpa using this

/-! Hypotheses are satisfiable by non-trivial states (tests, not proofs of the property). -/
example : SimpleFins [.seqK [], .tryK none (some (litLogs [.num 1])), .addR (.num 2), .catchK (some (litLogs [.str "f", .undef]))] := by
  simp only [SimpleFins]; exact ⟨⟨_, rfl⟩, ⟨_, rfl⟩, trivial⟩
example : finLogs [.seqK [], .tryK none (some (litLogs [.num 1])), .addR (.num 2), .catchK (some (litLogs [.str "f", .undef]))]
    = ["i1", "sf", "u"] := by decide

/-! ## Mechanism: suspend / resume -/
open Mech

/-- `suspend` truncates the three auxiliary stacks to the lengths recorded at entry and touches nothing else. -/
theorem suspend_leaves_caller_clean (vm : VM) (T I R : Nat) :
    (suspend vm T I R).2.tryStack = vm.tryStack.take T ∧
    (suspend vm T I R).2.iterStack = vm.iterStack.take I ∧
    (suspend vm T I R).2.refStack = vm.refStack.take R ∧
    (suspend vm T I R).2.stack = vm.stack ∧
    (suspend vm T I R).2.callStack = vm.callStack ∧
    (suspend vm T I R).2.cur = vm.cur := by
  rw [suspend_vm]; simp

/-- For EVERY vm state `vm2` at the new call site: the resumed frames are the suspended frames shifted by
(Δsp, Δiter, Δref) with callStackLen reset, appended to the caller's; likewise the copied stack segment and the
iter/ref slices; `sb` is rebased to the new `sp + 1`. -/
theorem resume_suspend_shift (vm vm2 : VM) (T I R : Nat) :
    (resume vm2 (suspend vm T I R).1).tryStack
        = vm2.tryStack ++ (vm.tryStack.drop T).map (fun tf => shifted tf I R (vm.cur.sb - 1).toNat vm2) ∧
    (resume vm2 (suspend vm T I R).1).stack = vm2.stack ++ vm.stack.drop (vm.cur.sb - 1).toNat ∧
    (resume vm2 (suspend vm T I R).1).iterStack = vm2.iterStack ++ vm.iterStack.drop I ∧
    (resume vm2 (suspend vm T I R).1).refStack = vm2.refStack ++ vm.refStack.drop R ∧
    (resume vm2 (suspend vm T I R).1).callStack = vm2.callStack ∧
    (resume vm2 (suspend vm T I R).1).cur = { vm.cur with sb := vm2.stack.length + 1 } := by
  refine ⟨?_, ?_, ?_, ?_, ?_, ?_⟩
  · simp only [suspend_ectx, resume, List.map_map]
    congr 1
  all_goals simp [suspend_ectx, resume]

/-- Hence the generator-relative view of every frame (offsets relative to the generator's own bases) is the same
before suspension and after resumption at any other site. -/
theorem resume_suspend_relView (vm vm2 : VM) (T I R : Nat) (hf : FramesAbove (vm.tryStack.drop T) I R (vm.cur.sb - 1).toNat) :
    ((resume vm2 (suspend vm T I R).1).tryStack.drop vm2.tryStack.length).map
        (fun tf => relView tf vm2.iterStack.length vm2.refStack.length vm2.stack.length)
      = (vm.tryStack.drop T).map (fun tf => relView tf I R (vm.cur.sb - 1).toNat) := by
  have h := (resume_suspend_shift vm vm2 T I R).1
  rw [h, List.drop_left, List.map_map]
  apply List.map_congr_left
  intro tf htf
  exact relView_shifted tf I R (vm.cur.sb - 1).toNat vm2 (hf tf htf).1 (hf tf htf).2.1 (hf tf htf).2.2

/-- `handleThrow` after resume selects the handler it would have selected before suspension: same catch position,
same finally position, or propagation out of the generator — at ANY new call site `vm2`, for ANY vm (not necessarily
in `rebase` form), through any number of dead frames.  (The state-equality version is `resume_suspend_commutes_handleThrow`.) -/
theorem resume_suspend_handleThrow_same_handler (ex : Nat) (vm vm2 : VM) (T I R : Nat)
    (hlive : ∃ tf ∈ vm.tryStack.drop T, ¬ tf.dead) :
    (handleThrow ex (resume vm2 (suspend vm T I R).1)).1 = (handleThrow ex vm).1 := by
  have h2 := (resume_suspend_shift vm vm2 T I R).1
  refine (handleThrow_outcome_segment ex (fun tf => shifted tf I R (vm.cur.sb - 1).toNat vm2)
    (fun tf => ⟨(shifted_handlers tf I R _ vm2).1, (shifted_handlers tf I R _ vm2).2.1⟩)
    (vm.tryStack.drop T).reverse vm _ (vm.tryStack.take T) vm2.tryStack ?_ ?_ ?_).symm
  · simp
  · simpa using h2
  · obtain ⟨tf, hm, hl⟩ := hlive
    exact ⟨tf, by simpa using hm, hl⟩

/-! ### State equality: every mechanism step on the generator-owned part commutes with a change of caller

`rebase lo g` = the generator-owned vm part `g` (offsets relative to its own bottom; it may have call frames above the
generator's own) standing on top of the caller's vm `lo`.  -/

/-- `handleThrow` does the same thing to the generator-owned part whatever the caller below: same handler, same
iterators closed, and the resulting vm is the re-based image of ONE site-independent result — including extra call
frames above the generator (context restoration from `callStack[tf.callStackLen]`, vm.go:809-814) and any number of
dead frames. -/
theorem handleThrow_site_independent (ex : Nat) (lo1 lo2 g : VM) (hlive : ∃ tf ∈ g.tryStack, ¬ tf.dead) :
    handleThrow ex (rebase lo1 g) = rebaseRes lo1 (handleThrow ex g) ∧
    handleThrow ex (rebase lo2 g) = rebaseRes lo2 (handleThrow ex g) := by
  have h : ∀ lo, handleThrow ex (rebase lo g) = rebaseRes lo (handleThrow ex g) := fun lo =>
    handleThrow_rebase ex lo g.tryStack.reverse g [] (by simp)
      (by obtain ⟨tf, hm, hl⟩ := hlive; exact ⟨tf, by simpa using hm, hl⟩)
  exact ⟨h lo1, h lo2⟩

/-- suspend ∘ resume IS a change of caller: a generator part standing at a yield on `lo`, suspended with `lo`'s
recorded lengths and resumed on ANY `vm2`, is the same part standing on `vm2`. -/
theorem resume_suspend_is_rebase (lo vm2 g : VM) (hg : AtYield g) :
    resume vm2 (suspend (rebase lo g) lo.tryStack.length lo.iterStack.length lo.refStack.length).1 = rebase vm2 g :=
  resume_suspend_rebase lo vm2 g hg

/-- Resuming at the very site of suspension restores the vm exactly. -/
theorem resume_suspend_id (lo g : VM) (hg : AtYield g) :
    resume lo (suspend (rebase lo g) lo.tryStack.length lo.iterStack.length lo.refStack.length).1 = rebase lo g :=
  resume_suspend_rebase lo lo g hg

/-- Full-strength commutation: `handleThrow` after suspend + resume at any other site acts exactly as it would have
acted before suspension — the two results are the images, over the two callers, of the same generator-relative
result (outcome, closed iterators and state). -/
theorem resume_suspend_commutes_handleThrow (ex : Nat) (lo vm2 g : VM) (hg : AtYield g) (hlive : ∃ tf ∈ g.tryStack, ¬ tf.dead) :
    handleThrow ex (resume vm2 (suspend (rebase lo g) lo.tryStack.length lo.iterStack.length lo.refStack.length).1)
        = rebaseRes vm2 (handleThrow ex g) ∧
    handleThrow ex (rebase lo g) = rebaseRes lo (handleThrow ex g) := by
  rw [resume_suspend_rebase lo vm2 g hg]
  exact (handleThrow_site_independent ex vm2 lo g hlive)

example : AtYield { cur := { sb := 1, pc := 7 }, stack := [9, 1, 2], callStack := [], iterStack := [5], refStack := [],
                    tryStack := [{ callStackLen := 0, iterLen := 1, refLen := 0, sp := 2, stash := 0, catchPos := 4, finallyPos := 8 }] } := by
  refine ⟨rfl, rfl, ?_⟩; intro tf h; simp at h; subst h; rfl

/-- `leaveTry` (popTryFrame) after resume pops the shifted image of the frame it would have popped before. -/
theorem resume_suspend_commutes_leaveTry (vm vm2 : VM) (T I R : Nat) (seg : List TryFrame) (tf : TryFrame)
    (h : vm.tryStack.drop T = seg ++ [tf]) :
    (popTryFrame (resume vm2 (suspend vm T I R).1)).tryStack
      = vm2.tryStack ++ seg.map (fun tf => shifted tf I R (vm.cur.sb - 1).toNat vm2) := by
  have h2 := (resume_suspend_shift vm vm2 T I R).1
  simp only [popTryFrame, h2, h, List.map_append, List.map_cons, List.map_nil]
  rw [← List.append_assoc, List.dropLast_concat]

/-- A full next() round trip that ends in a yield leaves the CALLER's vm exactly as it was before the call —
for ANY behaviour of the body in between that respects the frame discipline (it may push and pop above the
recorded bases but leaves the caller's parts and its own context registers alone). -/
theorem next_yield_cycle_restores_caller (g : Gen) (vm0 vmB : VM) (hasValue : Bool)
    (hT : vmB.tryStack.take (enterNext g vm0).1.tryStackLen = (enterNext g vm0).2.tryStack.take (enterNext g vm0).1.tryStackLen)
    (hI : vmB.iterStack.take (enterNext g vm0).1.iterStackLen = vm0.iterStack)
    (hR : vmB.refStack.take (enterNext g vm0).1.refStackLen = vm0.refStack)
    (hC : vmB.callStack = (enterNext g vm0).2.callStack)
    (hsb : vmB.cur.sb = (enterNext g vm0).2.cur.sb)
    (hS : (vmB.stack.dropLast.take vm0.stack.length = vm0.stack) ∧ (vmB.stack.dropLast.dropLast.take vm0.stack.length = vm0.stack)) :
    nextEpilogue (yieldEpilogue (enterNext g vm0).1 vmB hasValue).2 = vm0 := by
  simp only [enterNext, storeLengths, pushCtx, pushTryFrame, resume] at *
  simp only [nextEpilogue, yieldEpilogue, suspend_vm, popTryFrame, popCtx]
  cases vm0 with
  | mk cur stack callStack iterStack refStack tryStack =>
    simp only [List.length_append, List.length_cons, List.length_nil] at *
    have e1 : (↑stack.length + 1 - 1 : Int).toNat = stack.length := by omega
    have e2 : List.take (tryStack.length + 1) tryStack = tryStack := List.take_of_length_le (by omega)
    cases hasValue <;> simp_all [List.take_append]

/-! Non-vacuity of the hypotheses above (tests). -/
example : FramesAbove [{ callStackLen := 3, iterLen := 2, refLen := 1, sp := 9, stash := 0, catchPos := 4, finallyPos := -1 }] 1 1 4 := by
  intro tf h; simp at h; subst h; simp

end GojaModel.C09

namespace GojaModel.C09

/-! ## Regression lemmas: what the SPEC answers on the minimal inputs of the two defects repaired by 379f30d / 8004794.
These are facts about the spec model on literals (tests of the model, and the reference answers for the replays). -/

/-- `function*g(){try{yield 1}catch(e){x0=e}finally{yield 3}}` driven by next, next, throw(9): the throw delivered
inside the finally block leaves the generator (goja before 379f30d: caught by the statement's own catch, yields 3 again). -/
theorem spec_answer_throw_in_finally_regression :
    (genRun 50 [.tryS [.expr (.yld (.lit (.num 1)))] (some (0, [])) (some [.expr (.yld (.lit (.num 3)))])]
        [⟨.next, .undef⟩, ⟨.next, .undef⟩, ⟨.throw, .num 9⟩]).1
      = [.y (.num 1), .y (.num 3), .t (.num 9)] := by decide

/-- `function*g(){try{try{yield 1}finally{throw 5}}catch(e){x0=e}finally{} return 9}` driven by next, return(7):
the throw raised inside the return-triggered finally is caught by the enclosing catch and the generator returns 9
(goja before 8004794: the exception escaped every enclosing handler, including the caller's). -/
theorem spec_answer_throw_in_return_finally_regression :
    (genRun 50 [.tryS [.tryS [.expr (.yld (.lit (.num 1)))] none (some [.thr (.lit (.num 5))])] (some (0, [])) (some []),
                .ret (.lit (.num 9))]
        [⟨.next, .undef⟩, ⟨.ret, .num 7⟩]).1
      = [.y (.num 1), .d (.num 9)] := by decide

end GojaModel.C09

namespace GojaModel.C09

/-! ## Async functions are the generator state machine driven by promise reactions -/
open Async in
/-- goja's `asyncRunner` over the promise job queue — each `await` registering reactions that become FIFO jobs at once
(awaited promise already settled) or when the host settles the promise later — produces exactly the trace of the
generator state machine driven by `next(undefined)` followed by one `next(v)` / `throw(e)` per fulfilled / rejected
awaited promise, cut at completion; for every body, every script of awaited promises, every mix of settle times. -/
theorem async_is_genRun_on_promises (fuel : Nat) (g : GState) (script : List Async.Awaited) (n : Nat)
    (hn : 2 * script.length ≤ n) :
    (drive fuel n (start fuel g script)).trace
      = cutTrace (genRunFrom fuel g (⟨.next, .undef⟩ :: script.map cmdOf)) := by
  simp only [start, genRunFrom, cutTrace]
  rw [arStep_from_idle]
  generalize genCall fuel g ⟨.next, .undef⟩ = r
  obtain ⟨ev, res, g'⟩ := r
  cases res with
  | y v =>
    have : ({ awaitSt g' script ([] ++ [(ev, Result.y v)]) with cap := none } : ARun) = awaitSt g' script ([] ++ [(ev, Result.y v)]) := by
      cases script with
      | nil => rfl
      | cons b rs => simp only [awaitSt]; cases b.settle <;> rfl
    simp only [this]
    rw [drive_await fuel script g' _ n hn, specRun_eq_cut]; simp
  | d v => simp [drive_idle]
  | t v => simp [drive_idle]
  | fuel => simp [drive_idle]

open Async in
/-- … and the promise returned by the async function is settled exactly when and how that trace ends: resolved with
the body's return value, rejected with its uncaught exception, pending while the last result is a suspension. -/
theorem async_capability_settles_once (fuel : Nat) (g : GState) (script : List Async.Awaited) :
    (start fuel g script).cap = (match (genCall fuel g ⟨.next, .undef⟩).2.1 with | .y _ => none | r => some r) := by
  simp only [start]
  rw [arStep_from_idle]
  generalize genCall fuel g ⟨.next, .undef⟩ = r
  obtain ⟨ev, res, g'⟩ := r
  cases res <;> simp

/-! ## Link between the two models: the mechanism dispatches where the spec's unwinding dispatches -/

/-- On the try-stack layout of ANY spec continuation, placed anywhere, `handleThrow` selects the handler that the
spec's unwinding (`stepAbrupt`) selects (Link.lean). -/
theorem mech_throw_dispatch_refines_spec (ex : Nat) (spOf : Nat → Nat) (f : Mech.TryFrame → Mech.TryFrame)
    (hf : ∀ tf, (f tf).catchPos = tf.catchPos ∧ (f tf).finallyPos = tf.finallyPos) (k : List Frame)
    (vm : Mech.VM) (lo : List Mech.TryFrame) (h : Nat × Bool)
    (hvm : vm.tryStack = lo ++ (Link.encode spOf k).map f) (hs : Link.specThrowHandler k = some h) :
    (Mech.handleThrow ex vm).1 = Link.outcomeOfSpec (some h) :=
  Link.handleThrow_matches_spec ex spOf f hf k vm lo h hvm hs

/-- The yield/resume cycle preserves that link at every call site. -/
theorem yield_resume_cycle_preserves_spec_dispatch (ex : Nat) (spOf : Nat → Nat) (k : List Frame) (lo vm2 g : Mech.VM)
    (hg : Mech.AtYield g) (hk : g.tryStack = Link.encode spOf k) (h : Nat × Bool) (hs : Link.specThrowHandler k = some h) :
    (Mech.handleThrow ex (Mech.resume vm2 (Mech.suspend (Mech.rebase lo g) lo.tryStack.length lo.iterStack.length lo.refStack.length).1)).1
        = Link.outcomeOfSpec (some h) ∧
    (Mech.handleThrow ex (Mech.rebase lo g)).1 = Link.outcomeOfSpec (some h) :=
  Link.throw_dispatch_after_resume_matches_spec ex spOf k lo vm2 g hg hk h hs

end GojaModel.C09

namespace GojaModel.C09

/-- Return dispatch of the mechanism refines the spec: on the layout of ANY spec continuation, `enterNextFinallyFrame`
(as repaired by 8004794) enters the finally block that the spec's unwinding of a return completion enters, AND makes
the scope object saved in that try frame current (`vm.stash = tf.stash`, func.go:785): the finally block runs in the
scope of its try statement (`specReturnScope` = number of block scopes around the try), whatever inner block scope —
with its own closure-captured bindings — the body was suspended in, and whatever `vm.stash` was before. -/
theorem mech_return_dispatch_refines_spec (spOf : Nat → Nat) (f : Mech.TryFrame → Mech.TryFrame) (C : Nat)
    (hf : ∀ tf, (f tf).finallyPos = tf.finallyPos ∧ (f tf).callStackLen = C ∧ (f tf).stash = tf.stash) (k : List Frame)
    (vm : Mech.VM) (lo : List Mech.TryFrame) (i sc : Nat) (hC : vm.callStack.length = C)
    (hvm : vm.tryStack = lo ++ (Link.encode spOf k).map f) (hs : Link.specReturnHandler k = some i)
    (hsc : Link.specReturnScope k = some sc) :
    (Mech.enterNextFinallyFrame [] vm).1 = true ∧ (Mech.enterNextFinallyFrame [] vm).2.2.cur.pc = 2 * (i : Int) + 1 ∧
    (Mech.enterNextFinallyFrame [] vm).2.2.cur.stash = sc :=
  Link.enterNextFinallyFrame_matches_spec spOf f C hf k vm lo [] i sc hC hvm hs hsc

/-- (test) a body suspended at a yield inside an inner block scope of a try block: the pending finally lives in scope 0. -/
example : Link.specReturnScope [.seqK [], .blkK, .seqK [], .tryK none (some []), .seqK []] = some 0 := by decide
example : Link.specReturnScope [.yldK, .blkK, .tryK none (some []), .seqK [], .blkK, .seqK []] = some 1 := by decide

/-- The content of repair 8004794: the frame whose finally block return(v) enters is dead for `handleThrow`, so an
exception raised in that block is dispatched to the enclosing handlers exactly as if the frame had been popped. -/
theorem return_finally_frame_is_dead (ex : Nat) (vm : Mech.VM) (fs : List Mech.TryFrame) (tf : Mech.TryFrame)
    (h : vm.tryStack = fs ++ [tf]) (hc : tf.callStackLen = vm.callStack.length) (hfin : tf.finallyPos ≥ 0) :
    (Mech.enterNextFinallyFrame [] vm).1 = true ∧
    Mech.handleThrow ex (Mech.enterNextFinallyFrame [] vm).2.2
      = Mech.handleThrow ex { (Mech.enterNextFinallyFrame [] vm).2.2 with tryStack := fs } :=
  Mech.return_finally_frame_is_dead ex vm fs tf h hc hfin

/-- Regression lemma (old mechanism, before 8004794): with the frame marked `tryPanicMarker`, `handleThrow` reported
every exception raised in a return-triggered finally as leaving the generator, whatever handlers enclosed it. -/
theorem old_return_finally_marking_escapes_prefix_witness (ex : Nat) (vm : Mech.VM) (fs : List Mech.TryFrame) (tf : Mech.TryFrame)
    (h : vm.tryStack = fs ++ [{ tf with catchPos := Mech.tryPanicMarker, finallyPos := -1, finallyRet := -2 }]) :
    (Mech.handleThrow ex vm).1 = .uncaught :=
  Mech.old_marking_escapes_prefix_witness ex vm fs tf h

end GojaModel.C09

namespace GojaModel.C09

/-! ## break / continue (optionally labelled) and iterator closing -/

/-- A return, break or continue completion aimed beyond the frames `pre` (no loop in `pre` consumes it) runs every
pending finally block of `pre` exactly once, innermost first, closing the for-of iterators of `pre` in place, and
arrives unchanged at the frames below — for ANY continuation prefix whose finally blocks are straight-line logs. -/
theorem nonthrow_completion_runs_finallies_once (cp : Completion) (hcp : isThr cp = false) (pre rest : List Frame)
    (env : List Val) (hk : SimpleFins pre) (hp : Passes cp pre) :
    Reach { ctl := .abrupt cp, env := env, k := pre ++ rest } (finLogs pre) { ctl := .abrupt cp, env := env, k := rest } :=
  unwind_nonthrow cp hcp pre rest env hk hp

/-- `continue` reaching its for-of loop goes on with the next iteration and does NOT close the iterator. -/
theorem continue_keeps_iterator_open (l lf : Label) (x : Nat) (it : IterState) (body : List Stmt) (env : List Val)
    (k : List Frame) (h : loopCatches lf l = true) :
    step { ctl := .abrupt (.cont l), env := env, k := .forOfK lf x it body :: k }
      = .cont { ctl := .forOfGo lf x it body, env := env, k := k } [] := by
  simp [step, stepAbrupt, loopAction, h]

/-- `break` reaching its for-of loop closes the iterator (IteratorClose) and the loop completes normally … -/
theorem break_closes_iterator (l lf : Label) (x : Nat) (it : IterState) (body : List Stmt) (env : List Val)
    (k : List Frame) (h : loopCatches lf l = true) (hc : (iterClose it).2 = none) :
    step { ctl := .abrupt (.brk l), env := env, k := .forOfK lf x it body :: k }
      = .cont { ctl := .val .undef, env := env, k := k } (iterClose it).1 := by
  simp only [step, stepAbrupt, loopAction, h]
  generalize iterClose it = cl at hc
  obtain ⟨ev, err⟩ := cl
  simp only at hc; subst hc; simp

/-- … unless the iterator's `return()` throws: then that error replaces every completion leaving the loop except a
throw, which wins (§7.4.11 IteratorClose steps 5–6). -/
theorem iterator_return_throw_replaces_nonthrow (cp : Completion) (lf : Label) (x : Nat) (it : IterState) (body : List Stmt)
    (env : List Val) (k : List Frame) (e : Val) (hc : (iterClose it).2 = some e) (hn : loopAction lf cp ≠ some false) :
    step { ctl := .abrupt cp, env := env, k := .forOfK lf x it body :: k }
      = .cont { ctl := .abrupt (if isThr cp then cp else .thr e), env := env, k := k }
          (iterClose it).1 := by
  simp only [step, stepAbrupt]
  generalize iterClose it = cl at hc
  obtain ⟨ev, err⟩ := cl
  simp only at hc; subst hc
  cases hla : loopAction lf cp with
  | none => cases cp <;> simp_all [isThr]
  | some b => cases b <;> cases cp <;> simp_all [isThr]

/-! ## Generality of the `rebase` form -/

/-- Every vm whose generator-owned frames record lengths at or above the bases is `rebase lo g` of its lower part and
its relative generator part — so `handleThrow_site_independent` and the other `rebase` theorems cover every such vm. -/
theorem every_wellformed_vm_is_rebased (vm : Mech.VM) (T I R S C : Nat)
    (hS : S ≤ vm.stack.length) (hC : C ≤ vm.callStack.length) (hI : I ≤ vm.iterStack.length) (hR : R ≤ vm.refStack.length)
    (hf : ∀ tf ∈ vm.tryStack.drop T, C ≤ tf.callStackLen ∧ I ≤ tf.iterLen ∧ R ≤ tf.refLen ∧ S ≤ tf.sp) :
    Mech.rebase (Mech.lowerOf vm T I R S C) (Mech.genOf vm T I R S C) = vm :=
  Mech.rebase_decompose vm T I R S C hS hC hI hR hf

end GojaModel.C09

namespace GojaModel.C09

/-! ## `generator.step1`'s returning loop (repair 5eca78e) -/

/-- An exception caught inside the generator while `returning` is set is transparent to the loop: any number of such
come-backs, anywhere in the oracle, change nothing (the body just keeps running). -/
theorem caught_exception_is_transparent_while_returning (g : Mech.Gen) (throwing : List Nat)
    (pre rest : List (Mech.RunBack × Mech.VM)) (hpre : ∀ e ∈ pre, e.1 = .caught) :
    Mech.step1Returning g throwing (pre ++ rest) = Mech.step1Returning g throwing rest := by
  induction pre with
  | nil => rfl
  | cons e pre ih =>
    obtain ⟨ev, vm⟩ := e
    have h1 : ev = .caught := hpre (ev, vm) (by simp)
    subst h1
    simp only [List.cons_append, Mech.step1Returning]
    exact ih (fun e he => hpre e (by simp [he]))

/-- Regression lemma (old loop, before 5eca78e): the first caught come-back ended the step with a popped stack value
taken for the result — never `returnCompleted`, whatever followed. -/
theorem old_returning_loop_pops_garbage_prefix_witness (g : Mech.Gen) (throwing : List Nat) (vm : Mech.VM)
    (rest : List (Mech.RunBack × Mech.VM)) :
    (Mech.step1ReturningOld g throwing ((.caught, vm) :: rest)).1 ≠ .returnCompleted ∧
    (Mech.step1ReturningOld g throwing ((.caught, vm) :: rest)).2 = some { vm with stack := vm.stack.dropLast } := by
  simp only [Mech.step1ReturningOld]
  constructor
  · split <;> simp
  · trivial

end GojaModel.C09

namespace GojaModel.C09

/-! ## `yield*` delegation corner cases (§15.5.5 step 7; func.go generatorObject.next / throw / _return) -/

/-- throw(e) while delegating to an iterator WITHOUT a `throw` method: the iterator is closed (its `return()` is called
if it has one) and a TypeError — or the error `return()` itself raised — is thrown at the `yield*` point, inside the
body (so the body's handlers see it). -/
theorem delegate_missing_throw_closes_then_typeerror (it : IterState) (c : Conf) (e : Val) (h : it.spec.hasThrow = false) :
    delegCmd it ⟨.throw, e⟩ c
      = .cont { c with ctl := .abrupt (.thr (match (iterClose it).2 with | some x => x | none => .terr)) } (iterClose it).1 := by
  simp only [delegCmd, h]
  generalize iterClose it = cl
  obtain ⟨ev, err⟩ := cl
  cases err <;> simp

/-- return(v) while delegating to an iterator WITHOUT a `return` method: the return completion continues in the body
with v (pending finally blocks run), the iterator is not touched. -/
theorem delegate_missing_return_returns (it : IterState) (c : Conf) (v : Val) (h : it.spec.hasReturn = false) :
    delegCmd it ⟨.ret, v⟩ c = .cont { c with ctl := .abrupt (.ret v) } [] := by
  simp [delegCmd, h]

/-- return(v) while delegating to an iterator whose `return()` answers a non-object: TypeError at the `yield*` point. -/
theorem delegate_return_nonobject_typeerror (it : IterState) (c : Conf) (v : Val)
    (hg : it.spec.isGen = false) (h : it.spec.ret = 3) :
    delegCmd it ⟨.ret, v⟩ c = .cont { c with ctl := .abrupt (.thr .terr) } [it.spec.tag ++ "r" ++ showVal v] := by
  simp [delegCmd, IterSpec.hasReturn, iterReturn, hg, h]

/-- throw(e) while delegating to an iterator whose `throw()` answers a non-object: TypeError at the `yield*` point. -/
theorem delegate_throw_nonobject_typeerror (it : IterState) (c : Conf) (e : Val)
    (hg : it.spec.isGen = false) (h : it.spec.thr = 4) :
    delegCmd it ⟨.throw, e⟩ c = .cont { c with ctl := .abrupt (.thr .terr) } [it.spec.tag ++ "t" ++ showVal e] := by
  simp [delegCmd, IterSpec.hasThrow, iterThrow, hg, h]

/-- The same iterator closed by a loop exit (IteratorClose): a non-object result of `return()` is a TypeError that
replaces every completion except a throw. -/
theorem close_nonobject_is_typeerror (it : IterState) (hg : it.spec.isGen = false) (h : it.spec.ret = 3) :
    iterClose it = ([it.spec.tag ++ "r" ++ showVal .undef], some .terr) := by
  simp [iterClose, IterSpec.hasReturn, iterReturn, hg, h]

/-- A re-entrant next()/throw()/return() on the generator made from inside its delegate's (or its for-of iterator's)
method is rejected with a TypeError whatever the command: the generator is running (GeneratorValidate). -/
theorem delegate_reentry_typeerror (kd : CmdKind) : reentOutcome kd = .terr := by
  cases kd <;> rfl

/-- … and that is what such an iterator observes and logs on its second `next()`. -/
theorem reentrant_iterator_logs_typeerror (st : IterState) (v : Val) (kd : CmdKind)
    (hk : st.spec.reentKind = some kd) (hp : st.pos = 1) (hl : 1 < st.spec.items.length) :
    (iterNext st v).1 = [st.spec.tag ++ "n" ++ showVal v, st.spec.tag ++ "x" ++ showVal .terr] := by
  have hg : st.spec.isGen = false := by
    cases hgen : st.spec.isGen
    · rfl
    · simp [IterSpec.reentKind, hgen] at hk
  have hsome : ∃ x, st.spec.items[st.pos]? = some x := by
    rw [hp]; exact ⟨st.spec.items[1], by simp [hl]⟩
  obtain ⟨x, hx⟩ := hsome
  simp [iterNext, hk, hp, hl, hg, delegate_reentry_typeerror]
  split <;> rfl

/-- A value yielded by the delegate passes through unchanged and the generator stays suspended, still delegating;
when the delegate is done its result value becomes the value of the `yield*` expression. -/
theorem delegate_next_passes_through (it : IterState) (c : Conf) (v : Val) :
    delegCmd it ⟨.next, v⟩ c =
      (match iterNext it v with
       | (ev, .yielded w it') => .yielded w c (some it') ev
       | (ev, .done w) => .cont { c with ctl := .val w } ev
       | (ev, .threw e) => .cont { c with ctl := .abrupt (.thr e) } ev) := by
  simp only [delegCmd]
  generalize iterNext it v = r
  obtain ⟨ev, o⟩ := r
  cases o <;> rfl

end GojaModel.C09

namespace GojaModel.C09

/-! ## uint32 / int32 wrap-around of the saved offsets

goja keeps `tf.iterLen`, `tf.refLen`, `tf.callStackLen` as `uint32` and `tf.sp` as `int32`; `suspend` subtracts the old
base and `resume` adds the new one in that arithmetic (vm.go:77-79, 101-104).  `Mech` uses `Nat` with truncated
subtraction.  The two agree as long as the RESULT is below 2^32 (2^31 for `sp`): Go's wrap-around arithmetic is
addition modulo 2^32, so even a transient under-flow of the intermediate value is harmless. -/

def sub32 (a b : Nat) : Nat := (a + 4294967296 - b % 4294967296) % 4294967296     -- uint32 `a - b`
def add32 (a b : Nat) : Nat := (a + b) % 4294967296                                -- uint32 `a + b`

/-- Under the frame discipline (`b ≤ a`: the frame was pushed above the generator's base) and a result below 2^32 the
machine arithmetic of suspend-then-resume is exactly the `Nat` arithmetic of the model. -/
theorem wrap_rebase_exact (a b c : Nat) (ha : a < 4294967296) (hb : b ≤ a) (hr : a - b + c < 4294967296) :
    add32 (sub32 a b) c = a - b + c := by
  unfold add32 sub32; omega

/-- Without any discipline the composition is still the modular sum `a - b + c (mod 2^32)`: an under-flowing
intermediate value does not corrupt the result. -/
theorem wrap_rebase_modular (a b c : Nat) (ha : a < 4294967296) (hb : b < 4294967296) :
    add32 (sub32 a b) c = (a + c + 4294967296 - b) % 4294967296 := by
  unfold add32 sub32; omega

/-- `int32 tf.sp` (two's complement residues): exact below 2^31. -/
theorem wrap_rebase_exact_int32 (a b c : Nat) (ha : a < 2147483648) (hb : b ≤ a) (hr : a - b + c < 2147483648) :
    add32 (sub32 a b) c = a - b + c ∧ add32 (sub32 a b) c < 2147483648 := by
  unfold add32 sub32; omega

end GojaModel.C09

namespace GojaModel.C09

/-! ## Compiler layout: `Link.encode` of the continuation is an invariant, not an assumption (Layout.lean)

Given the instruction scheme of compiler_stmt.go:105 `compileTryStatement` / `emitBlockExitCode` and the transcribed
effects of `try`, `leaveTry`, `enterFinally`, `leaveFinally`, `handleThrow`, `enterNextFinallyFrame` on the top try frame
(`Link.LayoutOp`), the layout on which the dispatch theorems rest is maintained by every step of the spec machine. The
correspondence `corr:layout-encode` compares it with goja's saved try stack at every suspension. -/

/-- Every machine step changes the layout by one try-frame instruction effect (push / pop / disarm catch / disarm both)
or leaves it alone. -/
theorem layout_closed_under_steps (spOf : Nat → Nat) (c c' : Conf) (ev : List Event) (h : step c = .cont c' ev) :
    Link.LayoutOp (Link.encode spOf c.k) (Link.encode spOf c'.k) :=
  Link.layout_step spOf c c' ev h

/-- A suspension (yield, or a delegate's yield) leaves the layout untouched. -/
theorem layout_untouched_by_suspension (spOf : Nat → Nat) (c c' : Conf) (v : Val) (d : Option IterState) (ev : List Event)
    (h : step c = .yielded v c' d ev) : Link.encode spOf c'.k = Link.encode spOf c.k :=
  Link.layout_yield spOf c c' v d ev h

/-- After ANY driver history from ANY generator state, if the generator is suspended, the layout of its continuation was
produced from the one it started with by try-frame instruction effects only (from the empty layout for a fresh
generator). -/
theorem layout_invariant_over_histories (spOf : Nat → Nat) (fuel : Nat) (h : List Cmd) (g : GState) (c' : Conf)
    (d' : Option IterState) (hs : stateAfter fuel g h = .susp c' d') :
    Link.LayoutOps (Link.encode spOf (Link.kOf g)) (Link.encode spOf c'.k) :=
  Link.history_layout spOf fuel h g c' d' hs

example (body : List Stmt) : Link.encode (fun _ => 0) (Link.kOf (GState.init body)) = [] := rfl

end GojaModel.C09

namespace GojaModel.C09

/-- `try` entry pushes a frame with catch armed iff a catch clause exists, finally armed iff a finally block exists. -/
theorem layout_try_entry (spOf : Nat → Nat) (b : List Stmt) (cc : Option (Nat × List Stmt)) (fin : Option (List Stmt))
    (rest : List Stmt) (env : List Val) (k : List Frame) :
    ∃ c', step { ctl := .exec (.tryS b cc fin :: rest), env := env, k := k } = .cont c' [] ∧
      Link.encode spOf c'.k = Link.encode spOf k ++
        [Link.mkTF spOf (Link.countTryish k) (Link.countForOf k) (Link.countBlk k)
           (if cc.isSome then 2 * (Link.countTryish k : Int) else -1) (if fin.isSome then 2 * (Link.countTryish k : Int) + 1 else -1)] :=
  Link.try_entry_pushes_frame spOf b cc fin rest env k

/-- A caught exception disarms the catch only; the finally stays armed. -/
theorem layout_caught_exception (spOf : Nat → Nat) (v : Val) (x : Nat) (cb : List Stmt) (fin : Option (List Stmt))
    (env : List Val) (k : List Frame) :
    ∃ c', step { ctl := .abrupt (.thr v), env := env, k := .tryK (some (x, cb)) fin :: k } = .cont c' [] ∧
      Link.encode spOf c'.k = Link.encode spOf k ++
        [Link.mkTF spOf (Link.countTryish k) (Link.countForOf k) (Link.countBlk k) (-1)
           (if fin.isSome then 2 * (Link.countTryish k : Int) + 1 else -1)] :=
  Link.caught_exception_disarms_catch_only spOf v x cb fin env k

/-- Every way into a finally block leaves the frame on the try stack with both handlers disarmed (repairs 379f30d and
8004794 are exactly this statement for `enterFinally` and `enterNextFinallyFrame`). -/
theorem layout_finally_entry (spOf : Nat → Nat) (cc : Option (Nat × List Stmt)) (fb : List Stmt) (env : List Val)
    (k : List Frame) (v : Val) (cp : Completion) (hcp : isThr cp = false) :
    (∃ c', step { ctl := .val v, env := env, k := .tryK cc (some fb) :: k } = .cont c' [] ∧
        Link.encode spOf c'.k = Link.encode spOf k ++ [Link.mkTF spOf (Link.countTryish k) (Link.countForOf k) (Link.countBlk k) (-1) (-1)]) ∧
    (∃ c', step { ctl := .abrupt cp, env := env, k := .tryK cc (some fb) :: k } = .cont c' [] ∧
        Link.encode spOf c'.k = Link.encode spOf k ++ [Link.mkTF spOf (Link.countTryish k) (Link.countForOf k) (Link.countBlk k) (-1) (-1)]) :=
  Link.finally_entry_disarms_both spOf cc fb env k v cp hcp

end GojaModel.C09

namespace GojaModel.C09

/-- State-level refinement of exception dispatch: after `handleThrow` the caller's try frames are untouched and the
generator-owned ones carry exactly the handler-arming pattern of the layout of the spec continuation AFTER the spec's own
unwinding has delivered the exception (`Link.specAfterThrow`), for any continuation, placement and number of popped frames. -/
theorem mech_throw_dispatch_refines_spec_state (ex : Nat) (v : Val) (spOf : Nat → Nat) (f : Mech.TryFrame → Mech.TryFrame)
    (hf : ∀ tf, (f tf).catchPos = tf.catchPos ∧ (f tf).finallyPos = tf.finallyPos) (k k' : List Frame)
    (vm : Mech.VM) (lo : List Mech.TryFrame) (hvm : vm.tryStack = lo ++ (Link.encode spOf k).map f)
    (hs : Link.specAfterThrow v k = some k') :
    (Mech.handleThrow ex vm).2.2.tryStack.take lo.length = lo ∧
    ((Mech.handleThrow ex vm).2.2.tryStack.drop lo.length).map Link.arming = ((Link.encode spOf k').map f).map Link.arming :=
  Link.handleThrow_layout_refines_spec ex v spOf f hf k vm lo k' hvm hs

/-- (test) `specAfterThrow` is what `stepAbrupt` does at the catching frame. -/
example (v : Val) (env : List Val) (k : List Frame) (x : Nat) (cb : List Stmt) (fin : Option (List Stmt)) :
    ∃ env', step { ctl := .abrupt (.thr v), env := env, k := .tryK (some (x, cb)) fin :: k }
      = .cont { ctl := .exec cb, env := env', k := (Link.specAfterThrow v (.tryK (some (x, cb)) fin :: k)).getD [] } [] :=
  ⟨_, rfl⟩

end GojaModel.C09

namespace GojaModel.C09

/-- An iterator whose `next()` throws: in a for-of the loop is abandoned with that exception and the iterator is NOT
closed (§14.7.5.7: IteratorStep's abrupt completion is returned as is); under `yield*` the exception is thrown at the
`yield*` point. -/
theorem forof_next_throw_does_not_close (l : Label) (x : Nat) (it : IterState) (body : List Stmt) (env : List Val)
    (k : List Frame) (ev : List Event) (e : Val) (h : iterNext it .undef = (ev, .threw e)) :
    step { ctl := .forOfGo l x it body, env := env, k := k } = .cont { ctl := .abrupt (.thr e), env := env, k := k } ev := by
  simp [step, h]

theorem delegate_next_throw_is_thrown_in_body (it : IterState) (c : Conf) (v : Val) (ev : List Event) (e : Val)
    (h : iterNext it v = (ev, .threw e)) :
    delegCmd it ⟨.next, v⟩ c = .cont { c with ctl := .abrupt (.thr e) } ev := by
  simp [delegCmd, h]

/-- Regression lemma about the OLD mechanism (before 230bc65): while a `yield*` delegate's method ran, goja's generator
object was still in state suspendedYield (`tryCallDelegated` was entered before `g.state = genStateExecuting`), and in
that state `validate()` lets every driver command through; in state executing — what 230bc65 sets around the delegate's
methods and `getIterator`, and what the spec demands (`delegate_reentry_typeerror`) — it rejects. -/
theorem yield_star_delegate_state_prefix_witness (cmd : Cmd) :
    genPre .susp cmd ≠ .reject ∧ genPre .executing cmd = .reject := by
  constructor
  · cases cmd with | mk kd p => cases kd <;> simp [genPre]
  · rfl

end GojaModel.C09

namespace GojaModel.C09

/-- State-level refinement of return dispatch: after `enterNextFinallyFrame` the try stack carries the arming pattern of
the caller's frames followed by the layout of the spec continuation after the spec's unwinding of the return completion
entered the innermost pending finally block (frames above it popped, the entered frame with both handlers disarmed). -/
theorem mech_return_dispatch_refines_spec_state (v : Val) (spOf : Nat → Nat) (f : Mech.TryFrame → Mech.TryFrame) (C : Nat)
    (hf : ∀ tf, (f tf).finallyPos = tf.finallyPos ∧ (f tf).callStackLen = C ∧ (f tf).catchPos = tf.catchPos)
    (k k' : List Frame) (vm : Mech.VM) (lo : List Mech.TryFrame) (hC : vm.callStack.length = C)
    (hvm : vm.tryStack = lo ++ (Link.encode spOf k).map f) (hs : Link.specAfterReturn v k = some k') :
    (Mech.enterNextFinallyFrame [] vm).2.2.tryStack.map Link.arming = (lo ++ (Link.encode spOf k').map f).map Link.arming :=
  Link.enterNextFinallyFrame_layout_refines_spec v spOf f C hf k vm lo [] k' hC hvm hs

end GojaModel.C09

namespace GojaModel.C09

/-- Besides `handleThrow`, the other try-frame operations of compiled code commute with a change of caller: the `try`
instruction, `leaveTry` / `leaveFinally`, and `restoreStacks` to lengths recorded by a generator-owned frame. -/
theorem try_frame_instructions_site_independent (lo g : Mech.VM) (cp fp : Int) (i r : Nat) :
    Mech.pushTryFrame (Mech.rebase lo g) cp fp = Mech.rebase lo (Mech.pushTryFrame g cp fp) ∧
    (g.tryStack ≠ [] → Mech.popTryFrame (Mech.rebase lo g) = Mech.rebase lo (Mech.popTryFrame g)) ∧
    Mech.restoreStacks (Mech.rebase lo g) (i + lo.iterStack.length) (r + lo.refStack.length)
      = ((Mech.restoreStacks g i r).1, Mech.rebase lo (Mech.restoreStacks g i r).2) :=
  ⟨Mech.pushTryFrame_rebase lo g cp fp, Mech.popTryFrame_rebase lo g, Mech.restoreStacks_rebase lo g i r⟩

end GojaModel.C09

namespace GojaModel.C09

/-! ## return(v) when closing an iterator throws, and `step1`'s returning loop with every exit (MechReturn.lean;
func.go:787 `enterNextFinallyFrame` and :863-905 as repaired by bf2a7fb / 5eca78e) -/

/-- The full transcription of `enterNextFinallyFrame` (with the `return()`-throws branch) coincides, when no iterator
throws, with the model the dispatch theorems are about. -/
theorem enterNextFinallyFrame_full_agrees_without_throw (exOf : Nat → Nat) (n : Nat) (vm : Mech.VM) (cl : List Nat) :
    Mech.enfLoop2 [] exOf n vm cl =
      (match Mech.enterNextFinallyFrameLoop [] n vm cl with
       | (true, cl', vm') => .entered cl' vm'
       | (false, cl', vm') => .noFrame cl' vm') :=
  Mech.enfLoop2_no_throw exOf n vm cl

/-- Closing throws and no handler of the generator takes it (all frames of the activation dead): reported as uncaught
with the activation already unwound down to `enterNext`'s marker frame. -/
theorem return_close_throw_uncaught_unwinds (throwing : List Nat) (exOf : Nat → Nat) (n : Nat) (vm : Mech.VM) (cl : List Nat)
    (lo : List Mech.TryFrame) (M tf : Mech.TryFrame) (rs : List Mech.TryFrame) (it : Nat)
    (h : vm.tryStack = (lo ++ [M]) ++ (tf :: rs).reverse) (hd : ∀ t ∈ tf :: rs, t.dead)
    (hc : tf.callStackLen = vm.callStack.length) (hm : M.catchPos = Mech.tryPanicMarker) (hmc : M.callStackLen < vm.callStack.length)
    (hthrow : (Mech.restoreStacks vm tf.iterLen tf.refLen).1.find? (throwing.contains ·) = some it) :
    ∃ cl', Mech.enfLoop2 throwing exOf (n + 1) vm cl = .uncaught cl'
      { cur := { (vm.callStack.getD M.callStackLen default) with stash := M.stash },
        stack := vm.stack.take M.sp, callStack := vm.callStack.take M.callStackLen,
        iterStack := (vm.iterStack.take tf.iterLen).take M.iterLen, refStack := (vm.refStack.take tf.refLen).take M.refLen,
        tryStack := lo ++ [M] } :=
  Mech.enf2_close_throw_uncaught throwing exOf n vm cl lo M tf rs it h hd hc hm hmc hthrow

/-- … after which `_return`'s epilogue (popTryFrame; popCtx) hands the caller its vm back EXACTLY. -/
theorem return_close_throw_uncaught_restores_caller (vm0 vmU : Mech.VM) (M : Mech.TryFrame)
    (hM : M = { callStackLen := vm0.callStack.length + 1, iterLen := vm0.iterStack.length, refLen := vm0.refStack.length,
                sp := vm0.stack.length, stash := vm0.cur.stash, catchPos := Mech.tryPanicMarker, finallyPos := -1, finallyRet := -1 })
    (vm : Mech.VM) (tf : Mech.TryFrame)
    (hcs : vm.callStack = vm0.callStack ++ [vm0.cur, { pc := -2 }])
    (hst : vm.stack.take vm0.stack.length = vm0.stack)
    (hit : (vm.iterStack.take tf.iterLen).take vm0.iterStack.length = vm0.iterStack)
    (hrf : (vm.refStack.take tf.refLen).take vm0.refStack.length = vm0.refStack)
    (hU : vmU = { cur := { (vm.callStack.getD M.callStackLen default) with stash := M.stash },
                  stack := vm.stack.take M.sp, callStack := vm.callStack.take M.callStackLen,
                  iterStack := (vm.iterStack.take tf.iterLen).take M.iterLen, refStack := (vm.refStack.take tf.refLen).take M.refLen,
                  tryStack := vm0.tryStack ++ [M] }) :
    Mech.nextEpilogue vmU = vm0 :=
  Mech.return_close_throw_uncaught_restores_caller vm0 vmU M hM vm tf hcs hst hit hrf hU

/-- Closing throws and the generator has a handler: on the layout of ANY spec continuation the exception goes to the
handler the spec's unwinding selects for a throw at that continuation, and `enterNextFinallyFrame` answers "continue". -/
theorem return_close_throw_dispatch_matches_spec (throwing : List Nat) (exOf : Nat → Nat) (spOf : Nat → Nat)
    (f : Mech.TryFrame → Mech.TryFrame) (hf : ∀ tf, (f tf).catchPos = tf.catchPos ∧ (f tf).finallyPos = tf.finallyPos)
    (k : List Frame) (n : Nat) (vm : Mech.VM) (cl : List Nat) (lo : List Mech.TryFrame) (tf : Mech.TryFrame) (it : Nat) (h : Nat × Bool)
    (hvm : vm.tryStack = lo ++ (Link.encode spOf k).map f) (hgl : vm.tryStack.getLast? = some tf)
    (hc : tf.callStackLen = vm.callStack.length) (hs : Link.specThrowHandler k = some h)
    (hthrow : (Mech.restoreStacks vm tf.iterLen tf.refLen).1.find? (throwing.contains ·) = some it) :
    ∃ cl' vm', Mech.enfLoop2 throwing exOf (n + 1) vm cl = .handled (Link.outcomeOfSpec (some h)) cl' vm' :=
  Mech.enf2_close_throw_dispatch_matches_spec throwing exOf spOf f hf k n vm cl lo tf it h hvm hgl hc hs hthrow

/-- `step1`'s returning loop, full transcription: caught-not-halted come-backs are transparent (5eca78e). -/
theorem step1_returning_full_caught_transparent (g : Mech.Gen) (throwing : List Nat) (exOf : Nat → Nat)
    (pre rest : List (Mech.RunBack × Mech.VM)) (hpre : ∀ e ∈ pre, e.1 = .caught) :
    Mech.step1Returning2 g throwing exOf (pre ++ rest) = Mech.step1Returning2 g throwing exOf rest :=
  Mech.step1Returning2_caught_transparent g throwing exOf pre rest hpre

/-- … when the last finally block has exited the activation is unwound BEFORE the result is reported, whether or not
closing the remaining iterators threw (bf2a7fb). -/
theorem step1_all_finallies_exit_unwinds_even_on_close_error (g : Mech.Gen) (throwing : List Nat) (exOf : Nat → Nat)
    (vm : Mech.VM) (rest : List (Mech.RunBack × Mech.VM)) (cl : List Nat) (vm1 : Mech.VM)
    (h : Mech.enterNextFinallyFrame2 throwing exOf vm = .noFrame cl vm1) :
    ∃ vm2, (Mech.step1Returning2 g throwing exOf ((.finallyExit, vm) :: rest) = .returnCompleted vm2 ∨
            Mech.step1Returning2 g throwing exOf ((.finallyExit, vm) :: rest) = .closeErrorAtEnd vm2) ∧
      vm2.callStack = vm1.callStack.dropLast ∧ vm2.stack = vm1.stack.take (vm1.cur.sb - 1).toNat ∧
      vm2.iterStack = vm1.iterStack.take g.iterStackLen ∧ vm2.refStack = vm1.refStack.take g.refStackLen :=
  Mech.all_finallies_exit_unwinds_even_on_close_error g throwing exOf vm rest cl vm1 h

/-- … and an uncaught close error ends the step at once with the already-unwound vm. -/
theorem step1_close_error_uncaught_ends_step (g : Mech.Gen) (throwing : List Nat) (exOf : Nat → Nat) (vm : Mech.VM)
    (rest : List (Mech.RunBack × Mech.VM)) (cl : List Nat) (vm1 : Mech.VM)
    (h : Mech.enterNextFinallyFrame2 throwing exOf vm = .uncaught cl vm1) :
    Mech.step1Returning2 g throwing exOf ((.finallyExit, vm) :: rest) = .closeErrorUncaught vm1 :=
  Mech.close_error_uncaught_ends_step g throwing exOf vm rest cl vm1 h

end GojaModel.C09

namespace GojaModel.C09

/-- Spec counterpart of `return_close_throw_uncaught_unwinds`: a throw that nothing in the continuation catches or
intercepts unwinds all of it, closing the for-of iterators it crosses (their `return()` errors ignored). -/
theorem uncaught_throw_unwinds_whole_continuation (e : Val) (k : List Frame) (env : List Val)
    (h : Link.specThrowHandler k = none) :
    Reach { ctl := .abrupt (.thr e), env := env, k := k } (thrLogs k) { ctl := .abrupt (.thr e), env := env, k := [] } :=
  unwind_thr_uncaught e k env h

/-- Spec: return(v) at a yield inside a for-of whose iterator's `return()` throws `e`, nothing in the body handling it —
with enough fuel the call logs the close, THROWS `e` and leaves the generator completed (what bf2a7fb made goja do
without corrupting the vm; compared on every run through the `ret = 2` iterators of the correspondence). -/
theorem return_closing_throwing_iterator_throws (v e : Val) (l : Label) (x : Nat) (it : IterState) (body : List Stmt)
    (k : List Frame) (env : List Val) (ctl : Ctl) (hc : (iterClose it).2 = some e) (hk : Link.specThrowHandler k = none) :
    ∃ m, ∀ n, genCall (n + m) (.susp { ctl := ctl, env := env, k := .forOfK l x it body :: k } none) ⟨.ret, v⟩
      = ((iterClose it).1 ++ thrLogs k, .t e, .completed) :=
  return_cmd_close_throw_uncaught v e l x it body k env ctl hc hk

end GojaModel.C09
