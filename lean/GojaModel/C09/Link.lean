/-
  C09 — link between the spec model (GenReplay continuations) and the mechanism model (GenCtx try frames).

  There is no model of the compiler, so the link is the LAYOUT: which try frames / iterator-stack entries a spec
  continuation occupies in goja's vm (one try frame per `tryK` / `catchK` / `finK` frame, one iterator entry per
  `forOfK` frame, in nesting order; handler positions chosen injectively from the nesting index; operand-stack
  offsets left arbitrary; `stash` = the scope object current at the try statement = number of enclosing block scopes).  On that layout the mechanism's exception dispatch (`handleThrow`) and return dispatch
  (`enterNextFinallyFrame`) select exactly the handler that the spec's unwinding (`stepAbrupt`) selects — before
  suspension and after resumption at any call site.
-/
import GojaModel.C09.Lemmas
import GojaModel.C09.MechLemmas

namespace GojaModel.C09.Link
open GojaModel.C09 GojaModel.C09.Mech

def tryish : Frame → Bool
  | .tryK _ _ | .catchK _ | .finK _ => true
  | _ => false

/-- Frames that hold an open iterator on goja's iterStack: for-of over an iterator or an array literal, and an array
destructuring pattern whose default is being evaluated. -/
def isForOf : Frame → Bool
  | .forOfK _ _ _ _ => true
  | .forArrK _ _ _ _ => true
  | .letArrK _ _ _ => true
  | _ => false

def isBlk : Frame → Bool
  | .blkK => true
  | _ => false

def countTryish (k : List Frame) : Nat := (k.filter tryish).length
/-- Number of block scopes open around a frame = identity of the scope object (`stash`) current there. -/
def countBlk (k : List Frame) : Nat := (k.filter isBlk).length
def countForOf (k : List Frame) : Nat := (k.filter isForOf).length

/-- The try frame (generator-relative offsets) that continuation frame `f` occupies, `i` try frames and `iters` open
for-of iterators being outside it.  `spOf i` is its operand-stack offset (arbitrary).  Handler positions: catch of
frame i at pc 2i, finally at pc 2i+1.  A `catchK` frame is a try frame whose catch has been consumed; a `finK` frame
one whose both handlers have been consumed (after 379f30d `enterFinally` and after 8004794 `enterNextFinallyFrame`
both leave catchPos = finallyPos = -1 while the finally block runs). -/
def mkTF (spOf : Nat → Nat) (i iters sc : Nat) (catchPos finallyPos : Int) : TryFrame :=
  { callStackLen := 0, iterLen := iters, refLen := 0, sp := spOf i, stash := sc, catchPos := catchPos, finallyPos := finallyPos }

def frameOf (spOf : Nat → Nat) (i iters sc : Nat) : Frame → Option TryFrame
  | .tryK (some _) (some _) => some (mkTF spOf i iters sc (2 * (i : Int)) (2 * (i : Int) + 1))
  | .tryK (some _) none => some (mkTF spOf i iters sc (2 * (i : Int)) (-1))
  | .tryK none (some _) => some (mkTF spOf i iters sc (-1) (2 * (i : Int) + 1))
  | .tryK none none => some (mkTF spOf i iters sc (-1) (-1))
  | .catchK (some _) => some (mkTF spOf i iters sc (-1) (2 * (i : Int) + 1))
  | .catchK none => some (mkTF spOf i iters sc (-1) (-1))
  | .finK _ => some (mkTF spOf i iters sc (-1) (-1))
  | _ => none

/-- Try-stack layout of a continuation (innermost frame first) as a Go slice (outermost frame first). -/
def encode (spOf : Nat → Nat) : List Frame → List TryFrame
  | [] => []
  | f :: k => encode spOf k ++ (frameOf spOf (countTryish k) (countForOf k) (countBlk k) f).toList

/-- What the spec's unwinding of a throw completion does next (`stepAbrupt`): the innermost frame that catches it or
whose finally block it enters — `(nesting index, isCatch)` — or `none` if it leaves the generator. -/
def specThrowHandler : List Frame → Option (Nat × Bool)
  | [] => none
  | f :: k =>
    match f with
    | .tryK (some _) _ => some (countTryish k, true)
    | .tryK none (some _) => some (countTryish k, false)
    | .catchK (some _) => some (countTryish k, false)
    | _ => specThrowHandler k

/-- … and of a return completion: the innermost pending finally block. -/
def specReturnHandler : List Frame → Option Nat
  | [] => none
  | f :: k =>
    match f with
    | .tryK _ (some _) => some (countTryish k)
    | .catchK (some _) => some (countTryish k)
    | _ => specReturnHandler k

/-- The scope (number of enclosing block scopes) in which that finally block's code lives: the scope of its try
statement, NOT the inner scope the body was suspended in. -/
def specReturnScope : List Frame → Option Nat
  | [] => none
  | f :: k =>
    match f with
    | .tryK _ (some _) => some (countBlk k)
    | .catchK (some _) => some (countBlk k)
    | _ => specReturnScope k

def outcomeOfSpec : Option (Nat × Bool) → Outcome
  | none => .uncaught
  | some (i, true) => .caught (2 * (i : Int))
  | some (i, false) => .toFinally (2 * (i : Int) + 1)

/-- `specThrowHandler` is what `stepAbrupt` does: popping frames until the reported one. (Sanity link to the machine:
the frame it reports is the first at which `stepAbrupt` stops popping for a throw.) -/
theorem specThrowHandler_pops (v : Val) (env : List Val) (f : Frame) (k : List Frame)
    (hf : ¬ tryish f = true) (hfo : ¬ isForOf f = true) :
    specThrowHandler (f :: k) = specThrowHandler k ∧
    ∃ ev, step { ctl := .abrupt (.thr v), env := env, k := f :: k } = .cont { ctl := .abrupt (.thr v), env := env, k := k } ev := by
  cases f <;> simp_all [tryish, isForOf, specThrowHandler, step, stepAbrupt, loopAction]

theorem outcome_catch (spOf : Nat → Nat) (i it sc : Nat) (fp : Int) :
    outcomeOf (mkTF spOf i it sc (2 * (i : Int)) fp) = .caught (2 * (i : Int)) := by
  simp only [outcomeOf, mkTF, tryPanicMarker]
  have h1 : ¬ (2 * (i : Int) = -2) := by omega
  have h2 : 2 * (i : Int) ≥ 0 := by omega
  simp [h1, h2]

theorem outcome_fin (spOf : Nat → Nat) (i it sc : Nat) :
    outcomeOf (mkTF spOf i it sc (-1) (2 * (i : Int) + 1)) = .toFinally (2 * (i : Int) + 1) := by
  simp only [outcomeOf, mkTF, tryPanicMarker]
  have h2 : 2 * (i : Int) + 1 ≥ 0 := by omega
  simp [h2]

theorem live_catch (spOf : Nat → Nat) (i it sc : Nat) (fp : Int) : ¬ (mkTF spOf i it sc (2 * (i : Int)) fp).dead := by
  simp only [TryFrame.dead, mkTF]; omega

theorem live_fin (spOf : Nat → Nat) (i it sc : Nat) : ¬ (mkTF spOf i it sc (-1) (2 * (i : Int) + 1)).dead := by
  simp only [TryFrame.dead, mkTF]; omega

theorem dead_none (spOf : Nat → Nat) (i it sc : Nat) : (mkTF spOf i it sc (-1) (-1)).dead := by
  simp [TryFrame.dead, mkTF]

/-- Exception dispatch: on the layout of ANY spec continuation `k` — placed anywhere (`f` = any map of frames that
keeps the handler positions, e.g. the shift of suspend/resume or `shiftFrame lo`), whatever lies below it on the try
stack — `handleThrow` selects the handler the spec's unwinding selects. -/
theorem handleThrow_matches_spec (ex : Nat) (spOf : Nat → Nat) (f : TryFrame → TryFrame)
    (hf : ∀ tf, (f tf).catchPos = tf.catchPos ∧ (f tf).finallyPos = tf.finallyPos) (k : List Frame) :
    ∀ (vm : VM) (lo : List TryFrame) (h : Nat × Bool), vm.tryStack = lo ++ (encode spOf k).map f → specThrowHandler k = some h →
      (handleThrow ex vm).1 = outcomeOfSpec (some h) := by
  have hdead : ∀ tf, (f tf).dead ↔ tf.dead := by
    intro tf; unfold TryFrame.dead; rw [(hf tf).1, (hf tf).2]
  induction k with
  | nil => intro _ _ _ _ hs; simp [specThrowHandler] at hs
  | cons fr k ih =>
    intro vm lo h hvm hs
    have live : ∀ tf, vm.tryStack = (lo ++ (encode spOf k).map f) ++ [f tf] → ¬ tf.dead → (handleThrow ex vm).1 = outcomeOf tf := by
      intro tf h1 h2
      rw [handleThrow_outcome_top ex vm _ (f tf) h1 (fun hd => h2 ((hdead tf).1 hd))]
      exact outcomeOf_congr (hf tf).1 (hf tf).2
    have dead : ∀ tf, vm.tryStack = (lo ++ (encode spOf k).map f) ++ [f tf] → tf.dead → specThrowHandler k = some h →
        (handleThrow ex vm).1 = outcomeOfSpec (some h) := by
      intro tf h1 h2 h3
      rw [handleThrow_dead_pops ex vm _ (f tf) h1 ((hdead tf).2 h2)]
      exact ih _ lo h rfl h3
    cases fr with
    | tryK cc fin =>
      cases cc with
      | some c =>
        cases fin with
        | some fb =>
          simp only [specThrowHandler, Option.some.injEq] at hs; subst hs
          rw [live (mkTF spOf (countTryish k) (countForOf k) (countBlk k) (2 * (countTryish k : Int)) (2 * (countTryish k : Int) + 1))
                (by simp [hvm, encode, frameOf]) (live_catch spOf _ _ _ _), outcome_catch]; rfl
        | none =>
          simp only [specThrowHandler, Option.some.injEq] at hs; subst hs
          rw [live (mkTF spOf (countTryish k) (countForOf k) (countBlk k) (2 * (countTryish k : Int)) (-1))
                (by simp [hvm, encode, frameOf]) (live_catch spOf _ _ _ _), outcome_catch]; rfl
      | none =>
        cases fin with
        | some fb =>
          simp only [specThrowHandler, Option.some.injEq] at hs; subst hs
          rw [live (mkTF spOf (countTryish k) (countForOf k) (countBlk k) (-1) (2 * (countTryish k : Int) + 1))
                (by simp [hvm, encode, frameOf]) (live_fin spOf _ _ _), outcome_fin]; rfl
        | none => exact dead (mkTF spOf (countTryish k) (countForOf k) (countBlk k) (-1) (-1)) (by simp [hvm, encode, frameOf]) (dead_none spOf _ _ _) (by simpa [specThrowHandler] using hs)
    | catchK fin =>
      cases fin with
      | some fb =>
        simp only [specThrowHandler, Option.some.injEq] at hs; subst hs
        rw [live (mkTF spOf (countTryish k) (countForOf k) (countBlk k) (-1) (2 * (countTryish k : Int) + 1))
              (by simp [hvm, encode, frameOf]) (live_fin spOf _ _ _), outcome_fin]; rfl
      | none => exact dead (mkTF spOf (countTryish k) (countForOf k) (countBlk k) (-1) (-1)) (by simp [hvm, encode, frameOf]) (dead_none spOf _ _ _) (by simpa [specThrowHandler] using hs)
    | finK p => exact dead (mkTF spOf (countTryish k) (countForOf k) (countBlk k) (-1) (-1)) (by simp [hvm, encode, frameOf]) (dead_none spOf _ _ _) (by simpa [specThrowHandler] using hs)
    | _ => exact ih vm lo h (by simpa [encode, frameOf] using hvm) (by simpa [specThrowHandler] using hs)

theorem shiftFrame_handlers (lo : VM) (tf : TryFrame) :
    (shiftFrame lo tf).catchPos = tf.catchPos ∧ (shiftFrame lo tf).finallyPos = tf.finallyPos := by
  simp [shiftFrame]

/-- The yield/resume cycle preserves the link: a generator whose try stack is the layout of spec continuation `k`,
suspended on caller `lo` and resumed on ANY caller `vm2`, dispatches a thrown exception to the handler the spec's
unwinding of `k` selects — and so it did before suspension. -/
theorem throw_dispatch_after_resume_matches_spec (ex : Nat) (spOf : Nat → Nat) (k : List Frame) (lo vm2 g : VM)
    (hg : AtYield g) (hk : g.tryStack = encode spOf k) (h : Nat × Bool) (hs : specThrowHandler k = some h) :
    (handleThrow ex (resume vm2 (suspend (rebase lo g) lo.tryStack.length lo.iterStack.length lo.refStack.length).1)).1
        = outcomeOfSpec (some h) ∧
    (handleThrow ex (rebase lo g)).1 = outcomeOfSpec (some h) := by
  rw [resume_suspend_rebase lo vm2 g hg]
  constructor
  · exact handleThrow_matches_spec ex spOf (shiftFrame vm2) (shiftFrame_handlers vm2) k _ vm2.tryStack h (by simp [rebase, hk]) hs
  · exact handleThrow_matches_spec ex spOf (shiftFrame lo) (shiftFrame_handlers lo) k _ lo.tryStack h (by simp [rebase, hk]) hs

/-- Return dispatch: on the layout of ANY spec continuation `k` (all frames pushed in the generator's own function
frame), `enterNextFinallyFrame` enters the finally block of the innermost frame that has a pending one — the block
the spec's unwinding of a return completion enters — skipping (popping) the frames without one. -/
theorem enterNextFinallyFrame_matches_spec (spOf : Nat → Nat) (f : TryFrame → TryFrame) (C : Nat)
    (hf : ∀ tf, (f tf).finallyPos = tf.finallyPos ∧ (f tf).callStackLen = C ∧ (f tf).stash = tf.stash) (k : List Frame) :
    ∀ (vm : VM) (lo : List TryFrame) (cl : List Nat) (i sc : Nat), vm.callStack.length = C →
      vm.tryStack = lo ++ (encode spOf k).map f → specReturnHandler k = some i → specReturnScope k = some sc →
      (enterNextFinallyFrameLoop [] vm.tryStack.length vm cl).1 = true ∧
      (enterNextFinallyFrameLoop [] vm.tryStack.length vm cl).2.2.cur.pc = 2 * (i : Int) + 1 ∧
      (enterNextFinallyFrameLoop [] vm.tryStack.length vm cl).2.2.cur.stash = sc := by
  induction k with
  | nil => intro _ _ _ _ _ _ _ hs; simp [specReturnHandler] at hs
  | cons fr k ih =>
    intro vm lo cl i sc hC hvm hs hsc
    have fin : ∀ tf, vm.tryStack = (lo ++ (encode spOf k).map f) ++ [f tf] → tf.finallyPos = 2 * (countTryish k : Int) + 1 →
        i = countTryish k → tf.stash = sc →
        (enterNextFinallyFrameLoop [] vm.tryStack.length vm cl).1 = true ∧
        (enterNextFinallyFrameLoop [] vm.tryStack.length vm cl).2.2.cur.pc = 2 * (i : Int) + 1 ∧
        (enterNextFinallyFrameLoop [] vm.tryStack.length vm cl).2.2.cur.stash = sc := by
      intro tf h1 h2 h3 h4
      have hl : vm.tryStack.length = (lo ++ (encode spOf k).map f).length + 1 := by simp [h1]; omega
      rw [hl, enf_top_fin _ vm _ (f tf) cl h1 (by rw [(hf tf).2.1, hC]) (by rw [(hf tf).1, h2]; omega)]
      simp [(hf tf).1, (hf tf).2.2, h2, h3, h4]
    have skip : ∀ tf, vm.tryStack = (lo ++ (encode spOf k).map f) ++ [f tf] → tf.finallyPos = -1 → specReturnHandler k = some i →
        specReturnScope k = some sc →
        (enterNextFinallyFrameLoop [] vm.tryStack.length vm cl).1 = true ∧
        (enterNextFinallyFrameLoop [] vm.tryStack.length vm cl).2.2.cur.pc = 2 * (i : Int) + 1 ∧
        (enterNextFinallyFrameLoop [] vm.tryStack.length vm cl).2.2.cur.stash = sc := by
      intro tf h1 h2 h3 h3s
      have hl : vm.tryStack.length = (lo ++ (encode spOf k).map f).length + 1 := by simp [h1]; omega
      rw [hl, enf_top_skip _ vm _ (f tf) cl h1 (by rw [(hf tf).2.1, hC]) (by rw [(hf tf).1, h2]; omega)]
      have := ih { (restoreStacks vm (f tf).iterLen (f tf).refLen).2 with tryStack := lo ++ (encode spOf k).map f } lo
        (cl ++ (restoreStacks vm (f tf).iterLen (f tf).refLen).1) i sc (by simpa [restoreStacks] using hC) rfl h3 h3s
      simpa using this
    cases fr with
    | tryK cc fin' =>
      cases cc with
      | some c =>
        cases fin' with
        | some fb =>
          simp only [specReturnHandler, Option.some.injEq] at hs
          exact fin (mkTF spOf (countTryish k) (countForOf k) (countBlk k) (2 * (countTryish k : Int)) (2 * (countTryish k : Int) + 1)) (by simp [hvm, encode, frameOf]) rfl hs.symm (by simpa [specReturnScope, mkTF] using hsc)
        | none => exact skip (mkTF spOf (countTryish k) (countForOf k) (countBlk k) (2 * (countTryish k : Int)) (-1)) (by simp [hvm, encode, frameOf]) rfl (by simpa [specReturnHandler] using hs) (by simpa [specReturnScope] using hsc)
      | none =>
        cases fin' with
        | some fb =>
          simp only [specReturnHandler, Option.some.injEq] at hs
          exact fin (mkTF spOf (countTryish k) (countForOf k) (countBlk k) (-1) (2 * (countTryish k : Int) + 1)) (by simp [hvm, encode, frameOf]) rfl hs.symm (by simpa [specReturnScope, mkTF] using hsc)
        | none => exact skip (mkTF spOf (countTryish k) (countForOf k) (countBlk k) (-1) (-1)) (by simp [hvm, encode, frameOf]) rfl (by simpa [specReturnHandler] using hs) (by simpa [specReturnScope] using hsc)
    | catchK fin' =>
      cases fin' with
      | some fb =>
        simp only [specReturnHandler, Option.some.injEq] at hs
        exact fin (mkTF spOf (countTryish k) (countForOf k) (countBlk k) (-1) (2 * (countTryish k : Int) + 1)) (by simp [hvm, encode, frameOf]) rfl hs.symm (by simpa [specReturnScope, mkTF] using hsc)
      | none => exact skip (mkTF spOf (countTryish k) (countForOf k) (countBlk k) (-1) (-1)) (by simp [hvm, encode, frameOf]) rfl (by simpa [specReturnHandler] using hs) (by simpa [specReturnScope] using hsc)
    | finK p => exact skip (mkTF spOf (countTryish k) (countForOf k) (countBlk k) (-1) (-1)) (by simp [hvm, encode, frameOf]) rfl (by simpa [specReturnHandler] using hs) (by simpa [specReturnScope] using hsc)
    | _ => exact ih vm lo cl i sc hC (by simpa [encode, frameOf] using hvm) (by simpa [specReturnHandler] using hs) (by simpa [specReturnScope] using hsc)

end GojaModel.C09.Link

namespace GojaModel.C09.Link
open GojaModel.C09 GojaModel.C09.Mech

/-- The handler-arming pattern of a try frame. -/
def arming (tf : TryFrame) : Int × Int := (tf.catchPos, tf.finallyPos)

/-- The spec continuation right after a throw completion has been delivered (by `stepAbrupt`, possibly several pops):
the catching frame became `catchK`, or the frame whose finally the exception enters became `finK`. -/
def specAfterThrow (v : Val) : List Frame → Option (List Frame)
  | [] => none
  | f :: k =>
    match f with
    | .tryK (some _) fin => some (.catchK fin :: k)
    | .tryK none (some _) => some (.finK (some (.thr v)) :: k)
    | .catchK (some _) => some (.finK (some (.thr v)) :: k)
    | _ => specAfterThrow v k

/-- **State-level refinement of exception dispatch.** After `handleThrow`, the caller's part of the try stack is
untouched and the generator-owned part carries exactly the handler-arming pattern of the layout of the spec
continuation AFTER the spec's own unwinding delivered the exception — for any continuation, any placement `f`, any
number of frames popped on the way. -/
theorem handleThrow_layout_refines_spec (ex : Nat) (v : Val) (spOf : Nat → Nat) (f : TryFrame → TryFrame)
    (hf : ∀ tf, (f tf).catchPos = tf.catchPos ∧ (f tf).finallyPos = tf.finallyPos) (k : List Frame) :
    ∀ (vm : VM) (lo : List TryFrame) (k' : List Frame), vm.tryStack = lo ++ (encode spOf k).map f →
      specAfterThrow v k = some k' →
      (handleThrow ex vm).2.2.tryStack.take lo.length = lo ∧
      ((handleThrow ex vm).2.2.tryStack.drop lo.length).map arming = ((encode spOf k').map f).map arming := by
  have hdead : ∀ tf, (f tf).dead ↔ tf.dead := by
    intro tf; unfold TryFrame.dead; rw [(hf tf).1, (hf tf).2]
  induction k with
  | nil => intro _ _ _ _ hs; simp [specAfterThrow] at hs
  | cons fr k ih =>
    intro vm lo k' hvm hs
    -- the three shapes of a live top frame
    have caught : ∀ (fp : Int) (fin : Option (List Stmt)),
        vm.tryStack = (lo ++ (encode spOf k).map f) ++ [f (mkTF spOf (countTryish k) (countForOf k) (countBlk k) (2 * (countTryish k : Int)) fp)] →
        k' = .catchK fin :: k →
        (encode spOf (.catchK fin :: k)) = encode spOf k ++ [mkTF spOf (countTryish k) (countForOf k) (countBlk k) (-1) fp] →
        (handleThrow ex vm).2.2.tryStack.take lo.length = lo ∧
        ((handleThrow ex vm).2.2.tryStack.drop lo.length).map arming = ((encode spOf k').map f).map arming := by
      intro fp fin h1 hk' henc
      have hlive : ¬ (f (mkTF spOf (countTryish k) (countForOf k) (countBlk k) (2 * (countTryish k : Int)) fp)).dead :=
        fun hd => live_catch spOf _ _ _ _ ((hdead _).1 hd)
      have hc : (f (mkTF spOf (countTryish k) (countForOf k) (countBlk k) (2 * (countTryish k : Int)) fp)).catchPos = 2 * (countTryish k : Int) := by
        rw [(hf _).1]; rfl
      rw [handleThrow_live_top ex vm _ _ h1 hlive,
          liveStep_tryStack_caught ex vm _ (by rw [hc]; simp [tryPanicMarker]; omega) (by rw [hc]; omega)]
      subst hk'
      rw [h1, henc]
      constructor
      · simp [List.take_append]
      · simp [List.drop_append, arming, (hf _).1, (hf _).2, mkTF]
    have tofin : vm.tryStack = (lo ++ (encode spOf k).map f) ++ [f (mkTF spOf (countTryish k) (countForOf k) (countBlk k) (-1) (2 * (countTryish k : Int) + 1))] →
        k' = .finK (some (.thr v)) :: k →
        (handleThrow ex vm).2.2.tryStack.take lo.length = lo ∧
        ((handleThrow ex vm).2.2.tryStack.drop lo.length).map arming = ((encode spOf k').map f).map arming := by
      intro h1 hk'
      have hlive : ¬ (f (mkTF spOf (countTryish k) (countForOf k) (countBlk k) (-1) (2 * (countTryish k : Int) + 1))).dead :=
        fun hd => live_fin spOf _ _ _ ((hdead _).1 hd)
      have hc : (f (mkTF spOf (countTryish k) (countForOf k) (countBlk k) (-1) (2 * (countTryish k : Int) + 1))).catchPos = -1 := by
        rw [(hf _).1]; rfl
      have hfp : (f (mkTF spOf (countTryish k) (countForOf k) (countBlk k) (-1) (2 * (countTryish k : Int) + 1))).finallyPos = 2 * (countTryish k : Int) + 1 := by
        rw [(hf _).2]; rfl
      rw [handleThrow_live_top ex vm _ _ h1 hlive, liveStep_tryStack_finally ex vm _ hc (by rw [hfp]; omega)]
      subst hk'
      rw [h1]
      constructor
      · simp [List.take_append]
      · simp [List.drop_append, arming, encode, frameOf, (hf _).1, (hf _).2, mkTF]
    have dead : ∀ tf, vm.tryStack = (lo ++ (encode spOf k).map f) ++ [f tf] → tf.dead → specAfterThrow v k = some k' →
        (handleThrow ex vm).2.2.tryStack.take lo.length = lo ∧
        ((handleThrow ex vm).2.2.tryStack.drop lo.length).map arming = ((encode spOf k').map f).map arming := by
      intro tf h1 h2 h3
      rw [handleThrow_dead_pops ex vm _ (f tf) h1 ((hdead tf).2 h2)]
      exact ih _ lo k' rfl h3
    cases fr with
    | tryK cc fin =>
      cases cc with
      | some c =>
        simp only [specAfterThrow, Option.some.injEq] at hs
        cases fin with
        | some fb => exact caught (2 * (countTryish k : Int) + 1) (some fb) (by simp [hvm, encode, frameOf]) hs.symm (by simp [encode, frameOf])
        | none => exact caught (-1) none (by simp [hvm, encode, frameOf]) hs.symm (by simp [encode, frameOf])
      | none =>
        cases fin with
        | some fb =>
          simp only [specAfterThrow, Option.some.injEq] at hs
          exact tofin (by simp [hvm, encode, frameOf]) hs.symm
        | none => exact dead (mkTF spOf (countTryish k) (countForOf k) (countBlk k) (-1) (-1)) (by simp [hvm, encode, frameOf]) (dead_none spOf _ _ _) (by simpa [specAfterThrow] using hs)
    | catchK fin =>
      cases fin with
      | some fb =>
        simp only [specAfterThrow, Option.some.injEq] at hs
        exact tofin (by simp [hvm, encode, frameOf]) hs.symm
      | none => exact dead (mkTF spOf (countTryish k) (countForOf k) (countBlk k) (-1) (-1)) (by simp [hvm, encode, frameOf]) (dead_none spOf _ _ _) (by simpa [specAfterThrow] using hs)
    | finK p => exact dead (mkTF spOf (countTryish k) (countForOf k) (countBlk k) (-1) (-1)) (by simp [hvm, encode, frameOf]) (dead_none spOf _ _ _) (by simpa [specAfterThrow] using hs)
    | _ => exact ih vm lo k' (by simpa [encode, frameOf] using hvm) (by simpa [specAfterThrow] using hs)

end GojaModel.C09.Link

namespace GojaModel.C09.Link
open GojaModel.C09 GojaModel.C09.Mech

/-- The spec continuation right after a return completion entered the innermost pending finally block. -/
def specAfterReturn (v : Val) : List Frame → Option (List Frame)
  | [] => none
  | f :: k =>
    match f with
    | .tryK _ (some _) => some (.finK (some (.ret v)) :: k)
    | .catchK (some _) => some (.finK (some (.ret v)) :: k)
    | _ => specAfterReturn v k

/-- **State-level refinement of return dispatch.** After `enterNextFinallyFrame` the whole try stack carries the
handler-arming pattern of the caller's frames followed by the layout of the spec continuation after the spec's unwinding
entered the finally block: the frames above it are popped, the entered frame is left with both handlers disarmed. -/
theorem enterNextFinallyFrame_layout_refines_spec (v : Val) (spOf : Nat → Nat) (f : TryFrame → TryFrame) (C : Nat)
    (hf : ∀ tf, (f tf).finallyPos = tf.finallyPos ∧ (f tf).callStackLen = C ∧ (f tf).catchPos = tf.catchPos) (k : List Frame) :
    ∀ (vm : VM) (lo : List TryFrame) (cl : List Nat) (k' : List Frame), vm.callStack.length = C →
      vm.tryStack = lo ++ (encode spOf k).map f → specAfterReturn v k = some k' →
      (enterNextFinallyFrameLoop [] vm.tryStack.length vm cl).2.2.tryStack.map arming
        = (lo ++ (encode spOf k').map f).map arming := by
  induction k with
  | nil => intro _ _ _ _ _ _ hs; simp [specAfterReturn] at hs
  | cons fr k ih =>
    intro vm lo cl k' hC hvm hs
    have fin : ∀ (cp : Int), vm.tryStack = (lo ++ (encode spOf k).map f) ++
          [f (mkTF spOf (countTryish k) (countForOf k) (countBlk k) cp (2 * (countTryish k : Int) + 1))] →
        k' = .finK (some (.ret v)) :: k →
        (enterNextFinallyFrameLoop [] vm.tryStack.length vm cl).2.2.tryStack.map arming
          = (lo ++ (encode spOf k').map f).map arming := by
      intro cp h1 hk'
      have hl : vm.tryStack.length = (lo ++ (encode spOf k).map f).length + 1 := by simp [h1]; omega
      have hfp : (f (mkTF spOf (countTryish k) (countForOf k) (countBlk k) cp (2 * (countTryish k : Int) + 1))).finallyPos
          = 2 * (countTryish k : Int) + 1 := by rw [(hf _).1]; rfl
      rw [hl, enf_top_fin _ vm _ _ cl h1 (by rw [(hf _).2.1, hC]) (by rw [hfp]; omega)]
      subst hk'
      simp [arming, encode, frameOf, mkTF, (hf _).1, (hf _).2.2]
    have skip : ∀ tf, vm.tryStack = (lo ++ (encode spOf k).map f) ++ [f tf] → tf.finallyPos = -1 → specAfterReturn v k = some k' →
        (enterNextFinallyFrameLoop [] vm.tryStack.length vm cl).2.2.tryStack.map arming
          = (lo ++ (encode spOf k').map f).map arming := by
      intro tf h1 h2 h3
      have hl : vm.tryStack.length = (lo ++ (encode spOf k).map f).length + 1 := by simp [h1]; omega
      rw [hl, enf_top_skip _ vm _ (f tf) cl h1 (by rw [(hf tf).2.1, hC]) (by rw [(hf tf).1, h2]; omega)]
      have := ih { (restoreStacks vm (f tf).iterLen (f tf).refLen).2 with tryStack := lo ++ (encode spOf k).map f } lo
        (cl ++ (restoreStacks vm (f tf).iterLen (f tf).refLen).1) k' (by simpa [restoreStacks] using hC) rfl h3
      simpa using this
    cases fr with
    | tryK cc fin' =>
      cases cc with
      | some c =>
        cases fin' with
        | some fb =>
          simp only [specAfterReturn, Option.some.injEq] at hs
          exact fin (2 * (countTryish k : Int)) (by simp [hvm, encode, frameOf]) hs.symm
        | none => exact skip (mkTF spOf (countTryish k) (countForOf k) (countBlk k) (2 * (countTryish k : Int)) (-1)) (by simp [hvm, encode, frameOf]) rfl (by simpa [specAfterReturn] using hs)
      | none =>
        cases fin' with
        | some fb =>
          simp only [specAfterReturn, Option.some.injEq] at hs
          exact fin (-1) (by simp [hvm, encode, frameOf]) hs.symm
        | none => exact skip (mkTF spOf (countTryish k) (countForOf k) (countBlk k) (-1) (-1)) (by simp [hvm, encode, frameOf]) rfl (by simpa [specAfterReturn] using hs)
    | catchK fin' =>
      cases fin' with
      | some fb =>
        simp only [specAfterReturn, Option.some.injEq] at hs
        exact fin (-1) (by simp [hvm, encode, frameOf]) hs.symm
      | none => exact skip (mkTF spOf (countTryish k) (countForOf k) (countBlk k) (-1) (-1)) (by simp [hvm, encode, frameOf]) rfl (by simpa [specAfterReturn] using hs)
    | finK p => exact skip (mkTF spOf (countTryish k) (countForOf k) (countBlk k) (-1) (-1)) (by simp [hvm, encode, frameOf]) rfl (by simpa [specAfterReturn] using hs)
    | _ => exact ih vm lo cl k' hC (by simpa [encode, frameOf] using hvm) (by simpa [specAfterReturn] using hs)

end GojaModel.C09.Link
