/-
  C09 — mechanism of return(v) when closing an iterator THROWS (repair bf2a7fb) and the returning loop of
  `generator.step1` with every exit (repairs 5eca78e, bf2a7fb), as theorems on the mechanism model.

  /repo/func.go:787 `generator.enterNextFinallyFrame` (current code):
      ex := vm.restoreStacks(tf.iterLen, tf.refLen)
      if ex != nil { if ex = vm.handleThrow(ex); ex != nil { return false, ex }; return true, nil }
  /repo/func.go:863-905 the `g.returning != nil` branch of `generator.step1`; func.go `_return` (uncaught path:
  popTryFrame; popCtx; step(nil, resultNormal, uncaught)).
-/
import GojaModel.C09.MechLemmas
import GojaModel.C09.Link

namespace GojaModel.C09.Mech

/-- Outcome of `enterNextFinallyFrame` (func.go:787-818). -/
inductive EnfOut where
  | entered (closed : List Nat) (vm : VM)                 -- :805-813 a finally block entered; (true, nil)
  | handled (o : Outcome) (closed : List Nat) (vm : VM)   -- :798-801 closing threw, a handler of the generator took it; (true, nil)
  | uncaught (closed : List Nat) (vm : VM)                -- :799 closing threw, no handler: (false, ex)
  | noFrame (closed : List Nat) (vm : VM)                 -- :817 no (more) try frame of this activation; (false, nil)
deriving DecidableEq, Repr, Inhabited

/-- func.go:787 `enterNextFinallyFrame` as it stands (bf2a7fb, 4bb92ea, 8004794).  `throwing` = the iterator records whose
`return()` throws, `exOf` the exception each throws; `restoreStacks` keeps the FIRST error (vm.go `if ex1 != nil && ex == nil`). -/
def enfLoop2 (throwing : List Nat) (exOf : Nat → Nat) : Nat → VM → List Nat → EnfOut
  | 0, vm, cl => .noFrame cl vm
  | n + 1, vm, cl =>
    match vm.tryStack.getLast? with
    | none => .noFrame cl vm
    | some tf =>
      if tf.callStackLen ≠ vm.callStack.length then .noFrame cl vm                        -- :793
      else
        let r := restoreStacks vm tf.iterLen tf.refLen                                    -- :796
        match r.1.find? (throwing.contains ·) with
        | some it =>                                                                      -- :797
          let h := handleThrow (exOf it) r.2                                              -- :798
          if h.1 = .uncaught then .uncaught (cl ++ r.1 ++ h.2.1) h.2.2                    -- :799
          else .handled h.1 (cl ++ r.1 ++ h.2.1) h.2.2                                    -- :801
        | none =>
          if tf.finallyPos ≥ 0 then                                                       -- :805
            .entered (cl ++ r.1)
              { r.2 with stack := r.2.stack.take tf.sp,
                         cur := { r.2.cur with stash := tf.stash, pc := tf.finallyPos },
                         tryStack := r.2.tryStack.dropLast ++ [{ tf with catchPos := -1, finallyPos := -1, finallyRet := -2 }] }
          else enfLoop2 throwing exOf n { r.2 with tryStack := r.2.tryStack.dropLast } (cl ++ r.1)   -- :815

def enterNextFinallyFrame2 (throwing : List Nat) (exOf : Nat → Nat) (vm : VM) : EnfOut :=
  enfLoop2 throwing exOf vm.tryStack.length vm []

/-- Without a throwing iterator the full transcription is the model the dispatch theorems are about. -/
theorem find?_contains_nil (l : List Nat) : l.find? (fun x => ([] : List Nat).contains x) = none := by
  induction l <;> simp_all

theorem any_contains_nil (l : List Nat) : l.any (fun x => ([] : List Nat).contains x) = false := by
  induction l <;> simp_all

theorem enfLoop2_no_throw (exOf : Nat → Nat) (n : Nat) :
    ∀ (vm : VM) (cl : List Nat),
      enfLoop2 [] exOf n vm cl =
        (match enterNextFinallyFrameLoop [] n vm cl with
         | (true, cl', vm') => .entered cl' vm'
         | (false, cl', vm') => .noFrame cl' vm') := by
  induction n with
  | zero => intro vm cl; rfl
  | succ n ih =>
    intro vm cl
    unfold enfLoop2 enterNextFinallyFrameLoop
    cases hgl : vm.tryStack.getLast? with
    | none => simp
    | some tf =>
      simp only
      by_cases hc : tf.callStackLen = vm.callStack.length
      · simp only [hc, ne_eq, not_true_eq_false, if_false, find?_contains_nil, any_contains_nil]
        by_cases hf : tf.finallyPos ≥ 0
        · simp [hf, restoreStacks]
        · simp only [hf, if_false]
          rw [ih]
          simp [restoreStacks]
      · simp [hc]

end GojaModel.C09.Mech

namespace GojaModel.C09.Mech

/-- `handleThrow` over a run of dead frames pops them all and then acts on the frame below. -/
theorem handleThrow_dead_run (ex : Nat) (rs : List TryFrame) :
    ∀ (vm : VM) (fs : List TryFrame), vm.tryStack = fs ++ rs.reverse → (∀ tf ∈ rs, tf.dead) →
      handleThrow ex vm = handleThrow ex { vm with tryStack := fs } := by
  induction rs with
  | nil => intro vm fs h _; congr; cases vm; simp_all
  | cons tf rs ih =>
    intro vm fs h hd
    have h' : vm.tryStack = (fs ++ rs.reverse) ++ [tf] := by simp [h]
    rw [handleThrow_dead_pops ex vm _ tf h' (hd tf (by simp))]
    exact ih _ fs rfl (fun t ht => hd t (by simp [ht]))

/-- At the marker frame pushed by `enterNext` (catchPos = tryPanicMarker) `handleThrow` stops: it unwinds the call
stack to the frame's depth (restoring the context saved there), cuts the operand / iterator / reference stacks to the
recorded lengths, leaves the marker on the try stack and reports the exception as uncaught. -/
theorem handleThrow_at_marker (ex : Nat) (vm : VM) (fs : List TryFrame) (M : TryFrame)
    (h : vm.tryStack = fs ++ [M]) (hm : M.catchPos = tryPanicMarker) (hc : M.callStackLen < vm.callStack.length) :
    handleThrow ex vm =
      (.uncaught, ((vm.iterStack.drop M.iterLen).reverse).filter (· ≠ 0),
       { cur := { (vm.callStack.getD M.callStackLen default) with stash := M.stash },
         stack := vm.stack.take M.sp, callStack := vm.callStack.take M.callStackLen,
         iterStack := vm.iterStack.take M.iterLen, refStack := vm.refStack.take M.refLen, tryStack := vm.tryStack }) := by
  have hlive : ¬ M.dead := by unfold TryFrame.dead; rw [hm]; simp [tryPanicMarker]
  rw [handleThrow_live_top ex vm fs M h hlive]
  simp [liveStep, restoreStacks, hm, hc]

end GojaModel.C09.Mech

namespace GojaModel.C09.Mech

/-- **return(v), closing an iterator throws, nobody in the generator catches it** (repair bf2a7fb).  If the frames of the
activation (`rs`, top first) are all dead — the body is suspended inside finally / catch blocks only — and closing the
iterators above the top frame raises an exception, `enterNextFinallyFrame` reports it as uncaught with the activation
ALREADY unwound: the generator's try frames popped (the marker `M` of `enterNext` left on top), the call stack cut to
the marker's depth with the context saved there restored, operand / iterator / reference stacks cut to the marker's
recorded lengths. -/
theorem enf2_close_throw_uncaught (throwing : List Nat) (exOf : Nat → Nat) (n : Nat) (vm : VM) (cl : List Nat)
    (lo : List TryFrame) (M tf : TryFrame) (rs : List TryFrame) (it : Nat)
    (h : vm.tryStack = (lo ++ [M]) ++ (tf :: rs).reverse) (hd : ∀ t ∈ tf :: rs, t.dead)
    (hc : tf.callStackLen = vm.callStack.length) (hm : M.catchPos = tryPanicMarker) (hmc : M.callStackLen < vm.callStack.length)
    (hthrow : (restoreStacks vm tf.iterLen tf.refLen).1.find? (throwing.contains ·) = some it) :
    ∃ cl', enfLoop2 throwing exOf (n + 1) vm cl = .uncaught cl'
      { cur := { (vm.callStack.getD M.callStackLen default) with stash := M.stash },
        stack := vm.stack.take M.sp, callStack := vm.callStack.take M.callStackLen,
        iterStack := (vm.iterStack.take tf.iterLen).take M.iterLen, refStack := (vm.refStack.take tf.refLen).take M.refLen,
        tryStack := lo ++ [M] } := by
  have hgl : vm.tryStack.getLast? = some tf := by
    rw [h, List.reverse_cons, ← List.append_assoc]; exact List.getLast?_concat
  unfold enfLoop2
  simp only [hgl, hc, ne_eq, not_true_eq_false, if_false, hthrow]
  have h2 : (restoreStacks vm tf.iterLen tf.refLen).2.tryStack = (lo ++ [M]) ++ (tf :: rs).reverse := by
    simp [restoreStacks, h]
  rw [handleThrow_dead_run (exOf it) (tf :: rs) _ (lo ++ [M]) h2 hd]
  rw [handleThrow_at_marker (exOf it) _ lo M rfl hm (by simpa [restoreStacks] using hmc)]
  simp [restoreStacks]

/-- … and the epilogue of `_return`'s uncaught path (popTryFrame; popCtx) then gives the caller its vm back EXACTLY, when
the marker is the one `enterNext` pushed over caller `vm0` (its recorded lengths are `vm0`'s, the context saved at its
depth is the extra `{pc: -2}` frame on top of `vm0`'s own). -/
theorem return_close_throw_uncaught_restores_caller (vm0 : VM) (vmU : VM) (M : TryFrame)
    (hM : M = { callStackLen := vm0.callStack.length + 1, iterLen := vm0.iterStack.length, refLen := vm0.refStack.length,
                sp := vm0.stack.length, stash := vm0.cur.stash, catchPos := tryPanicMarker, finallyPos := -1, finallyRet := -1 })
    (vm : VM) (tf : TryFrame)
    (hcs : vm.callStack = vm0.callStack ++ [vm0.cur, { pc := -2 }])
    (hst : vm.stack.take vm0.stack.length = vm0.stack)
    (hit : (vm.iterStack.take tf.iterLen).take vm0.iterStack.length = vm0.iterStack)
    (hrf : (vm.refStack.take tf.refLen).take vm0.refStack.length = vm0.refStack)
    (hU : vmU = { cur := { (vm.callStack.getD M.callStackLen default) with stash := M.stash },
                  stack := vm.stack.take M.sp, callStack := vm.callStack.take M.callStackLen,
                  iterStack := (vm.iterStack.take tf.iterLen).take M.iterLen, refStack := (vm.refStack.take tf.refLen).take M.refLen,
                  tryStack := vm0.tryStack ++ [M] }) :
    nextEpilogue vmU = vm0 := by
  subst hU hM
  cases vm0 with
  | mk cur stack callStack iterStack refStack tryStack =>
    simp only [nextEpilogue, popTryFrame, popCtx] at *
    have e1 : List.take (callStack.length + 1) callStack = callStack := List.take_of_length_le (by omega)
    simp [hcs, hst, hit, hrf, List.take_append, e1]

end GojaModel.C09.Mech

namespace GojaModel.C09.Mech
open GojaModel.C09 GojaModel.C09.Link

theorem outcomeOfSpec_ne_uncaught (h : Nat × Bool) : outcomeOfSpec (some h) ≠ .uncaught := by
  obtain ⟨i, b⟩ := h
  cases b <;> simp [outcomeOfSpec]

/-- **return(v), closing an iterator throws, a handler of the generator takes it.**  On the try-stack layout of ANY spec
continuation `k` (placed anywhere by a handler-preserving `f`), when `enterNextFinallyFrame` closes the iterators above
the top frame and one `return()` throws, the exception is dispatched to exactly the handler that the spec's unwinding
selects for a throw completion at `k` (§7.4.11: the error of `return()` replaces the return completion and propagates
from the loop): `enterNextFinallyFrame` answers "continue" and the body goes on in that catch / finally block. -/
theorem enf2_close_throw_dispatch_matches_spec (throwing : List Nat) (exOf : Nat → Nat) (spOf : Nat → Nat)
    (f : TryFrame → TryFrame) (hf : ∀ tf, (f tf).catchPos = tf.catchPos ∧ (f tf).finallyPos = tf.finallyPos)
    (k : List Frame) (n : Nat) (vm : VM) (cl : List Nat) (lo : List TryFrame) (tf : TryFrame) (it : Nat) (h : Nat × Bool)
    (hvm : vm.tryStack = lo ++ (encode spOf k).map f) (hgl : vm.tryStack.getLast? = some tf)
    (hc : tf.callStackLen = vm.callStack.length) (hs : specThrowHandler k = some h)
    (hthrow : (restoreStacks vm tf.iterLen tf.refLen).1.find? (throwing.contains ·) = some it) :
    ∃ cl' vm', enfLoop2 throwing exOf (n + 1) vm cl = .handled (outcomeOfSpec (some h)) cl' vm' := by
  unfold enfLoop2
  simp only [hgl, hc, ne_eq, not_true_eq_false, if_false, hthrow]
  have hr : (restoreStacks vm tf.iterLen tf.refLen).2.tryStack = lo ++ (encode spOf k).map f := by
    simp [restoreStacks, hvm]
  have ho := handleThrow_matches_spec (exOf it) spOf f hf k _ lo h hr hs
  rw [ho]
  simp [outcomeOfSpec_ne_uncaught]

end GojaModel.C09.Mech

namespace GojaModel.C09.Mech

/-! ### The `g.returning != nil` loop of `generator.step1` with every exit (func.go:863-905) -/

inductive Step1Out2 where
  | exThrown (vm : VM)              -- :866-870 the body came back with an exception no handler of the generator took
  | closeErrorUncaught (vm : VM)    -- :879-881 enterNextFinallyFrame: closing an iterator threw, uncaught
  | returnCompleted (vm : VM)       -- :886-897 all finally blocks done, res = returning
  | closeErrorAtEnd (vm : VM)       -- :888-895 … but closing the remaining iterators threw: ex, res = nil
  | bodyReturned (vm : VM)          -- :899-902
  | yielded (vm : VM)               -- :903 → yield epilogue
  | oracleExhausted
deriving Repr, Inhabited

def step1Returning2 (g : Gen) (throwing : List Nat) (exOf : Nat → Nat) : List (RunBack × VM) → Step1Out2
  | [] => .oracleExhausted
  | (ev, vm) :: rest =>
    match ev with
    | .threw => .exThrown vm
    | .caught => step1Returning2 g throwing exOf rest                               -- :871-876 (5eca78e)
    | .finallyExit =>                                                               -- :878
      match enterNextFinallyFrame2 throwing exOf vm with
      | .uncaught _ vm1 => .closeErrorUncaught vm1                                  -- :879-881 (bf2a7fb)
      | .entered _ _ => step1Returning2 g throwing exOf rest                        -- :882-883
      | .handled _ _ _ => step1Returning2 g throwing exOf rest
      | .noFrame _ vm1 =>
        let r := restoreStacks vm1 g.iterStackLen g.refStackLen                     -- :888
        let vm2 : VM := { r.2 with stack := r.2.stack.take (r.2.cur.sb - 1).toNat,  -- :891
                                   callStack := r.2.callStack.dropLast }            -- :892
        if r.1.any (throwing.contains ·) then .closeErrorAtEnd vm2 else .returnCompleted vm2   -- :893-897
    | .returned => .bodyReturned vm
    | .yielded => .yielded vm

/-- Caught-not-halted come-backs are transparent (5eca78e), also in the full loop. -/
theorem step1Returning2_caught_transparent (g : Gen) (throwing : List Nat) (exOf : Nat → Nat)
    (pre rest : List (RunBack × VM)) (hpre : ∀ e ∈ pre, e.1 = .caught) :
    step1Returning2 g throwing exOf (pre ++ rest) = step1Returning2 g throwing exOf rest := by
  induction pre with
  | nil => rfl
  | cons e pre ih =>
    obtain ⟨ev, vm⟩ := e
    have h1 : ev = .caught := hpre (ev, vm) (by simp)
    subst h1
    simp only [List.cons_append, step1Returning2]
    exact ih (fun e he => hpre e (by simp [he]))

/-- When the last finally block has exited, the activation is unwound (operand stack cut to `sb - 1`, the extra call
frame dropped) BEFORE the result is reported — whether or not closing the remaining iterators threw (bf2a7fb: the old
code returned the error first and left the extra frame for the caller's popCtx to mistake for the saved context). -/
theorem all_finallies_exit_unwinds_even_on_close_error (g : Gen) (throwing : List Nat) (exOf : Nat → Nat) (vm : VM)
    (rest : List (RunBack × VM)) (cl : List Nat) (vm1 : VM)
    (h : enterNextFinallyFrame2 throwing exOf vm = .noFrame cl vm1) :
    ∃ vm2, (step1Returning2 g throwing exOf ((.finallyExit, vm) :: rest) = .returnCompleted vm2 ∨
            step1Returning2 g throwing exOf ((.finallyExit, vm) :: rest) = .closeErrorAtEnd vm2) ∧
      vm2.callStack = vm1.callStack.dropLast ∧ vm2.stack = vm1.stack.take (vm1.cur.sb - 1).toNat ∧
      vm2.iterStack = vm1.iterStack.take g.iterStackLen ∧ vm2.refStack = vm1.refStack.take g.refStackLen := by
  simp only [step1Returning2, h]
  split
  · exact ⟨_, Or.inr rfl, by simp [restoreStacks]⟩
  · exact ⟨_, Or.inl rfl, by simp [restoreStacks]⟩

/-- A close error that no handler of the generator takes ends the step at once, with the vm `enterNextFinallyFrame`
left (activation already unwound by `handleThrow`, see `enf2_close_throw_uncaught`). -/
theorem close_error_uncaught_ends_step (g : Gen) (throwing : List Nat) (exOf : Nat → Nat) (vm : VM)
    (rest : List (RunBack × VM)) (cl : List Nat) (vm1 : VM)
    (h : enterNextFinallyFrame2 throwing exOf vm = .uncaught cl vm1) :
    step1Returning2 g throwing exOf ((.finallyExit, vm) :: rest) = .closeErrorUncaught vm1 := by
  simp [step1Returning2, h]

end GojaModel.C09.Mech

namespace GojaModel.C09.Mech

/-! (tests) the hypotheses of `enf2_close_throw_uncaught` on a concrete vm: caller with one try frame, `enterNext`'s marker,
one dead generator frame (a finally block being run) over an open iterator 7 whose `return()` throws exception 99. -/
def exVM : VM :=
  { cur := { prg := some 1, sb := 3, pc := 40 }, stack := [1, 2, 10, 11, 12],
    callStack := [{ prg := some 0, sb := 1, pc := 5 }, { pc := -2 }], iterStack := [7], refStack := [],
    tryStack := [{ callStackLen := 0, iterLen := 0, refLen := 0, sp := 1, stash := 0, catchPos := 9, finallyPos := -1 },
                 { callStackLen := 1, iterLen := 0, refLen := 0, sp := 2, stash := 0, catchPos := tryPanicMarker, finallyPos := -1 },
                 { callStackLen := 2, iterLen := 0, refLen := 0, sp := 3, stash := 0, catchPos := -1, finallyPos := -1 }] }

def exChk : EnfOut → Bool
  | .uncaught _ vm' => vm'.tryStack.length == 2 && vm'.callStack.length == 1 && vm'.stack == [1, 2] && vm'.iterStack == [] && vm'.cur.pc == -2
  | _ => false

example : exChk (enterNextFinallyFrame2 [7] (fun _ => 99) exVM) = true := by decide

example : enterNextFinallyFrame2 [] (fun _ => 99) exVM = .noFrame [7] { exVM with iterStack := [], tryStack := exVM.tryStack.dropLast } := by
  decide

end GojaModel.C09.Mech
