/-
  C09 — spec model `GenReplay`: a generator body is literally a state machine.

  A small generator-body language (locals, integer/string expressions with `yield` allowed in every
  expression position, log, if/while/for, try/catch/finally, for-of over arrays and over scripted
  iterators / other generators, a closure that updates a captured local, return, throw, break/continue (optionally labelled), `yield*`
  delegation to scripted iterators incl. ones missing `throw`/`return` or whose `return` throws) is given meaning by a
  defunctionalised CEK machine: `step` is a NON-recursive transition function on configurations
  (control, environment, continuation stack), `run` iterates it (fuel), and a suspended generator is
  just a stored configuration.  `genCall` is the generatorObject state machine of /repo/func.go:916-1089
  (validate / next / throw / _return, states suspendedStart / suspendedYield / executing / completed),
  `genRun` folds it over a driver history.

  Spec references: ECMA-262 §27.5.3 (GeneratorResume / GeneratorResumeAbrupt / GeneratorValidate),
  §15.5.5 (yield, yield*), §14.15.3 (try), §14.7.5.7 (for-of, IteratorClose).
  Core Lean only (linked into the model driver).
-/
namespace GojaModel.C09

inductive Val where
  | undef | num (n : Nat) | nan | str (s : String) | terr
deriving DecidableEq, Repr, Inhabited

inductive CmdKind where | next | throw | ret
deriving DecidableEq, Repr, Inhabited

structure Cmd where
  kind : CmdKind
  payload : Val
deriving DecidableEq, Repr, Inhabited

/-- A scripted iterator / inner generator (see design/C09.md for the JavaScript each one denotes).
`ret`: 0 = no `return` method, 1 = `return(v)` answers `{value: v, done: true}`, 2 = `return` throws the string "X<id>",
3 = `return` answers a non-object (the number 5).
`thr`: 0 = no `throw` method, 1 = rethrows, 2 = returns `{done:true}`, 3 = returns `{done:false}`, 4 = returns a non-object.
`10 ≤ id < 40` (object kind): the iterator's SECOND `next()` call makes a re-entrant call on the generator under test
(`id / 10 - 1` = 0 next / 1 throw / 2 return), catches what it throws and logs it.
`id ≥ 40` (object kind): the iterator's SECOND `next()` call throws the string "N<id>". -/
structure IterSpec where
  id : Nat
  isGen : Bool
  ret : Nat
  thr : Nat
  items : List Val
deriving DecidableEq, Repr, Inhabited

structure IterState where
  spec : IterSpec
  pos : Nat
  started : Bool
deriving DecidableEq, Repr, Inhabited

inductive Expr where
  | lit (v : Val)
  | var (x : Nat)
  | add (a b : Expr)
  | yld (e : Expr)
  | yldStar (it : IterSpec)
  | call (args : List (Bool × Expr))                 -- J(a, ...b, c)
  | tmpl (lit0 : String) (rest : List (Expr × String))
  | asg (x : Nat) (e : Expr)
  | bump (x : Nat) (e : Expr)                        -- closure call: Bx(e), Bx = d => (x = x + d)
  | reent (k : CmdKind)                              -- G.next()/G.throw()/G.return() from inside the body
deriving Repr, Inhabited

inductive Cond where
  | cmp (neg : Bool) (a b : Expr)                    -- a === b / a !== b
deriving Repr, Inhabited

/-- Loop label (`Lk: for …`), `none` = unlabelled; in `break`/`continue`, `none` = innermost loop. -/
abbrev Label := Option Nat

inductive Stmt where
  | expr (e : Expr)
  | log (e : Expr)
  | letArr (targets : List (Nat × Option Expr)) (src : List (Bool × Expr))
  | ite (c : Cond) (t e : List Stmt)
  | forS (l : Label) (x : Nat) (n : Nat) (body : List Stmt)     -- for (x = 0; x !== n; x = x + 1)
  | whileS (l : Label) (c : Cond) (body : List Stmt)
  | tryS (b : List Stmt) (c : Option (Nat × List Stmt)) (f : Option (List Stmt))
  | forOfArr (l : Label) (x : Nat) (src : List (Bool × Expr)) (body : List Stmt)
  | forOfIter (l : Label) (x : Nat) (it : IterSpec) (body : List Stmt)
  | ret (e : Expr)
  | thr (e : Expr)
  | brk (l : Label)
  | cont (l : Label)
  | blk (x : Nat) (init : Val) (body : List Stmt)   -- { let s = init; …closures capturing s…; body }: a block scope whose
                                                    -- binding (slot x, a fresh one per nesting depth: shadowing) lives in its own scope object
deriving Repr, Inhabited

inductive Completion where
  | thr (v : Val)
  | ret (v : Val)
  | brk (l : Label)
  | cont (l : Label)
deriving Repr, Inhabited

inductive ArgsThen where
  | callJ
  | forArr (l : Label) (x : Nat) (body : List Stmt)
  | letArr (targets : List (Nat × Option Expr))
deriving Repr, Inhabited

inductive Frame where
  | addL (b : Expr) | addR (a : Val)
  | yldK
  | argsK (done : List Val) (spread : Bool) (rest : List (Bool × Expr)) (th : ArgsThen)
  | tmplK (acc : String) (lit : String) (rest : List (Expr × String))
  | asgK (x : Nat) | bumpK (x : Nat) | logK | retK | thrK
  | condL (neg : Bool) (b : Expr) | condR (neg : Bool) (a : Val)
  | iteK (t e : List Stmt)
  | seqK (rest : List Stmt)
  | whileK (l : Label) (c : Cond) (body : List Stmt)         -- the condition is being evaluated
  | whileBodyK (l : Label) (c : Cond) (body : List Stmt)     -- the body is running
  | forBodyK (l : Label) (x : Nat) (n : Nat) (body : List Stmt)
  | tryK (c : Option (Nat × List Stmt)) (f : Option (List Stmt))
  | catchK (f : Option (List Stmt))
  | finK (pending : Option Completion)
  | forOfK (l : Label) (x : Nat) (it : IterState) (body : List Stmt)
  | forArrK (l : Label) (x : Nat) (rest : List Val) (body : List Stmt)
  | letArrK (x : Nat) (vals : List Val) (targets : List (Nat × Option Expr))
  | blkK                                            -- a block scope is open (lexical scope marker; transparent)
deriving Repr, Inhabited

inductive Ctl where
  | evalE (e : Expr)
  | evalC (c : Cond)
  | val (v : Val)
  | exec (ss : List Stmt)
  | abrupt (c : Completion)
  | args (done : List Val) (rest : List (Bool × Expr)) (th : ArgsThen)
  | tmplGo (acc : String) (rest : List (Expr × String))
  | letArrGo (vals : List Val) (targets : List (Nat × Option Expr))
  | forGo (l : Label) (x : Nat) (n : Nat) (body : List Stmt)
  | forOfGo (l : Label) (x : Nat) (it : IterState) (body : List Stmt)
  | forArrGo (l : Label) (x : Nat) (rest : List Val) (body : List Stmt)
deriving Repr, Inhabited

structure Conf where
  ctl : Ctl
  env : List Val
  k : List Frame
deriving Repr, Inhabited

inductive Result where
  | y (v : Val)        -- {value: v, done: false}
  | d (v : Val)        -- {value: v, done: true}
  | t (v : Val)        -- the call threw v
  | fuel               -- model ran out of fuel (never expected; reported as a generator bug)
deriving DecidableEq, Repr, Inhabited

abbrev Event := String

/-! ## Values -/

def natStr (n : Nat) : String := toString n

/-- Canonical printing used by `log`, `J` and the trace (the harness prints JS values the same way). -/
def showVal : Val → String
  | .undef => "u" | .num n => "i" ++ natStr n | .nan => "N" | .str s => "s" ++ s | .terr => "E"

/-- JS ToString on the value universe. -/
def toStr : Val → String
  | .undef => "undefined" | .num n => natStr n | .nan => "NaN" | .str s => s | .terr => "TE"

def isStr : Val → Bool | .str _ => true | _ => false

/-- JS `+` on the value universe. -/
def addV (a b : Val) : Val :=
  match a, b with
  | .num x, .num y => .num (x + y)
  | _, _ => if isStr a || isStr b then .str (toStr a ++ toStr b) else .nan

/-- JS `===`. -/
def eqV (a b : Val) : Bool := a == b && a != .nan

def jOf (vs : List Val) : Val := .str (vs.foldl (fun s v => s ++ "_" ++ showVal v) "J")

/-- `catch (e) { x = C(e) … }`: the harness canonicalises a caught TypeError object to the string "TE". -/
def canonErr : Val → Val | .terr => .str "TE" | v => v

def spreadOf : Val → Option (List Val)
  | .str s => some (s.toList.map (fun c => .str (String.singleton c)))
  | _ => none

/-! ## The generator object's decision before any body code runs (func.go:916 validate, 982 next, 1004 throw,
1035 _return) — non-recursive so that the body's re-entrant calls can use it. -/

inductive GTag where | start | susp | executing | completed
deriving DecidableEq, Repr, Inhabited

inductive Pre where
  | reject                                   -- TypeError "Illegal generator state", state unchanged
  | answer (r : Result)                      -- answered without running the body; state becomes completed
  | resume                                   -- resume the body (or the delegate)
deriving DecidableEq, Repr, Inhabited

def genPre (tag : GTag) (cmd : Cmd) : Pre :=
  match tag with
  | .executing => .reject                                            -- func.go:917
  | .completed =>
    match cmd.kind with
    | .next => .answer (.d .undef)                                   -- :984
    | .throw => .answer (.t cmd.payload)                             -- :1009
    | .ret => .answer (.d cmd.payload)                               -- :1041
  | .start =>
    match cmd.kind with
    | .next => .resume
    | .throw => .answer (.t cmd.payload)                             -- :1006-1010
    | .ret => .answer (.d cmd.payload)                               -- :1037-1042
  | .susp => .resume

/-! ## Scripted iterators -/

def IterSpec.tag (s : IterSpec) : String := "I" ++ natStr s.id
def IterSpec.hasThrow (s : IterSpec) : Bool := s.isGen || s.thr != 0
def IterSpec.hasReturn (s : IterSpec) : Bool := s.isGen || s.ret != 0
def IterState.init (s : IterSpec) : IterState := ⟨s, 0, false⟩

inductive IterOut where
  | yielded (v : Val) (st : IterState)
  | done (v : Val)
  | threw (v : Val)
deriving Repr, Inhabited

/-- What a re-entrant driver call made from inside one of the iterator's methods evaluates to: the generator that is
delegating to (or iterating over) this iterator is RUNNING, so GeneratorValidate rejects the call (§27.5.3.2). -/
def reentOutcome (kd : CmdKind) : Val :=
  match genPre .executing ⟨kd, .num 9⟩ with
  | .reject => .terr
  | _ => .undef

def IterSpec.reentKind (s : IterSpec) : Option CmdKind :=
  if s.isGen || s.id < 10 || s.id ≥ 40 then none
  else match s.id / 10 - 1 with
    | 0 => some .next
    | 1 => some .throw
    | _ => some .ret

def IterSpec.nextThrows (s : IterSpec) : Bool := !s.isGen && s.id ≥ 40

def iterNext (st : IterState) (v : Val) : List Event × IterOut :=
  let s := st.spec
  let ev : List Event := if s.isGen && !st.started then [] else [s.tag ++ "n" ++ showVal v]
  let ev : List Event :=
    match s.reentKind with
    | some kd => if st.pos == 1 && 1 < s.items.length then ev ++ [s.tag ++ "x" ++ showVal (reentOutcome kd)] else ev
    | none => ev
  if s.nextThrows && st.pos == 1 && 1 < s.items.length then (ev, .threw (.str ("N" ++ natStr s.id)))
  else
  match s.items[st.pos]? with
  | some it => (ev, .yielded it { st with pos := st.pos + 1, started := true })
  | none => (if s.isGen then ev ++ [s.tag ++ "f"] else ev, .done (.str ("R" ++ natStr s.id)))

/-- Only called when `hasThrow`. -/
def iterThrow (st : IterState) (e : Val) : List Event × IterOut :=
  let s := st.spec
  if s.isGen then ([s.tag ++ "f"], .threw e)
  else
    let ev := [s.tag ++ "t" ++ showVal e]
    if s.thr == 2 then (ev, .done (.str ("T" ++ natStr s.id)))
    else if s.thr == 3 then (ev, .yielded (.str ("C" ++ natStr s.id)) st)
    else if s.thr == 4 then (ev, .threw .terr)        -- result is not an object: TypeError (§15.5.5 7.b.iii)
    else (ev, .threw e)

/-- Only called when `hasReturn`. -/
def iterReturn (st : IterState) (v : Val) : List Event × IterOut :=
  let s := st.spec
  if s.isGen then ([s.tag ++ "f"], .done v)
  else if s.ret == 2 then ([s.tag ++ "r" ++ showVal v], .threw (.str ("X" ++ natStr s.id)))
  else if s.ret == 3 then ([s.tag ++ "r" ++ showVal v], .threw .terr)   -- result is not an object: TypeError
  else ([s.tag ++ "r" ++ showVal v], .done v)

/-- IteratorClose (§7.4.11) / `returnIter` (runtime.go): calls `return()` without arguments if present; the second
component is the error `return()` threw, if any (the caller decides whether it replaces the completion). -/
def iterClose (st : IterState) : List Event × Option Val :=
  if st.spec.hasReturn then
    match iterReturn st .undef with
    | (ev, .threw e) => (ev, some e)
    | (ev, _) => (ev, none)
  else ([], none)

/-! ## The machine -/

inductive StepOut where
  | cont (c : Conf) (ev : List Event)
  | yielded (v : Val) (c : Conf) (deleg : Option IterState) (ev : List Event)
  | finished (r : Result) (ev : List Event)
deriving Repr, Inhabited

def envGet (env : List Val) (x : Nat) : Val := env.getD x .undef

/-- One command delivered to a delegate (`yield*`): §15.5.5 step 7 / func.go:987-996, 1012-1030, 1045-1059. -/
def delegCmd (it : IterState) (cmd : Cmd) (c : Conf) : StepOut :=
  match cmd.kind with
  | .next =>
    match iterNext it cmd.payload with
    | (ev, .yielded v it') => .yielded v c (some it') ev
    | (ev, .done v) => .cont { c with ctl := .val v } ev
    | (ev, .threw e) => .cont { c with ctl := .abrupt (.thr e) } ev
  | .throw =>
    if it.spec.hasThrow then
      match iterThrow it cmd.payload with
      | (ev, .yielded v it') => .yielded v c (some it') ev
      | (ev, .done v) => .cont { c with ctl := .val v } ev
      | (ev, .threw e) => .cont { c with ctl := .abrupt (.thr e) } ev
    else
      match iterClose it with                                                   -- func.go:1018-1020
      | (ev, some e) => .cont { c with ctl := .abrupt (.thr e) } ev              -- return() threw: that error wins
      | (ev, none) => .cont { c with ctl := .abrupt (.thr .terr) } ev
  | .ret =>
    if it.spec.hasReturn then
      match iterReturn it cmd.payload with
      | (ev, .yielded v it') => .yielded v c (some it') ev
      | (ev, .done v) => .cont { c with ctl := .abrupt (.ret v) } ev
      | (ev, .threw e) => .cont { c with ctl := .abrupt (.thr e) } ev
    else .cont { c with ctl := .abrupt (.ret cmd.payload) } []                   -- func.go:1051-1052

/-- Does a loop labelled `lf` consume `break l` / `continue l`? -/
def loopCatches (lf l : Label) : Bool := l.isNone || l == lf

/-- What a loop frame does with an abrupt completion: `some true` = break out of it, `some false` = continue it,
`none` = not for this loop. -/
def loopAction (lf : Label) : Completion → Option Bool
  | .brk l => if loopCatches lf l then some true else none
  | .cont l => if loopCatches lf l then some false else none
  | _ => none

def isThr : Completion → Bool | .thr _ => true | _ => false


/-- Unwinding: one step of an abrupt completion `cp` against the top continuation frame. -/
def stepAbrupt (c : Conf) (cp : Completion) : StepOut :=
  let env := c.env
  match c.k with
  | [] =>
    match cp with
    | .thr v => .finished (.t v) []
    | .ret v => .finished (.d v) []
    | .brk _ => .finished (.d .undef) []
    | .cont _ => .finished (.d .undef) []
  | f :: k' =>
    match f with
    | .tryK cc fin =>
      match cp, cc with
      | .thr v, some (x, cb) => .cont { ctl := .exec cb, env := env.set x (canonErr v), k := .catchK fin :: k' } []
      | _, _ =>
        match fin with
        | some fb => .cont { c with ctl := .exec fb, k := .finK (some cp) :: k' } []
        | none => .cont { c with k := k' } []
    | .catchK fin =>
      match fin with
      | some fb => .cont { c with ctl := .exec fb, k := .finK (some cp) :: k' } []
      | none => .cont { c with k := k' } []
    | .forOfK lf x it body =>
      match loopAction lf cp with
      | some false => .cont { c with ctl := .forOfGo lf x it body, k := k' } []          -- continue: next iteration
      | act =>
        -- leaving the loop: IteratorClose; an error from return() replaces every completion but a throw
        match iterClose it with
        | (ev, some e) =>
          if isThr cp then .cont { c with k := k' } ev else .cont { c with ctl := .abrupt (.thr e), k := k' } ev
        | (ev, none) =>
          if act.isSome then .cont { c with ctl := .val .undef, k := k' } ev else .cont { c with k := k' } ev
    | .whileBodyK lf cd body =>
      match loopAction lf cp with
      | some true => .cont { c with ctl := .val .undef, k := k' } []
      | some false => .cont { c with ctl := .evalC cd, k := .whileK lf cd body :: k' } []
      | none => .cont { c with k := k' } []
    | .forBodyK lf x n body =>
      match loopAction lf cp with
      | some true => .cont { c with ctl := .val .undef, k := k' } []
      | some false => .cont { ctl := .forGo lf x n body, env := env.set x (addV (envGet env x) (.num 1)), k := k' } []
      | none => .cont { c with k := k' } []
    | .forArrK lf x rest body =>
      match loopAction lf cp with
      | some true => .cont { c with ctl := .val .undef, k := k' } []
      | some false => .cont { c with ctl := .forArrGo lf x rest body, k := k' } []
      | none => .cont { c with k := k' } []
    | _ => .cont { c with k := k' } []

/-- The transition function.  Non-recursive: every case is one machine step. -/
def step (c : Conf) : StepOut :=
  let env := c.env
  let k := c.k
  match c.ctl with
  | .evalE e =>
    match e with
    | .lit v => .cont { c with ctl := .val v } []
    | .var x => .cont { c with ctl := .val (envGet env x) } []
    | .add a b => .cont { c with ctl := .evalE a, k := .addL b :: k } []
    | .yld e => .cont { c with ctl := .evalE e, k := .yldK :: k } []
    | .yldStar s => delegCmd (IterState.init s) ⟨.next, .undef⟩ c
    | .call args => .cont { c with ctl := .args [] args .callJ } []
    | .tmpl l0 rest => .cont { c with ctl := .tmplGo l0 rest } []
    | .asg x e => .cont { c with ctl := .evalE e, k := .asgK x :: k } []
    | .bump x e => .cont { c with ctl := .evalE e, k := .bumpK x :: k } []
    | .reent kd =>
      -- the body only ever runs while the object is `executing`
      match genPre .executing ⟨kd, .num 1⟩ with
      | .reject => .cont { c with ctl := .abrupt (.thr .terr) } []
      | _ => .cont { c with ctl := .abrupt (.thr .terr) } []
  | .evalC (.cmp neg a b) => .cont { c with ctl := .evalE a, k := .condL neg b :: k } []
  | .args done rest th =>
    match rest with
    | (sp, e) :: rest' => .cont { c with ctl := .evalE e, k := .argsK done sp rest' th :: k } []
    | [] =>
      match th with
      | .callJ => .cont { c with ctl := .val (jOf done) } []
      | .forArr l x body => .cont { c with ctl := .forArrGo l x done body } []
      | .letArr ts => .cont { c with ctl := .letArrGo done ts } []
  | .tmplGo acc rest =>
    match rest with
    | [] => .cont { c with ctl := .val (.str acc) } []
    | (e, l) :: rest' => .cont { c with ctl := .evalE e, k := .tmplK acc l rest' :: k } []
  | .letArrGo vals ts =>
    match ts with
    | [] => .cont { c with ctl := .val .undef } []
    | (x, d) :: ts' =>
      let v := vals.headD .undef
      match v, d with
      | .undef, some e => .cont { c with ctl := .evalE e, k := .letArrK x vals.tail ts' :: k } []
      | _, _ => .cont { c with ctl := .letArrGo vals.tail ts', env := env.set x v } []
  | .forGo l x n body =>
    if eqV (envGet env x) (.num n) then .cont { c with ctl := .val .undef } []
    else .cont { c with ctl := .exec body, k := .forBodyK l x n body :: k } []
  | .forOfGo l x it body =>
    match iterNext it .undef with
    | (ev, .yielded v it') => .cont { ctl := .exec body, env := env.set x v, k := .forOfK l x it' body :: k } ev
    | (ev, .done _) => .cont { c with ctl := .val .undef } ev
    | (ev, .threw e) => .cont { c with ctl := .abrupt (.thr e) } ev
  | .forArrGo l x rest body =>
    match rest with
    | [] => .cont { c with ctl := .val .undef } []
    | v :: r => .cont { ctl := .exec body, env := env.set x v, k := .forArrK l x r body :: k } []
  | .exec ss =>
    match ss with
    | [] => .cont { c with ctl := .val .undef } []
    | s :: rest =>
      let k1 := Frame.seqK rest :: k
      match s with
      | .expr e => .cont { c with ctl := .evalE e, k := k1 } []
      | .log e => .cont { c with ctl := .evalE e, k := .logK :: k1 } []
      | .letArr ts src => .cont { c with ctl := .args [] src (.letArr ts), k := k1 } []
      | .ite cd t e => .cont { c with ctl := .evalC cd, k := .iteK t e :: k1 } []
      | .forS l x n body => .cont { ctl := .forGo l x n body, env := env.set x (.num 0), k := k1 } []
      | .whileS l cd body => .cont { c with ctl := .evalC cd, k := .whileK l cd body :: k1 } []
      | .tryS b cc f => .cont { c with ctl := .exec b, k := .tryK cc f :: k1 } []
      | .forOfArr l x src body => .cont { c with ctl := .args [] src (.forArr l x body), k := k1 } []
      | .forOfIter l x s body => .cont { c with ctl := .forOfGo l x (IterState.init s) body, k := k1 } []
      | .ret e => .cont { c with ctl := .evalE e, k := .retK :: k1 } []
      | .thr e => .cont { c with ctl := .evalE e, k := .thrK :: k1 } []
      | .brk l => .cont { c with ctl := .abrupt (.brk l), k := k1 } []
      | .cont l => .cont { c with ctl := .abrupt (.cont l), k := k1 } []
      | .blk x v body => .cont { ctl := .exec body, env := env.set x v, k := .blkK :: k1 } []
  | .val v =>
    match k with
    | [] => .finished (.d .undef) []
    | f :: k' =>
      match f with
      | .addL b => .cont { c with ctl := .evalE b, k := .addR v :: k' } []
      | .addR a => .cont { c with ctl := .val (addV a v), k := k' } []
      | .yldK => .yielded v { c with ctl := .val .undef, k := k' } none []
      | .argsK done sp rest th =>
        if sp then
          match spreadOf v with
          | some vs => .cont { c with ctl := .args (done ++ vs) rest th, k := k' } []
          | none => .cont { c with ctl := .abrupt (.thr .terr), k := k' } []
        else .cont { c with ctl := .args (done ++ [v]) rest th, k := k' } []
      | .tmplK acc l rest => .cont { c with ctl := .tmplGo (acc ++ toStr v ++ l) rest, k := k' } []
      | .asgK x => .cont { ctl := .val v, env := env.set x v, k := k' } []
      | .bumpK x =>
        let nv := addV (envGet env x) v
        .cont { ctl := .val nv, env := env.set x nv, k := k' } []
      | .logK => .cont { c with ctl := .val .undef, k := k' } [showVal v]
      | .retK => .cont { c with ctl := .abrupt (.ret v), k := k' } []
      | .thrK => .cont { c with ctl := .abrupt (.thr v), k := k' } []
      | .condL neg b => .cont { c with ctl := .evalE b, k := .condR neg v :: k' } []
      | .condR neg a => .cont { c with ctl := .val (.num (if (eqV a v) != neg then 1 else 0)), k := k' } []
      | .iteK t e => .cont { c with ctl := .exec (if v = .num 1 then t else e), k := k' } []
      | .seqK rest => .cont { c with ctl := .exec rest, k := k' } []
      | .whileK l cd body =>
        if v = .num 1 then .cont { c with ctl := .exec body, k := .whileBodyK l cd body :: k' } []
        else .cont { c with ctl := .val .undef, k := k' } []
      | .whileBodyK l cd body => .cont { c with ctl := .evalC cd, k := .whileK l cd body :: k' } []
      | .forBodyK l x n body =>
        .cont { ctl := .forGo l x n body, env := env.set x (addV (envGet env x) (.num 1)), k := k' } []
      | .tryK _ fin | .catchK fin =>
        match fin with
        | some fb => .cont { c with ctl := .exec fb, k := .finK none :: k' } []
        | none => .cont { c with ctl := .val .undef, k := k' } []
      | .finK pending =>
        match pending with
        | none => .cont { c with ctl := .val .undef, k := k' } []
        | some cp => .cont { c with ctl := .abrupt cp, k := k' } []
      | .forOfK l x it body => .cont { c with ctl := .forOfGo l x it body, k := k' } []
      | .forArrK l x rest body => .cont { c with ctl := .forArrGo l x rest body, k := k' } []
      | .letArrK x vals ts => .cont { ctl := .letArrGo vals ts, env := env.set x v, k := k' } []
      | .blkK => .cont { c with ctl := .val v, k := k' } []
  | .abrupt cp => stepAbrupt c cp

inductive RunOut where
  | yielded (v : Val) (c : Conf) (deleg : Option IterState) (ev : List Event)
  | finished (r : Result) (ev : List Event)
  | fuelOut (ev : List Event)
deriving Repr, Inhabited

/-- Iterate `step` until the body suspends or finishes; `ev` accumulates the log. -/
def run : Nat → Conf → List Event → RunOut
  | 0, _, ev => .fuelOut ev
  | n + 1, c, ev =>
    match step c with
    | .cont c' e => run n c' (ev ++ e)
    | .yielded v c' d e => .yielded v c' d (ev ++ e)
    | .finished r e => .finished r (ev ++ e)

/-! ## The generator object -/

inductive GState where
  | start (c : Conf)                               -- genStateSuspendedStart
  | susp (c : Conf) (deleg : Option IterState)     -- genStateSuspendedYield(Res) (+ g.delegated)
  | executing                                      -- genStateExecuting
  | completed                                      -- genStateCompleted
deriving Repr, Inhabited

def GState.tag : GState → GTag
  | .start _ => .start | .susp _ _ => .susp | .executing => .executing | .completed => .completed

def ofRun : RunOut → List Event × Result × GState
  | .yielded v c d ev => (ev, .y v, .susp c d)
  | .finished r ev => (ev, r, .completed)
  | .fuelOut ev => (ev, .fuel, .completed)

/-- How a command enters a suspended body (no delegate): GeneratorResume / GeneratorResumeAbrupt. -/
def resumeCtl (cmd : Cmd) : Ctl :=
  match cmd.kind with
  | .next => .val cmd.payload
  | .throw => .abrupt (.thr cmd.payload)
  | .ret => .abrupt (.ret cmd.payload)

/-- One driver call on the generator object: (log events, result, next state). -/
def genCall (fuel : Nat) (g : GState) (cmd : Cmd) : List Event × Result × GState :=
  match genPre g.tag cmd with
  | .reject => ([], .t .terr, g)
  | .answer r => ([], r, .completed)
  | .resume =>
    match g with
    | .start c => ofRun (run fuel c [])                       -- the first next's argument is ignored
    | .susp c none => ofRun (run fuel { c with ctl := resumeCtl cmd } [])
    | .susp c (some it) =>
      match delegCmd it cmd c with
      | .yielded v c' d ev => (ev, .y v, .susp c' d)
      | .cont c' ev => ofRun (run fuel c' ev)
      | .finished r ev => (ev, r, .completed)
    | _ => ([], .t .terr, g)

def numVars : Nat := 10

def GState.init (body : List Stmt) : GState :=
  .start { ctl := .exec body, env := List.replicate numVars .undef, k := [] }

/-- Drive a generator object through a history: per command its log events and result. -/
def genRunFrom (fuel : Nat) : GState → List Cmd → List (List Event × Result)
  | _, [] => []
  | g, c :: cs =>
    let r := genCall fuel g c
    (r.1, r.2.1) :: genRunFrom fuel r.2.2 cs

def stateAfter (fuel : Nat) : GState → List Cmd → GState
  | g, [] => g
  | g, c :: cs => stateAfter fuel (genCall fuel g c).2.2 cs

/-- `genRun : Body → List Cmd → List Result × Log`. -/
def genRun (fuel : Nat) (body : List Stmt) (cmds : List Cmd) : List Result × List Event :=
  let tr := genRunFrom fuel (GState.init body) cmds
  (tr.map (·.2), (tr.map (·.1)).flatten)

end GojaModel.C09
