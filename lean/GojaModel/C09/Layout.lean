/-
  C09 — compiler layout: the try-stack layout `Link.encode` of the spec continuation is CLOSED under every machine
  step, and each change of it is the effect of one goja instruction (or `handleThrow` case) on the top try frame.

  compiler_stmt.go:105 `compileTryStatement` emits, for `try B catch C finally F`:
      try{catchOffset, finallyOffset}  B  [jump over C]  C  enterFinally  F  leaveFinally        (with finally)
      try{catchOffset, 0}              B  [jump over C]  C  leaveTry                             (without)
  and `emitBlockExitCode` emits `leaveTry` for every `blockTry` a break / continue / return leaves.
  vm.go: try.exec :4760 (pushTryFrame), leaveTry.exec :4778, enterFinally.exec :4794 (379f30d), leaveFinally.exec :4802,
  handleThrow :800 (dead frame popped :804, caught :824, to finally :831); func.go:769 enterNextFinallyFrame.
-/
import GojaModel.C09.Link

namespace GojaModel.C09.Link
open GojaModel.C09 GojaModel.C09.Mech

/-- The ways compiled code changes the generator-owned part of the try stack. -/
inductive LayoutOp : List TryFrame → List TryFrame → Prop where
  | same (a : List TryFrame) : LayoutOp a a
  /-- `try` instruction: pushTryFrame(catchPos, finallyPos). -/
  | push (a : List TryFrame) (tf : TryFrame) : LayoutOp a (a ++ [tf])
  /-- `leaveTry` of a frame without (armed) finally, `leaveFinally`, or a dead frame popped by `handleThrow`. -/
  | pop (a : List TryFrame) (tf : TryFrame) : LayoutOp (a ++ [tf]) a
  /-- `handleThrow` delivering the exception to the catch clause: `tf.catchPos = -1`. -/
  | disarmCatch (a : List TryFrame) (tf tf' : TryFrame) (h : tf' = { tf with catchPos := -1 }) : LayoutOp (a ++ [tf]) (a ++ [tf'])
  /-- `enterFinally` (normal completion of the try or catch block), `leaveTry` with an armed finally (break / continue /
  return leaving the block), `handleThrow` entering the finally with a pending exception, `enterNextFinallyFrame`:
  `tf.catchPos = -1; tf.finallyPos = -1`. -/
  | disarmBoth (a : List TryFrame) (tf tf' : TryFrame) (h : tf' = { tf with catchPos := -1, finallyPos := -1 }) :
      LayoutOp (a ++ [tf]) (a ++ [tf'])

theorem encode_cons_nontry (spOf : Nat → Nat) (f : Frame) (k : List Frame) (h : tryish f = false) :
    encode spOf (f :: k) = encode spOf k := by
  cases f <;> simp_all [encode, frameOf, tryish]

macro "lay_close" : tactic => `(tactic| first
  | exact LayoutOp.same _
  | exact LayoutOp.push _ _
  | exact LayoutOp.pop _ _
  | exact LayoutOp.disarmCatch _ _ _ rfl
  | exact LayoutOp.disarmBoth _ _ _ rfl)

theorem delegCmd_cont_k (it : IterState) (cmd : Cmd) (c c' : Conf) (ev : List Event)
    (h : delegCmd it cmd c = .cont c' ev) : c'.k = c.k := by
  unfold delegCmd at h
  repeat' split at h
  all_goals first
    | (injection h with h1 h2; subst h1; rfl)
    | cases h

theorem delegCmd_yielded_k (it : IterState) (cmd : Cmd) (c c' : Conf) (v : Val) (d : Option IterState) (ev : List Event)
    (h : delegCmd it cmd c = .yielded v c' d ev) : c'.k = c.k := by
  unfold delegCmd at h
  repeat' split at h
  all_goals first
    | (injection h with h1 h2 h3 h4; subst h2; rfl)
    | cases h

macro "lay_inj" h:ident : tactic => `(tactic| (injection $h with h1 h2; subst h1; simp [encode, frameOf]; lay_close))

/-- **Layout closure.** Every machine step changes the try-stack layout of the continuation by exactly one of goja's
try-frame instruction effects (or not at all). -/
theorem layout_step (spOf : Nat → Nat) (c c' : Conf) (ev : List Event) (h : step c = .cont c' ev) :
    LayoutOp (encode spOf c.k) (encode spOf c'.k) := by
  obtain ⟨ctl, env, k⟩ := c
  show LayoutOp (encode spOf k) (encode spOf c'.k)
  cases ctl with
  | evalE e =>
    cases e <;> simp only [step] at h
    case yldStar s => rw [delegCmd_cont_k _ _ _ _ _ h]; exact LayoutOp.same _
    all_goals lay_inj h
  | evalC cd => cases cd; simp only [step] at h; lay_inj h
  | args done rest th =>
    simp only [step] at h
    repeat' split at h
    all_goals lay_inj h
  | tmplGo acc rest =>
    simp only [step] at h
    repeat' split at h
    all_goals lay_inj h
  | letArrGo vals ts =>
    simp only [step] at h
    repeat' split at h
    all_goals lay_inj h
  | forGo l x n body =>
    simp only [step] at h
    repeat' split at h
    all_goals lay_inj h
  | forOfGo l x it body =>
    simp only [step] at h
    repeat' split at h
    all_goals lay_inj h
  | forArrGo l x rest body =>
    simp only [step] at h
    repeat' split at h
    all_goals lay_inj h
  | exec ss =>
    cases ss with
    | nil => simp only [step] at h; lay_inj h
    | cons s rest =>
      cases s with
      | tryS b cc fin => cases cc <;> cases fin <;> simp only [step] at h <;> lay_inj h
      | _ => simp only [step] at h; lay_inj h
  | val v =>
    cases k with
    | nil => simp [step] at h
    | cons f k' =>
      cases f with
      | tryK cc fin => cases cc <;> cases fin <;> simp only [step] at h <;> lay_inj h
      | catchK fin => cases fin <;> simp only [step] at h <;> lay_inj h
      | finK p => cases p <;> simp only [step] at h <;> lay_inj h
      | _ =>
        simp only [step] at h
        repeat' split at h
        all_goals first
          | lay_inj h
          | cases h
  | abrupt cp =>
    cases k with
    | nil => cases cp <;> simp [step, stepAbrupt] at h
    | cons f k' =>
      cases f with
      | tryK cc fin => cases cc <;> cases fin <;> cases cp <;> simp only [step, stepAbrupt] at h <;> lay_inj h
      | catchK fin => cases fin <;> simp only [step, stepAbrupt] at h <;> lay_inj h
      | finK p => simp only [step, stepAbrupt] at h; lay_inj h
      | _ =>
        simp only [step, stepAbrupt] at h
        repeat' split at h
        all_goals first
          | lay_inj h
          | cases h

/-- A suspension does not touch the layout (the popped `yldK` frame is not a try frame; a delegate keeps `k`). -/
theorem layout_yield (spOf : Nat → Nat) (c c' : Conf) (v : Val) (d : Option IterState) (ev : List Event)
    (h : step c = .yielded v c' d ev) : encode spOf c'.k = encode spOf c.k := by
  obtain ⟨ctl, env, k⟩ := c
  cases ctl with
  | evalE e =>
    cases e <;> simp only [step] at h
    case yldStar s => rw [delegCmd_yielded_k _ _ _ _ _ _ _ h]
    all_goals first
      | cases h
      | ((repeat' split at h) <;> cases h)
  | val v' =>
    cases k with
    | nil => simp [step] at h
    | cons f k' =>
      cases f <;> simp only [step] at h
      case yldK => injection h with h1 h2 h3 h4; subst h2; simp [encode, frameOf]
      all_goals (repeat' split at h) <;> cases h
  | abrupt cp =>
    cases k with
    | nil => cases cp <;> simp [step, stepAbrupt] at h
    | cons f k' =>
      cases f <;> simp only [step, stepAbrupt] at h
      all_goals (repeat' split at h) <;> cases h
  | evalC cd => cases cd; simp [step] at h
  | _ =>
    simp only [step] at h
    repeat' split at h
    all_goals cases h

/-- Reflexive-transitive closure: a sequence of try-frame instruction effects. -/
inductive LayoutOps : List TryFrame → List TryFrame → Prop where
  | refl (a : List TryFrame) : LayoutOps a a
  | cons {a b c : List TryFrame} : LayoutOp a b → LayoutOps b c → LayoutOps a c

theorem LayoutOps.trans {a b c : List TryFrame} (h1 : LayoutOps a b) (h2 : LayoutOps b c) : LayoutOps a c := by
  induction h1 with
  | refl _ => exact h2
  | cons h _ ih => exact LayoutOps.cons h (ih h2)

/-- Running the body until it suspends: the saved layout is reached from the layout at the start by try-frame
instruction effects only — and it IS `encode` of the suspended continuation. -/
theorem run_layout (spOf : Nat → Nat) (n : Nat) :
    ∀ (c : Conf) (acc : List Event) (v : Val) (c' : Conf) (d : Option IterState) (ev : List Event),
      run n c acc = .yielded v c' d ev → LayoutOps (encode spOf c.k) (encode spOf c'.k) := by
  induction n with
  | zero => intro c acc v c' d ev h; simp [run] at h
  | succ n ih =>
    intro c acc v c' d ev h
    simp only [run] at h
    cases hs : step c with
    | cont c1 e1 =>
      rw [hs] at h
      exact LayoutOps.cons (layout_step spOf c c1 e1 hs) (ih c1 _ v c' d ev h)
    | yielded v1 c1 d1 e1 =>
      rw [hs] at h
      injection h with h1 h2 h3 h4
      subst h2
      rw [layout_yield spOf c c1 v1 d1 e1 hs]
      exact LayoutOps.refl _
    | finished r e1 => rw [hs] at h; cases h

end GojaModel.C09.Link

namespace GojaModel.C09.Link
open GojaModel.C09 GojaModel.C09.Mech

/-- The continuation of a generator object that can still run. -/
def kOf : GState → List Frame
  | .start c => c.k
  | .susp c _ => c.k
  | _ => []

theorem ofRun_susp {r : RunOut} {ev : List Event} {res : Result} {c' : Conf} {d' : Option IterState}
    (h : ofRun r = (ev, res, .susp c' d')) : ∃ v e, r = .yielded v c' d' e := by
  cases r with
  | yielded v c d e => simp only [ofRun, Prod.mk.injEq, GState.susp.injEq] at h; obtain ⟨_, _, h3, h4⟩ := h; subst h3 h4; exact ⟨v, e, rfl⟩
  | finished r e => simp [ofRun] at h
  | fuelOut e => simp [ofRun] at h

/-- One driver call that leaves the generator suspended: the saved layout is reached from the previous one by
try-frame instruction effects, and is `encode` of the new continuation. -/
theorem genCall_layout (spOf : Nat → Nat) (fuel : Nat) (g : GState) (cmd : Cmd) (ev : List Event) (res : Result)
    (c' : Conf) (d' : Option IterState) (h : genCall fuel g cmd = (ev, res, .susp c' d')) :
    LayoutOps (encode spOf (kOf g)) (encode spOf c'.k) := by
  unfold genCall at h
  cases g with
  | executing => simp [genPre, GState.tag] at h
  | completed => cases cmd with | mk kd p => cases kd <;> simp [genPre, GState.tag] at h
  | start c =>
    cases cmd with
    | mk kd p =>
      cases kd <;> simp only [genPre, GState.tag] at h
      · obtain ⟨v, e, hr⟩ := ofRun_susp h
        exact run_layout spOf fuel c [] v c' d' e hr
      · simp at h
      · simp at h
  | susp c d =>
    simp only [genPre, GState.tag] at h
    cases d with
    | none =>
      simp only at h
      obtain ⟨v, e, hr⟩ := ofRun_susp h
      exact run_layout spOf fuel { c with ctl := resumeCtl cmd } [] v c' d' e hr
    | some it =>
      simp only at h
      cases hd : delegCmd it cmd c with
      | yielded v c1 d1 e1 =>
        rw [hd] at h
        simp only [Prod.mk.injEq, GState.susp.injEq] at h
        obtain ⟨_, _, h3, _⟩ := h
        subst h3
        show LayoutOps (encode spOf c.k) (encode spOf c1.k)
        rw [delegCmd_yielded_k _ _ _ _ _ _ _ hd]
        exact LayoutOps.refl _
      | cont c1 e1 =>
        rw [hd] at h
        simp only at h
        obtain ⟨v, e, hr⟩ := ofRun_susp h
        have := run_layout spOf fuel c1 e1 v c' d' e hr
        show LayoutOps (encode spOf c.k) (encode spOf c'.k)
        rw [← delegCmd_cont_k _ _ _ _ _ hd]
        exact this
      | finished r e1 => rw [hd] at h; simp at h

end GojaModel.C09.Link

namespace GojaModel.C09.Link
open GojaModel.C09 GojaModel.C09.Mech

theorem genCall_completed (fuel : Nat) (cmd : Cmd) : (genCall fuel .completed cmd).2.2 = .completed := by
  cases cmd with | mk kd p => cases kd <;> rfl

theorem genCall_executing (fuel : Nat) (cmd : Cmd) : (genCall fuel .executing cmd).2.2 = .executing := rfl

theorem stateAfter_completed (fuel : Nat) (h : List Cmd) : stateAfter fuel .completed h = .completed := by
  induction h with
  | nil => rfl
  | cons c cs ih => simp [stateAfter, genCall_completed, ih]

theorem stateAfter_executing (fuel : Nat) (h : List Cmd) : stateAfter fuel .executing h = .executing := by
  induction h with
  | nil => rfl
  | cons c cs ih => simp [stateAfter, genCall_executing, ih]

theorem genCall_not_start (fuel : Nat) (g : GState) (cmd : Cmd) (c1 : Conf) : (genCall fuel g cmd).2.2 ≠ .start c1 := by
  unfold genCall
  cases g with
  | executing => simp [genPre, GState.tag]
  | completed => cases cmd with | mk kd p => cases kd <;> simp [genPre, GState.tag]
  | start c =>
    cases cmd with
    | mk kd p =>
      cases kd <;> simp only [genPre, GState.tag]
      · cases run fuel c [] <;> simp [ofRun]
      · simp
      · simp
  | susp c d =>
    simp only [genPre, GState.tag]
    cases d with
    | none => simp only; cases run fuel { c with ctl := resumeCtl cmd } [] <;> simp [ofRun]
    | some it =>
      simp only
      cases delegCmd it cmd c with
      | yielded v c1 d1 e1 => simp
      | cont c1 e1 => simp only; cases run fuel c1 e1 <;> simp [ofRun]
      | finished r e1 => simp

/-- **Layout invariant over whole histories.** After ANY driver history, if the generator is suspended, the try-stack
layout `encode` of its continuation has been produced from the layout it started with by goja's try-frame
instruction effects only. -/
theorem history_layout (spOf : Nat → Nat) (fuel : Nat) (h : List Cmd) :
    ∀ (g : GState) (c' : Conf) (d' : Option IterState), stateAfter fuel g h = .susp c' d' →
      LayoutOps (encode spOf (kOf g)) (encode spOf c'.k) := by
  induction h with
  | nil =>
    intro g c' d' hs
    simp only [stateAfter] at hs
    subst hs
    exact LayoutOps.refl _
  | cons c cs ih =>
    intro g c' d' hs
    simp only [stateAfter] at hs
    cases hg1 : (genCall fuel g c).2.2 with
    | completed => rw [hg1, stateAfter_completed] at hs; cases hs
    | executing => rw [hg1, stateAfter_executing] at hs; cases hs
    | start c1 => exact absurd hg1 (genCall_not_start fuel g c c1)
    | susp c1 d1 =>
      rw [hg1] at hs
      have h1 : genCall fuel g c = ((genCall fuel g c).1, (genCall fuel g c).2.1, .susp c1 d1) := by
        rw [← hg1]
      have l1 := genCall_layout spOf fuel g c _ _ c1 d1 h1
      have l2 := ih (.susp c1 d1) c' d' hs
      exact LayoutOps.trans l1 l2

end GojaModel.C09.Link

namespace GojaModel.C09.Link
open GojaModel.C09 GojaModel.C09.Mech

/-! ### Which instruction effect at which transition (instances of `layout_step`, stated explicitly) -/

/-- Entering `try`: the `try` instruction pushes a frame whose catch is armed iff there is a catch clause and whose finally
is armed iff there is a finally block, recording the iterators and block scopes open at that point. -/
theorem try_entry_pushes_frame (spOf : Nat → Nat) (b : List Stmt) (cc : Option (Nat × List Stmt)) (fin : Option (List Stmt))
    (rest : List Stmt) (env : List Val) (k : List Frame) :
    ∃ c', step { ctl := .exec (.tryS b cc fin :: rest), env := env, k := k } = .cont c' [] ∧
      encode spOf c'.k = encode spOf k ++
        [mkTF spOf (countTryish k) (countForOf k) (countBlk k)
           (if cc.isSome then 2 * (countTryish k : Int) else -1) (if fin.isSome then 2 * (countTryish k : Int) + 1 else -1)] := by
  refine ⟨_, rfl, ?_⟩
  cases cc <;> cases fin <;> simp [encode, frameOf, countTryish, countForOf, countBlk, tryish, isForOf, isBlk]

/-- An exception caught by the catch clause disarms the catch and leaves the finally armed (`handleThrow`, vm.go:824). -/
theorem caught_exception_disarms_catch_only (spOf : Nat → Nat) (v : Val) (x : Nat) (cb : List Stmt) (fin : Option (List Stmt))
    (env : List Val) (k : List Frame) :
    ∃ c', step { ctl := .abrupt (.thr v), env := env, k := .tryK (some (x, cb)) fin :: k } = .cont c' [] ∧
      encode spOf c'.k = encode spOf k ++
        [mkTF spOf (countTryish k) (countForOf k) (countBlk k) (-1) (if fin.isSome then 2 * (countTryish k : Int) + 1 else -1)] := by
  refine ⟨_, rfl, ?_⟩
  cases fin <;> simp [encode, frameOf]

/-- Whatever way a finally block is entered (normal completion → `enterFinally`; break / continue / return statement →
`leaveTry`; pending exception → `handleThrow`; driver return(v) → `enterNextFinallyFrame`), the frame stays on the try
stack with BOTH handlers disarmed while the block runs. -/
theorem finally_entry_disarms_both (spOf : Nat → Nat) (cc : Option (Nat × List Stmt)) (fb : List Stmt) (env : List Val)
    (k : List Frame) (v : Val) (cp : Completion) (hcp : isThr cp = false) :
    (∃ c', step { ctl := .val v, env := env, k := .tryK cc (some fb) :: k } = .cont c' [] ∧
        encode spOf c'.k = encode spOf k ++ [mkTF spOf (countTryish k) (countForOf k) (countBlk k) (-1) (-1)]) ∧
    (∃ c', step { ctl := .abrupt cp, env := env, k := .tryK cc (some fb) :: k } = .cont c' [] ∧
        encode spOf c'.k = encode spOf k ++ [mkTF spOf (countTryish k) (countForOf k) (countBlk k) (-1) (-1)]) := by
  constructor
  · exact ⟨_, rfl, by simp [encode, frameOf]⟩
  · cases cp <;> simp [isThr] at hcp <;> cases cc <;> exact ⟨_, rfl, by simp [encode, frameOf]⟩

end GojaModel.C09.Link
