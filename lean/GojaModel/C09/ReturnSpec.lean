/-
  C09 — spec side of "return(v) closes an iterator whose return() throws": the error replaces the return completion
  (§7.4.11 IteratorClose) and, if no handler of the body takes it, the driver call throws it and the generator completes.
-/
import GojaModel.C09.Link

namespace GojaModel.C09
open Link

/-- The log an UNCAUGHT throw produces while it leaves the generator: the iterators of the for-of loops it crosses are
closed (their `return()` errors are ignored: the original throw wins). -/
def thrLogs : List Frame → List Event
  | [] => []
  | .forOfK _ _ it _ :: k => (iterClose it).1 ++ thrLogs k
  | _ :: k => thrLogs k

/-- A throw completion that no frame of `k` catches or intercepts with a finally block unwinds the whole continuation. -/
theorem unwind_thr_uncaught (e : Val) (k : List Frame) (env : List Val) (h : specThrowHandler k = none) :
    Reach { ctl := .abrupt (.thr e), env := env, k := k } (thrLogs k) { ctl := .abrupt (.thr e), env := env, k := [] } := by
  induction k with
  | nil => exact Reach.refl _
  | cons f k ih =>
    have pop : ∀ (ev : List Event),
        step { ctl := .abrupt (.thr e), env := env, k := f :: k } = .cont { ctl := .abrupt (.thr e), env := env, k := k } ev →
        specThrowHandler k = none → thrLogs (f :: k) = ev ++ thrLogs k →
        Reach { ctl := .abrupt (.thr e), env := env, k := f :: k } (thrLogs (f :: k)) { ctl := .abrupt (.thr e), env := env, k := [] } := by
      intro ev hs hk hl
      rw [hl]; exact Reach.cons hs (ih hk)
    cases f with
    | tryK cc fin =>
      cases cc with
      | some c => simp [specThrowHandler] at h
      | none =>
        cases fin with
        | some fb => simp [specThrowHandler] at h
        | none => exact pop [] (by rfl) (by simpa [specThrowHandler] using h) (by simp [thrLogs])
    | catchK fin =>
      cases fin with
      | some fb => simp [specThrowHandler] at h
      | none => exact pop [] (by rfl) (by simpa [specThrowHandler] using h) (by simp [thrLogs])
    | forOfK l x it body =>
      refine pop (iterClose it).1 ?_ (by simpa [specThrowHandler] using h) (by simp [thrLogs])
      simp only [step, stepAbrupt, loopAction]
      generalize iterClose it = cl
      obtain ⟨ev, err⟩ := cl
      cases err <;> simp [isThr]
    | whileBodyK l cd body => exact pop [] (by simp [step, stepAbrupt, loopAction]) (by simpa [specThrowHandler] using h) (by simp [thrLogs])
    | forBodyK l x n body => exact pop [] (by simp [step, stepAbrupt, loopAction]) (by simpa [specThrowHandler] using h) (by simp [thrLogs])
    | forArrK l x r body => exact pop [] (by simp [step, stepAbrupt, loopAction]) (by simpa [specThrowHandler] using h) (by simp [thrLogs])
    | _ => exact pop [] (by rfl) (by simpa [specThrowHandler] using h) (by simp [thrLogs])

/-- **Spec: return(v) at a yield inside a for-of whose iterator's `return()` throws `e`, nothing in the body handles it.**
With enough fuel the driver call logs the close and THROWS `e` (not `{v, done: true}`), and the generator is completed. -/
theorem return_cmd_close_throw_uncaught (v e : Val) (l : Label) (x : Nat) (it : IterState) (body : List Stmt)
    (k : List Frame) (env : List Val) (ctl : Ctl) (hc : (iterClose it).2 = some e) (hk : specThrowHandler k = none) :
    ∃ m, ∀ n, genCall (n + m) (.susp { ctl := ctl, env := env, k := .forOfK l x it body :: k } none) ⟨.ret, v⟩
      = ((iterClose it).1 ++ thrLogs k, .t e, .completed) := by
  obtain ⟨m, hm⟩ := run_of_reach (unwind_thr_uncaught e k env hk)
  refine ⟨m + 2, ?_⟩
  intro n
  have h1 : n + (m + 2) = ((n + 1) + m) + 1 := by omega
  simp only [genCall, genPre, GState.tag, resumeCtl]
  rw [h1, run]
  have hs : step { ctl := .abrupt (.ret v), env := env, k := .forOfK l x it body :: k }
      = .cont { ctl := .abrupt (.thr e), env := env, k := k } (iterClose it).1 := by
    simp only [step, stepAbrupt, loopAction]
    generalize iterClose it = cl at hc
    obtain ⟨ev, err⟩ := cl
    simp only at hc; subst hc
    simp [isThr]
  rw [hs]
  simp only [List.nil_append]
  rw [hm]
  simp [run, step, stepAbrupt, ofRun]

end GojaModel.C09
