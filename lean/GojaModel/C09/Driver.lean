/-
  C09 model driver (IO glue, not model): line protocol
     G <body tokens> # <history> # <history> …      →  <trace> # <trace> …
     M <mechanism query>                            →  model's prediction (see `mechLine`)
  A history is a list of `n:<val>` / `t:<val>` / `r:<val>`; a trace is, per command, `ev,ev;RESULT`.
-/
import GojaModel.Base.Proto
import GojaModel.C09.Model
import GojaModel.C09.Mech
import GojaModel.C09.Link

namespace GojaModel.C09.Driver
open GojaModel.C09

abbrev P (α : Type) := List String → Option (α × List String)

def pNat : P Nat
  | t :: ts => t.toNat?.map (·, ts)
  | [] => none

def parseVal (t : String) : Option Val :=
  match t.toList with
  | ['u'] => some .undef
  | ['N'] => some .nan
  | ['E'] => some .terr
  | 'i' :: r => (String.ofList r).toNat?.map .num
  | 's' :: r => some (.str (String.ofList r))
  | _ => none

def pVal : P Val
  | t :: ts => (parseVal t).map (·, ts)
  | [] => none

def pStrLit : P String
  | t :: ts => match t.toList with
    | 's' :: r => some (String.ofList r, ts)
    | _ => none
  | [] => none

def pKind : P CmdKind
  | "0" :: ts => some (.next, ts)
  | "1" :: ts => some (.throw, ts)
  | "2" :: ts => some (.ret, ts)
  | _ => none

def pRep {α : Type} (p : P α) : Nat → P (List α)
  | 0, ts => some ([], ts)
  | n + 1, ts => do
    let (a, ts) ← p ts
    let (as, ts) ← pRep p n ts
    pure (a :: as, ts)

def pIterSpec : P IterSpec := fun ts => do
  let (id, ts) ← pNat ts
  let (kind, ts) ← (match ts with | "g" :: r => some (true, r) | "o" :: r => some (false, r) | _ => none)
  let (hr, ts) ← pNat ts
  let (thr, ts) ← pNat ts
  let (n, ts) ← pNat ts
  let (items, ts) ← pRep pVal n ts
  pure (⟨id, kind, hr, thr, items⟩, ts)

def pLabel : P Label
  | "_" :: ts => some (none, ts)
  | t :: ts => t.toNat?.map (fun n => (some n, ts))
  | [] => none

mutual
partial def pExpr : P Expr
  | "L" :: ts => do let (v, ts) ← pVal ts; pure (.lit v, ts)
  | "V" :: ts => do let (x, ts) ← pNat ts; pure (.var x, ts)
  | "A" :: ts => do
    let (a, ts) ← pExpr ts
    let (b, ts) ← pExpr ts
    pure (.add a b, ts)
  | "Y" :: ts => do let (e, ts) ← pExpr ts; pure (.yld e, ts)
  | "YS" :: ts => do let (s, ts) ← pIterSpec ts; pure (.yldStar s, ts)
  | "C" :: ts => do let (as, ts) ← pArgs ts; pure (.call as, ts)
  | "T" :: ts => do
    let (n, ts) ← pNat ts
    let (l0, ts) ← pStrLit ts
    let (rest, ts) ← pTmplRest n ts
    pure (.tmpl l0 rest, ts)
  | "=" :: ts => do
    let (x, ts) ← pNat ts
    let (e, ts) ← pExpr ts
    pure (.asg x e, ts)
  | "B" :: ts => do
    let (x, ts) ← pNat ts
    let (e, ts) ← pExpr ts
    pure (.bump x e, ts)
  | "R" :: ts => do let (k, ts) ← pKind ts; pure (.reent k, ts)
  | _ => none

partial def pTmplRest : Nat → P (List (Expr × String))
  | 0, ts => some ([], ts)
  | n + 1, ts => do
    let (e, ts) ← pExpr ts
    let (l, ts) ← pStrLit ts
    let (r, ts) ← pTmplRest n ts
    pure ((e, l) :: r, ts)

partial def pArgs : P (List (Bool × Expr)) := fun ts => do
  let (n, ts) ← pNat ts
  pArgsN n ts

partial def pArgsN : Nat → P (List (Bool × Expr))
  | 0, ts => some ([], ts)
  | n + 1, ts => do
    let (sp, ts) ← (match ts with | "." :: r => some (false, r) | "*" :: r => some (true, r) | _ => none)
    let (e, ts) ← pExpr ts
    let (r, ts) ← pArgsN n ts
    pure ((sp, e) :: r, ts)
end

def pCond : P Cond
  | "EQ" :: ts => do
    let (a, ts) ← pExpr ts
    let (b, ts) ← pExpr ts
    pure (.cmp false a b, ts)
  | "NE" :: ts => do
    let (a, ts) ← pExpr ts
    let (b, ts) ← pExpr ts
    pure (.cmp true a b, ts)
  | _ => none

def pTargets : Nat → P (List (Nat × Option Expr))
  | 0, ts => some ([], ts)
  | n + 1, ts => do
    let (x, ts) ← pNat ts
    let (d, ts) ← (match ts with
      | "-" :: r => some (none, r)
      | "+" :: r => (pExpr r).map (fun (e, r) => (some e, r))
      | _ => none)
    let (r, ts) ← pTargets n ts
    pure ((x, d) :: r, ts)

mutual
partial def pStmt : P Stmt
  | "X" :: ts => do let (e, ts) ← pExpr ts; pure (.expr e, ts)
  | "G" :: ts => do let (e, ts) ← pExpr ts; pure (.log e, ts)
  | "D" :: ts => do
    let (n, ts) ← pNat ts
    let (tg, ts) ← pTargets n ts
    let (src, ts) ← pArgs ts
    pure (.letArr tg src, ts)
  | "I" :: ts => do
    let (c, ts) ← pCond ts
    let (t, ts) ← pBlock ts
    let (e, ts) ← pBlock ts
    pure (.ite c t e, ts)
  | "F" :: ts => do
    let (l, ts) ← pLabel ts
    let (x, ts) ← pNat ts
    let (n, ts) ← pNat ts
    let (b, ts) ← pBlock ts
    pure (.forS l x n b, ts)
  | "W" :: ts => do
    let (l, ts) ← pLabel ts
    let (c, ts) ← pCond ts
    let (b, ts) ← pBlock ts
    pure (.whileS l c b, ts)
  | "TR" :: ts => do
    let (b, ts) ← pBlock ts
    let (c, ts) ← (match ts with
      | "-" :: r => some (none, r)
      | "c" :: r => do
        let (x, r) ← pNat r
        let (cb, r) ← pBlock r
        pure (some (x, cb), r)
      | _ => none)
    let (f, ts) ← (match ts with
      | "-" :: r => some (none, r)
      | "f" :: r => (pBlock r).map (fun (b, r) => (some b, r))
      | _ => none)
    pure (.tryS b c f, ts)
  | "O" :: ts => do
    let (l, ts) ← pLabel ts
    let (x, ts) ← pNat ts
    match ts with
    | "a" :: r => do
      let (src, r) ← pArgs r
      let (b, r) ← pBlock r
      pure (.forOfArr l x src b, r)
    | "t" :: r => do
      let (s, r) ← pIterSpec r
      let (b, r) ← pBlock r
      pure (.forOfIter l x s b, r)
    | _ => none
  | "RT" :: ts => do let (e, ts) ← pExpr ts; pure (.ret e, ts)
  | "TH" :: ts => do let (e, ts) ← pExpr ts; pure (.thr e, ts)
  | "BK" :: ts => do let (l, ts) ← pLabel ts; pure (.brk l, ts)
  | "CN" :: ts => do let (l, ts) ← pLabel ts; pure (.cont l, ts)
  | "BL" :: ts => do
    let (x, ts) ← pNat ts
    let (v, ts) ← pVal ts
    let (b, ts) ← pBlock ts
    pure (.blk x v b, ts)
  | _ => none

partial def pBlock : P (List Stmt) := fun ts => do
  let (n, ts) ← pNat ts
  pStmts n ts

partial def pStmts : Nat → P (List Stmt)
  | 0, ts => some ([], ts)
  | n + 1, ts => do
    let (s, ts) ← pStmt ts
    let (r, ts) ← pStmts n ts
    pure (s :: r, ts)
end

def parseCmd (t : String) : Option Cmd :=
  match t.toList with
  | 'n' :: ':' :: r => (parseVal (String.ofList r)).map (⟨.next, ·⟩)
  | 't' :: ':' :: r => (parseVal (String.ofList r)).map (⟨.throw, ·⟩)
  | 'r' :: ':' :: r => (parseVal (String.ofList r)).map (⟨.ret, ·⟩)
  | _ => none

def showResult : Result → String
  | .y v => "Y(" ++ showVal v ++ ")"
  | .d v => "D(" ++ showVal v ++ ")"
  | .t v => "T(" ++ showVal v ++ ")"
  | .fuel => "FUEL"

def fuelBudget : Nat := 20000

/-- The try-stack layout (`Link.encode`) of a suspended generator's continuation, outermost frame first, one item per
try frame: `c`/`-` catch armed, `f`/`-` finally armed, `:` number of iterators open outside it. -/
def layoutOf (g : GState) : String :=
  match g with
  | .susp c _ =>
    let fs := Link.encode (fun _ => 0) c.k
    "[" ++ ",".intercalate (fs.map (fun tf =>
      (if tf.catchPos ≥ 0 then "c" else "-") ++ (if tf.finallyPos ≥ 0 then "f" else "-") ++ ":" ++ toString tf.iterLen)) ++ "]" ++
      toString (Link.countForOf c.k)
  | _ => ""

def runLayouts (fuel : Nat) : GState → List Cmd → List (List Event × Result × String)
  | _, [] => []
  | g, c :: cs =>
    let r := genCall fuel g c
    (r.1, r.2.1, layoutOf r.2.2) :: runLayouts fuel r.2.2 cs

/-- `<trace> ~ <layout after command 0>;<layout after command 1>;…` (layout empty unless the command left the generator suspended). -/
def traceOf (body : List Stmt) (cmds : List Cmd) : String :=
  let tr := runLayouts fuelBudget (GState.init body) cmds
  " ".intercalate (tr.map (fun (ev, r, _) => ",".intercalate ev ++ ";" ++ showResult r)) ++ " ~ " ++
    ";".intercalate (tr.map (fun (_, _, l) => l))

def splitOnTok (ts : List String) (sep : String) : List (List String) :=
  let r := ts.foldl (fun (acc : List (List String) × List String) t =>
    if t == sep then (acc.2.reverse :: acc.1, []) else (acc.1, t :: acc.2)) ([], [])
  (r.2.reverse :: r.1).reverse

def genLine (ts : List String) : String :=
  match splitOnTok ts "#" with
  | bodyT :: hists =>
    match pBlock bodyT with
    | some (body, []) =>
      " # ".intercalate (hists.map (fun h =>
        match h.mapM parseCmd with
        | some cmds => traceOf body cmds
        | none => "BADHIST"))
    | _ => "BADBODY"
  | [] => "BADLINE"

/-! ### Mechanism queries
  `M S sb T I R nTry (callLen iterLen refLen sp)*`        → suspend: relative (iterLen refLen sp) per saved frame
  `M R callLen iterLen refLen sp nTry (iterLen refLen sp)*` → resume: absolute (callStackLen iterLen refLen sp) per frame
-/
def pInt : P Int
  | t :: ts => t.toInt?.map (·, ts)
  | [] => none

def showRel (tf : Mech.TryFrame) : String := s!"{tf.iterLen} {tf.refLen} {tf.sp}"
def showAbs (tf : Mech.TryFrame) : String := s!"{tf.callStackLen} {tf.iterLen} {tf.refLen} {tf.sp}"

def mkFrame (c i r : Nat) (sp : Nat) : Mech.TryFrame :=
  { callStackLen := c, iterLen := i, refLen := r, sp := sp, stash := 0, catchPos := 0, finallyPos := -1 }

def pFrameAbs : P Mech.TryFrame := fun ts => do
  let (c, ts) ← pNat ts
  let (i, ts) ← pNat ts
  let (r, ts) ← pNat ts
  let (sp, ts) ← pNat ts
  pure (mkFrame c i r sp, ts)

def pFrameRel : P Mech.TryFrame := fun ts => do
  let (i, ts) ← pNat ts
  let (r, ts) ← pNat ts
  let (sp, ts) ← pNat ts
  pure (mkFrame 0 i r sp, ts)

def mechLine (ts : List String) : String :=
  match ts with
  | "S" :: ts =>
    (do
      let (sb, ts) ← pInt ts
      let (T, ts) ← pNat ts
      let (I, ts) ← pNat ts
      let (R, ts) ← pNat ts
      let (n, ts) ← pNat ts
      let (fs, _) ← pRep pFrameAbs n ts
      -- a vm whose first T try frames are the caller's (content irrelevant) followed by the dumped ones
      let lo : List Mech.TryFrame := List.replicate T (mkFrame 0 0 0 0)
      let vm : Mech.VM := { cur := { sb := sb }, stack := [], callStack := [],
                            iterStack := List.replicate I 0, refStack := List.replicate R 0, tryStack := lo ++ fs }
      let (e, _) := Mech.suspend vm T I R
      pure (" ".intercalate (e.tryStack.map showRel))).getD "BADMECH"
  | "R" :: ts =>
    (do
      let (cl, ts) ← pNat ts
      let (il, ts) ← pNat ts
      let (rl, ts) ← pNat ts
      let (sp, ts) ← pNat ts
      let (n, ts) ← pNat ts
      let (fs, _) ← pRep pFrameRel n ts
      let vm : Mech.VM := { cur := {}, stack := List.replicate sp 0, callStack := List.replicate cl {},
                            iterStack := List.replicate il 0, refStack := List.replicate rl 0, tryStack := [] }
      let vm' := Mech.resume vm { ctx := {}, stack := [], tryStack := fs, iterStack := [], refStack := [] }
      pure (" ".intercalate (vm'.tryStack.map showAbs))).getD "BADMECH"
  | _ => "BADMECH"

def handle (line : String) : String :=
  match GojaModel.Proto.words line with
  | "G" :: ts => genLine ts
  | "M" :: ts => mechLine ts
  | _ => "BADLINE"

def main : IO Unit := GojaModel.Proto.lineMap handle

end GojaModel.C09.Driver
