/-
  C09 — async functions: mechanism model of goja's `asyncRunner` (func.go:681-748) over a promise job queue, and the
  theorem that it is the generator state machine driven by promise reactions.

  `await e` suspends the body exactly like `yield e` (`resultAwait`); `asyncRunner.step` (func.go:710) resolves the
  awaited value to a promise and registers two reactions: fulfilled → `onFulfilled` → `gen.next(value)`,
  rejected → `onRejected` → `gen.nextThrow(reason)`.  A reaction becomes a JOB (FIFO queue) when its promise is
  settled: at once if the promise is already settled, later (when the host settles it) otherwise.
  Model: `ARun` = generator state + promise capability + job queue + reactions parked on pending promises +
  the script of what each awaited promise will do.  Core Lean only.
-/
import GojaModel.C09.Lemmas

namespace GojaModel.C09.Async
open GojaModel.C09

inductive Settle where
  | now      -- the awaited promise is already settled (or a non-promise / thenable resolved in a job of its own)
  | later    -- settled by the host after the job queue has drained
deriving DecidableEq, Repr, Inhabited

/-- What the promise awaited at one `await` does. -/
structure Awaited where
  reject : Bool
  payload : Val
  settle : Settle
deriving DecidableEq, Repr, Inhabited

/-- The driver command a settled awaited promise turns into (func.go:688-708). -/
def cmdOf (a : Awaited) : Cmd := ⟨if a.reject then .throw else .next, a.payload⟩

abbrev Reaction := Bool × Val      -- (isReject, argument): a call of ar.onRejected / ar.onFulfilled

structure ARun where
  gen : GState
  cap : Option Result              -- ar.promiseCap: none = pending, some (.d v) = resolved with v, some (.t v) = rejected
  queue : List Reaction            -- promise reaction jobs, FIFO
  parked : List Reaction           -- reactions registered on still-pending promises, in registration order
  script : List Awaited
  trace : List (List Event × Result)
deriving Repr, Inhabited

/-- func.go:710 `asyncRunner.step(res, done, ex)` applied to the outcome of one generator step. -/
def arStep (st : ARun) (r : List Event × Result × GState) : ARun :=
  let st := { st with gen := r.2.2, trace := st.trace ++ [(r.1, r.2.1)] }
  match r.2.1 with
  | .y _ =>                                                   -- :721 await: promiseResolve + addReactions
    match st.script with
    | [] => st                                                -- the awaited promise never settles
    | a :: rest =>
      match a.settle with
      | .now => { st with queue := st.queue ++ [(a.reject, a.payload)], script := rest }
      | .later => { st with parked := st.parked ++ [(a.reject, a.payload)], script := rest }
  | res => { st with cap := some res }                        -- :712-718 resolve / reject the capability

/-- func.go:734 `asyncRunner.start`: run the body up to the first await (synchronously, at the call site). -/
def start (fuel : Nat) (g : GState) (script : List Awaited) : ARun :=
  arStep { gen := g, cap := none, queue := [], parked := [], script := script, trace := [] }
    (genCall fuel g ⟨.next, .undef⟩)

/-- One promise reaction job: func.go:688 `onFulfilled` / :699 `onRejected`. -/
def job (fuel : Nat) (st : ARun) (j : Reaction) : ARun :=
  arStep st (genCall fuel st.gen ⟨if j.1 then .throw else .next, j.2⟩)

/-- The event loop: drain the job queue; when it is empty the host settles the oldest pending promise. -/
def drive (fuel : Nat) : Nat → ARun → ARun
  | 0, st => st
  | n + 1, st =>
    match st.queue with
    | j :: q => drive fuel n (job fuel { st with queue := q } j)
    | [] =>
      match st.parked with
      | p :: ps => drive fuel n { st with parked := ps, queue := [p] }
      | [] => st

/-! ## Specification: the generator state machine driven by the commands the settled promises stand for -/

/-- A trace cut after the first result that is not a suspension. -/
def cutTrace : List (List Event × Result) → List (List Event × Result)
  | [] => []
  | (ev, r) :: rest => (ev, r) :: (match r with | .y _ => cutTrace rest | _ => [])

def specRun (fuel : Nat) : GState → List Awaited → List (List Event × Result)
  | _, [] => []
  | g, a :: rest =>
    let r := genCall fuel g (cmdOf a)
    (r.1, r.2.1) :: (match r.2.1 with | .y _ => specRun fuel r.2.2 rest | _ => [])

theorem specRun_eq_cut (fuel : Nat) (g : GState) (script : List Awaited) :
    specRun fuel g script = cutTrace (genRunFrom fuel g (script.map cmdOf)) := by
  induction script generalizing g with
  | nil => rfl
  | cons a rest ih =>
    simp only [specRun, List.map_cons, genRunFrom, cutTrace]
    cases h : (genCall fuel g (cmdOf a)).2.1 <;> simp [ih]

/-- The state right after an await (the body suspended, result `y` recorded). -/
def awaitSt (g : GState) (script : List Awaited) (tr : List (List Event × Result)) : ARun :=
  match script with
  | [] => { gen := g, cap := none, queue := [], parked := [], script := [], trace := tr }
  | a :: rest =>
    match a.settle with
    | .now => { gen := g, cap := none, queue := [(a.reject, a.payload)], parked := [], script := rest, trace := tr }
    | .later => { gen := g, cap := none, queue := [], parked := [(a.reject, a.payload)], script := rest, trace := tr }

theorem drive_idle (fuel n : Nat) (st : ARun) (hq : st.queue = []) (hp : st.parked = []) : drive fuel n st = st := by
  cases n with
  | zero => rfl
  | succ n => simp [drive, hq, hp]

theorem arStep_from_idle (g : GState) (script : List Awaited) (tr : List (List Event × Result)) (c : Option Result)
    (r : List Event × Result × GState) :
    arStep { gen := g, cap := c, queue := [], parked := [], script := script, trace := tr } r =
      (match r.2.1 with
       | .y _ => { awaitSt r.2.2 script (tr ++ [(r.1, r.2.1)]) with cap := c }
       | res => { gen := r.2.2, cap := some res, queue := [], parked := [], script := script, trace := tr ++ [(r.1, r.2.1)] }) := by
  obtain ⟨ev, res, g'⟩ := r
  cases res <;> simp only [arStep, awaitSt]
  cases script with
  | nil => rfl
  | cons a rest => cases hs : a.settle <;> simp [hs]

/-- Main lemma: from the state after an await, the event loop produces exactly the spec trace of the remaining script. -/
theorem drive_await (fuel : Nat) (script : List Awaited) :
    ∀ (g : GState) (tr : List (List Event × Result)) (n : Nat), 2 * script.length ≤ n →
      (drive fuel n (awaitSt g script tr)).trace = tr ++ specRun fuel g script := by
  induction script with
  | nil =>
    intro g tr n _
    rw [drive_idle fuel n _ rfl rfl]; simp [awaitSt, specRun]
  | cons a rest ih =>
    intro g tr n hn
    have key : ∀ m, 2 * rest.length ≤ m →
        (drive fuel (m + 1) { gen := g, cap := none, queue := [(a.reject, a.payload)], parked := [], script := rest, trace := tr }).trace
          = tr ++ specRun fuel g (a :: rest) := by
      intro m hm
      simp only [drive, job, specRun, cmdOf]
      rw [arStep_from_idle]
      generalize hr : genCall fuel g ⟨if a.reject then .throw else .next, a.payload⟩ = r
      obtain ⟨ev, res, g'⟩ := r
      cases res with
      | y v =>
        have : ({ awaitSt g' rest (tr ++ [(ev, Result.y v)]) with cap := none } : ARun) = awaitSt g' rest (tr ++ [(ev, Result.y v)]) := by
          cases rest with
          | nil => rfl
          | cons b rs => simp only [awaitSt]; cases b.settle <;> rfl
        simp only [this]
        rw [ih g' _ m hm]; simp
      | d v => simp [drive_idle]
      | t v => simp [drive_idle]
      | fuel => simp [drive_idle]
    simp only [List.length_cons] at hn
    cases hs : a.settle with
    | now =>
      obtain ⟨m, rfl⟩ : ∃ m, n = m + 1 := ⟨n - 1, by omega⟩
      simp only [awaitSt, hs]
      exact key m (by omega)
    | later =>
      obtain ⟨m, rfl⟩ : ∃ m, n = m + 2 := ⟨n - 2, by omega⟩
      simp only [awaitSt, hs]
      have : drive fuel (m + 2) { gen := g, cap := none, queue := [], parked := [(a.reject, a.payload)], script := rest, trace := tr }
          = drive fuel (m + 1) { gen := g, cap := none, queue := [(a.reject, a.payload)], parked := [], script := rest, trace := tr } := by
        simp [drive]
      rw [this]
      exact key m (by omega)

end GojaModel.C09.Async
