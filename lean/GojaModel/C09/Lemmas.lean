/-
  C09 helper lemmas for the spec model GenReplay: the reachability relation of the CEK machine, its link to the
  fuelled `run`, the history fold, and unwinding of a `return` completion through pending finally blocks.
-/
import GojaModel.C09.Model

namespace GojaModel.C09

/-! ## History fold -/

theorem genRunFrom_append (fuel : Nat) (g : GState) (h1 h2 : List Cmd) :
    genRunFrom fuel g (h1 ++ h2) = genRunFrom fuel g h1 ++ genRunFrom fuel (stateAfter fuel g h1) h2 := by
  induction h1 generalizing g with
  | nil => simp [genRunFrom, stateAfter]
  | cons c cs ih => simp [genRunFrom, stateAfter, ih]

theorem stateAfter_append (fuel : Nat) (g : GState) (h1 h2 : List Cmd) :
    stateAfter fuel g (h1 ++ h2) = stateAfter fuel (stateAfter fuel g h1) h2 := by
  induction h1 generalizing g with
  | nil => simp [stateAfter]
  | cons c cs ih => simp [stateAfter, ih]

theorem genRunFrom_length (fuel : Nat) (g : GState) (h : List Cmd) : (genRunFrom fuel g h).length = h.length := by
  induction h generalizing g with
  | nil => simp [genRunFrom]
  | cons c cs ih => simp [genRunFrom, ih]

/-! ## Reachability -/

/-- `Reach c evs c'`: the machine goes from `c` to `c'` by `cont` steps only, emitting `evs`. -/
inductive Reach : Conf → List Event → Conf → Prop where
  | refl (c : Conf) : Reach c [] c
  | cons {c c' c'' : Conf} {ev evs : List Event} : step c = .cont c' ev → Reach c' evs c'' → Reach c (ev ++ evs) c''

theorem Reach.trans {a b c : Conf} {e1 e2 : List Event} (h1 : Reach a e1 b) (h2 : Reach b e2 c) :
    Reach a (e1 ++ e2) c := by
  induction h1 with
  | refl _ => simpa using h2
  | cons hs _ ih => rw [List.append_assoc]; exact Reach.cons hs (ih h2)

theorem Reach.one {c c' : Conf} {ev : List Event} (h : step c = .cont c' ev) : Reach c ev c' := by
  have := Reach.cons h (Reach.refl c')
  simpa using this

/-- Reachability is what the fuelled `run` computes: enough extra fuel brings `run` from `c` to `c'`. -/
theorem run_of_reach {c c' : Conf} {evs : List Event} (h : Reach c evs c') :
    ∃ m, ∀ n acc, run (n + m) c acc = run n c' (acc ++ evs) := by
  induction h with
  | refl _ => exact ⟨0, by intro n acc; simp⟩
  | @cons c c' c'' ev evs hs _ ih =>
    obtain ⟨m, hm⟩ := ih
    refine ⟨m + 1, ?_⟩
    intro n acc
    have : n + (m + 1) = (n + m) + 1 := by omega
    rw [this, run, hs]
    simp only
    rw [hm, List.append_assoc]

/-! ## Straight-line blocks of `log(literal)` -/

def litLogs (vs : List Val) : List Stmt := vs.map (fun v => .log (.lit v))

theorem reach_litLogs (vs : List Val) (env : List Val) (k : List Frame) :
    Reach { ctl := .exec (litLogs vs), env := env, k := k } (vs.map showVal) { ctl := .val .undef, env := env, k := k } := by
  induction vs with
  | nil => exact Reach.one (by rfl)
  | cons v vs ih =>
    have s1 : step { ctl := .exec (litLogs (v :: vs)), env := env, k := k }
        = .cont { ctl := .evalE (.lit v), env := env, k := .logK :: .seqK (litLogs vs) :: k } [] := by rfl
    have s2 : step { ctl := .evalE (.lit v), env := env, k := .logK :: .seqK (litLogs vs) :: k }
        = .cont { ctl := .val v, env := env, k := .logK :: .seqK (litLogs vs) :: k } [] := by rfl
    have s3 : step { ctl := .val v, env := env, k := .logK :: .seqK (litLogs vs) :: k }
        = .cont { ctl := .val .undef, env := env, k := .seqK (litLogs vs) :: k } [showVal v] := by rfl
    have s4 : step { ctl := .val .undef, env := env, k := .seqK (litLogs vs) :: k }
        = .cont { ctl := .exec (litLogs vs), env := env, k := k } [] := by rfl
    have := Reach.cons s1 (Reach.cons s2 (Reach.cons s3 (Reach.cons s4 ih)))
    simpa using this

/-! ## Unwinding a `return` completion -/

/-- The continuation stack has only pending finally blocks that are straight-line logs. -/
def SimpleFins : List Frame → Prop
  | [] => True
  | .tryK _ (some fb) :: k => (∃ vs, fb = litLogs vs) ∧ SimpleFins k
  | .catchK (some fb) :: k => (∃ vs, fb = litLogs vs) ∧ SimpleFins k
  | .forOfK _ _ it _ :: k => (iterClose it).2 = none ∧ SimpleFins k   -- the iterator's return() does not throw
  | _ :: k => SimpleFins k

def blockLogs : List Stmt → List Event
  | [] => []
  | .log (.lit v) :: ss => showVal v :: blockLogs ss
  | _ :: ss => blockLogs ss

theorem blockLogs_litLogs (vs : List Val) : blockLogs (litLogs vs) = vs.map showVal := by
  induction vs with
  | nil => rfl
  | cons v vs ih => simp [litLogs, blockLogs] at *; exact ih

/-- The log a non-throw unwinding through `k` must produce: every pending finally block once, innermost (head of the
continuation) first, iterators of enclosing for-of loops closed at their nesting position. -/
def finLogs : List Frame → List Event
  | [] => []
  | .tryK _ (some fb) :: k => blockLogs fb ++ finLogs k
  | .catchK (some fb) :: k => blockLogs fb ++ finLogs k
  | .forOfK _ _ it _ :: k => (iterClose it).1 ++ finLogs k
  | _ :: k => finLogs k

/-- Number of pending finally blocks. -/
def pendingFins : List Frame → Nat
  | [] => 0
  | .tryK _ (some _) :: k => pendingFins k + 1
  | .catchK (some _) :: k => pendingFins k + 1
  | _ :: k => pendingFins k

theorem unwind_ret (v : Val) (k : List Frame) (env : List Val) (hk : SimpleFins k) :
    Reach { ctl := .abrupt (.ret v), env := env, k := k } (finLogs k) { ctl := .abrupt (.ret v), env := env, k := [] } := by
  induction k with
  | nil => exact Reach.refl _
  | cons f k ih =>
    have pop : ∀ (ev : List Event),
        step { ctl := .abrupt (.ret v), env := env, k := f :: k } = .cont { ctl := .abrupt (.ret v), env := env, k := k } ev →
        SimpleFins k → finLogs (f :: k) = ev ++ finLogs k →
        Reach { ctl := .abrupt (.ret v), env := env, k := f :: k } (finLogs (f :: k)) { ctl := .abrupt (.ret v), env := env, k := [] } := by
      intro ev hs hk' hl
      rw [hl]; exact Reach.cons hs (ih hk')
    have fin : ∀ (vs : List Val) (fb : List Stmt), fb = litLogs vs →
        step { ctl := .abrupt (.ret v), env := env, k := f :: k }
          = .cont { ctl := .exec fb, env := env, k := .finK (some (.ret v)) :: k } [] →
        SimpleFins k → finLogs (f :: k) = blockLogs fb ++ finLogs k →
        Reach { ctl := .abrupt (.ret v), env := env, k := f :: k } (finLogs (f :: k)) { ctl := .abrupt (.ret v), env := env, k := [] } := by
      intro vs fb hfb hs hk' hl
      subst hfb
      rw [hl, blockLogs_litLogs]
      have r1 := reach_litLogs vs env (.finK (some (.ret v)) :: k)
      have s2 : step { ctl := .val .undef, env := env, k := .finK (some (.ret v)) :: k }
          = .cont { ctl := .abrupt (.ret v), env := env, k := k } [] := by rfl
      have := Reach.cons hs (Reach.trans r1 (Reach.cons s2 (ih hk')))
      simpa using this
    cases f with
    | tryK cc fo =>
      cases fo with
      | none => exact pop [] (by cases cc <;> rfl) hk (by simp [finLogs])
      | some fb =>
        obtain ⟨⟨vs, hvs⟩, hk'⟩ := hk
        exact fin vs fb hvs (by cases cc <;> rfl) hk' (by simp [finLogs])
    | catchK fo =>
      cases fo with
      | none => exact pop [] (by rfl) hk (by simp [finLogs])
      | some fb =>
        obtain ⟨⟨vs, hvs⟩, hk'⟩ := hk
        exact fin vs fb hvs (by rfl) hk' (by simp [finLogs])
    | forOfK l x it body =>
      obtain ⟨hc, hk'⟩ := hk
      refine pop (iterClose it).1 ?_ hk' (by simp [finLogs])
      simp only [step, stepAbrupt, loopAction]
      generalize hcl : iterClose it = cl at hc
      obtain ⟨ev, err⟩ := cl
      simp only at hc
      subst hc
      simp
    | whileBodyK l cd body => exact pop [] (by simp [step, stepAbrupt, loopAction]) hk (by simp [finLogs])
    | forBodyK l x n body => exact pop [] (by simp [step, stepAbrupt, loopAction]) hk (by simp [finLogs])
    | forArrK l x r body => exact pop [] (by simp [step, stepAbrupt, loopAction]) hk (by simp [finLogs])
    | _ => exact pop [] (by rfl) hk (by simp [finLogs])

/-! ## Unwinding any non-throw completion (return, break, continue) through pending finally blocks -/

/-- No loop frame of `pre` consumes the completion `cp` (it is aimed at a loop further out, or is a return). -/
def Passes (cp : Completion) : List Frame → Prop
  | [] => True
  | .forOfK l _ _ _ :: k => loopAction l cp = none ∧ Passes cp k
  | .whileBodyK l _ _ :: k => loopAction l cp = none ∧ Passes cp k
  | .forBodyK l _ _ _ :: k => loopAction l cp = none ∧ Passes cp k
  | .forArrK l _ _ _ :: k => loopAction l cp = none ∧ Passes cp k
  | _ :: k => Passes cp k

theorem unwind_nonthrow (cp : Completion) (hcp : isThr cp = false) (pre rest : List Frame) (env : List Val)
    (hk : SimpleFins pre) (hp : Passes cp pre) :
    Reach { ctl := .abrupt cp, env := env, k := pre ++ rest } (finLogs pre) { ctl := .abrupt cp, env := env, k := rest } := by
  induction pre with
  | nil => exact Reach.refl _
  | cons f k ih =>
    have pop : ∀ (ev : List Event),
        step { ctl := .abrupt cp, env := env, k := f :: (k ++ rest) } = .cont { ctl := .abrupt cp, env := env, k := k ++ rest } ev →
        SimpleFins k → Passes cp k → finLogs (f :: k) = ev ++ finLogs k →
        Reach { ctl := .abrupt cp, env := env, k := f :: k ++ rest } (finLogs (f :: k)) { ctl := .abrupt cp, env := env, k := rest } := by
      intro ev hs hk' hp' hl
      rw [hl]; exact Reach.cons hs (ih hk' hp')
    have fin : ∀ (vs : List Val) (fb : List Stmt), fb = litLogs vs →
        step { ctl := .abrupt cp, env := env, k := f :: (k ++ rest) }
          = .cont { ctl := .exec fb, env := env, k := .finK (some cp) :: (k ++ rest) } [] →
        SimpleFins k → Passes cp k → finLogs (f :: k) = blockLogs fb ++ finLogs k →
        Reach { ctl := .abrupt cp, env := env, k := f :: k ++ rest } (finLogs (f :: k)) { ctl := .abrupt cp, env := env, k := rest } := by
      intro vs fb hfb hs hk' hp' hl
      subst hfb
      rw [hl, blockLogs_litLogs]
      have r1 := reach_litLogs vs env (.finK (some cp) :: (k ++ rest))
      have s2 : step { ctl := .val .undef, env := env, k := .finK (some cp) :: (k ++ rest) }
          = .cont { ctl := .abrupt cp, env := env, k := k ++ rest } [] := by rfl
      have := Reach.cons hs (Reach.trans r1 (Reach.cons s2 (ih hk' hp')))
      simpa using this
    cases f with
    | tryK cc fo =>
      cases fo with
      | none => exact pop [] (by cases cp <;> cases cc <;> simp_all [step, stepAbrupt, isThr]) hk hp (by simp [finLogs])
      | some fb =>
        obtain ⟨⟨vs, hvs⟩, hk'⟩ := hk
        exact fin vs fb hvs (by cases cp <;> cases cc <;> simp_all [step, stepAbrupt, isThr]) hk' hp (by simp [finLogs])
    | catchK fo =>
      cases fo with
      | none => exact pop [] (by rfl) hk hp (by simp [finLogs])
      | some fb =>
        obtain ⟨⟨vs, hvs⟩, hk'⟩ := hk
        exact fin vs fb hvs (by rfl) hk' hp (by simp [finLogs])
    | forOfK l x it body =>
      obtain ⟨hc, hk'⟩ := hk
      obtain ⟨hl, hp'⟩ := hp
      refine pop (iterClose it).1 ?_ hk' hp' (by simp [finLogs])
      simp only [step, stepAbrupt, hl]
      generalize hcl : iterClose it = cl at hc
      obtain ⟨ev, err⟩ := cl
      simp only at hc
      subst hc
      simp
    | whileBodyK l cd body => exact pop [] (by simp [step, stepAbrupt, hp.1]) hk hp.2 (by simp [finLogs])
    | forBodyK l x n body => exact pop [] (by simp [step, stepAbrupt, hp.1]) hk hp.2 (by simp [finLogs])
    | forArrK l x r body => exact pop [] (by simp [step, stepAbrupt, hp.1]) hk hp.2 (by simp [finLogs])
    | _ => exact pop [] (by rfl) hk hp (by simp [finLogs])

end GojaModel.C09
