/-
  C09 — mechanism model `GenCtx`: generator context suspension / resumption of goja.

  Transcribes, function by function:
    /repo/vm.go:37    context            → `Ctx`
    /repo/vm.go:47    tryFrame           → `TryFrame`
    /repo/vm.go:60    execCtx            → `ExecCtx`
    /repo/vm.go:68    (*vm).suspend      → `suspend`
    /repo/vm.go:92    (*vm).resume       → `resume`
    /repo/vm.go:759   pushTryFrame / 773 popTryFrame / 777 restoreStacks / 800 handleThrow
    /repo/vm.go:906   saveCtx / 911 pushCtx / 922 restoreCtx / 927 popCtx
    /repo/func.go:762 generator.enter / 863 enterNext / 847-859 the yield epilogue of generator.step /
                      871 generator.next epilogue (popTryFrame; popCtx) / 769 enterNextFinallyFrame (as repaired by 8004794)

  Abstractions (recorded in design/C09.md):
    * the operand stack is the list `vm.stack[0:sp]` (so `sp = stack.length`); slots above `sp` are dead;
    * JS values, stashes, programs, iterator records and refs are opaque `Nat` identities;
    * `uint32` lengths and the `int32` `tf.sp` are `Nat` (no wrap-around: stack lengths < 2^31); `tf.iterLen -= iterStackLen`,
      `tf.sp -= sp` are truncated subtraction, exact under the invariant `FramesAbove` that `pushTryFrame` establishes;
    * `handleThrow` works on a list, so the re-taking of the frame pointer after `restoreStacks` (fix eae3f2a) is implicit;
    * only the catchable case of `handleThrow` (`ex != nil`) is modelled.
  Core Lean only (linked into the model driver).
-/
namespace GojaModel.C09.Mech

/-- vm.go:19 -/
def tryPanicMarker : Int := -2

/-- vm.go:37 `context` (newTarget/result/privEnv omitted: copied verbatim alongside `prg`). -/
structure Ctx where
  prg : Option Nat := none
  stash : Nat := 0
  pc : Int := 0
  sb : Int := 0
  args : Nat := 0
deriving DecidableEq, Repr, Inhabited

/-- vm.go:47 `tryFrame`. -/
structure TryFrame where
  callStackLen : Nat
  iterLen : Nat
  refLen : Nat
  sp : Nat
  stash : Nat
  catchPos : Int
  finallyPos : Int
  finallyRet : Int := -1
  exc : Option Nat := none
deriving DecidableEq, Repr, Inhabited

/-- The control part of vm.go:359 `vm`. `cur` = (vm.prg, vm.stash, vm.pc, vm.sb, vm.args). -/
structure VM where
  cur : Ctx
  stack : List Nat          -- vm.stack[0:vm.sp]
  callStack : List Ctx
  iterStack : List Nat      -- iterator record ids; 0 = entry whose `iter` is nil
  refStack : List Nat
  tryStack : List TryFrame
deriving DecidableEq, Repr, Inhabited

/-- vm.go:60 `execCtx`. -/
structure ExecCtx where
  ctx : Ctx
  stack : List Nat
  tryStack : List TryFrame
  iterStack : List Nat
  refStack : List Nat
deriving DecidableEq, Repr, Inhabited

def VM.sp (vm : VM) : Int := vm.stack.length

/-- vm.go:74-80: the rebasing applied to one saved try frame by `suspend`. -/
def TryFrame.toRel (tf : TryFrame) (iterStackLen refStackLen : Nat) (sp : Nat) : TryFrame :=
  { tf with iterLen := tf.iterLen - iterStackLen, refLen := tf.refLen - refStackLen, sp := tf.sp - sp }

/-- vm.go:99-105: the rebasing applied to one saved try frame by `resume`. -/
def TryFrame.toAbs (tf : TryFrame) (callLen iterLen refLen : Nat) (sp : Nat) : TryFrame :=
  { tf with callStackLen := callLen, iterLen := tf.iterLen + iterLen, refLen := tf.refLen + refLen,
            sp := tf.sp + sp }

/-- vm.go:68 `suspend(ectx, tryStackLen, iterStackLen, refStackLen)` with `*ectx` zero on entry
(func.go:849 `g.ctx = execCtx{}`). Returns the filled execCtx and the vm afterwards. -/
def suspend (vm : VM) (tryStackLen iterStackLen refStackLen : Nat) : ExecCtx × VM :=
  let seg := vm.stack.drop (vm.cur.sb - 1).toNat                       -- :70 vm.stack[vm.sb-1:vm.sp]
  let (etry, vtry) :=
    if vm.tryStack.length > tryStackLen then                           -- :71
      ((vm.tryStack.drop tryStackLen).map                              -- :72, :75-80
          (fun tf => tf.toRel iterStackLen refStackLen (vm.cur.sb - 1).toNat),
       vm.tryStack.take tryStackLen)                                   -- :73
    else ([], vm.tryStack)
  let (eiter, viter) :=
    if vm.iterStack.length > iterStackLen then                         -- :82
      (vm.iterStack.drop iterStackLen, vm.iterStack.take iterStackLen)
    else ([], vm.iterStack)
  let (eref, vref) :=
    if vm.refStack.length > refStackLen then                           -- :86
      (vm.refStack.drop refStackLen, vm.refStack.take refStackLen)
    else ([], vm.refStack)
  ({ ctx := vm.cur, stack := seg, tryStack := etry, iterStack := eiter, refStack := eref },
   { vm with tryStack := vtry, iterStack := viter, refStack := vref })

/-- vm.go:92 `resume(ctx)`. -/
def resume (vm : VM) (e : ExecCtx) : VM :=
  let sp : Nat := vm.stack.length                                      -- :94
  { cur := { e.ctx with sb := (sp : Int) + 1 }                         -- :93, :95
    stack := vm.stack ++ e.stack                                       -- :96-98
    callStack := vm.callStack
    tryStack := vm.tryStack ++ e.tryStack.map                          -- :99-106
      (fun tf => tf.toAbs vm.callStack.length vm.iterStack.length vm.refStack.length sp)
    iterStack := vm.iterStack ++ e.iterStack                           -- :107
    refStack := vm.refStack ++ e.refStack }                            -- :108

/-- vm.go:911 `pushCtx` (stack-overflow check omitted). -/
def pushCtx (vm : VM) : VM := { vm with callStack := vm.callStack ++ [vm.cur] }

/-- vm.go:927 `popCtx`. -/
def popCtx (vm : VM) : VM :=
  match vm.callStack.getLast? with
  | none => vm
  | some c => { vm with cur := c, callStack := vm.callStack.dropLast }

/-- vm.go:759 `pushTryFrame`. -/
def pushTryFrame (vm : VM) (catchPos finallyPos : Int) : VM :=
  { vm with tryStack := vm.tryStack ++ [{
      callStackLen := vm.callStack.length, iterLen := vm.iterStack.length, refLen := vm.refStack.length,
      sp := vm.stack.length, stash := vm.cur.stash, catchPos := catchPos, finallyPos := finallyPos,
      finallyRet := -1 }] }

/-- vm.go:773 `popTryFrame`. -/
def popTryFrame (vm : VM) : VM := { vm with tryStack := vm.tryStack.dropLast }

/-- vm.go:777 `restoreStacks(iterLen, refLen)`: returns the iterator records closed (`returnIter`), in the
order they are closed (top of the iter stack first; entries with nil `iter`, id 0, are skipped). -/
def restoreStacks (vm : VM) (iterLen refLen : Nat) : List Nat × VM :=
  (((vm.iterStack.drop iterLen).reverse).filter (· ≠ 0),
   { vm with iterStack := vm.iterStack.take iterLen, refStack := vm.refStack.take refLen })

inductive Outcome where
  | caught (pc : Int)        -- :824 exception pushed, pc = catchPos
  | toFinally (pc : Int)     -- :831 pending exception stored in the frame, pc = finallyPos
  | uncaught                 -- :820 stopped at a tryPanicMarker frame (or no frame): `return ex`
  | stuck                    -- a frame shape the Go loop would spin on (never produced by the compiler)
deriving DecidableEq, Repr, Inhabited

/-- vm.go:800 `handleThrow` for a catchable exception `ex` (an opaque value id).  Fuel = number of try frames. -/
def handleThrowLoop (ex : Nat) : Nat → VM → List Nat → Outcome × List Nat × VM
  | 0, vm, closed => (.uncaught, closed, vm)
  | n + 1, vm, closed =>
    match vm.tryStack.getLast? with
    | none => (.uncaught, closed, vm)                                            -- :802 loop exit, :843
    | some tf =>
      if tf.catchPos = -1 ∧ tf.finallyPos = -1 then                              -- :804
        handleThrowLoop ex n { vm with tryStack := vm.tryStack.dropLast } closed -- :805-807
      else
        let vm1 : VM :=                                                          -- :809-814
          if tf.callStackLen < vm.callStack.length then
            let c := vm.callStack.getD tf.callStackLen default
            { vm with cur := { c with stash := vm.cur.stash }, callStack := vm.callStack.take tf.callStackLen }
          else vm
        let vm2 : VM := { vm1 with stack := vm1.stack.take tf.sp,          -- :815
                                   cur := { vm1.cur with stash := tf.stash } }   -- :816
        let (cl, vm3) := restoreStacks vm2 tf.iterLen tf.refLen                  -- :818
        let closed := closed ++ cl
        if tf.catchPos = tryPanicMarker then (.uncaught, closed, vm3)            -- :820
        else if tf.catchPos ≥ 0 then                                             -- :824
          (.caught tf.catchPos, closed,
           { vm3 with stack := vm3.stack ++ [ex], cur := { vm3.cur with pc := tf.catchPos },
                      tryStack := vm3.tryStack.dropLast ++ [{ tf with catchPos := -1 }] })
        else if tf.finallyPos ≥ 0 then                                           -- :831
          (.toFinally tf.finallyPos, closed,
           { vm3 with cur := { vm3.cur with pc := tf.finallyPos },
                      tryStack := vm3.tryStack.dropLast ++
                        [{ tf with exc := some ex, finallyPos := -1, finallyRet := -1 }] })
        else (.stuck, closed, vm3)

def handleThrow (ex : Nat) (vm : VM) : Outcome × List Nat × VM :=
  handleThrowLoop ex vm.tryStack.length vm []

/-- The generator record of func.go:750 (control part). -/
structure Gen where
  ctx : ExecCtx
  tryStackLen : Nat
  iterStackLen : Nat
  refStackLen : Nat
deriving DecidableEq, Repr, Inhabited

/-- func.go:758 `storeLengths`. -/
def storeLengths (g : Gen) (vm : VM) : Gen :=
  { g with tryStackLen := vm.tryStack.length, iterStackLen := vm.iterStack.length, refStackLen := vm.refStack.length }

/-- func.go:863 `enterNext`. -/
def enterNext (g : Gen) (vm : VM) : Gen × VM :=
  let vm1 := pushCtx vm                                                -- :864
  let vm2 := pushTryFrame vm1 tryPanicMarker (-1)                      -- :865
  let vm3 := { vm2 with callStack := vm2.callStack ++ [{ pc := -2 }] } -- :866
  let g' := storeLengths g vm3                                         -- :867
  (g', resume vm3 g'.ctx)                                              -- :868

/-- func.go:847-859: the vm stands just after `yieldMarker.exec` (marker on top of the yielded value, pc negated;
`hasValue = false` for `yieldEmpty`).  -/
def yieldEpilogue (g : Gen) (vm : VM) (hasValue : Bool) : Gen × VM :=
  let vm1 : VM := { vm with cur := { vm.cur with pc := -vm.cur.pc + 1 },                 -- :850
                            stack := vm.stack.dropLast }                                 -- :839/:810 pop marker
  let vm2 : VM := if hasValue then { vm1 with stack := vm1.stack.dropLast } else vm1     -- :851-855
  let (e, vm3) := suspend vm2 g.tryStackLen g.iterStackLen g.refStackLen                 -- :856
  ({ g with ctx := e },
   { vm3 with stack := vm3.stack.take (vm3.cur.sb - 1).toNat,                            -- :857
              callStack := vm3.callStack.dropLast })                                     -- :858

/-- func.go:877-878 the epilogue of `generator.next`. -/
def nextEpilogue (vm : VM) : VM := popCtx (popTryFrame vm)


/-- func.go:769 `generator.enterNextFinallyFrame` as repaired by 8004794 (the frame of the finally block that
return(v) enters is marked as an ordinary finally-only frame: catchPos = -1, not tryPanicMarker).  Returns
`(canContinue, closed iterators, vm)`; the `restoreStacks` error branch (:779-782, an iterator's return() threw) is
the `throwing` argument: the ids in it make the step throw instead. Fuel = number of try frames. -/
def enterNextFinallyFrameLoop (throwing : List Nat) : Nat → VM → List Nat → Bool × List Nat × VM
  | 0, vm, closed => (false, closed, vm)
  | n + 1, vm, closed =>
    match vm.tryStack.getLast? with
    | none => (false, closed, vm)
    | some tf =>
      if tf.callStackLen ≠ vm.callStack.length then (false, closed, vm)             -- :775 function boundary
      else
        let (cl, vm1) := restoreStacks vm tf.iterLen tf.refLen                      -- :778
        let closed := closed ++ cl
        if cl.any (throwing.contains ·) then (true, closed, vm1)                    -- :779-782 vm.throw(ex)
        else if tf.finallyPos ≥ 0 then                                              -- :783
          (true, closed,
           { vm1 with stack := vm1.stack.take tf.sp,                                -- :784
                      cur := { vm1.cur with stash := tf.stash, pc := tf.finallyPos },   -- :785-787
                      tryStack := vm1.tryStack.dropLast ++
                        [{ tf with catchPos := -1, finallyPos := -1, finallyRet := -2 }] })   -- :788-790 (8004794)
        else enterNextFinallyFrameLoop throwing n { vm1 with tryStack := vm1.tryStack.dropLast } closed   -- :793

def enterNextFinallyFrame (throwing : List Nat) (vm : VM) : Bool × List Nat × VM :=
  enterNextFinallyFrameLoop throwing vm.tryStack.length vm []

/-! ### `generator.step1`, branch `g.returning != nil` (func.go:846-883, as repaired by 5eca78e)

The body's execution (`vm.runTryInner`) is opaque here: an oracle supplies, per invocation, how it came back and the
vm it left. -/
inductive RunBack where
  | threw          -- ex != nil: not caught by any handler of the generator
  | caught         -- ex == nil but the code has not halted: a Go-panic-raised exception was caught inside the generator
  | finallyExit    -- halted with prg != nil ∧ pc == -2: a return-triggered finally block ran to its end (leaveFinally)
  | returned       -- halted by `ret` into the extra frame (prg == nil): the body returned a value of its own
  | yielded        -- halted by a yield marker
deriving DecidableEq, Repr, Inhabited

inductive Step1Out where
  | exThrown | returnCompleted | bodyReturned | yielded | oracleExhausted
deriving DecidableEq, Repr, Inhabited

/-- :846-883.  `.caught` ⇒ `continue` is the test `!vm.halted()` added by 5eca78e. -/
def step1Returning (g : Gen) (throwing : List Nat) : List (RunBack × VM) → Step1Out × Option VM
  | [] => (.oracleExhausted, none)
  | (ev, vm) :: rest =>
    match ev with
    | .threw => (.exThrown, some vm)                                              -- :848-852
    | .caught => step1Returning g throwing rest                                   -- :853-858 (5eca78e)
    | .finallyExit =>                                                             -- :860
      let (c, _, vm1) := enterNextFinallyFrame throwing vm                        -- :861
      if c then step1Returning g throwing rest                                    -- :862 continue
      else
        let (_, vm2) := restoreStacks vm1 g.iterStackLen g.refStackLen            -- :867
        (.returnCompleted,
         some { vm2 with stack := vm2.stack.take (vm2.cur.sb - 1).toNat,          -- :871
                         callStack := vm2.callStack.dropLast })                   -- :872
    | .returned => (.bodyReturned, some vm)                                       -- :876-879
    | .yielded => (.yielded, some vm)                                             -- :880 break → yield epilogue

/-- The loop BEFORE 5eca78e: a `.caught` come-back fell through to `res = vm.pop()` and was taken for a return / yield. -/
def step1ReturningOld (g : Gen) (throwing : List Nat) : List (RunBack × VM) → Step1Out × Option VM
  | [] => (.oracleExhausted, none)
  | (ev, vm) :: rest =>
    match ev with
    | .threw => (.exThrown, some vm)
    | .caught => (if vm.cur.prg.isNone then .bodyReturned else .yielded, some { vm with stack := vm.stack.dropLast })
    | .finallyExit =>
      let (c, _, vm1) := enterNextFinallyFrame throwing vm
      if c then step1ReturningOld g throwing rest
      else
        let (_, vm2) := restoreStacks vm1 g.iterStackLen g.refStackLen
        (.returnCompleted, some { vm2 with stack := vm2.stack.take (vm2.cur.sb - 1).toNat, callStack := vm2.callStack.dropLast })
    | .returned => (.bodyReturned, some vm)
    | .yielded => (.yielded, some vm)

/-- The generator-relative view of a try frame: what `suspend` stores (callStackLen is overwritten by `resume`,
so it is not part of the view). -/
def relView (tf : TryFrame) (iterBase refBase : Nat) (spBase : Nat) : TryFrame :=
  { (tf.toRel iterBase refBase spBase) with callStackLen := 0 }

end GojaModel.C09.Mech
