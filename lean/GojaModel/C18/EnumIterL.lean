/-
  C18 — lemmas about the enumerable / value-resolving layers above the symbol-key snapshot iterator.
-/
import GojaModel.C18.EnumIter

namespace GojaModel.C18
section
variable {K V : Type} [DecidableEq K] (norm : K → K) (hash : K → Nat)

/-- `enumerableIter.next ∘ objectSymbolIter.next` fused (keeps the stored property, no value resolution yet). -/
def fusedPV (m : OMap K (PV V)) : List K → SymIter K × Option (K × PV V)
  | [] => (⟨[]⟩, none)
  | k :: rest =>
    match get norm hash m k with
    | some pv => if pv.isEnum then (⟨rest⟩, some (k, pv)) else fusedPV m rest
    | none => fusedPV m rest

theorem enumerableNext_eq_fused (m : OMap K (PV V)) : ∀ (ks : List K) (fuel : Nat), ks.length < fuel →
    enumerableNext norm hash m fuel ks = fusedPV norm hash m ks := by
  intro ks
  induction ks with
  | nil =>
    intro fuel h
    cases fuel with
    | zero => simp at h
    | succ f => simp [enumerableNext, symIterNext, fusedPV]
  | cons k rest ih =>
    intro fuel h
    cases fuel with
    | zero => simp at h
    | succ f =>
      simp only [List.length_cons] at h
      simp only [enumerableNext, symIterNext, fusedPV]
      cases hg : get norm hash m k with
      | some pv =>
        simp only
        by_cases he : pv.isEnum = true
        · simp [he]
        · simp only [he, if_false, Bool.false_eq_true]
          exact ih f (by omega)
      | none =>
        simp only
        have := ih (f + 1) (by omega)
        simp only [enumerableNext] at this
        exact this

theorem enumPropsNext_eq_enumNext (m : OMap K (PV V)) (ks : List K) :
    enumPropsNext norm hash m ks = enumNext norm hash m ks := by
  unfold enumPropsNext
  rw [enumerableNext_eq_fused norm hash m ks _ (Nat.lt_succ_self _)]
  induction ks with
  | nil => rfl
  | cons k rest ih =>
    simp only [fusedPV, enumNext]
    cases get norm hash m k with
    | none => exact ih
    | some pv =>
      simp only
      by_cases he : pv.isEnum = true
      · simp [he]
      · simp only [he, if_false, Bool.false_eq_true]; exact ih

theorem enumNext_refines {m : OMap K (PV V)} (I : Inv norm hash m) (hnorm : ∀ k, norm (norm k) = norm k) :
    ∀ ks, (enumNext norm hash m ks).1.keys = (Spec.assignEnumNext norm (abs m) ks).1 ∧
          (enumNext norm hash m ks).2 = (Spec.assignEnumNext norm (abs m) ks).2 := by
  intro ks
  induction ks with
  | nil => exact ⟨rfl, rfl⟩
  | cons k rest ih =>
    simp only [enumNext, Spec.assignEnumNext, get_refines norm hash I hnorm k]
    cases Spec.get norm (abs m) k with
    | none => exact ih
    | some pv =>
      simp only
      by_cases he : pv.isEnum = true
      · simp [he]
      · simp only [he, if_false, Bool.false_eq_true]; exact ih

/-- One step against an arbitrary current table: the popped prefix consists of keys that are absent or non-enumerable
NOW; the key it stops at is present and enumerable NOW and is delivered with its current (resolved) value. -/
theorem enumNext_spec (m : OMap K (PV V)) : ∀ ks, ∃ skipped,
    (∀ s, s ∈ skipped → get norm hash m s = none ∨ ∃ pv, get norm hash m s = some pv ∧ pv.isEnum = false) ∧
    (match (enumNext norm hash m ks).2 with
     | some (k, r) => ks = skipped ++ k :: (enumNext norm hash m ks).1.keys ∧
          ∃ pv, get norm hash m k = some pv ∧ pv.isEnum = true ∧ r = pv.resolve
     | none => ks = skipped ∧ (enumNext norm hash m ks).1.keys = []) := by
  intro ks
  induction ks with
  | nil => exact ⟨[], fun s h => by simp at h, by simp [enumNext]⟩
  | cons k rest ih =>
    obtain ⟨sk, h1, h2⟩ := ih
    simp only [enumNext]
    cases hg : get norm hash m k with
    | some pv =>
      by_cases he : pv.isEnum = true
      · exact ⟨[], fun s h => by simp at h, by simp [he, hg]⟩
      · simp only [he, if_false, Bool.false_eq_true]
        refine ⟨k :: sk, ?_, ?_⟩
        · intro s hs
          simp only [List.mem_cons] at hs
          rcases hs with hs | hs
          · rw [hs]; exact Or.inr ⟨pv, hg, by simpa using he⟩
          · exact h1 s hs
        · cases hr : (enumNext norm hash m rest).2 with
          | none => rw [hr] at h2; simp only at h2 ⊢; exact ⟨congrArg (List.cons k) h2.1, h2.2⟩
          | some kv =>
            obtain ⟨k', r'⟩ := kv
            rw [hr] at h2; simp only at h2 ⊢
            exact ⟨congrArg (List.cons k) h2.1, h2.2⟩
    | none =>
      simp only
      refine ⟨k :: sk, ?_, ?_⟩
      · intro s hs
        simp only [List.mem_cons] at hs
        rcases hs with hs | hs
        · rw [hs]; exact Or.inl hg
        · exact h1 s hs
      · cases hr : (enumNext norm hash m rest).2 with
        | none => rw [hr] at h2; simp only at h2 ⊢; exact ⟨congrArg (List.cons k) h2.1, h2.2⟩
        | some kv =>
          obtain ⟨k', r'⟩ := kv
          rw [hr] at h2; simp only at h2 ⊢
          exact ⟨congrArg (List.cons k) h2.1, h2.2⟩

/-- Keys delivered by successive calls, the i-th call seeing the (arbitrary) state `ms[i]`. -/
def enumYields : List K → List (OMap K (PV V)) → List K
  | _, [] => []
  | ks, m :: ms =>
    match enumNext norm hash m ks with
    | (it', some (k, _)) => k :: enumYields it'.keys ms
    | (_, none) => []

theorem enumYields_sublist : ∀ (ms : List (OMap K (PV V))) (ks : List K),
    (enumYields norm hash ks ms).Sublist ks := by
  intro ms
  induction ms with
  | nil => intro ks; simp [enumYields]
  | cons m ms ih =>
    intro ks
    obtain ⟨sk, _, h2⟩ := enumNext_spec norm hash m ks
    simp only [enumYields]
    cases hr : enumNext norm hash m ks with
    | mk it' r =>
      cases r with
      | none => simp
      | some kv =>
        obtain ⟨k, v⟩ := kv
        rw [hr] at h2; simp only at h2
        simp only
        rw [h2.1]
        exact ((ih it'.keys).cons_cons k).trans (List.sublist_append_right sk _)

end
end GojaModel.C18
