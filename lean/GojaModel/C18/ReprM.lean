/-
  C18 — whole-system exact refinement of the representation-keyed structure to `RSpec`.
-/
import GojaModel.C18.ReprL

namespace GojaModel.C18
section
variable {K K' V : Type} [DecidableEq K']
variable {eqv : K → K → Bool} {norm : K → K} {hash : K → Nat} {f : K → K'} {hash' : K' → Nat} {S W : K → Prop}

structure RSim (f : K → K') (hash' : K' → Nat) (S : K → Prop) (s : Sys K V) (rs : SpecSys K V) : Prop where
  rinv : RInv f hash' S s.m
  data : rs.d = abs s.m
  iters : rs.iters = s.iters.map absIter
  wf : ∀ it, it ∈ s.iters → IterWf s.m it

theorem RSim.init : RSim f hash' S ({} : Sys K V) ({} : SpecSys K V) :=
  ⟨RInv.empty, rfl, rfl, fun it h => by simp at h⟩

theorem setE_n_le (B : Bridge eqv norm hash f hash' S W) {m : OMap K V} (R : RInv f hash' S m) {k : K} (hk : W k)
    (v : Option V) : m.n ≤ (setE eqv norm hash m k v).n := by
  have h1 : (mapKeys f (setE eqv norm hash m k v)).n = (set id hash' (mapKeys f m) (f (norm k)) v).n := by
    rw [set_map B R.good hk]
  have h2 := set_n_le id hash' (mapKeys f m) (f (norm k)) v
  exact h1 ▸ h2

theorem removeE_n (B : Bridge eqv norm hash f hash' S W) {m : OMap K V} (R : RInv f hash' S m) {k : K} (hk : W k) :
    (removeE eqv norm hash m k).1.n = m.n := by
  have h1 := congrArg (fun p => p.1.n) (remove_map B R.good hk)
  simp only at h1
  have h2 := remove_n id hash' (mapKeys f m) (f (norm k))
  exact h1.trans h2

theorem next_refinesR {m : OMap K V} (R : RInv f hash' S m) (it : Iter) (hw : IterWf m it) :
    (Spec.next (abs m) (absIter it)).1 = absIter (next m it).1 ∧
    (Spec.next (abs m) (absIter it)).2 = (next m it).2 ∧
    IterWf m (next m it).1 ∧
    (∀ c, (next m it).2 = some c → c < m.n ∧ ∃ k, (m.heap c).key = some k) := by
  obtain ⟨n1, n2, n3, n4⟩ := next_refines id hash' R.inv it hw
  rw [abs_mapKeys, specNext_map, next_map] at n1 n2
  rw [next_map] at n3 n4
  refine ⟨n1, n2, n3, fun c hc => ?_⟩
  obtain ⟨c1, c2⟩ := n4 c hc
  refine ⟨c1, ?_⟩
  simp only [liveOf, mapKeys, mapEntry] at c2
  cases hk : (m.heap c).key with
  | none => rw [hk] at c2; simp at c2
  | some k => exact ⟨k, rfl⟩

theorem RSim.step (B : Bridge eqv norm hash f hash' S W) {s : Sys K V} {rs : SpecSys K V} (R : RSim f hash' S s rs)
    (o : Op K V) (ho : o.keyOk W) :
    RSim f hash' S (s.stepE eqv norm hash o).1 (rs.stepR norm f o).1 ∧
    (s.stepE eqv norm hash o).2 = (rs.stepR norm f o).2 := by
  obtain ⟨I, hd, hi, hw⟩ := R
  cases o with
  | set k v =>
    refine ⟨⟨rinv_set B I ho v, ?_, hi, fun it h c hc => Nat.lt_of_lt_of_le (hw it h c hc) (setE_n_le B I ho v)⟩, rfl⟩
    simp only [SpecSys.stepR, Sys.stepE, hd]
    exact (setE_refines B I ho v).symm
  | get k =>
    refine ⟨⟨I, hd, hi, hw⟩, ?_⟩
    simp only [SpecSys.stepR, Sys.stepE, hd, getE_refines B I ho]
  | has k =>
    refine ⟨⟨I, hd, hi, hw⟩, ?_⟩
    simp only [SpecSys.stepR, Sys.stepE, hd, hasE_refines B I ho]
  | delete k =>
    obtain ⟨r1, r2⟩ := removeE_refines B I ho
    refine ⟨⟨rinv_remove B I ho, ?_, hi, fun it h c hc => by
      show c < (removeE eqv norm hash s.m k).1.n
      rw [removeE_n B I ho]; exact hw it h c hc⟩, ?_⟩
    · simp only [SpecSys.stepR, Sys.stepE, hd]; exact r1.symm
    · simp only [SpecSys.stepR, Sys.stepE, hd, r2]
  | clear =>
    refine ⟨⟨rinv_clear I, ?_, hi, fun it h => hw it h⟩, rfl⟩
    simp only [SpecSys.stepR, Sys.stepE, hd]
    have hkey : ∀ i, i < s.m.n → ((clear s.m).heap i).key = none := by
      intro i hin
      have h1 := clear_key id hash' I.inv i hin
      have hm : (clear (mapKeys f s.m)).heap i = mapEntry f ((clear s.m).heap i) := by
        rw [← clear_map]; rfl
      rw [hm] at h1
      simp only [mapEntry] at h1
      cases hk : ((clear s.m).heap i).key with
      | none => rfl
      | some k => rw [hk] at h1; simp at h1
    apply List.ext_getElem?
    intro i
    simp only [Spec.clear, List.getElem?_map, abs_getElem?]
    by_cases hin : i < s.m.n
    · have hin' : i < (clear s.m).n := hin
      simp [hin, hin', cellOf, hkey i hin]
    · have hin' : ¬ i < (clear s.m).n := hin
      simp [hin, hin']
  | size =>
    refine ⟨⟨I, hd, hi, hw⟩, ?_⟩
    have h1 := size_refines id hash' I.inv
    have h2 : Spec.size (abs (mapKeys f s.m)) = Spec.size (abs s.m) := by
      rw [abs_mapKeys]
      simp only [Spec.size, List.countP_map]
      congr 1
      funext c
      cases c <;> rfl
    simp only [SpecSys.stepR, Sys.stepE, hd]
    rw [← h2, ← h1]; rfl
  | newIter =>
    refine ⟨⟨I, hd, ?_, ?_⟩, rfl⟩
    · simp only [SpecSys.stepR, Sys.stepE, hi, List.map_append, List.map_cons, List.map_nil]; rfl
    · intro it h
      simp only [Sys.stepE, List.mem_append, List.mem_singleton] at h
      rcases h with h | h
      · exact hw it h
      · subst h; intro c hc; simp [newIter] at hc
  | next j =>
    simp only [SpecSys.stepR, Sys.stepE, hi, List.getElem?_map]
    cases hj : s.iters[j]? with
    | none => exact ⟨⟨I, hd, hi, hw⟩, rfl⟩
    | some it =>
      have hmem : it ∈ s.iters := List.mem_of_getElem? hj
      obtain ⟨n1, n2, n3, n4⟩ := next_refinesR I it (hw it hmem)
      simp only [Option.map_some, hd]
      refine ⟨⟨I, rfl, ?_, ?_⟩, ?_⟩
      · simp only [List.map_set, n1]
      · intro it' h
        rcases List.mem_or_eq_of_mem_set h with h | h
        · exact hw it' h
        · subst h; exact n3
      · rw [n2]
        cases hr : (next s.m it).2 with
        | none => rfl
        | some c =>
          obtain ⟨c1, k, hk⟩ := n4 c hr
          simp [abs_getElem?, c1, cellOf, hk]
  | close j =>
    simp only [SpecSys.stepR, Sys.stepE, hi, List.getElem?_map]
    cases hj : s.iters[j]? with
    | none => exact ⟨⟨I, hd, hi, hw⟩, rfl⟩
    | some it =>
      simp only [Option.map_some]
      refine ⟨⟨I, hd, ?_, ?_⟩, trivial⟩
      · simp only [List.map_set]; rfl
      · intro it' h
        rcases List.mem_or_eq_of_mem_set h with h | h
        · exact hw it' h
        · subst h; intro c hc; simp [Iter.close] at hc

theorem runE_refinesR (B : Bridge eqv norm hash f hash' S W) : ∀ (ops : List (Op K V)) (s : Sys K V) (rs : SpecSys K V),
    RSim f hash' S s rs → (∀ o, o ∈ ops → o.keyOk W) →
    (Sys.runE eqv norm hash s ops).2 = (SpecSys.runR norm f rs ops).2 := by
  intro ops
  induction ops with
  | nil => intro s rs _ _; rfl
  | cons o os ih =>
    intro s rs R hok
    obtain ⟨R', hr⟩ := R.step B o (hok o (List.mem_cons_self ..))
    simp only [Sys.runE, SpecSys.runR]
    rw [hr, ih _ _ R' (fun o' ho' => hok o' (List.mem_cons_of_mem _ ho'))]

end
end GojaModel.C18
