/-
  C18 — `symbols(false)` (object.go:1401-1413) lists exactly the enumerable symbol keys, in insertion order.
-/
import GojaModel.C18.EnumIterL

namespace GojaModel.C18
section
variable {K V : Type}

/-- Enumerable live keys of the entries `b … b+f-1` in allocation order. -/
def keysFromEnum (m : OMap K (PV V)) : Nat → Nat → List K
  | _, 0 => []
  | b, f + 1 =>
    match (m.heap b).key with
    | some k =>
      match (m.heap b).val with
      | some pv => if pv.isEnum then k :: keysFromEnum m (b + 1) f else keysFromEnum m (b + 1) f
      | none => k :: keysFromEnum m (b + 1) f
    | none => keysFromEnum m (b + 1) f

def enumCell : Cell K (PV V) → Option K
  | some (k, some pv) => if pv.isEnum then some k else none
  | some (k, none) => some k
  | none => none

theorem keysFromEnum_eq_filterMap (m : OMap K (PV V)) : ∀ f b,
    keysFromEnum m b f = (List.range' b f).filterMap (fun i => enumCell (cellOf (m.heap i))) := by
  intro f
  induction f with
  | zero => intro b; rfl
  | succ f ih =>
    intro b
    rw [List.range'_succ, List.filterMap_cons, ← ih (b + 1)]
    simp only [keysFromEnum]
    cases hk : (m.heap b).key with
    | none =>
      have hc : cellOf (m.heap b) = none := by simp [cellOf, hk]
      simp [hc, enumCell]
    | some k =>
      cases hv : (m.heap b).val with
      | none =>
        have hc : cellOf (m.heap b) = some (k, none) := by simp [cellOf, hk, hv]
        simp [hc, enumCell]
      | some pv =>
        have hc : cellOf (m.heap b) = some (k, some pv) := by simp [cellOf, hk, hv]
        by_cases he : pv.isEnum = true
        · simp [hc, enumCell, he]
        · simp [hc, enumCell, he]

theorem ownEnumKeys_abs (m : OMap K (PV V)) : Spec.ownEnumKeys (abs m) = keysFromEnum m 0 m.n := by
  rw [keysFromEnum_eq_filterMap, ← List.range_eq_range']
  simp only [Spec.ownEnumKeys, abs, List.filterMap_map]
  rfl

theorem keysFromEnum_skip_dead (m : OMap K (PV V)) : ∀ d b f, (∀ k, b ≤ k → k < b + d → (m.heap k).key = none) →
    keysFromEnum m b (d + f) = keysFromEnum m (b + d) f := by
  intro d
  induction d with
  | zero => intro b f _; simp
  | succ d ih =>
    intro b f h
    have hb := h b (Nat.le_refl _) (by omega)
    rw [show d + 1 + f = (d + f) + 1 by omega]
    simp only [keysFromEnum, hb]
    rw [ih (b + 1) f (fun k h1 h2 => h k (by omega) (by omega))]
    congr 1; omega

theorem keysFromEnum_all_dead (m : OMap K (PV V)) : ∀ f b, (∀ k, b ≤ k → k < b + f → (m.heap k).key = none) →
    keysFromEnum m b f = [] := by
  intro f
  induction f with
  | zero => intro b _; rfl
  | succ f ih =>
    intro b h
    simp only [keysFromEnum, h b (Nat.le_refl _) (by omega)]
    exact ih (b + 1) (fun k h1 h2 => h k (by omega) (by omega))

variable [DecidableEq K] (norm : K → K) (hash : K → Nat)

theorem drainEnum_spec {m : OMap K (PV V)} (I : Inv norm hash m) : ∀ fuel (it : Iter), IterWf m it →
    it.closed = false → (absIter it).index ≤ m.n → m.n - (absIter it).index < fuel →
    drainEnum m fuel it = keysFromEnum m (absIter it).index (m.n - (absIter it).index) := by
  intro fuel
  induction fuel with
  | zero => intro it _ _ _ h; omega
  | succ f ih =>
    intro it hw ho hle hf
    obtain ⟨hN, hS⟩ := next_least norm hash I it hw ho
    simp only [drainEnum]
    cases hr : (next m it).2 with
    | none =>
      have hd := hN.1 hr
      have hpair : next m it = ((next m it).1, none) := Prod.ext rfl hr
      rw [hpair]
      simp only
      symm
      apply keysFromEnum_all_dead
      intro k h1 h2
      have := hd k h1 (by omega)
      simp only [liveOf] at this
      cases hk : (m.heap k).key with
      | none => rfl
      | some x => rw [hk] at this; simp at this
    | some c =>
      obtain ⟨c1, c2, c3, c4⟩ := hN.2 c hr
      have hst := hS c hr
      have hpair : next m it = ({ closed := false, cur := some c }, some c) := Prod.ext hst hr
      rw [hpair]
      simp only
      simp only [liveOf] at c3
      cases hk : (m.heap c).key with
      | none => simp [hk] at c3
      | some k =>
        simp only
        have hw' : IterWf m { closed := false, cur := some c } := by intro x hx; simp at hx; omega
        have hrec := ih { closed := false, cur := some c } hw' rfl (by simp [absIter]; omega)
          (by simp [absIter]; omega)
        have hsplit : m.n - (absIter it).index = (c - (absIter it).index) + (m.n - c) := by omega
        rw [hsplit, keysFromEnum_skip_dead m (c - (absIter it).index) (absIter it).index (m.n - c)]
        · have e1 : (absIter it).index + (c - (absIter it).index) = c := by omega
          rw [e1]
          have e2 : m.n - c = (m.n - (c + 1)) + 1 := by omega
          rw [e2]
          simp only [keysFromEnum, hk]
          simp only [absIter] at hrec
          cases hv : (m.heap c).val with
          | none => simp only; rw [hrec]
          | some pv =>
            simp only
            by_cases he : pv.isEnum = true
            · simp only [he, if_true]; rw [hrec]
            · simp only [he, if_false, Bool.false_eq_true]; rw [hrec]
        · intro x h1 h2
          have := c4 x h1 (by omega)
          simp only [liveOf] at this
          cases hx : (m.heap x).key with
          | none => rfl
          | some y => rw [hx] at this; simp at this

theorem symbolsEnum_spec {m : OMap K (PV V)} (I : Inv norm hash m) :
    symbolsEnum m = Spec.ownEnumKeys (abs m) := by
  rw [ownEnumKeys_abs]
  unfold symbolsEnum
  have := drainEnum_spec norm hash I (m.n + 1) newIter (fun c hc => by simp [newIter] at hc) rfl
    (by simp [absIter, newIter]) (by simp [absIter, newIter])
  simpa [absIter, newIter] using this

end
end GojaModel.C18
