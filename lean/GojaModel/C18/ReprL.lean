/-
  C18 — the representation-keyed structure refines `RSpec` exactly (lemmas).
-/
import GojaModel.C18.Repr

namespace GojaModel.C18
section
variable {K K' V : Type} [DecidableEq K']

def cmap (f : K → K') : Cell K V → Cell K' V := fun c => c.map (fun p => (f p.1, p.2))

theorem abs_mapKeys (f : K → K') (m : OMap K V) : abs (mapKeys f m) = (abs m).map (cmap f) := by
  apply List.ext_getElem?
  intro i
  rw [List.getElem?_map, abs_getElem?, abs_getElem?]
  by_cases h : i < m.n
  · have h' : i < (mapKeys f m).n := h
    simp only [h, h', if_true, Option.map_some, mapKeys, cellOf, mapEntry, cmap]
    cases (m.heap i).key <;> rfl
  · have h' : ¬ i < (mapKeys f m).n := h
    simp [h, h']

theorem rfind_eq (norm : K → K) (f : K → K') (d : MapData K V) (k : K) :
    RSpec.find norm f d k = Spec.find id (d.map (cmap f)) (f (norm k)) := by
  unfold RSpec.find Spec.find
  rw [List.findIdx?_map]
  congr 1
  funext c
  cases c with
  | none => rfl
  | some p => rfl

theorem scan_map (g : Cell K V → Cell K' V) (hg : ∀ c, (g c).isSome = c.isSome) (d : MapData K V) :
    ∀ fuel i, Spec.scan (d.map g) fuel i = Spec.scan d fuel i := by
  intro fuel
  induction fuel with
  | zero => intro i; rfl
  | succ n ih =>
    intro i
    simp only [Spec.scan, List.getElem?_map]
    cases hd : d[i]? with
    | none => simp [ih]
    | some c =>
      have := hg c
      cases c with
      | none =>
        cases hgc : g none with
        | none => simp [hgc, ih]
        | some x => rw [hgc] at this; simp at this
      | some p =>
        cases hgc : g (some p) with
        | none => rw [hgc] at this; simp at this
        | some x => simp [hgc]

theorem specNext_map (f : K → K') (d : MapData K V) (it : Spec.SIter) :
    Spec.next (d.map (cmap f)) it = Spec.next d it := by
  unfold Spec.next
  rw [List.length_map, scan_map (cmap f) (fun c => by cases c <;> rfl)]

variable {eqv : K → K → Bool} {norm : K → K} {hash : K → Nat} {f : K → K'} {hash' : K' → Nat} {S W : K → Prop}

/-- Invariant of the representation-keyed structure: stored keys are storable and its class image satisfies `Inv`. -/
structure RInv (f : K → K') (hash' : K' → Nat) (S : K → Prop) (m : OMap K V) : Prop where
  good : Good S m
  inv : Inv id hash' (mapKeys f m)

theorem RInv.empty : RInv f hash' S ({} : OMap K V) :=
  ⟨fun i k h => by simp at h, Inv.empty id hash'⟩

theorem rfind_lookup (B : Bridge eqv norm hash f hash' S W) {m : OMap K V} (R : RInv f hash' S m) {k : K} (hk : W k) :
    RSpec.find norm f (abs m) k = (lookupE eqv norm hash m k).2.1 := by
  rw [rfind_eq, ← abs_mapKeys, find_eq_lookup id hash' R.inv (fun _ => rfl), lookup_map B R.good hk]

theorem lookupE_found (B : Bridge eqv norm hash f hash' S W) {m : OMap K V} (R : RInv f hash' S m) {k : K} (hk : W k) :
    ∀ x, (lookupE eqv norm hash m k).2.1 = some x → x < m.n ∧ ∃ k', (m.heap x).key = some k' := by
  intro x hx
  rw [lookup_map B R.good hk] at hx
  obtain ⟨h1, h2, _⟩ := (lookup_spec id hash' R.inv (f (norm k))).2.1 x hx
  refine ⟨h1, ?_⟩
  simp only [mapKeys, mapEntry] at h2
  cases hk' : (m.heap x).key with
  | none => rw [hk'] at h2; simp at h2
  | some k' => exact ⟨k', rfl⟩

theorem setE_refines (B : Bridge eqv norm hash f hash' S W) {m : OMap K V} (R : RInv f hash' S m) {k : K} (hk : W k)
    (v : Option V) : abs (setE eqv norm hash m k v) = RSpec.set norm f (abs m) k v := by
  have hf := rfind_lookup B R hk
  have hx := lookupE_found B R hk
  unfold RSpec.set setE
  rw [hf]
  generalize lookupE eqv norm hash m k = r at hx
  obtain ⟨h, e, hp⟩ := r
  cases e with
  | none => simp only; exact abs_setWith_none m h hp (norm k) v
  | some e =>
    obtain ⟨he, k', hk'⟩ := hx e rfl
    simp only
    rw [abs_setWith_some m h e hp (norm k) v he, abs_getElem?]
    simp [he, cellOf, hk']

theorem getE_refines (B : Bridge eqv norm hash f hash' S W) {m : OMap K V} (R : RInv f hash' S m) {k : K} (hk : W k) :
    getE eqv norm hash m k = RSpec.get norm f (abs m) k := by
  have hf := rfind_lookup B R hk
  have hx := lookupE_found B R hk
  unfold RSpec.get getE getWith
  rw [hf]
  generalize lookupE eqv norm hash m k = r at hx
  obtain ⟨h, e, hp⟩ := r
  cases e with
  | none => rfl
  | some e =>
    obtain ⟨he, k', hk'⟩ := hx e rfl
    simp [abs_getElem?, he, cellOf, hk']

theorem hasE_refines (B : Bridge eqv norm hash f hash' S W) {m : OMap K V} (R : RInv f hash' S m) {k : K} (hk : W k) :
    hasE eqv norm hash m k = RSpec.has norm f (abs m) k := by
  unfold RSpec.has hasE
  rw [rfind_lookup B R hk]

theorem removeE_refines (B : Bridge eqv norm hash f hash' S W) {m : OMap K V} (R : RInv f hash' S m) {k : K}
    (hk : W k) :
    abs (removeE eqv norm hash m k).1 = (RSpec.delete norm f (abs m) k).1 ∧
    (removeE eqv norm hash m k).2 = (RSpec.delete norm f (abs m) k).2 := by
  have hf := rfind_lookup B R hk
  have hx := lookupE_found B R hk
  unfold RSpec.delete removeE
  rw [hf]
  generalize lookupE eqv norm hash m k = r at hx
  obtain ⟨h, e, hp⟩ := r
  cases e with
  | none => exact ⟨rfl, rfl⟩
  | some e =>
    obtain ⟨he, _⟩ := hx e rfl
    exact ⟨abs_removeWith_some m h e hp he, rfl⟩

theorem rinv_set (B : Bridge eqv norm hash f hash' S W) {m : OMap K V} (R : RInv f hash' S m) {k : K} (hk : W k)
    (v : Option V) : RInv f hash' S (setE eqv norm hash m k v) :=
  ⟨good_set B R.good hk v, by rw [set_map B R.good hk]; exact inv_set id hash' R.inv (fun _ => rfl) _ v⟩

theorem rinv_remove (B : Bridge eqv norm hash f hash' S W) {m : OMap K V} (R : RInv f hash' S m) {k : K} (hk : W k) :
    RInv f hash' S (removeE eqv norm hash m k).1 := by
  refine ⟨good_remove R.good k, ?_⟩
  have := congrArg Prod.fst (remove_map B R.good hk)
  simp only at this
  rw [this]
  exact inv_remove id hash' R.inv _

theorem rinv_clear {m : OMap K V} (R : RInv f hash' S m) : RInv f hash' S (clear m) :=
  ⟨good_clear R.good, by rw [clear_map]; exact inv_clear id hash' R.inv⟩

end
end GojaModel.C18
