/-
  C18 — what sits above the symbol-key snapshot iterator when Object.assign / spread / rest copy an object
  (`iterateEnumerableProperties`, object.go:1785): `enumerableIter.next` (object.go:1130-1158) drops non-enumerable
  properties, `enumPropertiesIter.next` (object.go:1763-1783) resolves the value (plain value, data descriptor, or getter
  call).  Restricted to symbol keys, i.e. to items produced by `objectSymbolIter.next` (value present, enumerability
  unknown).  Also the non-`all` branch of `symbols` (object.go:1401-1413).
-/
import GojaModel.C18.SymIterL

namespace GojaModel.C18

/-- What the symbol table stores for a key: a plain value, or a `*valueProperty` (value.go:500) — enumerable flag, and
either a data value (`nil` = undefined) or a getter (identified by a number). -/
inductive PV (V : Type) where
  | plain (v : V)
  | desc (enumerable : Bool) (getter : Option Nat) (value : Option V)

/-- What `enumPropertiesIter.next` hands to its caller as `item.value`: a value (`none` = undefined), or the result of
calling getter `g` with `this = o` (`valueProperty.get`, value.go:513-524) — user code, left to the caller. -/
inductive Visit (V : Type) where
  | value (v : Option V)
  | call (g : Nat)

section
variable {K V : Type}

/-- object.go:1150-1154 / 1407-1411: `if prop, ok := v.(*valueProperty); ok { if !prop.enumerable { continue } }`. -/
def PV.isEnum : PV V → Bool
  | .plain _ => true
  | .desc e _ _ => e

/-- object.go:1776-1778 with value.go:513-524. -/
def PV.resolve : PV V → Visit V
  | .plain v => .value (some v)
  | .desc _ none w => .value w
  | .desc _ (some g) _ => .call g

variable [DecidableEq K] (norm : K → K) (hash : K → Nat)

/-- `enumerableIter.next` over `objectSymbolIter.next` (object.go:1130-1158): `for { item := wrapped(); if done return;
if non-enumerable continue; return item }`.  `fuel` bounds the `for`; `ks.length + 1` always suffices. -/
def enumerableNext (m : OMap K (PV V)) : Nat → List K → SymIter K × Option (K × PV V)
  | 0, ks => (⟨ks⟩, none)
  | fuel + 1, ks =>
    match symIterNext norm hash m ks with
    | (it', none) => (it', none)                              -- object.go:1134-1136
    | (it', some (k, pv)) =>
      if pv.isEnum then (it', some (k, pv))                   -- object.go:1156
      else enumerableNext m fuel it'.keys                     -- object.go:1152 continue

/-- `enumPropertiesIter.next` (object.go:1763-1783) on top: resolve the value. -/
def enumPropsNext (m : OMap K (PV V)) (ks : List K) : SymIter K × Option (K × Visit V) :=
  match enumerableNext norm hash m (ks.length + 1) ks with
  | (it', some (k, pv)) => (it', some (k, pv.resolve))
  | (it', none) => (it', none)

/-- The three loops fused, by structural recursion on the remaining snapshot. -/
def enumNext (m : OMap K (PV V)) : List K → SymIter K × Option (K × Visit V)
  | [] => (⟨[]⟩, none)
  | k :: rest =>
    match get norm hash m k with
    | some pv => if pv.isEnum then (⟨rest⟩, some (k, pv.resolve)) else enumNext m rest
    | none => enumNext m rest

namespace Spec

/-- ECMA-262 7.3.26 CopyDataProperties step 4.c / 20.1.2.1 Object.assign step 3.a.iii on symbol keys:
`desc = from.[[GetOwnProperty]](nextKey); if desc is not undefined and desc.[[Enumerable]] is true, then
propValue = Get(from, nextKey)`. -/
def assignEnumNext (d : MapData K (PV V)) : List K → List K × Option (K × Visit V)
  | [] => ([], none)
  | k :: rest =>
    match get norm d k with
    | some pv => if pv.isEnum then (rest, some (k, pv.resolve)) else assignEnumNext d rest
    | none => assignEnumNext d rest

/-- `Object.getOwnPropertySymbols` filtered to enumerable ones (what `symbols(false)` must list: `keys`, for-in
helpers, `JSON`/`Object.entries`-style consumers). -/
def ownEnumKeys (d : MapData K (PV V)) : List K :=
  d.filterMap (fun c => match c with
    | some (k, some pv) => if pv.isEnum then some k else none
    | some (k, none) => some k
    | none => none)

end Spec

/-- `symbols(false, nil)` (object.go:1401-1413): a full iteration that skips non-enumerable `*valueProperty` values. -/
def drainEnum (m : OMap K (PV V)) : Nat → Iter → List K
  | 0, _ => []
  | f + 1, it =>
    match next m it with
    | (it', some c) =>
      match (m.heap c).key with
      | some k =>
        match (m.heap c).val with
        | some pv => if pv.isEnum then k :: drainEnum m f it' else drainEnum m f it'
        | none => k :: drainEnum m f it'
      | none => drainEnum m f it'
    | (_, none) => []

def symbolsEnum (m : OMap K (PV V)) : List K := drainEnum m (m.n + 1) newIter

end
end GojaModel.C18
