/-
  C18 — value level: goja's per-type `hash` / `SameAs` (as transcribed by the number model of C05 and the string model
  of C06) agree with SameValueZero on canonical numbers and normal-form strings, so that the decisions `lookup` takes on
  concrete representations (bucket choice, `SameAs` test, −0 normalisation) are exactly those of the abstract mechanism
  model of Model.lean instantiated at SameValueZero classes.
-/
import GojaModel.C18.LemmasH
import GojaModel.C05.Lemmas
import GojaModel.C06.Props

namespace GojaModel.C18
open GojaModel

/-- A Map/Set key as far as `lookup` (map.go:26) can tell: a Number (two representations), a String (three
representations), or something compared by identity (objects, symbols; booleans/null/undefined are singletons). -/
inductive Key where
  | num (a : Num)
  | str (s : C06.Str)
  | big (i : Int)          -- *valueBigInt: a math/big.Int (sign + normalised magnitude; there is no −0n)
  | other (id : Nat)

/-- `(*big.Int).Bytes()`: big-endian magnitude without leading zero bytes (empty for 0). -/
def beBytes (n : Nat) : List UInt8 :=
  if h : n = 0 then [] else beBytes (n / 256) ++ [UInt8.ofNat (n % 256)]
termination_by n
decreasing_by omega

/-- What `valueBigInt.hash` writes to the hasher (builtin_bigint.go:111-123): a sign byte, then `Bytes()`. -/
def bigHashPre (i : Int) : List UInt8 := (if i < 0 then 1 else 0) :: beBytes i.natAbs

def fromBE (l : List UInt8) : Nat := l.foldl (fun acc b => acc * 256 + b.toNat) 0

theorem fromBE_beBytes (n : Nat) : fromBE (beBytes n) = n := by
  induction n using Nat.strongRecOn with
  | _ n ih =>
    unfold beBytes
    by_cases h : n = 0
    · simp [h, fromBE]
    · simp only [h, dite_false]
      unfold fromBE
      rw [List.foldl_append]
      have := ih (n / 256) (by omega)
      unfold fromBE at this
      rw [this]
      simp only [List.foldl_cons, List.foldl_nil]
      have : (UInt8.ofNat (n % 256)).toNat = n % 256 := by
        simp [UInt8.toNat_ofNat']
      rw [this]; omega

/-- Distinct BigInts write distinct bytes (so only a maphash collision can put them in one bucket). -/
theorem bigHashPre_injective {i j : Int} (h : bigHashPre i = bigHashPre j) : i = j := by
  unfold bigHashPre at h
  simp only [List.cons.injEq] at h
  obtain ⟨h1, h2⟩ := h
  have h3 : i.natAbs = j.natAbs := by rw [← fromBE_beBytes i.natAbs, ← fromBE_beBytes j.natAbs, h2]
  by_cases hi : i < 0 <;> by_cases hj : j < 0 <;> simp [hi, hj] at h1 <;> omega

/-- Producers hand out canonical numbers (C05 `Canon`) and normal-form strings (C06 `NF`). -/
def Key.WF : Key → Prop
  | .num a => Num.Canon a
  | .str s => C06.NF s
  | .big _ => True
  | .other _ => True

/-- map.go:27-29 / 41-43: `if key == _negativeZero { key = intToValue(0) }`. -/
def normKeyK : Key → Key
  | .num a => .num (Num.normKey a)
  | k => k

/-- `entry.key.SameAs(key)` (map.go:31) by dynamic type: value.go:215/618, string_*.go SameAs, pointer identity. -/
def sameAsK : Key → Key → Bool
  | .num a, .num b => Num.sameAs a b
  | .str s, .str t => C06.sameAs s t
  | .big i, .big j => i == j               -- builtin_bigint.go:55: Cmp == 0
  | .other i, .other j => i == j
  | _, _ => false

/-- What `key.hash(m.hash)` is computed from: the word returned directly (numbers), the bytes written to maphash
(strings), the address / per-process random constant (everything else). -/
inductive HashIn where
  | word (n : Nat)
  | bytes (b : List UInt8)
  | addr (id : Nat)
deriving DecidableEq

def hashPreK : Key → HashIn
  | .num a => .word (Num.hash a)
  | .str s => .bytes (C06.hashPre s)
  | .big i => .bytes (bigHashPre i)
  | .other i => .addr i

/-- The hash itself, for an ARBITRARY maphash function `mh` and address/constant map `ph`. -/
def hashK (mh : List UInt8 → Nat) (ph : Nat → Nat) (k : Key) : Nat :=
  match hashPreK k with
  | .word n => n
  | .bytes b => mh b
  | .addr i => ph i

/-- Spec: SameValueZero (ECMA-262 7.2.12) on the denoted values. -/
def svz : Key → Key → Bool
  | .num a, .num b => Num.specSameValueZero a.toF64 b.toF64
  | .str s, .str t => decide (C06.units s = C06.units t)
  | .big i, .big j => i == j               -- BigInt::sameValueZero = BigInt::equal
  | .other i, .other j => i == j
  | _, _ => false

/-- SameValueZero class of a key: the normalised canonical number, the code-unit sequence, the identity. -/
inductive KeyClass where
  | num (n : Num)
  | str (u : List UInt16)
  | big (i : Int)
  | other (id : Nat)
deriving DecidableEq

def cls : Key → KeyClass
  | .num a => .num (Num.normKey a)
  | .str s => .str (C06.units s)
  | .big i => .big i
  | .other i => .other i

theorem specSameValue_refl (x : F64) : Num.specSameValue x x = true := by
  simp [Num.specSameValue]

theorem normKey_eq_iff_svz {a b : Num} (ha : Num.Canon a) (hb : Num.Canon b) :
    Num.normKey a = Num.normKey b ↔ Num.specSameValueZero a.toF64 b.toF64 = true := by
  rw [C05.specSVZ_eq, ← C05.toF64_normKey ha, ← C05.toF64_normKey hb]
  constructor
  · intro h; rw [h]; exact specSameValue_refl _
  · intro h; exact C05.canon_unique' (C05.canon_normKey ha) (C05.canon_normKey hb) h

theorem cls_eq_iff_svz' {a b : Key} (ha : a.WF) (hb : b.WF) : cls a = cls b ↔ svz a b = true := by
  cases a <;> cases b <;> simp [cls, svz, Key.WF] at *
  · exact normKey_eq_iff_svz ha hb

theorem sameAs_norm_eq_svz' {a b : Key} (ha : a.WF) (hb : b.WF) :
    sameAsK (normKeyK a) (normKeyK b) = svz a b := by
  cases a <;> cases b <;> simp [normKeyK, sameAsK, svz, Key.WF] at *
  · rename_i x y
    rw [C05.sameAs_eq_spec' (C05.canon_normKey ha) (C05.canon_normKey hb), C05.toF64_normKey ha,
      C05.toF64_normKey hb, ← C05.specSVZ_eq]
  · rename_i s t
    rw [C06.sameAs_eq_strictEq]
    exact Bool.eq_iff_iff.2 (by simpa using C06.eq_iff_units ha hb)

theorem hash_respects_svz' {a b : Key} (ha : a.WF) (hb : b.WF) (h : svz a b = true) :
    hashPreK (normKeyK a) = hashPreK (normKeyK b) := by
  cases a <;> cases b <;> simp [normKeyK, hashPreK, svz, Key.WF] at *
  · rw [(normKey_eq_iff_svz ha hb).2 h]
  · exact (C06.hashpre_iff_units ha hb).2 h
  · rw [h]
  · exact h

end GojaModel.C18
