/-
  C18 — value level: goja's per-type `hash` / `SameAs` (as transcribed by the number model of C05 and the string model
  of C06) agree with SameValueZero on canonical numbers and normal-form strings, so that the decisions `lookup` takes on
  concrete representations (bucket choice, `SameAs` test, −0 normalisation) are exactly those of the abstract mechanism
  model of Model.lean instantiated at SameValueZero classes.
-/
import GojaModel.C18.LemmasH
import GojaModel.C05.Lemmas
import GojaModel.C06.Props

namespace GojaModel.C18
open GojaModel

/-- A Map/Set key as far as `lookup` (map.go:26) can tell: a Number (two representations), a String (three
representations), or something compared by identity (objects, symbols; booleans/null/undefined are singletons). -/
inductive Key where
  | num (a : Num)
  | str (s : C06.Str)
  | other (id : Nat)

/-- Producers hand out canonical numbers (C05 `Canon`) and normal-form strings (C06 `NF`). -/
def Key.WF : Key → Prop
  | .num a => Num.Canon a
  | .str s => C06.NF s
  | .other _ => True

/-- map.go:27-29 / 41-43: `if key == _negativeZero { key = intToValue(0) }`. -/
def normKeyK : Key → Key
  | .num a => .num (Num.normKey a)
  | k => k

/-- `entry.key.SameAs(key)` (map.go:31) by dynamic type: value.go:215/618, string_*.go SameAs, pointer identity. -/
def sameAsK : Key → Key → Bool
  | .num a, .num b => Num.sameAs a b
  | .str s, .str t => C06.sameAs s t
  | .other i, .other j => i == j
  | _, _ => false

/-- What `key.hash(m.hash)` is computed from: the word returned directly (numbers), the bytes written to maphash
(strings), the address / per-process random constant (everything else). -/
inductive HashIn where
  | word (n : Nat)
  | bytes (b : List UInt8)
  | addr (id : Nat)
deriving DecidableEq

def hashPreK : Key → HashIn
  | .num a => .word (Num.hash a)
  | .str s => .bytes (C06.hashPre s)
  | .other i => .addr i

/-- The hash itself, for an ARBITRARY maphash function `mh` and address/constant map `ph`. -/
def hashK (mh : List UInt8 → Nat) (ph : Nat → Nat) (k : Key) : Nat :=
  match hashPreK k with
  | .word n => n
  | .bytes b => mh b
  | .addr i => ph i

/-- Spec: SameValueZero (ECMA-262 7.2.12) on the denoted values. -/
def svz : Key → Key → Bool
  | .num a, .num b => Num.specSameValueZero a.toF64 b.toF64
  | .str s, .str t => decide (C06.units s = C06.units t)
  | .other i, .other j => i == j
  | _, _ => false

/-- SameValueZero class of a key: the normalised canonical number, the code-unit sequence, the identity. -/
inductive KeyClass where
  | num (n : Num)
  | str (u : List UInt16)
  | other (id : Nat)
deriving DecidableEq

def cls : Key → KeyClass
  | .num a => .num (Num.normKey a)
  | .str s => .str (C06.units s)
  | .other i => .other i

theorem specSameValue_refl (x : F64) : Num.specSameValue x x = true := by
  simp [Num.specSameValue]

theorem normKey_eq_iff_svz {a b : Num} (ha : Num.Canon a) (hb : Num.Canon b) :
    Num.normKey a = Num.normKey b ↔ Num.specSameValueZero a.toF64 b.toF64 = true := by
  rw [C05.specSVZ_eq, ← C05.toF64_normKey ha, ← C05.toF64_normKey hb]
  constructor
  · intro h; rw [h]; exact specSameValue_refl _
  · intro h; exact C05.canon_unique' (C05.canon_normKey ha) (C05.canon_normKey hb) h

theorem cls_eq_iff_svz' {a b : Key} (ha : a.WF) (hb : b.WF) : cls a = cls b ↔ svz a b = true := by
  cases a <;> cases b <;> simp [cls, svz, Key.WF] at *
  · exact normKey_eq_iff_svz ha hb

theorem sameAs_norm_eq_svz' {a b : Key} (ha : a.WF) (hb : b.WF) :
    sameAsK (normKeyK a) (normKeyK b) = svz a b := by
  cases a <;> cases b <;> simp [normKeyK, sameAsK, svz, Key.WF] at *
  · rename_i x y
    rw [C05.sameAs_eq_spec' (C05.canon_normKey ha) (C05.canon_normKey hb), C05.toF64_normKey ha,
      C05.toF64_normKey hb, ← C05.specSVZ_eq]
  · rename_i s t
    rw [C06.sameAs_eq_strictEq]
    exact Bool.eq_iff_iff.2 (by simpa using C06.eq_iff_units ha hb)

theorem hash_respects_svz' {a b : Key} (ha : a.WF) (hb : b.WF) (h : svz a b = true) :
    hashPreK (normKeyK a) = hashPreK (normKeyK b) := by
  cases a <;> cases b <;> simp [normKeyK, hashPreK, svz, Key.WF] at *
  · rw [(normKey_eq_iff_svz ha hb).2 h]
  · exact (C06.hashpre_iff_units ha hb).2 h
  · exact h

end GojaModel.C18
