/-
  C18 — `clear` (map.go:157-169): the loop turns every live entry into a tombstone and leaves every iterPrev alone.
-/
import GojaModel.C18.LemmasD

namespace GojaModel.C18
section
variable {K V : Type}

theorem clearWalk_prev : ∀ (fuel : Nat) (heap : Nat → Entry K V) (item : Option Nat) (i : Nat),
    (clearWalk fuel heap item i).iterPrev = (heap i).iterPrev := by
  intro fuel
  induction fuel with
  | zero => intro heap item i; rfl
  | succ f ih =>
    intro heap item i
    cases item with
    | none => rfl
    | some j =>
      unfold clearWalk
      rw [ih]
      unfold clearBody
      cases (heap j).iterPrev <;> simp

/-- Loop invariant of `clear`: everything below `b` is dead, `item` is the first live entry from `b` on, live entries
still know their live successor, and iterPrev always points downwards. -/
def ClearLI (n : Nat) (heap : Nat → Entry K V) (b : Nat) (item : Option Nat) : Prop :=
  (∀ i, i < b → liveOf heap i = false) ∧
  NextSpec n (liveOf heap) b item ∧
  (∀ i, i < n → liveOf heap i = true → NextSpec n (liveOf heap) (i + 1) (nextOf heap i)) ∧
  (∀ i p, i < n → prevOf heap i = some p → p < i)

theorem ListInv.next_spec' {n live prev next first last} (I : ListInv n live prev next first last) :
    ∀ i, i < n → live i = true → NextSpec n live (i + 1) (next i) := by
  obtain ⟨pNone, pSome, pLive, nNone, nSome, fNone, fSome, lNone, lSome⟩ := I
  intro i hi hl
  have := nNone i hi hl
  have := nSome i
  unfold NextSpec
  cases h : next i <;> grind

theorem clearWalk_dead {n : Nat} : ∀ (fuel : Nat) (heap : Nat → Entry K V) (b : Nat) (item : Option Nat),
    ClearLI n heap b item → n - b < fuel → b ≤ n →
    ∀ i, i < n → liveOf (clearWalk fuel heap item) i = false := by
  intro fuel
  induction fuel with
  | zero => intro heap b item _ h; omega
  | succ f ih =>
    intro heap b item ⟨h1, h2, h3, h4⟩ hf hb i hi
    cases item with
    | none =>
      unfold clearWalk
      by_cases hib : i < b
      · exact h1 i hib
      · exact h2.1 rfl i (by omega) hi
    | some j =>
      obtain ⟨j1, j2, j3, j4⟩ := h2.2 j rfl
      unfold clearWalk
      -- the heap after the loop body
      generalize hh2 : clearBody heap j = heap2
      unfold clearBody at hh2
      have hlive2 : ∀ x, liveOf heap2 x = if x = j then false else liveOf heap x := by
        intro x; subst hh2
        by_cases hxj : x = j <;> cases (heap j).iterPrev <;> simp [liveOf, hxj]
      have hprev2 : ∀ x, prevOf heap2 x = prevOf heap x := by
        intro x; subst hh2
        cases (heap j).iterPrev <;> simp [prevOf]
      have hnext2 : ∀ x, j ≤ x → nextOf heap2 x = nextOf heap x := by
        intro x hx; subst hh2
        cases hp : (heap j).iterPrev with
        | none => simp [nextOf]
        | some p =>
          have := h4 j p j2 (by simpa [prevOf] using hp)
          simp [nextOf]; intro hxp; omega
      have hjn : (heap2 j).iterNext = nextOf heap j := hnext2 j (Nat.le_refl _)
      rw [hjn]
      apply ih heap2 (j + 1) (nextOf heap j) _ (by omega) (by omega) i hi
      refine ⟨?_, ?_, ?_, ?_⟩
      · intro x hx
        rw [hlive2]
        by_cases hxj : x = j
        · simp [hxj]
        · simp [hxj]
          by_cases hxb : x < b
          · exact h1 x hxb
          · exact j4 x (by omega) (by omega)
      · have := h3 j j2 j3
        unfold NextSpec at this ⊢
        cases hnx : nextOf heap j <;> grind
      · intro x hx hlx
        rw [hlive2] at hlx
        by_cases hxj : x = j
        · simp [hxj] at hlx
        · simp [hxj] at hlx
          have hjx : j < x := by
            rcases Nat.lt_or_ge j x with h | h
            · exact h
            · exfalso
              by_cases hxb : x < b
              · have := h1 x hxb; simp [this] at hlx
              · have := j4 x (by omega) (by omega); simp [this] at hlx
          rw [hnext2 x (by omega)]
          have := h3 x hx hlx
          unfold NextSpec at this ⊢
          cases hnx : nextOf heap x <;> grind
      · intro x p hx hp
        rw [hprev2] at hp
        exact h4 x p hx hp

variable [DecidableEq K] (norm : K → K) (hash : K → Nat)

theorem inv_clear {m : OMap K V} (I : Inv norm hash m) : Inv norm hash (clear m) := by
  have hdead : ∀ i, i < m.n → liveOf (clearWalk (m.n + 1) m.heap m.iterFirst) i = false := by
    apply clearWalk_dead (m.n + 1) m.heap 0 m.iterFirst _ (by omega) (by omega)
    exact ⟨fun i hi => by omega, first_spec I.list, I.list.next_spec', fun i p hi hp => (I.list.pSome i p hi hp).1⟩
  have hprev : ∀ i, prevOf (clearWalk (m.n + 1) m.heap m.iterFirst) i = prevOf m.heap i :=
    fun i => clearWalk_prev _ _ _ i
  have hkey : ∀ i, i < m.n → ((clear m).heap i).key = none := by
    intro i hi
    have := hdead i hi
    simp only [liveOf] at this
    cases h : (clearWalk (m.n + 1) m.heap m.iterFirst i).key with
    | none => simpa [clear] using h
    | some k => simp [h] at this
  constructor
  · constructor
    · intro i hi _ k hk; exact hdead k (by simp [clear] at hi; omega)
    · intro i j hi hp
      simp only [clear] at hi hp
      rw [hprev] at hp
      exact ⟨(I.list.pSome i j hi hp).1, fun k h1 h2 => hdead k (by omega)⟩
    · intro i j hi hl; simp only [clear] at hi hl; rw [hdead i hi] at hl; simp at hl
    · intro i hi hl; simp only [clear] at hi hl; rw [hdead i hi] at hl; simp at hl
    · intro i j hi hl; simp only [clear] at hi hl; rw [hdead i hi] at hl; simp at hl
    · intro _ k hk; exact hdead k hk
    · intro j hj; simp [clear] at hj
    · intro _ k hk; exact hdead k hk
    · intro j hj; simp [clear] at hj
  · constructor
    · intro h
      unfold NextSpec
      refine ⟨fun _ k _ hk => ?_, fun j hj => by simp [clear] at hj⟩
      simp [inH, hkOf, hkey k hk]
    · intro i h hi hki
      simp [hkOf, hkey i hi] at hki
  · intro i j k hi hj h1; simp [hkey i hi] at h1
  · intro i k hi h1; simp [hkey i hi] at h1
  · show 0 = liveCount (liveOf (clearWalk (m.n + 1) m.heap m.iterFirst)) m.n
    rw [liveCount_dead m.n hdead]

end
end GojaModel.C18
