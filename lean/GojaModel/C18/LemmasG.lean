/-
  C18 — iterators: the mechanism's `next` (track back over tombstones, then follow iterNext) equals the spec's
  "advance the index to the next non-empty record"; and the whole-system simulation.
-/
import GojaModel.C18.LemmasF

namespace GojaModel.C18
section
variable {K V : Type}

/-- An iterator only ever rests on an allocated entry. -/
def IterWf (m : OMap K V) (it : Iter) : Prop := ∀ c, it.cur = some c → c < m.n

theorem scan_abs (m : OMap K V) : ∀ fuel i, i + fuel = m.n →
    NextSpec m.n (liveOf m.heap) i (Spec.scan (abs m) fuel i) := by
  intro fuel
  induction fuel with
  | zero =>
    intro i hi
    unfold Spec.scan NextSpec
    exact ⟨fun _ k h1 h2 => by omega, fun j hj => by simp at hj⟩
  | succ f ih =>
    intro i hi
    have hin : i < m.n := by omega
    unfold Spec.scan
    rw [abs_getElem?]
    simp only [hin, if_true]
    cases hk : (m.heap i).key with
    | some k =>
      simp only [cellOf, hk, Option.map_some]
      unfold NextSpec
      refine ⟨fun h => by simp at h, fun j hj => ?_⟩
      simp at hj; subst hj
      exact ⟨Nat.le_refl _, hin, by simp [liveOf, hk], fun k h1 h2 => by omega⟩
    | none =>
      simp only [cellOf, hk, Option.map_none]
      have := ih (i + 1) (by omega)
      have hd : liveOf m.heap i = false := by simp [liveOf, hk]
      unfold NextSpec at this ⊢
      cases hs : Spec.scan (abs m) f (i + 1) <;> grind

variable [DecidableEq K] (norm : K → K) (hash : K → Nat)

theorem next_refines {m : OMap K V} (I : Inv norm hash m) (it : Iter) (hw : IterWf m it) :
    (Spec.next (abs m) (absIter it)).1 = absIter (next m it).1 ∧
    (Spec.next (abs m) (absIter it)).2 = (next m it).2 ∧
    IterWf m (next m it).1 ∧
    (∀ c, (next m it).2 = some c → c < m.n ∧ liveOf m.heap c = true) := by
  unfold Spec.next next
  by_cases hc : it.closed
  · simp [absIter, hc]; exact hw
  · have hd : (absIter it).done = false := by simp [absIter, hc]
    have hle : (absIter it).index ≤ m.n := by
      unfold absIter
      cases hcur : it.cur with
      | none => simp
      | some c => have := hw c hcur; simp; omega
    have hT : NextSpec m.n (liveOf m.heap) (absIter it).index (nextTarget m.heap m.iterFirst it.cur) := by
      unfold absIter
      cases hcur : it.cur with
      | none => exact first_spec I.list
      | some c => exact next_spec m.heap I.list c (hw c hcur)
    have hS := scan_abs m (m.n - (absIter it).index) (absIter it).index (by omega)
    simp only [hd, hc, Bool.false_eq_true, if_false, abs_length]
    rw [hS.unique hT]
    cases ho : nextTarget m.heap m.iterFirst it.cur with
    | none => simp [IterWf, absIter]
    | some j =>
      rw [ho] at hT
      obtain ⟨_, a, b, _⟩ := hT.2 j rfl
      refine ⟨by simp [absIter], by simp, ?_, ?_⟩
      · intro c hc; simp at hc; omega
      · intro c hc; simp at hc; subst hc; exact ⟨a, b⟩

theorem IterWf.mono {m m' : OMap K V} {it : Iter} (h : IterWf m it) (hn : m.n ≤ m'.n) : IterWf m' it :=
  fun c hc => Nat.lt_of_lt_of_le (h c hc) hn

theorem set_n_le (m : OMap K V) (k : K) (v : Option V) : m.n ≤ (set norm hash m k v).n := by
  unfold set setWith
  generalize lookup norm hash m k = r
  obtain ⟨h, e, hPrev⟩ := r
  cases e with
  | some e => exact Nat.le_refl _
  | none => cases hPrev <;> cases m.iterLast <;> simp

theorem remove_n (m : OMap K V) (k : K) : (remove norm hash m k).1.n = m.n := by
  unfold remove removeWith
  generalize lookup norm hash m k = r
  obtain ⟨h, e, hPrev⟩ := r
  cases e <;> rfl

end
end GojaModel.C18
