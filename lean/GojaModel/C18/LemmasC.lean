/-
  C18 — the invariant `Inv` of the mechanism model, and its preservation by set / remove (clear is in LemmasD).
-/
import GojaModel.C18.LemmasB

namespace GojaModel.C18

def liveCount (live : Nat → Bool) : Nat → Nat
  | 0 => 0
  | k + 1 => liveCount live k + (if live k then 1 else 0)

theorem liveCount_congr {l l' : Nat → Bool} : ∀ n, (∀ i, i < n → l' i = l i) → liveCount l' n = liveCount l n := by
  intro n
  induction n with
  | zero => intro _; rfl
  | succ k ih =>
    intro h
    simp [liveCount, ih (fun i hi => h i (by omega)), h k (by omega)]

theorem liveCount_kill {l l' : Nat → Bool} {e : Nat} (hl : ∀ i, l' i = if i = e then false else l i) (he : l e = true) :
    ∀ n, e < n → liveCount l' n + 1 = liveCount l n := by
  intro n
  induction n with
  | zero => intro h; omega
  | succ k ih =>
    intro h
    by_cases hek : e = k
    · subst hek
      have := liveCount_congr (l := l) (l' := l') e (fun i hi => by simp [hl, Nat.ne_of_lt hi])
      simp [liveCount, this, hl, he]
    · have := ih (by omega)
      have hk : l' k = l k := by rw [hl]; simp [show k ≠ e from fun h => hek h.symm]
      simp [liveCount, hk]; omega

theorem liveCount_dead {l : Nat → Bool} : ∀ n, (∀ i, i < n → l i = false) → liveCount l n = 0 := by
  intro n
  induction n with
  | zero => intro _; rfl
  | succ k ih => intro h; simp [liveCount, ih (fun i hi => h i (by omega)), h k (by omega)]

section
variable {K V : Type}

@[simp] theorem setHNext_key (hp : Nat → Entry K V) (i : Nat) (v : Option Nat) (j : Nat) :
    (setHNext hp i v j).key = (hp j).key := by
  unfold setHNext; split <;> simp_all

@[simp] theorem setHNext_val (hp : Nat → Entry K V) (i : Nat) (v : Option Nat) (j : Nat) :
    (setHNext hp i v j).val = (hp j).val := by
  unfold setHNext; split <;> simp_all

@[simp] theorem setHNext_iterPrev (hp : Nat → Entry K V) (i : Nat) (v : Option Nat) (j : Nat) :
    (setHNext hp i v j).iterPrev = (hp j).iterPrev := by
  unfold setHNext; split <;> simp_all

@[simp] theorem setHNext_iterNext (hp : Nat → Entry K V) (i : Nat) (v : Option Nat) (j : Nat) :
    (setHNext hp i v j).iterNext = (hp j).iterNext := by
  unfold setHNext; split <;> simp_all

@[simp] theorem setHNext_hNext (hp : Nat → Entry K V) (i : Nat) (v : Option Nat) (j : Nat) :
    (setHNext hp i v j).hNext = if j = i then v else (hp j).hNext := by
  unfold setHNext; split <;> rfl

@[simp] theorem setIterNext_key (hp : Nat → Entry K V) (i : Nat) (v : Option Nat) (j : Nat) :
    (setIterNext hp i v j).key = (hp j).key := by
  unfold setIterNext; split <;> simp_all

@[simp] theorem setIterNext_val (hp : Nat → Entry K V) (i : Nat) (v : Option Nat) (j : Nat) :
    (setIterNext hp i v j).val = (hp j).val := by
  unfold setIterNext; split <;> simp_all

@[simp] theorem setIterNext_iterPrev (hp : Nat → Entry K V) (i : Nat) (v : Option Nat) (j : Nat) :
    (setIterNext hp i v j).iterPrev = (hp j).iterPrev := by
  unfold setIterNext; split <;> simp_all

@[simp] theorem setIterNext_iterNext (hp : Nat → Entry K V) (i : Nat) (v : Option Nat) (j : Nat) :
    (setIterNext hp i v j).iterNext = if j = i then v else (hp j).iterNext := by
  unfold setIterNext; split <;> rfl

@[simp] theorem setIterNext_hNext (hp : Nat → Entry K V) (i : Nat) (v : Option Nat) (j : Nat) :
    (setIterNext hp i v j).hNext = (hp j).hNext := by
  unfold setIterNext; split <;> simp_all

@[simp] theorem setIterPrev_key (hp : Nat → Entry K V) (i : Nat) (v : Option Nat) (j : Nat) :
    (setIterPrev hp i v j).key = (hp j).key := by
  unfold setIterPrev; split <;> simp_all

@[simp] theorem setIterPrev_val (hp : Nat → Entry K V) (i : Nat) (v : Option Nat) (j : Nat) :
    (setIterPrev hp i v j).val = (hp j).val := by
  unfold setIterPrev; split <;> simp_all

@[simp] theorem setIterPrev_iterPrev (hp : Nat → Entry K V) (i : Nat) (v : Option Nat) (j : Nat) :
    (setIterPrev hp i v j).iterPrev = if j = i then v else (hp j).iterPrev := by
  unfold setIterPrev; split <;> rfl

@[simp] theorem setIterPrev_iterNext (hp : Nat → Entry K V) (i : Nat) (v : Option Nat) (j : Nat) :
    (setIterPrev hp i v j).iterNext = (hp j).iterNext := by
  unfold setIterPrev; split <;> simp_all

@[simp] theorem setIterPrev_hNext (hp : Nat → Entry K V) (i : Nat) (v : Option Nat) (j : Nat) :
    (setIterPrev hp i v j).hNext = (hp j).hNext := by
  unfold setIterPrev; split <;> simp_all

@[simp] theorem setVal_key (hp : Nat → Entry K V) (i : Nat) (v : Option V) (j : Nat) :
    (setVal hp i v j).key = (hp j).key := by
  unfold setVal; split <;> simp_all

@[simp] theorem setVal_val (hp : Nat → Entry K V) (i : Nat) (v : Option V) (j : Nat) :
    (setVal hp i v j).val = if j = i then v else (hp j).val := by
  unfold setVal; split <;> rfl

@[simp] theorem setVal_iterPrev (hp : Nat → Entry K V) (i : Nat) (v : Option V) (j : Nat) :
    (setVal hp i v j).iterPrev = (hp j).iterPrev := by
  unfold setVal; split <;> simp_all

@[simp] theorem setVal_iterNext (hp : Nat → Entry K V) (i : Nat) (v : Option V) (j : Nat) :
    (setVal hp i v j).iterNext = (hp j).iterNext := by
  unfold setVal; split <;> simp_all

@[simp] theorem setVal_hNext (hp : Nat → Entry K V) (i : Nat) (v : Option V) (j : Nat) :
    (setVal hp i v j).hNext = (hp j).hNext := by
  unfold setVal; split <;> simp_all

@[simp] theorem setKV_key (hp : Nat → Entry K V) (i : Nat) (k : Option K) (v : Option V) (j : Nat) :
    (setKV hp i k v j).key = if j = i then k else (hp j).key := by
  unfold setKV; split <;> rfl

@[simp] theorem setKV_val (hp : Nat → Entry K V) (i : Nat) (k : Option K) (v : Option V) (j : Nat) :
    (setKV hp i k v j).val = if j = i then v else (hp j).val := by
  unfold setKV; split <;> rfl

@[simp] theorem setKV_iterPrev (hp : Nat → Entry K V) (i : Nat) (k : Option K) (v : Option V) (j : Nat) :
    (setKV hp i k v j).iterPrev = (hp j).iterPrev := by
  unfold setKV; split <;> simp_all

@[simp] theorem setKV_iterNext (hp : Nat → Entry K V) (i : Nat) (k : Option K) (v : Option V) (j : Nat) :
    (setKV hp i k v j).iterNext = (hp j).iterNext := by
  unfold setKV; split <;> simp_all

@[simp] theorem setKV_hNext (hp : Nat → Entry K V) (i : Nat) (k : Option K) (v : Option V) (j : Nat) :
    (setKV hp i k v j).hNext = (hp j).hNext := by
  unfold setKV; split <;> simp_all

@[simp] theorem upd_apply {α : Type} (f : Nat → α) (i : Nat) (a : α) (j : Nat) : upd f i a j = if j = i then a else f j := rfl

end

section
variable {K V : Type} (norm : K → K) (hash : K → Nat)

/-- The invariant of `orderedMap`. -/
structure Inv (m : OMap K V) : Prop where
  list : ListInv m.n (liveOf m.heap) (prevOf m.heap) (nextOf m.heap) m.iterFirst m.iterLast
  bucket : BucketInv m.n (hkOf hash m.heap) (hnOf m.heap) m.table
  uniq : ∀ i j k, i < m.n → j < m.n → (m.heap i).key = some k → (m.heap j).key = some k → i = j
  normed : ∀ i k, i < m.n → (m.heap i).key = some k → norm k = k
  size : m.size = liveCount (liveOf m.heap) m.n

theorem Inv.empty : Inv norm hash ({} : OMap K V) := by
  constructor
  · exact ListInv.empty
  · exact BucketInv.empty
  · intro i j k hi; simp at hi
  · intro i k hi; simp at hi
  · rfl

variable [DecidableEq K]

/-- What `lookup` returns under the invariant. -/
theorem lookup_spec {m : OMap K V} (I : Inv norm hash m) (k : K) :
    (lookup norm hash m k).1 = hash (norm k) ∧
    (∀ x, (lookup norm hash m k).2.1 = some x →
        x < m.n ∧ (m.heap x).key = some (norm k) ∧
        PrevSpec (inH (hkOf hash m.heap) (hash (norm k))) x (lookup norm hash m k).2.2) ∧
    ((lookup norm hash m k).2.1 = none →
        (∀ i, i < m.n → (m.heap i).key ≠ some (norm k)) ∧
        PrevSpec (inH (hkOf hash m.heap) (hash (norm k))) m.n (lookup norm hash m k).2.2) := by
  have := walk_spec hash m.heap (norm k) I.bucket (m.n + 1) (m.table (hash (norm k))) none 0
    (I.bucket.head _) (by unfold PrevSpec; simp) (by intro m hm; omega) (by omega) (by omega)
  unfold lookup
  exact ⟨rfl, this.1, this.2⟩

end
end GojaModel.C18
