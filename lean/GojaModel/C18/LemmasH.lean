/-
  C18 — whole-system simulation: one map, any number of iterators, any interleaving of operations.
-/
import GojaModel.C18.LemmasG

namespace GojaModel.C18
section
variable {K V : Type} [DecidableEq K] (norm : K → K) (hash : K → Nat)

/-- Simulation relation between the mechanism system and the spec system. -/
structure Sim (s : Sys K V) (ss : SpecSys K V) : Prop where
  inv : Inv norm hash s.m
  data : ss.d = abs s.m
  iters : ss.iters = s.iters.map absIter
  wf : ∀ it, it ∈ s.iters → IterWf s.m it

theorem Sim.init : Sim norm hash ({} : Sys K V) ({} : SpecSys K V) :=
  ⟨Inv.empty norm hash, rfl, rfl, fun it h => by simp at h⟩

theorem Sim.step {s : Sys K V} {ss : SpecSys K V} (R : Sim norm hash s ss)
    (hnorm : ∀ k, norm (norm k) = norm k) (o : Op K V) :
    Sim norm hash (s.step norm hash o).1 (ss.step norm o).1 ∧ (s.step norm hash o).2 = (ss.step norm o).2 := by
  obtain ⟨I, hd, hi, hw⟩ := R
  cases o with
  | set k v =>
    refine ⟨⟨inv_set norm hash I hnorm k v, ?_, hi, fun it h => (hw it h).mono (set_n_le norm hash s.m k v)⟩, rfl⟩
    simp only [SpecSys.step, Sys.step, hd]
    exact (abs_set norm hash I hnorm k v).symm
  | get k =>
    refine ⟨⟨I, hd, hi, hw⟩, ?_⟩
    simp only [SpecSys.step, Sys.step, hd, get_refines norm hash I hnorm k]
  | has k =>
    refine ⟨⟨I, hd, hi, hw⟩, ?_⟩
    simp only [SpecSys.step, Sys.step, hd, has_refines norm hash I hnorm k]
  | delete k =>
    obtain ⟨r1, r2⟩ := remove_refines norm hash I hnorm k
    refine ⟨⟨inv_remove norm hash I k, ?_, hi, fun it h => (hw it h).mono (by show s.m.n ≤ (remove norm hash s.m k).1.n; rw [remove_n]; exact Nat.le_refl _)⟩, ?_⟩
    · simp only [SpecSys.step, Sys.step, hd]; exact r1.symm
    · simp only [SpecSys.step, Sys.step, hd, r2]
  | clear =>
    refine ⟨⟨inv_clear norm hash I, ?_, hi, fun it h => hw it h⟩, rfl⟩
    simp only [SpecSys.step, Sys.step, hd]
    exact (clear_refines norm hash I).symm
  | size =>
    refine ⟨⟨I, hd, hi, hw⟩, ?_⟩
    simp only [SpecSys.step, Sys.step, hd, size_refines norm hash I]
  | newIter =>
    refine ⟨⟨I, hd, ?_, ?_⟩, rfl⟩
    · simp only [SpecSys.step, Sys.step, hi, List.map_append, List.map_cons, List.map_nil]; rfl
    · intro it h
      simp only [Sys.step, List.mem_append, List.mem_singleton] at h
      rcases h with h | h
      · exact hw it h
      · subst h; intro c hc; simp [newIter] at hc
  | next j =>
    simp only [SpecSys.step, Sys.step, hi, List.getElem?_map]
    cases hj : s.iters[j]? with
    | none => exact ⟨⟨I, hd, hi, hw⟩, rfl⟩
    | some it =>
      have hmem : it ∈ s.iters := List.mem_of_getElem? hj
      obtain ⟨n1, n2, n3, n4⟩ := next_refines norm hash I it (hw it hmem)
      simp only [Option.map_some, hd]
      refine ⟨⟨I, rfl, ?_, ?_⟩, ?_⟩
      · simp only [List.map_set, n1]
      · intro it' h
        rcases List.mem_or_eq_of_mem_set h with h | h
        · exact hw it' h
        · subst h; exact n3
      · rw [n2]
        cases hr : (next s.m it).2 with
        | none => rfl
        | some c =>
          obtain ⟨c1, c2⟩ := n4 c hr
          simp only [abs_getElem?, c1, if_true]
          simp only [liveOf] at c2
          cases hk : (s.m.heap c).key with
          | none => simp [hk] at c2
          | some k => simp [cellOf, hk]
  | close j =>
    simp only [SpecSys.step, Sys.step, hi, List.getElem?_map]
    cases hj : s.iters[j]? with
    | none => exact ⟨⟨I, hd, hi, hw⟩, rfl⟩
    | some it =>
      simp only [Option.map_some]
      refine ⟨⟨I, hd, ?_, ?_⟩, trivial⟩
      · simp only [List.map_set]; rfl
      · intro it' h
        rcases List.mem_or_eq_of_mem_set h with h | h
        · exact hw it' h
        · subst h; intro c hc; simp [Iter.close] at hc

theorem run_refines (hnorm : ∀ k, norm (norm k) = norm k) : ∀ (ops : List (Op K V)) (s : Sys K V) (ss : SpecSys K V),
    Sim norm hash s ss →
    (Sys.run norm hash s ops).2 = (SpecSys.run norm ss ops).2 ∧
    Sim norm hash (Sys.run norm hash s ops).1 (SpecSys.run norm ss ops).1 := by
  intro ops
  induction ops with
  | nil => intro s ss R; exact ⟨rfl, R⟩
  | cons o os ih =>
    intro s ss R
    obtain ⟨R', hr⟩ := R.step norm hash hnorm o
    obtain ⟨h1, h2⟩ := ih _ _ R'
    simp only [Sys.run, SpecSys.run]
    exact ⟨by rw [hr, h1], h2⟩

end
end GojaModel.C18
