/-
  C18 — property theorems, part 2 (deepening round 2): which REPRESENTATION of a key is stored and handed back.
  Audited like Props.lean (run/c18.py audits both modules).
-/
import GojaModel.C18.ReprM
import GojaModel.C18.ConcreteV
import GojaModel.C18.Props
import GojaModel.C18.EnumIterS

namespace GojaModel.C18
open GojaModel

section
variable {K K' V : Type} [DecidableEq K']

/-- Generic: the representation-keyed structure (arbitrary dynamic `SameAs`, arbitrary hash; Concrete.lean) yields, for
every history over keys satisfying `W`, EXACTLY the results of the representation-level [[MapData]] spec `RSpec` — the
same booleans, values, sizes and the very key objects at the same positions — given `Bridge`. -/
theorem concrete_refines_rspec {eqv : K → K → Bool} {norm : K → K} {hash : K → Nat} {f : K → K'} {hash' : K' → Nat}
    {S W : K → Prop} (B : Bridge eqv norm hash f hash' S W) (ops : List (Op K V)) (hok : ∀ o, o ∈ ops → o.keyOk W) :
    (Sys.runE eqv norm hash ({} : Sys K V) ops).2 = (SpecSys.runR norm f ({} : SpecSys K V) ops).2 :=
  runE_refinesR B ops {} {} RSim.init hok

variable (norm : K → K) (f : K → K')

/-- `set` on a key that is already present (some record's key is in the probe's SameValueZero class) changes that
record's VALUE only: the list keeps its length, the record keeps its position and its original key object, every other
record is untouched. -/
theorem rspec_set_existing_keeps_key_and_position (d : MapData K V) (k : K) (v : Option V) (i : Nat) (k' : K)
    (w : Option V) (hf : RSpec.find norm f d k = some i) (hi : d[i]? = some (some (k', w))) :
    RSpec.set norm f d k v = d.set i (some (k', v)) ∧
    (RSpec.set norm f d k v).length = d.length ∧
    (RSpec.set norm f d k v)[i]? = some (some (k', v)) ∧
    (∀ j, j ≠ i → (RSpec.set norm f d k v)[j]? = d[j]?) := by
  have h : RSpec.set norm f d k v = d.set i (some (k', v)) := by simp [RSpec.set, hf, hi]
  have hlt : i < d.length := by
    rcases Nat.lt_or_ge i d.length with h1 | h1
    · exact h1
    · rw [List.getElem?_eq_none h1] at hi; simp at hi
  refine ⟨h, by rw [h]; simp, by rw [h]; simp [List.getElem?_set, hlt], fun j hj => ?_⟩
  rw [h, List.getElem?_set]
  have hne : ¬ i = j := fun h' => hj h'.symm
  simp only [hne, if_false]

/-- `set` on an absent key appends ONE record whose key is the argument after the −0 ↦ +0 step. -/
theorem rspec_set_new_appends_normalised (d : MapData K V) (k : K) (v : Option V)
    (hf : RSpec.find norm f d k = none) : RSpec.set norm f d k v = d ++ [some (norm k, v)] := by
  simp [RSpec.set, hf]

/-- Hence the key object of a record never changes while the record lives: after any `set`, a non-empty record either
held the same key object at the same index before, or is the freshly appended one carrying the normalised argument —
i.e. every entry carries the first-inserted representation until it is deleted. -/
theorem rspec_set_keys_stable (d : MapData K V) (k : K) (v : Option V) (i : Nat) (k' : K) (v' : Option V)
    (h : (RSpec.set norm f d k v)[i]? = some (some (k', v'))) :
    (∃ w, d[i]? = some (some (k', w))) ∨ (i = d.length ∧ k' = norm k) := by
  unfold RSpec.set at h
  cases hf : RSpec.find norm f d k with
  | none =>
    rw [hf] at h
    simp only at h
    rw [List.getElem?_append] at h
    by_cases hi : i < d.length
    · simp only [hi, if_true] at h; exact Or.inl ⟨v', h⟩
    · simp only [hi, if_false] at h
      right
      by_cases h0 : i - d.length = 0
      · rw [h0] at h; simp at h; exact ⟨by omega, h.1.symm⟩
      · have : ([some (norm k, v)] : MapData K V)[i - d.length]? = none := by
          apply List.getElem?_eq_none; simp; omega
        rw [this] at h; simp at h
  | some j =>
    rw [hf] at h
    simp only at h
    cases hj : d[j]? with
    | none => rw [hj] at h; exact Or.inl ⟨v', h⟩
    | some c =>
      cases c with
      | none => rw [hj] at h; exact Or.inl ⟨v', h⟩
      | some p =>
        obtain ⟨k0, w0⟩ := p
        rw [hj] at h
        simp only at h
        rw [List.getElem?_set] at h
        by_cases hji : j = i
        · subst hji
          by_cases hl : j < d.length
          · simp [hl] at h; left; exact ⟨w0, by rw [hj, h.1]⟩
          · simp [hl] at h
        · simp only [hji, if_false] at h; exact Or.inl ⟨v', h⟩

end

/-- The instance for goja's values: for EVERY history over well-formed keys, any maphash function, any number of live
iterators, the real structure (entries holding `valueInt`/`valueFloat`/ASCII/UTF-16/imported strings/BigInts/objects,
per-type `hash`, per-type `SameAs`) returns exactly what the representation-level spec returns: iterators and exports
hand back the first-inserted key object of each entry (after −0 ↦ +0, see `neg_zero_normalised`), `set` on an existing
key keeps that object and its position. -/
theorem concrete_returns_first_inserted_representation (mh : List UInt8 → Nat) (ph : Nat → Nat) {V : Type}
    (ops : List (Op Key V)) (hok : ∀ o, o ∈ ops → o.keyOk Key.WF) :
    (Sys.runE sameAsK normKeyK (hashK mh ph) ({} : Sys Key V) ops).2 =
      (SpecSys.runR normKeyK cls ({} : SpecSys Key V) ops).2 := by
  obtain ⟨hashC, hh, _, _⟩ := value_level_refines mh ph V
  exact runE_refinesR (keyBridge mh ph hashC hh) ops {} {} RSim.init hok

/-! ### Above the symbol-key snapshot iterator: enumerability filter and value resolution (object.go:1125-1158, 1758-1793) -/

section
variable {K V : Type} [DecidableEq K] (norm : K → K) (hash : K → Nat)

/-- The three nested Go loops (`objectSymbolIter.next` inside `enumerableIter.next` inside `enumPropertiesIter.next`,
the middle one bounded by fuel `len(keys)+1`) compute the fused structural recursion `enumNext`. -/
theorem enum_layers_fuse (m : OMap K (PV V)) (ks : List K) :
    enumPropsNext norm hash m ks = enumNext norm hash m ks := enumPropsNext_eq_enumNext norm hash m ks

/-- … which refines ECMA-262 CopyDataProperties / Object.assign on symbol keys INCLUDING the `[[Enumerable]]` test and
`Get` (plain value, data descriptor, or the getter to call): same remaining keys, same delivered key and value. -/
theorem enum_assign_refines {m : OMap K (PV V)} (I : Inv norm hash m) (hnorm : ∀ k, norm (norm k) = norm k)
    (ks : List K) :
    (enumPropsNext norm hash m ks).1.keys = (Spec.assignEnumNext norm (abs m) ks).1 ∧
    (enumPropsNext norm hash m ks).2 = (Spec.assignEnumNext norm (abs m) ks).2 := by
  rw [enumPropsNext_eq_enumNext]
  exact enumNext_refines norm hash I hnorm ks

/-- One step against an ARBITRARY current table (user getters and setters may have run in between): the popped keys are
absent or non-enumerable now, the delivered key is present and enumerable now, with its current resolved value. -/
theorem enum_assign_step (m : OMap K (PV V)) (ks : List K) : ∃ skipped,
    (∀ s, s ∈ skipped → get norm hash m s = none ∨ ∃ pv, get norm hash m s = some pv ∧ pv.isEnum = false) ∧
    (match (enumPropsNext norm hash m ks).2 with
     | some (k, r) => ks = skipped ++ k :: (enumPropsNext norm hash m ks).1.keys ∧
          ∃ pv, get norm hash m k = some pv ∧ pv.isEnum = true ∧ r = pv.resolve
     | none => ks = skipped ∧ (enumPropsNext norm hash m ks).1.keys = []) := by
  rw [enumPropsNext_eq_enumNext]
  exact enumNext_spec norm hash m ks

/-- Whatever the getters/setters do between the steps: the delivered keys are a sub-sequence of the snapshot. -/
theorem enum_assign_visits_sublist (ms : List (OMap K (PV V))) (ks : List K) :
    (enumYields norm hash ks ms).Sublist ks := enumYields_sublist norm hash ms ks

/-- `symbols(false)` (object.go:1401-1413; `Object.keys`-style consumers) lists exactly the enumerable symbol keys, in
insertion order. -/
theorem symbols_enumerable_spec {m : OMap K (PV V)} (I : Inv norm hash m) :
    symbolsEnum m = Spec.ownEnumKeys (abs m) := symbolsEnum_spec norm hash I

end

end GojaModel.C18
