/-
  C18 — tie to the Go text.  `Generated.C18.shapes` is regenerated on every run by extract/c18.go from /repo: the
  canonical source (go/printer, comments and layout dropped) of exactly the functions that Model.lean, SymIter.lean and
  Values.lean transcribe.  `expectedShapes` is the text those transcriptions were made from (file:line comments in the
  models refer to it).  The theorem fails as soon as one of these functions is edited; the model must then be
  re-transcribed (and the correspondence decides whether behaviour changed).
-/
import GojaModel.Generated.C18_MapGo

namespace GojaModel.C18.Tie

def expectedShapes : List (String × String) := [
  ("orderedMap.lookup", "func (m *orderedMap) lookup(key Value) (h uint64, entry, hPrev *mapEntry) { if key == _negativeZero { key = intToValue(0) } h = key.hash(m.hash) for entry = m.hashTable[h]; entry != nil && !entry.key.SameAs(key); hPrev, entry = entry, entry.hNext { } return }"),
  ("orderedMap.set", "func (m *orderedMap) set(key, value Value) { h, entry, hPrev := m.lookup(key) if entry != nil { entry.value = value } else { if key == _negativeZero { key = intToValue(0) } entry = &mapEntry{key: key, value: value} if hPrev == nil { m.hashTable[h] = entry } else { hPrev.hNext = entry } if m.iterLast != nil { entry.iterPrev = m.iterLast m.iterLast.iterNext = entry } else { m.iterFirst = entry } m.iterLast = entry m.size++ } }"),
  ("orderedMap.get", "func (m *orderedMap) get(key Value) Value { _, entry, _ := m.lookup(key) if entry != nil { return entry.value } return nil }"),
  ("orderedMap.remove", "func (m *orderedMap) remove(key Value) bool { h, entry, hPrev := m.lookup(key) if entry != nil { entry.key = nil entry.value = nil if entry.iterPrev != nil { entry.iterPrev.iterNext = entry.iterNext } else { m.iterFirst = entry.iterNext } if entry.iterNext != nil { entry.iterNext.iterPrev = entry.iterPrev } else { m.iterLast = entry.iterPrev } if hPrev == nil { if entry.hNext == nil { delete(m.hashTable, h) } else { m.hashTable[h] = entry.hNext } } else { hPrev.hNext = entry.hNext } m.size-- return true } return false }"),
  ("orderedMap.has", "func (m *orderedMap) has(key Value) bool { _, entry, _ := m.lookup(key) return entry != nil }"),
  ("orderedMapIter.next", "func (iter *orderedMapIter) next() *mapEntry { if iter.m == nil { return nil } cur := iter.cur for cur != nil && cur.key == nil { cur = cur.iterPrev } if cur != nil { cur = cur.iterNext } else { cur = iter.m.iterFirst } if cur == nil { iter.close() } else { iter.cur = cur } return cur }"),
  ("orderedMapIter.close", "func (iter *orderedMapIter) close() { iter.m = nil iter.cur = nil }"),
  (".newOrderedMap", "func newOrderedMap(h *maphash.Hash) *orderedMap { return &orderedMap{ hash: h, hashTable: make(map[uint64]*mapEntry), } }"),
  ("orderedMap.newIter", "func (m *orderedMap) newIter() *orderedMapIter { iter := &orderedMapIter{ m: m, } return iter }"),
  ("orderedMap.clear", "func (m *orderedMap) clear() { for item := m.iterFirst; item != nil; item = item.iterNext { item.key = nil item.value = nil if item.iterPrev != nil { item.iterPrev.iterNext = nil } } m.iterFirst = nil m.iterLast = nil m.hashTable = make(map[uint64]*mapEntry) m.size = 0 }"),
  ("objectSymbolIter.next", "func (i *objectSymbolIter) next() (propIterItem, iterNextFunc) { for i.idx < len(i.keys) { key := i.keys[i.idx] i.idx++ if val := i.o.symValues.get(key); val != nil { return propIterItem{ name: key, value: val, }, i.next } } return propIterItem{}, nil }"),
  ("baseObject.iterateSymbols", "func (o *baseObject) iterateSymbols() iterNextFunc { if o.symValues != nil { return (&objectSymbolIter{ o: o, keys: o.symbols(true, nil), }).next } return func() (propIterItem, iterNextFunc) { return propIterItem{}, nil } }"),
  ("baseObject.symbols", "func (o *baseObject) symbols(all bool, accum []Value) []Value { if o.symValues != nil { iter := o.symValues.newIter() if all { for { entry := iter.next() if entry == nil { break } accum = append(accum, entry.key) } } else { for { entry := iter.next() if entry == nil { break } if prop, ok := entry.value.(*valueProperty); ok { if !prop.enumerable { continue } } accum = append(accum, entry.key) } } } return accum }"),
  ("mapObject.export", "func (mo *mapObject) export(ctx *objectExportCtx) interface{} { if v, exists := ctx.get(mo.val); exists { return v } m := make([][2]interface{}, mo.m.size) ctx.put(mo.val, m) iter := mo.m.newIter() for i := 0; i < len(m); i++ { entry := iter.next() if entry == nil { break } m[i][0] = exportValue(entry.key, ctx) m[i][1] = exportValue(entry.value, ctx) } return m }"),
  ("setObject.export", "func (so *setObject) export(ctx *objectExportCtx) interface{} { if v, exists := ctx.get(so.val); exists { return v } a := make([]interface{}, so.m.size) ctx.put(so.val, a) iter := so.m.newIter() for i := 0; i < len(a); i++ { entry := iter.next() if entry == nil { break } a[i] = exportValue(entry.key, ctx) } return a }"),
  ("setObject.exportToArrayOrSlice", "func (so *setObject) exportToArrayOrSlice(dst reflect.Value, typ reflect.Type, ctx *objectExportCtx) error { l := so.m.size if typ.Kind() == reflect.Array { if dst.Len() != l { return fmt.Errorf(\"cannot convert a Set into an array, lengths mismatch: have %d, need %d)\", l, dst.Len()) } } else { dst.Set(reflect.MakeSlice(typ, l, l)) } ctx.putTyped(so.val, typ, dst.Interface()) iter := so.m.newIter() r := so.val.runtime for i := 0; i < l; i++ { entry := iter.next() if entry == nil { break } err := r.toReflectValue(entry.key, dst.Index(i), ctx) if err != nil { return err } } return nil }"),
  ("mapIterObject.next", "func (o *mapIterObject) next() Value { if o.iter == nil { return o.val.runtime.createIterResultObject(_undefined, true) } entry := o.iter.next() if entry == nil { o.iter = nil return o.val.runtime.createIterResultObject(_undefined, true) } var result Value switch o.kind { case iterationKindKey: result = entry.key case iterationKindValue: result = entry.value default: result = o.val.runtime.newArrayValues([]Value{entry.key, entry.value}) } return o.val.runtime.createIterResultObject(result, false) }"),
  ("setIterObject.next", "func (o *setIterObject) next() Value { if o.iter == nil { return o.val.runtime.createIterResultObject(_undefined, true) } entry := o.iter.next() if entry == nil { o.iter = nil return o.val.runtime.createIterResultObject(_undefined, true) } var result Value switch o.kind { case iterationKindValue: result = entry.key default: result = o.val.runtime.newArrayValues([]Value{entry.key, entry.key}) } return o.val.runtime.createIterResultObject(result, false) }"),
  ("enumerableIter.next", "func (i *enumerableIter) next() (propIterItem, iterNextFunc) { for { var item propIterItem item, i.wrapped = i.wrapped() if i.wrapped == nil { return item, nil } if item.enumerable == _ENUM_FALSE { continue } if item.enumerable == _ENUM_UNKNOWN { var prop Value if item.value == nil { prop = i.o.getOwnProp(item.name) } else { prop = item.value } if prop == nil { continue } if prop, ok := prop.(*valueProperty); ok { if !prop.enumerable { continue } } } return item, i.next } }"),
  ("enumPropertiesIter.next", "func (i *enumPropertiesIter) next() (propIterItem, iterNextFunc) { for i.wrapped != nil { item, next := i.wrapped() i.wrapped = next if next == nil { break } if item.value == nil { item.value = i.o.get(item.name, nil) if item.value == nil { continue } } else { if prop, ok := item.value.(*valueProperty); ok { item.value = prop.get(i.o) } } return item, i.next } return propIterItem{}, nil }"),
  (".iterateEnumerableProperties", "func iterateEnumerableProperties(o *Object) iterNextFunc { return (&enumPropertiesIter{ o: o, wrapped: (&enumerableIter{ o: o, wrapped: o.self.iterateKeys(), }).next, }).next }"),
  ("valueProperty.get", "func (p *valueProperty) get(this Value) Value { if p.getterFunc == nil { if p.value != nil { return p.value } return _undefined } call, _ := p.getterFunc.self.assertCallable() return call(FunctionCall{ This: this, }) }"),
  ("valueBigInt.hash", "func (v *valueBigInt) hash(hash *maphash.Hash) uint64 { var sign byte if (*big.Int)(v).Sign() < 0 { sign = 0x01 } else { sign = 0x00 } _ = hash.WriteByte(sign) _, _ = hash.Write((*big.Int)(v).Bytes()) h := hash.Sum64() hash.Reset() return h }"),
  ("valueBigInt.SameAs", "func (v *valueBigInt) SameAs(other Value) bool { if o, ok := other.(*valueBigInt); ok { return (*big.Int)(v).Cmp((*big.Int)(o)) == 0 } return false }"),
  ("Symbol.hash", "func (s *Symbol) hash(*maphash.Hash) uint64 { return uint64(uintptr(unsafe.Pointer(s))) }"),
  ("Symbol.SameAs", "func (s *Symbol) SameAs(other Value) bool { if s1, ok := other.(*Symbol); ok { return s == s1 } return false }"),
  ("Object.hash", "func (o *Object) hash(*maphash.Hash) uint64 { return uint64(uintptr(unsafe.Pointer(o))) }"),
  ("valueInt.hash", "func (i valueInt) hash(*maphash.Hash) uint64 { return uint64(i) }"),
  ("valueFloat.hash", "func (f valueFloat) hash(*maphash.Hash) uint64 { if f == _negativeZero { return 0 } return math.Float64bits(float64(f)) }"),
  ("importedString.hash", "func (i *importedString) hash(hasher *maphash.Hash) uint64 { i.ensureScanned() if i.u != nil { return i.u.hash(hasher) } return asciiString(i.s).hash(hasher) }"),
  ("asciiString.hash", "func (s asciiString) hash(hash *maphash.Hash) uint64 { _, _ = hash.WriteString(string(s)) h := hash.Sum64() hash.Reset() return h }"),
  ("unicodeString.hash", "func (s unicodeString) hash(hash *maphash.Hash) uint64 { _, _ = hash.WriteString(string(unistring.FromUtf16(s))) h := hash.Sum64() hash.Reset() return h }")
]

/-- The Go source of the mechanism is the one the Lean model transcribes. -/
theorem map_go_is_the_transcribed_source : GojaModel.Generated.C18.shapes = expectedShapes := by rfl

end GojaModel.C18.Tie
