/-
  C18 — the hash table: for every hash value h the live entries whose key hashes to h form a singly linked list in
  allocation order: `table h` is the first one, `hNext` of each is the next one (`set` appends at the end of the chain
  and new entries have the greatest index).  Same shape as the insertion-order list, so `NextSpec` is reused.
-/
import GojaModel.C18.Lemmas

namespace GojaModel.C18

/-- `hk i = some h` iff entry `i` is live and its key hashes to `h`. -/
def inH (hk : Nat → Option Nat) (h : Nat) : Nat → Bool := fun i => decide (hk i = some h)

structure BucketInv (n : Nat) (hk hn table : Nat → Option Nat) : Prop where
  head : ∀ h, NextSpec n (inH hk h) 0 (table h)
  link : ∀ i h, i < n → hk i = some h → NextSpec n (inH hk h) (i + 1) (hn i)

/-- `PrevSpec live b hp`: `hp` is the greatest live index below `b` (or `none`). -/
def PrevSpec (live : Nat → Bool) (b : Nat) (hp : Option Nat) : Prop :=
  (hp = none → ∀ m, m < b → live m = false) ∧
  (∀ p, hp = some p → p < b ∧ live p = true ∧ ∀ m, p < m → m < b → live m = false)

theorem BucketInv.empty : BucketInv 0 (fun _ => none) (fun _ => none) (fun _ => none) := by
  constructor <;> simp [NextSpec]

theorem NextSpec.extend {n live live' b o} (h : NextSpec n live b o)
    (e : ∀ k, k < n → live' k = live k) (hn : o = none → live' n = false) : NextSpec (n + 1) live' b o := by
  unfold NextSpec at *
  cases o <;> grind

theorem NextSpec.extend_last {n live live' b} (h : NextSpec n live b none) (hb : b ≤ n)
    (e : ∀ k, k < n → live' k = live k) (hn : live' n = true) : NextSpec (n + 1) live' b (some n) := by
  unfold NextSpec at *
  grind

theorem NextSpec.kill_other {n live live' b o e} (h : NextSpec n live b o) (ho : o ≠ some e)
    (hl : ∀ k, live' k = if k = e then false else live k) : NextSpec n live' b o := by
  unfold NextSpec at *
  cases o <;> grind

theorem NextSpec.kill_skip {n live live' b o e} (h : NextSpec n live b (some e)) (h2 : NextSpec n live (e + 1) o)
    (hl : ∀ k, live' k = if k = e then false else live k) : NextSpec n live' b o := by
  unfold NextSpec at *
  cases o <;> grind

theorem NextSpec.of_prev_some {n live e p} (hP : PrevSpec live e (some p)) (hl : live e = true) (he : e < n) :
    NextSpec n live (p + 1) (some e) := by
  unfold NextSpec PrevSpec at *
  grind

theorem NextSpec.of_prev_none {n live e} (hP : PrevSpec live e none) (hl : live e = true) (he : e < n) :
    NextSpec n live 0 (some e) := by
  unfold NextSpec PrevSpec at *
  grind

theorem PrevSpec.eq_of_next {n live i e hp} (h : NextSpec n live (i + 1) (some e)) (hi : live i = true)
    (hP : PrevSpec live e hp) : hp = some i := by
  unfold NextSpec PrevSpec at *
  cases hp <;> grind

theorem PrevSpec.eq_of_next_none {n live i hp} (h : NextSpec n live (i + 1) none) (hi : live i = true) (hin : i < n)
    (hP : PrevSpec live n hp) : hp = some i := by
  unfold NextSpec PrevSpec at *
  cases hp <;> grind

theorem PrevSpec.live {live b p} (hP : PrevSpec live b (some p)) : live p = true ∧ p < b := by
  unfold PrevSpec at hP; grind

/-- `set` of a new key with hash `h`: the new entry `n` goes behind `hPrev`, the last entry of its chain. -/
theorem BucketInv.append {n hk hn table} (B : BucketInv n hk hn table) {h : Nat} {hPrev : Option Nat}
    (hP : PrevSpec (inH hk h) n hPrev)
    {hk' hn' table'}
    (e1 : ∀ i, hk' i = if i = n then some h else hk i)
    (e2 : ∀ i, hn' i = if i = n then none else if hPrev = some i then some n else hn i)
    (e3 : ∀ h', table' h' = if hPrev = none ∧ h' = h then some n else table h') :
    BucketInv (n + 1) hk' hn' table' := by
  obtain ⟨head, link⟩ := B
  have same : ∀ h' k, k < n → inH hk' h' k = inH hk h' k := by
    intro h' k hk; simp [inH, e1, Nat.ne_of_lt hk]
  have atn : ∀ h', inH hk' h' n = decide (h = h') := by
    intro h'; simp [inH, e1]
  constructor
  · intro h'
    rw [e3]
    by_cases hc : hPrev = none ∧ h' = h
    · obtain ⟨hc1, hc2⟩ := hc
      subst hc2; subst hc1
      simp only [and_self, if_true]
      have hnone : NextSpec n (inH hk h') 0 none := by
        unfold NextSpec PrevSpec at *; grind
      exact hnone.extend_last (Nat.zero_le _) (same h') (by simp [atn])
    · simp only [hc, if_false]
      apply (head h').extend (same h')
      intro htn
      rw [atn]
      by_cases hh : h = h'
      · subst hh
        have := (head h).1 htn
        cases hPrev with
        | none => simp at hc
        | some p =>
          obtain ⟨a, b⟩ := hP.live
          have := this p (Nat.zero_le _) b; simp [this] at a
      · simp [hh]
  · intro i h' hi hki
    rw [e2]
    by_cases hin : i = n
    · subst hin
      simp only [if_true]
      unfold NextSpec; constructor
      · intro _ k h1 h2; omega
      · intro j hj; simp at hj
    · simp only [hin, if_false]
      have hilt : i < n := by omega
      have hki' : hk i = some h' := by rw [e1] at hki; simpa [hin] using hki
      have ini : inH hk h' i = true := by simp [inH, hki']
      by_cases hpi : hPrev = some i
      · simp only [hpi, if_true]
        rw [hpi] at hP
        obtain ⟨a, _⟩ := hP.live
        have : h' = h := by
          simp [inH, hki'] at a; exact a
        subst this
        have hnone : NextSpec n (inH hk h') (i + 1) none := by
          unfold NextSpec PrevSpec at *; grind
        exact hnone.extend_last (by omega) (same h') (by simp [atn])
      · simp only [hpi, if_false]
        apply (link i h' hilt hki').extend (same h')
        intro htn
        rw [atn]
        by_cases hh : h = h'
        · subst hh
          have := PrevSpec.eq_of_next_none (htn ▸ link i h hilt hki') ini hilt hP
          exact absurd this hpi
        · simp [hh]

/-- `remove` of entry `e` with hash `h` whose chain predecessor is `hPrev`. -/
theorem BucketInv.kill {n hk hn table} (B : BucketInv n hk hn table) {e h : Nat} {hPrev : Option Nat}
    (he : e < n) (hke : hk e = some h) (hP : PrevSpec (inH hk h) e hPrev)
    {hk' hn' table'}
    (e1 : ∀ i, hk' i = if i = e then none else hk i)
    (e2 : ∀ i, hn' i = if hPrev = some i then hn e else hn i)
    (e3 : ∀ h', table' h' = if hPrev = none ∧ h' = h then hn e else table h') :
    BucketInv n hk' hn' table' := by
  obtain ⟨head, link⟩ := B
  have hle := link e h he hke
  have ine : inH hk h e = true := by simp [inH, hke]
  have kl : ∀ h' k, inH hk' h' k = if k = e then false else inH hk h' k := by
    intro h' k; simp only [inH, e1]; split <;> simp
  have other : ∀ h', h' ≠ h → inH hk h' e = false := by
    intro h' hh; simp [inH, hke]; exact fun x => hh x.symm
  constructor
  · intro h'
    rw [e3]
    by_cases hc : hPrev = none ∧ h' = h
    · obtain ⟨hc1, hc2⟩ := hc
      subst hc2; subst hc1
      simp only [and_self, if_true]
      have h1 : NextSpec n (inH hk h') 0 (some e) := NextSpec.of_prev_none hP ine he
      exact h1.kill_skip hle (kl h')
    · simp only [hc, if_false]
      apply (head h').kill_other _ (kl h')
      intro hte
      have h1 := (head h').2 e hte
      by_cases hh : h' = h
      · subst hh
        cases hPrev with
        | none => simp at hc
        | some p =>
          obtain ⟨a, b⟩ := hP.live
          have := h1.2.2.2 p (Nat.zero_le _) b; simp [this] at a
      · have := other h' hh; simp [this] at h1
  · intro i h' hi hki
    have hie : i ≠ e := by
      intro hie; subst hie; simp [e1] at hki
    have hki' : hk i = some h' := by rw [e1] at hki; simpa [hie] using hki
    have ini : inH hk h' i = true := by simp [inH, hki']
    rw [e2]
    by_cases hpi : hPrev = some i
    · simp only [hpi, if_true]
      rw [hpi] at hP
      obtain ⟨a, _⟩ := hP.live
      have : h' = h := by
        simp [inH, hki'] at a; exact a
      subst this
      have h1 : NextSpec n (inH hk h') (i + 1) (some e) := NextSpec.of_prev_some hP ine he
      exact h1.kill_skip hle (kl h')
    · simp only [hpi, if_false]
      apply (link i h' hi hki').kill_other _ (kl h')
      intro hte
      have h0 := link i h' hi hki'
      rw [hte] at h0
      have h1 := h0.2 e rfl
      by_cases hh : h' = h
      · subst hh
        exact absurd (PrevSpec.eq_of_next h0 ini hP) hpi
      · have := other h' hh; simp [this] at h1

theorem BucketInv.congr {n hk hn table} (B : BucketInv n hk hn table) {hk' hn'}
    (e1 : ∀ i, hk' i = hk i) (e2 : ∀ i, i < n → hk i ≠ none → hn' i = hn i) :
    BucketInv n hk' hn' table := by
  obtain ⟨head, link⟩ := B
  have : hk' = hk := funext e1
  subst this
  constructor
  · exact head
  · intro i h' hi hki
    rw [e2 i hi (by simp [hki])]
    exact link i h' hi hki

section
variable {K V : Type} [DecidableEq K]

def hkOf (hash : K → Nat) (hp : Nat → Entry K V) : Nat → Option Nat := fun i => (hp i).key.map hash

/-- The bucket walk of `lookup` finds the entry carrying `k` if there is one, and reports its chain predecessor;
otherwise it reports the end of the chain.  `fuel > n - b` always suffices. -/
theorem walk_spec (hash : K → Nat) (heap : Nat → Entry K V) (k : K) {n : Nat} {table : Nat → Option Nat}
    (B : BucketInv n (hkOf hash heap) (hnOf heap) table) :
    ∀ fuel o hp b,
      NextSpec n (inH (hkOf hash heap) (hash k)) b o →
      PrevSpec (inH (hkOf hash heap) (hash k)) b hp →
      (∀ m, m < b → (heap m).key ≠ some k) →
      n - b < fuel → b ≤ n →
      (∀ x, (walk heap k fuel o hp).1 = some x →
          x < n ∧ (heap x).key = some k ∧ PrevSpec (inH (hkOf hash heap) (hash k)) x (walk heap k fuel o hp).2) ∧
      ((walk heap k fuel o hp).1 = none →
          (∀ m, m < n → (heap m).key ≠ some k) ∧ PrevSpec (inH (hkOf hash heap) (hash k)) n (walk heap k fuel o hp).2) := by
  intro fuel
  induction fuel with
  | zero => intro o hp b _ _ _ h; omega
  | succ f ih =>
    intro o hp b hN hP hK hf hbn
    have key_in : ∀ m, (heap m).key = some k → inH (hkOf hash heap) (hash k) m = true := by
      intro m hm; simp [inH, hkOf, hm]
    cases o with
    | none =>
      unfold walk
      simp only
      refine ⟨fun x hx => by simp at hx, fun _ => ⟨fun m hm hkm => ?_, ?_⟩⟩
      · have h1 := key_in m hkm
        by_cases hmb : m < b
        · exact hK m hmb hkm
        · have := hN.1 rfl m (by omega) hm; simp [this] at h1
      · unfold PrevSpec at hP ⊢
        have := hN.1 rfl
        cases hp <;> grind
    | some j =>
      obtain ⟨hj1, hj2, hj3, hj4⟩ := hN.2 j rfl
      unfold walk
      by_cases hkj : (heap j).key = some k
      · simp only [hkj, if_true]
        refine ⟨fun x hx => ?_, fun h => by simp at h⟩
        simp at hx; subst hx
        refine ⟨hj2, hkj, ?_⟩
        unfold PrevSpec at hP ⊢
        cases hp <;> grind
      · simp only [hkj, if_false]
        have hhj : hkOf hash heap j = some (hash k) := by simpa [inH] using hj3
        apply ih (heap j).hNext (some j) (j + 1)
        · exact B.link j (hash k) hj2 hhj
        · unfold PrevSpec; grind
        · intro m hm hkm
          have h1 := key_in m hkm
          by_cases hmb : m < b
          · exact hK m hmb hkm
          · by_cases hmj : m = j
            · subst hmj; exact hkj hkm
            · have := hj4 m (by omega) (by omega); simp [this] at h1
        · omega
        · omega

end
end GojaModel.C18
