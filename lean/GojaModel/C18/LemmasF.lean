/-
  C18 — refinement: the mechanism's heap, read in allocation order, is the spec's [[MapData]] list.
-/
import GojaModel.C18.LemmasE

namespace GojaModel.C18
section
variable {K V : Type}

theorem abs_length (m : OMap K V) : (abs m).length = m.n := by simp [abs]

theorem abs_getElem? (m : OMap K V) (i : Nat) :
    (abs m)[i]? = if i < m.n then some (cellOf (m.heap i)) else none := by
  unfold abs
  rw [List.getElem?_map]
  by_cases h : i < m.n
  · simp [h, List.getElem?_range h]
  · simp [h]

theorem abs_getElem (m : OMap K V) (i : Nat) (h : i < (abs m).length) : (abs m)[i] = cellOf (m.heap i) := by
  simp [abs]

theorem cellOf_eq {e e' : Entry K V} (h1 : e'.key = e.key) (h2 : e'.val = e.val) : cellOf e' = cellOf e := by
  simp [cellOf, h1, h2]

variable [DecidableEq K] (norm : K → K) (hash : K → Nat)

theorem clear_key {m : OMap K V} (I : Inv norm hash m) : ∀ i, i < m.n → ((clear m).heap i).key = none := by
  have hdead : ∀ i, i < m.n → liveOf (clearWalk (m.n + 1) m.heap m.iterFirst) i = false := by
    apply clearWalk_dead (m.n + 1) m.heap 0 m.iterFirst _ (by omega) (by omega)
    exact ⟨fun i hi => by omega, first_spec I.list, I.list.next_spec', fun i p hi hp => (I.list.pSome i p hi hp).1⟩
  intro i hi
  have := hdead i hi
  simp only [liveOf] at this
  cases h : (clearWalk (m.n + 1) m.heap m.iterFirst i).key with
  | none => simpa [clear] using h
  | some k => simp [h] at this

/-- The spec's linear scan and the mechanism's hash lookup find the same record. -/
theorem find_eq_lookup {m : OMap K V} (I : Inv norm hash m) (hnorm : ∀ k, norm (norm k) = norm k) (k : K) :
    Spec.find norm (abs m) k = (lookup norm hash m k).2.1 := by
  obtain ⟨_, h2, h3⟩ := lookup_spec norm hash I k
  have key_of_match : ∀ i, i < m.n → cellMatches norm k (cellOf (m.heap i)) = true →
      (m.heap i).key = some (norm k) := by
    intro i hi hm
    cases hk : (m.heap i).key with
    | none => simp [cellOf, hk, cellMatches] at hm
    | some k' =>
      simp [cellOf, hk, cellMatches] at hm
      rw [I.normed i k' hi hk] at hm
      rw [hm]
  cases hr : (lookup norm hash m k).2.1 with
  | some x =>
    obtain ⟨hx, hkx, _⟩ := h2 x hr
    unfold Spec.find
    rw [List.findIdx?_eq_some_iff_getElem]
    refine ⟨by rw [abs_length]; exact hx, ?_, ?_⟩
    · rw [abs_getElem]; simp [cellOf, hkx, cellMatches, hnorm]
    · intro j hj
      rw [abs_getElem]
      intro hm
      have := key_of_match j (by omega) hm
      have := I.uniq j x (norm k) (by omega) hx this hkx
      omega
  | none =>
    obtain ⟨hfresh, _⟩ := h3 hr
    unfold Spec.find
    rw [List.findIdx?_eq_none_iff]
    intro c hc
    obtain ⟨i, hi, rfl⟩ := List.mem_iff_getElem.mp hc
    rw [abs_getElem]
    rw [abs_length] at hi
    cases hm : cellMatches norm k (cellOf (m.heap i)) with
    | false => rfl
    | true => exact absurd (key_of_match i hi hm) (hfresh i hi)


theorem abs_set {m : OMap K V} (I : Inv norm hash m) (hnorm : ∀ k, norm (norm k) = norm k) (k : K) (v : Option V) :
    abs (set norm hash m k v) = Spec.set norm (abs m) k v := by
  have hf := find_eq_lookup norm hash I hnorm k
  obtain ⟨_, h2, h3⟩ := lookup_spec norm hash I k
  unfold Spec.set
  rw [hf]
  unfold set setWith
  generalize lookup norm hash m k = r at h2 h3
  obtain ⟨h, e, hPrev⟩ := r
  simp only at h2 h3 ⊢
  cases e with
  | some e =>
    obtain ⟨he, hke, _⟩ := h2 e rfl
    simp only [abs_getElem?, he, if_true, cellOf, hke, Option.map_some]
    apply List.ext_getElem?
    intro i
    rw [List.getElem?_set, abs_getElem?, abs_getElem?, abs_length]
    by_cases hie : e = i
    · subst hie; simp [he, cellOf, hke]
    · have : i ≠ e := fun h => hie h.symm
      simp [hie, this, cellOf]
  | none =>
    simp only
    apply List.ext_getElem?
    intro i
    rw [List.getElem?_append, abs_getElem?, abs_getElem?, abs_length]
    clear h2 h3
    rcases Nat.lt_trichotomy i m.n with h1 | h1 | h1
    · have hi2 : i ≠ m.n := by omega
      have hi3 : i < m.n + 1 := by omega
      cases hPrev <;> cases hl : m.iterLast <;> simp [h1, hi2, hi3, cellOf]
    · subst h1
      cases hPrev <;> cases hl : m.iterLast <;> simp [cellOf]
    · have hi2 : ¬ i < m.n := by omega
      have hi3 : ¬ i < m.n + 1 := by omega
      have hi4 : i - m.n ≠ 0 := by omega
      cases hPrev <;> cases hl : m.iterLast <;> simp [hi2, hi3, hi4]

theorem get_refines {m : OMap K V} (I : Inv norm hash m) (hnorm : ∀ k, norm (norm k) = norm k) (k : K) :
    get norm hash m k = Spec.get norm (abs m) k := by
  have hf := find_eq_lookup norm hash I hnorm k
  obtain ⟨_, h2, h3⟩ := lookup_spec norm hash I k
  unfold Spec.get get getWith
  rw [hf]
  generalize lookup norm hash m k = r at h2 h3
  obtain ⟨h, e, hPrev⟩ := r
  simp only at h2 h3 ⊢
  cases e with
  | some e =>
    obtain ⟨he, hke, _⟩ := h2 e rfl
    simp [abs_getElem?, he, cellOf, hke]
  | none => rfl

theorem has_refines {m : OMap K V} (I : Inv norm hash m) (hnorm : ∀ k, norm (norm k) = norm k) (k : K) :
    has norm hash m k = Spec.has norm (abs m) k := by
  unfold Spec.has has
  rw [find_eq_lookup norm hash I hnorm k]

theorem remove_refines {m : OMap K V} (I : Inv norm hash m) (hnorm : ∀ k, norm (norm k) = norm k) (k : K) :
    abs (remove norm hash m k).1 = (Spec.delete norm (abs m) k).1 ∧
    (remove norm hash m k).2 = (Spec.delete norm (abs m) k).2 := by
  have hf := find_eq_lookup norm hash I hnorm k
  obtain ⟨_, h2, h3⟩ := lookup_spec norm hash I k
  unfold Spec.delete remove removeWith
  rw [hf]
  generalize lookup norm hash m k = r at h2 h3
  obtain ⟨h, e, hPrev⟩ := r
  simp only at h2 h3 ⊢
  cases e with
  | none => exact ⟨rfl, rfl⟩
  | some e =>
    obtain ⟨he, hke, _⟩ := h2 e rfl
    refine ⟨?_, rfl⟩
    simp only
    apply List.ext_getElem?
    intro i
    rw [List.getElem?_set, abs_getElem?, abs_getElem?, abs_length]
    cases hPrev <;> cases (m.heap e).iterPrev <;> cases (m.heap e).iterNext <;> simp only [] <;>
      by_cases h1 : i < m.n <;> by_cases h2 : i = e <;>
      simp [h1, h2, he, cellOf, eq_comm] <;> (try omega) <;> (intro h3; exact absurd h3.symm h2)

theorem clear_refines {m : OMap K V} (I : Inv norm hash m) : abs (clear m) = Spec.clear (abs m) := by
  apply List.ext_getElem?
  intro i
  unfold Spec.clear
  rw [List.getElem?_map, abs_getElem?, abs_getElem?]
  by_cases h1 : i < m.n
  · have : i < (clear m).n := h1
    simp [h1, this, cellOf, clear_key norm hash I i h1]
  · have : ¬ i < (clear m).n := h1
    simp [h1, this]

theorem liveCount_eq_countP (heap : Nat → Entry K V) : ∀ n,
    liveCount (liveOf heap) n = ((List.range n).map (fun i => cellOf (heap i))).countP (·.isSome) := by
  intro n
  induction n with
  | zero => rfl
  | succ k ih =>
    rw [List.range_succ, List.map_append, List.countP_append, ← ih]
    have aux : ∀ (b : Bool) (o : Option K) (w : Option V), b = o.isSome → (if b = true then 1 else 0) =
        List.countP (fun x => Option.isSome x) [Option.map (fun k' => (k', w)) o] := by
      intro b o w hb; subst hb; cases o <;> simp
    simp only [liveCount, cellOf, List.map_cons, List.map_nil]
    congr 1
    exact aux (liveOf heap k) (heap k).key (heap k).val rfl

theorem size_refines {m : OMap K V} (I : Inv norm hash m) : m.size = Spec.size (abs m) := by
  rw [I.size]
  exact liveCount_eq_countP m.heap m.n

end
end GojaModel.C18
