/-
  C18 — mechanism model of /repo/map.go (`orderedMap`, `orderedMapIter`) and the spec model
  (ECMA-262 [[MapData]] list with `empty` holes and index-based iterators).  Core Lean only.

  Mechanism: an append-only entry heap indexed by allocation order.  `heap i` is the i-th `mapEntry`
  ever allocated by `set` (map.go:44); pointers are `Option Nat`.  Keys are abstract: `K` with decidable
  equality stands for SameValueZero classes' representatives, `norm` for the canonicalisation done at the
  door (map.go:27-29, 41-43: -0 ↦ +0), `hash` is an arbitrary function (only ever applied to normalised keys).
-/
namespace GojaModel.C18

/-- `mapEntry` (map.go:7-12).  `key = none` is Go's `entry.key == nil` (removed entry). -/
structure Entry (K V : Type) where
  key : Option K := none
  val : Option V := none
  iterPrev : Option Nat := none
  iterNext : Option Nat := none
  hNext : Option Nat := none

/-- `orderedMap` (map.go:14-19).  `heap`/`n` are the Go heap restricted to this map's entries;
`table` is `hashTable map[uint64]*mapEntry`. -/
structure OMap (K V : Type) where
  n : Nat := 0
  heap : Nat → Entry K V := fun _ => {}
  table : Nat → Option Nat := fun _ => none
  iterFirst : Option Nat := none
  iterLast : Option Nat := none
  size : Nat := 0

/-- `orderedMapIter` (map.go:21-24); `closed` is `iter.m == nil`. -/
structure Iter where
  closed : Bool := false
  cur : Option Nat := none
deriving DecidableEq, Repr

section
variable {K V : Type}

def upd {α : Type} (f : Nat → α) (i : Nat) (a : α) : Nat → α := fun j => if j = i then a else f j

def setHNext (hp : Nat → Entry K V) (i : Nat) (v : Option Nat) : Nat → Entry K V :=
  fun j => if j = i then { hp j with hNext := v } else hp j
def setIterNext (hp : Nat → Entry K V) (i : Nat) (v : Option Nat) : Nat → Entry K V :=
  fun j => if j = i then { hp j with iterNext := v } else hp j
def setIterPrev (hp : Nat → Entry K V) (i : Nat) (v : Option Nat) : Nat → Entry K V :=
  fun j => if j = i then { hp j with iterPrev := v } else hp j
def setKV (hp : Nat → Entry K V) (i : Nat) (k : Option K) (v : Option V) : Nat → Entry K V :=
  fun j => if j = i then { hp j with key := k, val := v } else hp j
def setVal (hp : Nat → Entry K V) (i : Nat) (v : Option V) : Nat → Entry K V :=
  fun j => if j = i then { hp j with val := v } else hp j

/-- Body of `set` after the `lookup` call (map.go:38-58), for a lookup result `r` and the already normalised `key`
(map.go:41-43).  Shared by the class-keyed model below and the representation-keyed model of Concrete.lean. -/
def setWith (r : Nat × Option Nat × Option Nat) (m : OMap K V) (key : K) (value : Option V) : OMap K V :=
  match r with
  | (_, some e, _) => { m with heap := setVal m.heap e value }            -- map.go:38-39
  | (h, none, hPrev) =>
    let x := m.n                                                          -- the new entry's address
    let heap0 := upd m.heap x { key := some key, val := value }           -- map.go:44
    let heap1 := match hPrev with
      | none => heap0                                                     -- map.go:46
      | some p => setHNext heap0 p (some x)                               -- map.go:48
    let table := match hPrev with
      | none => upd m.table h (some x)
      | some _ => m.table
    match m.iterLast with
    | some l =>                                                           -- map.go:50-52
      let heap2 := setIterPrev heap1 x (some l)
      let heap3 := setIterNext heap2 l (some x)
      { n := m.n + 1, heap := heap3, table := table, iterFirst := m.iterFirst,
        iterLast := some x, size := m.size + 1 }
    | none =>                                                             -- map.go:54
      { n := m.n + 1, heap := heap1, table := table, iterFirst := some x,
        iterLast := some x, size := m.size + 1 }

/-- Body of `get` after the `lookup` call (map.go:63-67). -/
def getWith (r : Nat × Option Nat × Option Nat) (m : OMap K V) : Option V :=
  match r with
  | (_, some e, _) => (m.heap e).val
  | _ => none

/-- Body of `remove` after the `lookup` call (map.go:72-103). -/
def removeWith (r : Nat × Option Nat × Option Nat) (m : OMap K V) : OMap K V × Bool :=
  match r with
  | (h, some e, hPrev) =>
    let ent := m.heap e
    let heap0 := setKV m.heap e none none                                  -- map.go:73-74
    let heap1 := match ent.iterPrev with                                   -- map.go:77-81
      | some p => setIterNext heap0 p ent.iterNext
      | none => heap0
    let iterFirst := match ent.iterPrev with
      | some _ => m.iterFirst
      | none => ent.iterNext
    let heap2 := match ent.iterNext with                                   -- map.go:82-86
      | some q => setIterPrev heap1 q ent.iterPrev
      | none => heap1
    let iterLast := match ent.iterNext with
      | some _ => m.iterLast
      | none => ent.iterPrev
    let heap3 := match hPrev with                                          -- map.go:89-97
      | none => heap2
      | some p => setHNext heap2 p ent.hNext
    let table := match hPrev with
      | none => upd m.table h ent.hNext        -- delete(m.hashTable, h) when hNext == nil
      | some _ => m.table
    ({ n := m.n, heap := heap3, table := table, iterFirst := iterFirst, iterLast := iterLast,
       size := m.size - 1 }, true)                                         -- map.go:99-100
  | (_, none, _) => (m, false)

variable [DecidableEq K] (norm : K → K) (hash : K → Nat)

/-- The loop of `lookup` (map.go:31): walk the bucket chain until an entry with `SameAs` key.
Returns `(entry, hPrev)`.  `fuel` bounds the walk (chains are strictly increasing in allocation index,
`walk_fuel` in Lemmas shows `n+1` always suffices under `Inv`).  A removed entry inside a chain would make Go
dereference a nil key; under `Inv` chains only contain live entries, so the case is unreachable. -/
def walk (heap : Nat → Entry K V) (k : K) : Nat → Option Nat → Option Nat → Option Nat × Option Nat
  | 0, _, hp => (none, hp)
  | _ + 1, none, hp => (none, hp)
  | f + 1, some i, hp =>
    if (heap i).key = some k then (some i, hp) else walk heap k f (heap i).hNext (some i)

/-- `lookup` (map.go:26-34): `(h, entry, hPrev)`. -/
def lookup (m : OMap K V) (key : K) : Nat × Option Nat × Option Nat :=
  let key := norm key                       -- map.go:27-29
  let h := hash key                         -- map.go:30
  let r := walk m.heap key (m.n + 1) (m.table h) none
  (h, r.1, r.2)

/-- `set` (map.go:36-59). -/
def set (m : OMap K V) (key : K) (value : Option V) : OMap K V :=
  setWith (lookup norm hash m key) m (norm key) value

/-- `get` (map.go:61-68): `none` is Go `nil`. -/
def get (m : OMap K V) (key : K) : Option V :=
  getWith (lookup norm hash m key) m

/-- `has` (map.go:106-109). -/
def has (m : OMap K V) (key : K) : Bool :=
  (lookup norm hash m key).2.1.isSome

/-- `remove` (map.go:70-104). -/
def remove (m : OMap K V) (key : K) : OMap K V × Bool :=
  removeWith (lookup norm hash m key) m

/-- Body of the loop of `clear` (map.go:159-163) for `item = i`. -/
def clearBody (heap : Nat → Entry K V) (i : Nat) : Nat → Entry K V :=
  match (heap i).iterPrev with
  | some p => setIterNext (setKV heap i none none) p none
  | none => setKV heap i none none

/-- The loop of `clear` (map.go:158-164). -/
def clearWalk : Nat → (Nat → Entry K V) → Option Nat → (Nat → Entry K V)
  | 0, heap, _ => heap
  | _ + 1, heap, none => heap
  | f + 1, heap, some i => clearWalk f (clearBody heap i) (clearBody heap i i).iterNext

/-- `clear` (map.go:157-169). -/
def clear (m : OMap K V) : OMap K V :=
  { n := m.n, heap := clearWalk (m.n + 1) m.heap m.iterFirst, table := fun _ => none,
    iterFirst := none, iterLast := none, size := 0 }

/-- The back-tracking loop of `next` (map.go:119-121). -/
def backWalk (heap : Nat → Entry K V) : Nat → Option Nat → Option Nat
  | 0, _ => none
  | _ + 1, none => none
  | f + 1, some i => if (heap i).key.isNone then backWalk heap f (heap i).iterPrev else some i

/-- `newIter` (map.go:150-155). -/
def newIter : Iter := { closed := false, cur := none }

/-- map.go:117-127: from `iter.cur`, track back over removed entries (`backWalk`), then step to `iterNext`
(or start from `iterFirst`).  Returns the entry `next` will rest on (`none` = nil). -/
def nextTarget (heap : Nat → Entry K V) (first : Option Nat) : Option Nat → Option Nat
  | none => first                                                          -- map.go:126
  | some c => match backWalk heap (c + 1) (some c) with                    -- map.go:119-121
    | some r => (heap r).iterNext                                          -- map.go:124
    | none => first                                                        -- map.go:126

/-- `orderedMapIter.next` (map.go:111-136): new iterator state and the entry returned (`none` = nil). -/
def next (m : OMap K V) (it : Iter) : Iter × Option Nat :=
  if it.closed then (it, none) else                                        -- map.go:112-115
  match nextTarget m.heap m.iterFirst it.cur with
  | none => ({ closed := true, cur := none }, none)                        -- map.go:130, 138-141
  | some c => ({ closed := false, cur := some c }, some c)                 -- map.go:132

/-- `close` (map.go:138-141). -/
def Iter.close (_ : Iter) : Iter := { closed := true, cur := none }

/-! ### Spec model: ECMA-262 §24.1 [[MapData]] -/

/-- One record of [[MapData]]; `none` is the spec's `empty`. -/
abbrev Cell (K V : Type) := Option (K × Option V)
abbrev MapData (K V : Type) := List (Cell K V)

/-- `p.[[Key]] is not empty and SameValueZero(p.[[Key]], key)`. -/
def cellMatches (k : K) : Cell K V → Bool
  | some (k', _) => decide (norm k' = norm k)
  | none => false

namespace Spec

def find (d : MapData K V) (k : K) : Option Nat := d.findIdx? (cellMatches norm k)

/-- Map.prototype.set / Set.prototype.add (§24.1.3.9): update in place or append, -0 ↦ +0. -/
def set (d : MapData K V) (k : K) (v : Option V) : MapData K V :=
  match find norm d k with
  | some i => match d[i]? with
    | some (some (k', _)) => d.set i (some (k', v))
    | _ => d
  | none => d ++ [some (norm k, v)]

def get (d : MapData K V) (k : K) : Option V :=
  match find norm d k with
  | some i => match d[i]? with
    | some (some (_, v)) => v
    | _ => none
  | none => none

def has (d : MapData K V) (k : K) : Bool := (find norm d k).isSome

/-- Map.prototype.delete (§24.1.3.3): the record becomes `empty`, the list keeps its length. -/
def delete (d : MapData K V) (k : K) : MapData K V × Bool :=
  match find norm d k with
  | some i => (d.set i none, true)
  | none => (d, false)

/-- Map.prototype.clear (§24.1.3.1): every record becomes `empty`. -/
def clear (d : MapData K V) : MapData K V := d.map (fun _ => none)

/-- get Map.prototype.size (§24.1.3.10): number of non-empty records. -/
def size (d : MapData K V) : Nat := d.countP (·.isSome)

/-- Spec iterator (CreateMapIterator §24.1.5.1): an index into [[MapData]] and the generator's done state. -/
structure SIter where
  done : Bool := false
  index : Nat := 0
deriving DecidableEq, Repr

/-- `Repeat, while index < numEntries: e := entries[index]; index := index+1; if e.[[Key]] is not empty, yield`.
`fuel` is the number of records still to scan. -/
def scan (d : MapData K V) : Nat → Nat → Option Nat
  | 0, _ => none
  | f + 1, i => match d[i]? with
    | some (some _) => some i
    | _ => scan d f (i + 1)

/-- One `next()` of the spec iterator: yields the index of the record produced, or finishes for good. -/
def next (d : MapData K V) (it : SIter) : SIter × Option Nat :=
  if it.done then (it, none) else
  match scan d (d.length - it.index) it.index with
  | some j => ({ done := false, index := j + 1 }, some j)
  | none => ({ done := true, index := 0 }, none)      -- the index is dead once the generator has returned

end Spec

/-! ### Abstraction -/

def cellOf (e : Entry K V) : Cell K V := e.key.map (fun k => (k, e.val))

/-- Abstraction function: the heap in allocation order is the [[MapData]] list. -/
def abs (m : OMap K V) : MapData K V := (List.range m.n).map (fun i => cellOf (m.heap i))

/-- Iterator abstraction: the spec index is one past the entry the mechanism iterator rests on. -/
def absIter (it : Iter) : Spec.SIter :=
  { done := it.closed, index := match it.cur with | none => 0 | some c => c + 1 }

/-! ### Whole-system runs: one map, any number of iterators, arbitrary interleavings -/

inductive Op (K V : Type) where
  | set (k : K) (v : Option V)
  | get (k : K)
  | has (k : K)
  | delete (k : K)
  | clear
  | size
  | newIter
  | next (j : Nat)      -- advance iterator number j (ignored if there is no such iterator)
  | close (j : Nat)     -- Go-side close of iterator j

/-- Observable result of one operation. -/
inductive Res (K V : Type) where
  | unit
  | val (v : Option V)
  | bool (b : Bool)
  | nat (n : Nat)
  | entry (idx : Nat) (k : Option K) (v : Option V)   -- iterator produced the record at `idx`
  | done
  | noiter
deriving DecidableEq

structure Sys (K V : Type) where
  m : OMap K V := {}
  iters : List Iter := []

structure SpecSys (K V : Type) where
  d : MapData K V := []
  iters : List Spec.SIter := []

def Sys.step (s : Sys K V) : Op K V → Sys K V × Res K V
  | .set k v => ({ s with m := set norm hash s.m k v }, .unit)
  | .get k => (s, .val (get norm hash s.m k))
  | .has k => (s, .bool (has norm hash s.m k))
  | .delete k => let r := remove norm hash s.m k; ({ s with m := r.1 }, .bool r.2)
  | .clear => ({ s with m := clear s.m }, .unit)
  | .size => (s, .nat s.m.size)
  | .newIter => ({ s with iters := s.iters ++ [newIter] }, .unit)
  | .next j => match s.iters[j]? with
    | none => (s, .noiter)
    | some it =>
      let r := next s.m it
      ({ s with iters := s.iters.set j r.1 },
        match r.2 with
        | some c => .entry c (s.m.heap c).key (s.m.heap c).val
        | none => .done)
  | .close j => match s.iters[j]? with
    | none => (s, .noiter)
    | some it => ({ s with iters := s.iters.set j it.close }, .unit)

def SpecSys.step (s : SpecSys K V) : Op K V → SpecSys K V × Res K V
  | .set k v => ({ s with d := Spec.set norm s.d k v }, .unit)
  | .get k => (s, .val (Spec.get norm s.d k))
  | .has k => (s, .bool (Spec.has norm s.d k))
  | .delete k => let r := Spec.delete norm s.d k; ({ s with d := r.1 }, .bool r.2)
  | .clear => ({ s with d := Spec.clear s.d }, .unit)
  | .size => (s, .nat (Spec.size s.d))
  | .newIter => ({ s with iters := s.iters ++ [{}] }, .unit)
  | .next j => match s.iters[j]? with
    | none => (s, .noiter)
    | some it =>
      let r := Spec.next s.d it
      ({ s with iters := s.iters.set j r.1 },
        match r.2 with
        | some c => match s.d[c]? with
          | some (some (k, v)) => .entry c (some k) v
          | _ => .entry c none none
        | none => .done)
  | .close j => match s.iters[j]? with
    | none => (s, .noiter)
    | some _ => ({ s with iters := s.iters.set j { done := true, index := 0 } }, .unit)

/-- Run a whole history, collecting the observable results. -/
def Sys.run (s : Sys K V) : List (Op K V) → Sys K V × List (Res K V)
  | [] => (s, [])
  | o :: os =>
    let r := s.step norm hash o
    let rs := Sys.run r.1 os
    (rs.1, r.2 :: rs.2)

def SpecSys.run (s : SpecSys K V) : List (Op K V) → SpecSys K V × List (Res K V)
  | [] => (s, [])
  | o :: os =>
    let r := s.step norm o
    let rs := SpecSys.run r.1 os
    (rs.1, r.2 :: rs.2)

end
end GojaModel.C18
