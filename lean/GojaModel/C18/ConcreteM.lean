/-
  C18 — functional simulation: representation-keyed structure  --mapKeys f-->  class-keyed model.
-/
import GojaModel.C18.ConcreteL
import GojaModel.C18.LemmasC

namespace GojaModel.C18
section
variable {K K' V : Type} [DecidableEq K']
variable (eqv : K → K → Bool) (norm : K → K) (hash : K → Nat) (f : K → K') (hash' : K' → Nat) (S W : K → Prop)

/-- What the key operations must satisfy for the simulation: probes satisfying `W` normalise to storable keys `S`;
on a stored key and a normalised probe the dynamic `SameAs` is equality of classes; the hash factors through classes. -/
structure Bridge : Prop where
  storable : ∀ k, W k → S (norm k)
  eqv_eq : ∀ k' k, S k' → W k → eqv k' (norm k) = decide (f k' = f (norm k))
  hash_eq : ∀ k, W k → hash (norm k) = hash' (f (norm k))

/-- Every stored key is storable. -/
def Good (m : OMap K V) : Prop := ∀ i k, (m.heap i).key = some k → S k

variable {eqv norm hash f hash' S W}

theorem walk_map (B : Bridge eqv norm hash f hash' S W) {m : OMap K V} (hg : Good S m) {k : K} (hk : W k) :
    ∀ fuel o hp, walkE eqv m.heap (norm k) fuel o hp = walk (mh f m.heap) (f (norm k)) fuel o hp := by
  intro fuel
  induction fuel with
  | zero => intro o hp; rfl
  | succ n ih =>
    intro o hp
    cases o with
    | none => rfl
    | some i =>
      simp only [walkE, walk, mh, mapEntry_key, mapEntry_hNext]
      rw [ih]
      have key : keyEqv eqv (m.heap i).key (norm k) = true ↔
          (Option.map f (m.heap i).key = some (f (norm k))) := by
        cases hki : (m.heap i).key with
        | none => simp [keyEqv]
        | some k' =>
          have := B.eqv_eq k' k (hg i k' hki) hk
          simp only [keyEqv, this, Option.map_some, Option.some.injEq, decide_eq_true_eq]
      by_cases hc : Option.map f (m.heap i).key = some (f (norm k))
      · have h1 := key.2 hc
        simp [hc, h1]
      · have h1 : ¬ (keyEqv eqv (m.heap i).key (norm k) = true) := fun h => hc (key.1 h)
        simp [hc, h1]

theorem lookup_map (B : Bridge eqv norm hash f hash' S W) {m : OMap K V} (hg : Good S m) {k : K} (hk : W k) :
    lookupE eqv norm hash m k = lookup id hash' (mapKeys f m) (f (norm k)) := by
  simp only [lookupE, lookup, id, mapKeys, B.hash_eq k hk]
  rw [walk_map B hg hk]

theorem set_map (B : Bridge eqv norm hash f hash' S W) {m : OMap K V} (hg : Good S m) {k : K} (hk : W k)
    (v : Option V) : mapKeys f (setE eqv norm hash m k v) = set id hash' (mapKeys f m) (f (norm k)) v := by
  unfold setE set
  rw [setWith_map, lookup_map B hg hk]; rfl

theorem get_map (B : Bridge eqv norm hash f hash' S W) {m : OMap K V} (hg : Good S m) {k : K} (hk : W k) :
    getE eqv norm hash m k = get id hash' (mapKeys f m) (f (norm k)) := by
  unfold getE get
  rw [getWith_map, lookup_map B hg hk]

theorem has_map (B : Bridge eqv norm hash f hash' S W) {m : OMap K V} (hg : Good S m) {k : K} (hk : W k) :
    hasE eqv norm hash m k = has id hash' (mapKeys f m) (f (norm k)) := by
  unfold hasE has
  rw [lookup_map B hg hk]

theorem remove_map (B : Bridge eqv norm hash f hash' S W) {m : OMap K V} (hg : Good S m) {k : K} (hk : W k) :
    (mapKeys f (removeE eqv norm hash m k).1, (removeE eqv norm hash m k).2) =
      remove id hash' (mapKeys f m) (f (norm k)) := by
  unfold removeE remove
  rw [removeWith_map, lookup_map B hg hk]

/-! ### storable keys stay storable -/

theorem setWith_keys (r : Nat × Option Nat × Option Nat) (m : OMap K V) (key : K) (v : Option V) (i : Nat) (k0 : K)
    (h : ((setWith r m key v).heap i).key = some k0) : (m.heap i).key = some k0 ∨ k0 = key := by
  obtain ⟨hh, e, hPrev⟩ := r
  cases e with
  | some e => left; simpa [setWith] using h
  | none =>
    cases hPrev <;> cases hl : m.iterLast <;> simp [setWith, hl] at h <;> split at h
    all_goals first
      | (left; exact h)
      | (right; simpa using h.symm)

theorem removeWith_keys (r : Nat × Option Nat × Option Nat) (m : OMap K V) (i : Nat) (k0 : K)
    (h : ((removeWith r m).1.heap i).key = some k0) : (m.heap i).key = some k0 := by
  obtain ⟨hh, e, hPrev⟩ := r
  cases e with
  | none => exact h
  | some e =>
    cases hPrev <;> cases hp : (m.heap e).iterPrev <;> cases hq : (m.heap e).iterNext <;>
      simp [removeWith, hp, hq] at h <;> exact h.2

theorem clearWalk_keys : ∀ (fuel : Nat) (hp : Nat → Entry K V) (item : Option Nat) (i : Nat) (k0 : K),
    (clearWalk fuel hp item i).key = some k0 → (hp i).key = some k0 := by
  intro fuel
  induction fuel with
  | zero => intro hp item i k0 h; exact h
  | succ n ih =>
    intro hp item i k0 h
    cases item with
    | none => exact h
    | some j =>
      simp only [clearWalk] at h
      have := ih _ _ _ _ h
      unfold clearBody at this
      cases hj : (hp j).iterPrev <;> simp [hj] at this <;> exact this.2

theorem good_set (B : Bridge eqv norm hash f hash' S W) {m : OMap K V} (hg : Good S m) {k : K} (hk : W k)
    (v : Option V) : Good S (setE eqv norm hash m k v) := by
  intro i k0 h
  rcases setWith_keys _ _ _ _ _ _ h with h | h
  · exact hg i k0 h
  · rw [h]; exact B.storable k hk

theorem good_remove {m : OMap K V} (hg : Good S m) (k : K) : Good S (removeE eqv norm hash m k).1 :=
  fun i k0 h => hg i k0 (removeWith_keys _ _ _ _ h)

theorem good_clear {m : OMap K V} (hg : Good S m) : Good S (clear m) :=
  fun i k0 h => hg i k0 (clearWalk_keys _ _ _ _ _ h)

/-! ### the systems -/

theorem stepE_sim (B : Bridge eqv norm hash f hash' S W) {s : Sys K V} (hg : Good S s.m) (o : Op K V)
    (ho : o.keyOk W) :
    Sys.mapKeys f (s.stepE eqv norm hash o).1 = ((Sys.mapKeys f s).step id hash' (o.mapKey (fun k => f (norm k)))).1 ∧
    Res.mapKey f (s.stepE eqv norm hash o).2 = ((Sys.mapKeys f s).step id hash' (o.mapKey (fun k => f (norm k)))).2 ∧
    Good S (s.stepE eqv norm hash o).1.m := by
  cases o with
  | set k v =>
    refine ⟨?_, rfl, good_set B hg ho v⟩
    simp only [Sys.stepE, Sys.step, Op.mapKey, Sys.mapKeys, set_map B hg ho]
  | get k =>
    refine ⟨rfl, ?_, hg⟩
    simp only [Sys.stepE, Sys.step, Op.mapKey, Sys.mapKeys, Res.mapKey, get_map B hg ho]
  | has k =>
    refine ⟨rfl, ?_, hg⟩
    simp only [Sys.stepE, Sys.step, Op.mapKey, Sys.mapKeys, Res.mapKey, has_map B hg ho]
  | delete k =>
    have := remove_map B hg ho
    refine ⟨?_, ?_, good_remove hg k⟩
    · simp only [Sys.stepE, Sys.step, Op.mapKey, Sys.mapKeys, ← this]
    · simp only [Sys.stepE, Sys.step, Op.mapKey, Sys.mapKeys, Res.mapKey, ← this]
  | clear =>
    refine ⟨?_, rfl, good_clear hg⟩
    simp only [Sys.stepE, Sys.step, Op.mapKey, Sys.mapKeys, clear_map]
  | size => exact ⟨rfl, rfl, hg⟩
  | newIter => exact ⟨rfl, rfl, hg⟩
  | next j =>
    simp only [Sys.stepE, Sys.step, Op.mapKey, Sys.mapKeys]
    cases hj : s.iters[j]? with
    | none => refine ⟨?_, ?_, hg⟩ <;> first | rfl | trivial
    | some it =>
      simp only [next_map]
      refine ⟨?_, ?_, hg⟩
      · first | rfl | trivial
      · cases (next s.m it).2 <;> rfl
  | close j =>
    simp only [Sys.stepE, Sys.step, Op.mapKey, Sys.mapKeys]
    cases hj : s.iters[j]? with
    | none => refine ⟨?_, ?_, hg⟩ <;> first | rfl | trivial
    | some it => refine ⟨?_, ?_, hg⟩ <;> first | rfl | trivial

theorem runE_sim (B : Bridge eqv norm hash f hash' S W) : ∀ (ops : List (Op K V)) (s : Sys K V), Good S s.m →
    (∀ o, o ∈ ops → o.keyOk W) →
    (Sys.runE eqv norm hash s ops).2.map (Res.mapKey f) =
      (Sys.run id hash' (Sys.mapKeys f s) (ops.map (Op.mapKey (fun k => f (norm k))))).2 := by
  intro ops
  induction ops with
  | nil => intro s _ _; rfl
  | cons o os ih =>
    intro s hg hok
    obtain ⟨h1, h2, h3⟩ := stepE_sim B hg o (hok o (List.mem_cons_self ..))
    simp only [Sys.runE, Sys.run, List.map_cons]
    rw [h2, ← h1]
    congr 1
    exact ih _ h3 (fun o' ho' => hok o' (List.mem_cons_of_mem _ ho'))

end
end GojaModel.C18
