/-
  C18 — preservation of `Inv` by set and remove.
-/
import GojaModel.C18.LemmasC

namespace GojaModel.C18
section
variable {K V : Type} (norm : K → K) (hash : K → Nat)

theorem inv_setVal {m : OMap K V} (I : Inv norm hash m) (e : Nat) (v : Option V) :
    Inv norm hash { m with heap := setVal m.heap e v } := by
  obtain ⟨l, b, u, nm, sz⟩ := I
  have e1 : liveOf (setVal m.heap e v) = liveOf m.heap := by funext i; simp [liveOf]
  have e2 : prevOf (setVal m.heap e v) = prevOf m.heap := by funext i; simp [prevOf]
  have e3 : nextOf (setVal m.heap e v) = nextOf m.heap := by funext i; simp [nextOf]
  have e4 : hnOf (setVal m.heap e v) = hnOf m.heap := by funext i; simp [hnOf]
  have e5 : hkOf hash (setVal m.heap e v) = hkOf hash m.heap := by funext i; simp [hkOf]
  constructor
  · simp only [e1, e2, e3]; exact l
  · simp only [e4, e5]; exact b
  · intro i j k hi hj h1 h2; simp at h1 h2; exact u i j k hi hj h1 h2
  · intro i k hi h1; simp at h1; exact nm i k hi h1
  · simp only [e1]; exact sz

variable [DecidableEq K]

/-- The state `set` builds for a new key, written with the four possible shapes collapsed into `if`s. -/
theorem inv_set_new {m : OMap K V} (I : Inv norm hash m) (nk : K) (hPrev : Option Nat)
    (hnk : norm nk = nk)
    (hfresh : ∀ i, i < m.n → (m.heap i).key ≠ some nk)
    (hP : PrevSpec (inH (hkOf hash m.heap) (hash nk)) m.n hPrev)
    (m' : OMap K V) (hn : m'.n = m.n + 1)
    (hkey : ∀ i, (m'.heap i).key = if i = m.n then some nk else (m.heap i).key)
    (hprev : ∀ i, (m'.heap i).iterPrev = if i = m.n then m.iterLast else (m.heap i).iterPrev)
    (hnext : ∀ i, (m'.heap i).iterNext = if i = m.n then none else if m.iterLast = some i then some m.n else (m.heap i).iterNext)
    (hhn : ∀ i, (m'.heap i).hNext = if i = m.n then none else if hPrev = some i then some m.n else (m.heap i).hNext)
    (htab : ∀ h', m'.table h' = if hPrev = none ∧ h' = hash nk then some m.n else m.table h')
    (hfirst : m'.iterFirst = match m.iterLast with | none => some m.n | some _ => m.iterFirst)
    (hlast : m'.iterLast = some m.n)
    (hsize : m'.size = m.size + 1) :
    Inv norm hash m' := by
  obtain ⟨l, b, u, nm, sz⟩ := I
  have hlive : ∀ i, liveOf m'.heap i = if i = m.n then true else liveOf m.heap i := by
    intro i; simp only [liveOf, hkey]; split <;> simp
  constructor
  · rw [hn, hlast]
    exact l.append hlive (fun i => by simp only [prevOf, hprev]) (fun i => by simp only [nextOf, hnext]) hfirst
  · rw [hn]
    exact b.append hP (fun i => by simp only [hkOf, hkey]; split <;> simp)
      (fun i => by simp only [hnOf, hhn]) htab
  · intro i j k hi hj h1 h2
    rw [hkey] at h1 h2
    rw [hn] at hi hj
    by_cases h3 : i = m.n <;> by_cases h4 : j = m.n
    · omega
    · simp [h3, h4] at h1 h2; subst h1; exact absurd h2 (hfresh j (by omega))
    · simp [h3, h4] at h1 h2; subst h2; exact absurd h1 (hfresh i (by omega))
    · simp [h3, h4] at h1 h2; exact u i j k (by omega) (by omega) h1 h2
  · intro i k hi h1
    rw [hkey] at h1; rw [hn] at hi
    by_cases h3 : i = m.n
    · simp [h3] at h1; subst h1; exact hnk
    · simp [h3] at h1; exact nm i k (by omega) h1
  · rw [hsize, hn, sz]
    simp only [liveCount, hlive, if_true]
    have := liveCount_congr (l := liveOf m.heap) (l' := liveOf m'.heap) m.n
      (fun i hi => by rw [hlive]; simp [Nat.ne_of_lt hi])
    rw [this]

theorem inv_set {m : OMap K V} (I : Inv norm hash m) (hnorm : ∀ k, norm (norm k) = norm k) (k : K) (v : Option V) :
    Inv norm hash (set norm hash m k v) := by
  obtain ⟨h1, h2, h3⟩ := lookup_spec norm hash I k
  unfold set setWith
  generalize lookup norm hash m k = r at h1 h2 h3
  obtain ⟨h, e, hPrev⟩ := r
  simp only at h1 h2 h3
  cases e with
  | some e => exact inv_setVal norm hash I e v
  | none =>
    obtain ⟨hfresh, hP⟩ := h3 rfl
    subst h1
    have hl := I.list
    cases hPrev with
    | none =>
      cases hlast : m.iterLast with
      | none =>
        apply inv_set_new norm hash I (norm k) none (hnorm k) hfresh hP <;> simp [hlast]
        all_goals (intro i; (repeat' split) <;> (try subst_vars) <;> (try simp) <;> (try omega) <;> (try (intro hh; omega)))
      | some l =>
        have hln : l < m.n := (hl.lSome l hlast).1
        apply inv_set_new norm hash I (norm k) none (hnorm k) hfresh hP <;> simp [hlast]
        all_goals (intro i; (repeat' split) <;> (try subst_vars) <;> (try simp) <;> (try omega) <;> (try (intro hh; omega)))
    | some p =>
      have hpn : p < m.n := hP.live.2
      cases hlast : m.iterLast with
      | none =>
        apply inv_set_new norm hash I (norm k) (some p) (hnorm k) hfresh hP <;> simp [hlast]
        all_goals (intro i; (repeat' split) <;> (try subst_vars) <;> (try simp) <;> (try omega) <;> (try (intro hh; omega)))
      | some l =>
        have hln : l < m.n := (hl.lSome l hlast).1
        apply inv_set_new norm hash I (norm k) (some p) (hnorm k) hfresh hP <;> simp [hlast]
        all_goals (intro i; (repeat' split) <;> (try subst_vars) <;> (try simp) <;> (try omega) <;> (try (intro hh; omega)))


theorem inv_kill {m : OMap K V} (I : Inv norm hash m) (e : Nat) (hPrev : Option Nat) (he : e < m.n) (nk : K)
    (hke : (m.heap e).key = some nk)
    (hP : PrevSpec (inH (hkOf hash m.heap) (hash nk)) e hPrev)
    (m' : OMap K V) (hn : m'.n = m.n)
    (hkey : ∀ i, (m'.heap i).key = if i = e then none else (m.heap i).key)
    (hprev : ∀ i, (m'.heap i).iterPrev = if (m.heap e).iterNext = some i then (m.heap e).iterPrev else (m.heap i).iterPrev)
    (hnext : ∀ i, (m'.heap i).iterNext = if (m.heap e).iterPrev = some i then (m.heap e).iterNext else (m.heap i).iterNext)
    (hhn : ∀ i, (m'.heap i).hNext = if hPrev = some i then (m.heap e).hNext else (m.heap i).hNext)
    (htab : ∀ h', m'.table h' = if hPrev = none ∧ h' = hash nk then (m.heap e).hNext else m.table h')
    (hfirst : m'.iterFirst = match (m.heap e).iterPrev with | none => (m.heap e).iterNext | some _ => m.iterFirst)
    (hlast : m'.iterLast = match (m.heap e).iterNext with | none => (m.heap e).iterPrev | some _ => m.iterLast)
    (hsize : m'.size = m.size - 1) :
    Inv norm hash m' := by
  obtain ⟨l, b, u, nm, sz⟩ := I
  have hlive : ∀ i, liveOf m'.heap i = if i = e then false else liveOf m.heap i := by
    intro i; simp only [liveOf, hkey]; split <;> simp
  have hle : liveOf m.heap e = true := by simp [liveOf, hke]
  constructor
  · rw [hn]
    exact l.kill he hle hlive (fun i => hnext i) (fun i => hprev i) hfirst hlast
  · rw [hn]
    exact b.kill he (by simp [hkOf, hke]) hP (fun i => by simp only [hkOf, hkey]; split <;> simp)
      (fun i => hhn i) htab
  · intro i j k hi hj h1 h2
    rw [hkey] at h1 h2
    rw [hn] at hi hj
    by_cases h3 : i = e <;> by_cases h4 : j = e <;> simp [h3, h4] at h1 h2
    exact u i j k hi hj h1 h2
  · intro i k hi h1
    rw [hkey] at h1; rw [hn] at hi
    by_cases h3 : i = e <;> simp [h3] at h1
    exact nm i k hi h1
  · rw [hsize, hn, sz]
    have := liveCount_kill hlive hle m.n he
    omega

theorem inv_remove {m : OMap K V} (I : Inv norm hash m) (k : K) :
    Inv norm hash (remove norm hash m k).1 := by
  obtain ⟨h1, h2, h3⟩ := lookup_spec norm hash I k
  unfold remove removeWith
  generalize lookup norm hash m k = r at h1 h2 h3
  obtain ⟨h, e, hPrev⟩ := r
  simp only at h1 h2 h3
  cases e with
  | none => exact I
  | some e =>
    obtain ⟨he, hke, hP⟩ := h2 e rfl
    subst h1
    have hl := I.list
    have hle : liveOf m.heap e = true := by simp [liveOf, hke]
    have hp1 : ∀ p, (m.heap e).iterPrev = some p → p < e := fun p hp => (hl.pSome e p he hp).1
    have hn1 : ∀ q, (m.heap e).iterNext = some q → e < q := fun q hq => (hl.nSome e q he hle hq).1
    have hh1 : ∀ p, hPrev = some p → p < e := fun p hp => (hp ▸ hP).live.2
    simp only
    refine inv_kill norm hash I e hPrev he (norm k) hke hP _ rfl ?hkey ?hprev ?hnext ?hhn ?htab ?hfirst ?hlast rfl
    case hkey =>
      intro i
      cases hPrev <;> cases hp : (m.heap e).iterPrev <;> cases hq : (m.heap e).iterNext <;> simp <;>
        (repeat' split) <;> (try subst_vars) <;> (try simp) <;> (try omega)
    case hprev =>
      intro i
      cases hPrev <;> cases hp : (m.heap e).iterPrev <;> cases hq : (m.heap e).iterNext <;> simp <;>
        (repeat' split) <;> (try subst_vars) <;> (try simp) <;> (try omega)
    case hnext =>
      intro i
      cases hPrev <;> cases hp : (m.heap e).iterPrev <;> cases hq : (m.heap e).iterNext <;> simp <;>
        (repeat' split) <;> (try subst_vars) <;> (try simp) <;> (try omega)
    case hhn =>
      intro i
      cases hPrev <;> cases hp : (m.heap e).iterPrev <;> cases hq : (m.heap e).iterNext <;> simp <;>
        (repeat' split) <;> (try subst_vars) <;> (try simp) <;> (try omega)
    case htab =>
      intro h'
      cases hPrev <;> simp
    case hfirst => cases (m.heap e).iterPrev <;> rfl
    case hlast => cases (m.heap e).iterNext <;> rfl

end
end GojaModel.C18
