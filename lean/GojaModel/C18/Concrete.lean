/-
  C18 — second-level refinement.  The real `orderedMap` stores key REPRESENTATIONS and compares them with the dynamic
  `SameAs` (map.go:31), after hashing them with the per-type `hash`.  `…E` below is that structure: same heap, same
  code after `lookup` (`setWith`/`getWith`/`removeWith` of Model.lean are shared), but the bucket walk tests an arbitrary
  `eqv stored probe`, and nothing assumes that `eqv` is equality.  We prove that reading every stored key through a
  class map `f` is a functional simulation onto the class-keyed model of Model.lean, for every operation and every
  history; Values.lean supplies the instance `eqv := sameAsK`, `f := cls`.
-/
import GojaModel.C18.LemmasH

namespace GojaModel.C18
section
variable {K K' V : Type}

/-! ### The representation-keyed structure -/

/-- `entry.key.SameAs(key)` for an entry's key slot (a removed entry never sits in a chain). -/
def keyEqv (eqv : K → K → Bool) (ko : Option K) (k : K) : Bool :=
  match ko with
  | some k' => eqv k' k
  | none => false

/-- The loop of `lookup` (map.go:31) with the dynamic `entry.key.SameAs(key)`. -/
def walkE (eqv : K → K → Bool) (heap : Nat → Entry K V) (k : K) : Nat → Option Nat → Option Nat → Option Nat × Option Nat
  | 0, _, hp => (none, hp)
  | _ + 1, none, hp => (none, hp)
  | f + 1, some i, hp =>
    if keyEqv eqv (heap i).key k then (some i, hp)
    else walkE eqv heap k f (heap i).hNext (some i)

variable (eqv : K → K → Bool) (norm : K → K) (hash : K → Nat)

/-- `lookup` (map.go:26-34). -/
def lookupE (m : OMap K V) (key : K) : Nat × Option Nat × Option Nat :=
  let key := norm key
  let h := hash key
  let r := walkE eqv m.heap key (m.n + 1) (m.table h) none
  (h, r.1, r.2)

def setE (m : OMap K V) (key : K) (value : Option V) : OMap K V :=
  setWith (lookupE eqv norm hash m key) m (norm key) value
def getE (m : OMap K V) (key : K) : Option V := getWith (lookupE eqv norm hash m key) m
def hasE (m : OMap K V) (key : K) : Bool := (lookupE eqv norm hash m key).2.1.isSome
def removeE (m : OMap K V) (key : K) : OMap K V × Bool := removeWith (lookupE eqv norm hash m key) m

/-- One step of the representation-keyed system (same shape as `Sys.step`). -/
def Sys.stepE (s : Sys K V) : Op K V → Sys K V × Res K V
  | .set k v => ({ s with m := setE eqv norm hash s.m k v }, .unit)
  | .get k => (s, .val (getE eqv norm hash s.m k))
  | .has k => (s, .bool (hasE eqv norm hash s.m k))
  | .delete k => let r := removeE eqv norm hash s.m k; ({ s with m := r.1 }, .bool r.2)
  | .clear => ({ s with m := clear s.m }, .unit)
  | .size => (s, .nat s.m.size)
  | .newIter => ({ s with iters := s.iters ++ [newIter] }, .unit)
  | .next j => match s.iters[j]? with
    | none => (s, .noiter)
    | some it =>
      let r := next s.m it
      ({ s with iters := s.iters.set j r.1 },
        match r.2 with
        | some c => .entry c (s.m.heap c).key (s.m.heap c).val
        | none => .done)
  | .close j => match s.iters[j]? with
    | none => (s, .noiter)
    | some it => ({ s with iters := s.iters.set j it.close }, .unit)

def Sys.runE (s : Sys K V) : List (Op K V) → Sys K V × List (Res K V)
  | [] => (s, [])
  | o :: os =>
    let r := s.stepE eqv norm hash o
    let rs := Sys.runE r.1 os
    (rs.1, r.2 :: rs.2)

/-! ### Reading keys through a class map -/

def mapEntry (f : K → K') (e : Entry K V) : Entry K' V :=
  { key := e.key.map f, val := e.val, iterPrev := e.iterPrev, iterNext := e.iterNext, hNext := e.hNext }

def mapKeys (f : K → K') (m : OMap K V) : OMap K' V :=
  { n := m.n, heap := fun i => mapEntry f (m.heap i), table := m.table, iterFirst := m.iterFirst,
    iterLast := m.iterLast, size := m.size }

def Sys.mapKeys (f : K → K') (s : Sys K V) : Sys K' V := { m := GojaModel.C18.mapKeys f s.m, iters := s.iters }

def Op.mapKey (f : K → K') : Op K V → Op K' V
  | .set k v => .set (f k) v
  | .get k => .get (f k)
  | .has k => .has (f k)
  | .delete k => .delete (f k)
  | .clear => .clear
  | .size => .size
  | .newIter => .newIter
  | .next j => .next j
  | .close j => .close j

def Res.mapKey (f : K → K') : Res K V → Res K' V
  | .unit => .unit
  | .val v => .val v
  | .bool b => .bool b
  | .nat n => .nat n
  | .entry i k v => .entry i (k.map f) v
  | .done => .done
  | .noiter => .noiter

/-- The keys an operation mentions. -/
def Op.keyOk (W : K → Prop) : Op K V → Prop
  | .set k _ => W k
  | .get k => W k
  | .has k => W k
  | .delete k => W k
  | _ => True

end
end GojaModel.C18
