/-
  C18 — invariants of the mechanism model and their preservation (helper lemmas for Props.lean).
  The invariant is stated over *projections* of the heap (liveness, iterPrev, iterNext, hNext, hash of the stored key)
  so that each operation is first analysed abstractly (what it does to the projections) and then tied to the model.
-/
import GojaModel.C18.Model

namespace GojaModel.C18

/-! ### 1. The insertion-order list with tombstones -/

/-- Live entries are doubly linked in allocation order (`nNone/nSome/pLive/f*/l*`); every entry's `iterPrev` — dead
entries keep theirs — points below it with only dead entries in between (`pNone/pSome`), so that the `iterPrev` chain
of a dead entry reaches the greatest live entry allocated before it, or nil. -/
structure ListInv (n : Nat) (live : Nat → Bool) (prev next : Nat → Option Nat) (first last : Option Nat) : Prop where
  pNone : ∀ i, i < n → prev i = none → ∀ k, k < i → live k = false
  pSome : ∀ i j, i < n → prev i = some j → j < i ∧ ∀ k, j < k → k < i → live k = false
  pLive : ∀ i j, i < n → live i = true → prev i = some j → live j = true
  nNone : ∀ i, i < n → live i = true → next i = none → ∀ k, i < k → k < n → live k = false
  nSome : ∀ i j, i < n → live i = true → next i = some j →
            i < j ∧ j < n ∧ live j = true ∧ ∀ k, i < k → k < j → live k = false
  fNone : first = none → ∀ k, k < n → live k = false
  fSome : ∀ j, first = some j → j < n ∧ live j = true ∧ ∀ k, k < j → live k = false
  lNone : last = none → ∀ k, k < n → live k = false
  lSome : ∀ j, last = some j → j < n ∧ live j = true ∧ ∀ k, j < k → k < n → live k = false

theorem ListInv.empty : ListInv 0 (fun _ => false) (fun _ => none) (fun _ => none) none none := by
  constructor <;> simp

/-- `set` of a new key: entry `n` is appended behind `last`. -/
theorem ListInv.append {n live prev next first last} (I : ListInv n live prev next first last)
    {live' prev' next' first'}
    (hl : ∀ i, live' i = if i = n then true else live i)
    (hp : ∀ i, prev' i = if i = n then last else prev i)
    (hn : ∀ i, next' i = if i = n then none else if last = some i then some n else next i)
    (hf : first' = match last with | none => some n | some _ => first) :
    ListInv (n + 1) live' prev' next' first' (some n) := by
  obtain ⟨pNone, pSome, pLive, nNone, nSome, fNone, fSome, lNone, lSome⟩ := I
  constructor
  · intro i hi h k hk
    rw [hp] at h; rw [hl]
    by_cases hin : i = n
    · subst hin; simp at h; have := lNone h k hk; simp [Nat.ne_of_lt hk, this]
    · simp [hin] at h; have : k ≠ n := by omega
      simp [this]; exact pNone i (by omega) h k hk
  · intro i j hi h
    rw [hp] at h
    by_cases hin : i = n
    · subst hin; simp at h
      obtain ⟨a, b, c⟩ := lSome j h
      refine ⟨a, fun k h1 h2 => ?_⟩
      rw [hl]; simp [Nat.ne_of_lt h2]; exact c k h1 h2
    · simp [hin] at h
      obtain ⟨a, b⟩ := pSome i j (by omega) h
      refine ⟨a, fun k h1 h2 => ?_⟩
      rw [hl]; have : k ≠ n := by omega
      simp [this]; exact b k h1 h2
  · intro i j hi h1 h2
    rw [hp] at h2; rw [hl] at h1 ⊢
    by_cases hin : i = n
    · subst hin; simp at h2
      obtain ⟨a, b, c⟩ := lSome j h2
      simp [Nat.ne_of_lt a, b]
    · simp [hin] at h1 h2
      have := (pSome i j (by omega) h2).1
      have hj : j ≠ n := by omega
      simp [hj]; exact pLive i j (by omega) h1 h2
  · intro i hi h1 h2 k hk1 hk2
    rw [hn] at h2; rw [hl] at h1
    by_cases hin : i = n
    · omega
    · simp [hin] at h1 h2
      by_cases hli : last = some i
      · simp [hli] at h2
      · simp [hli] at h2
        have hk : k ≠ n := by
          intro hkn
          cases hlast : last with
          | none => have := lNone hlast i (by omega); simp [this] at h1
          | some l =>
            obtain ⟨a, b, c⟩ := lSome l hlast
            have := nNone i (by omega) h1 h2 l
            by_cases hil : i < l
            · have := this hil a; simp [this] at b
            · have : l < i := by
                rcases Nat.lt_or_ge l i with h | h
                · exact h
                · have : i = l := by omega
                  subst this; exact absurd hlast hli
              have := c i this (by omega); simp [this] at h1
        rw [hl]; simp [hk]; exact nNone i (by omega) h1 h2 k hk1 (by omega)
  · intro i j hi h1 h2
    rw [hn] at h2; rw [hl] at h1
    by_cases hin : i = n
    · subst hin; simp at h2
    · simp [hin] at h1 h2
      by_cases hli : last = some i
      · simp [hli] at h2; subst h2
        obtain ⟨a, b, c⟩ := lSome i hli
        refine ⟨by omega, by omega, by rw [hl]; simp, fun k h1 h2 => ?_⟩
        rw [hl]; simp [Nat.ne_of_lt h2]; exact c k h1 h2
      · simp [hli] at h2
        obtain ⟨a, b, c, d⟩ := nSome i j (by omega) h1 h2
        refine ⟨a, by omega, by rw [hl]; simp [Nat.ne_of_lt b, c], fun k h1 h2 => ?_⟩
        rw [hl]; have : k ≠ n := by omega
        simp [this]; exact d k h1 h2
  · intro h k hk
    cases hlast : last <;> simp [hlast] at hf <;> simp [hf] at h
    rename_i l
    subst hf
    exact absurd (fNone h l (lSome l hlast).1) (by simp [(lSome l hlast).2.1])
  · intro j h
    cases hlast : last with
    | none =>
      simp [hlast] at hf; rw [hf] at h; simp at h; subst h
      refine ⟨by omega, by rw [hl]; simp, fun k hk => ?_⟩
      rw [hl]; simp [Nat.ne_of_lt hk]; exact lNone hlast k hk
    | some l =>
      simp [hlast] at hf; rw [hf] at h
      obtain ⟨a, b, c⟩ := fSome j h
      refine ⟨by omega, by rw [hl]; simp [Nat.ne_of_lt a, b], fun k hk => ?_⟩
      rw [hl]; have : k ≠ n := by omega
      simp [this]; exact c k hk
  · intro h; simp at h
  · intro j h
    simp at h; subst h
    exact ⟨by omega, by rw [hl]; simp, fun k h1 h2 => by omega⟩


/-- `remove` of live entry `e`: it becomes a tombstone that keeps its own links; its neighbours are relinked. -/
theorem ListInv.kill {n live prev next first last} (I : ListInv n live prev next first last)
    {e : Nat} (he : e < n) (hle : live e = true)
    {live' prev' next' first' last'}
    (hl : ∀ i, live' i = if i = e then false else live i)
    (hn : ∀ i, next' i = if prev e = some i then next e else next i)
    (hp : ∀ i, prev' i = if next e = some i then prev e else prev i)
    (hf : first' = match prev e with | none => next e | some _ => first)
    (hla : last' = match next e with | none => prev e | some _ => last) :
    ListInv n live' prev' next' first' last' := by
  obtain ⟨pNone, pSome, pLive, nNone, nSome, fNone, fSome, lNone, lSome⟩ := I
  constructor
  · grind
  · grind
  · grind
  · grind
  · grind
  · grind
  · grind
  · grind
  · grind

/-- Changing `next` of dead entries, or anything about values, is invisible to the invariant. -/
theorem ListInv.congr {n live prev next first last} (I : ListInv n live prev next first last)
    {live' prev' next'}
    (hl : ∀ i, i < n → live' i = live i) (hp : ∀ i, i < n → prev' i = prev i)
    (hn : ∀ i, i < n → live i = true → next' i = next i) :
    ListInv n live' prev' next' first last := by
  obtain ⟨pNone, pSome, pLive, nNone, nSome, fNone, fSome, lNone, lSome⟩ := I
  constructor
  · grind
  · grind
  · grind
  · grind
  · grind
  · grind
  · grind
  · grind
  · grind

/-! ### 2. The iterator's back-tracking loop -/

/-- `BackSpec live c r`: `r` is the greatest live index `≤ c` (or `none` if there is none). -/
def BackSpec (live : Nat → Bool) (c : Nat) (r : Option Nat) : Prop :=
  (r = none → ∀ k, k ≤ c → live k = false) ∧
  (∀ x, r = some x → x ≤ c ∧ live x = true ∧ ∀ k, x < k → k ≤ c → live k = false)

/-- `NextSpec n live b o`: `o` is the least live index in `[b, n)` (or `none`). -/
def NextSpec (n : Nat) (live : Nat → Bool) (b : Nat) (o : Option Nat) : Prop :=
  (o = none → ∀ k, b ≤ k → k < n → live k = false) ∧
  (∀ j, o = some j → b ≤ j ∧ j < n ∧ live j = true ∧ ∀ k, b ≤ k → k < j → live k = false)

theorem NextSpec.unique {n live b o o'} (h : NextSpec n live b o) (h' : NextSpec n live b o') : o = o' := by
  unfold NextSpec at h h'
  cases o <;> cases o' <;> grind

section
variable {K V : Type}

def liveOf (hp : Nat → Entry K V) : Nat → Bool := fun i => (hp i).key.isSome
def prevOf (hp : Nat → Entry K V) : Nat → Option Nat := fun i => (hp i).iterPrev
def nextOf (hp : Nat → Entry K V) : Nat → Option Nat := fun i => (hp i).iterNext
def hnOf (hp : Nat → Entry K V) : Nat → Option Nat := fun i => (hp i).hNext
def keyOf (hp : Nat → Entry K V) : Nat → Option K := fun i => (hp i).key

theorem backWalk_spec {n first last} (hp : Nat → Entry K V)
    (I : ListInv n (liveOf hp) (prevOf hp) (nextOf hp) first last) :
    ∀ fuel c, c < fuel → c < n → BackSpec (liveOf hp) c (backWalk hp fuel (some c)) := by
  intro fuel
  induction fuel with
  | zero => intro c h; omega
  | succ f ih =>
    intro c hc hn
    unfold backWalk
    by_cases hl : (hp c).key.isNone
    · simp only [hl, if_true]
      have hdead : liveOf hp c = false := by simp [liveOf]; simpa using hl
      cases hpc : (hp c).iterPrev with
      | none =>
        have := I.pNone c hn (by simpa [prevOf] using hpc)
        unfold backWalk
        cases f <;> (constructor <;> grind)
      | some j =>
        have hj := I.pSome c j hn (by simpa [prevOf] using hpc)
        have := ih j (by omega) (by omega)
        unfold BackSpec at this ⊢
        grind
    · simp only [hl]
      have hlive : liveOf hp c = true := by
        simp [liveOf]; cases h : (hp c).key <;> simp_all
      unfold BackSpec
      grind

/-- What `orderedMapIter.next` computes: the least live entry above `cur` (above nothing if `cur = nil`). -/
theorem next_spec {n first last} (hp : Nat → Entry K V)
    (I : ListInv n (liveOf hp) (prevOf hp) (nextOf hp) first last) (c : Nat) (hc : c < n) :
    NextSpec n (liveOf hp) (c + 1) (nextTarget hp first (some c)) := by
  simp only [nextTarget]
  have hb := backWalk_spec hp I (c + 1) c (by omega) hc
  obtain ⟨pNone, pSome, pLive, nNone, nSome, fNone, fSome, lNone, lSome⟩ := I
  unfold BackSpec at hb
  split
  · next r hr =>
    obtain ⟨h1, h2, h3⟩ := hb.2 r hr
    cases hnx : (hp r).iterNext with
    | none =>
      have h4 := nNone r (by omega) h2 (by simpa [nextOf] using hnx)
      unfold NextSpec
      exact ⟨fun _ k hk1 hk2 => h4 k (by omega) hk2, fun j hj => by simp at hj⟩
    | some v =>
      obtain ⟨a, b, c', d⟩ := nSome r v (by omega) h2 (by simpa [nextOf] using hnx)
      have hv : c < v := by
        rcases Nat.lt_or_ge c v with h | h
        · exact h
        · have := h3 v a h; simp [this] at c'
      unfold NextSpec
      refine ⟨fun h => by simp at h, fun j hj => ?_⟩
      simp at hj; subst hj
      exact ⟨by omega, b, c', fun k hk1 hk2 => d k (by omega) hk2⟩
  · next hr =>
    have h1 := hb.1 hr
    unfold NextSpec
    cases first <;> grind

theorem first_spec {n live prev next first last} (I : ListInv n live prev next first last) :
    NextSpec n live 0 first := by
  obtain ⟨pNone, pSome, pLive, nNone, nSome, fNone, fSome, lNone, lSome⟩ := I
  unfold NextSpec
  cases first <;> grind

end

end GojaModel.C18
