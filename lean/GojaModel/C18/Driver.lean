/-
  C18 model driver: one case per line
      <mode> <pool> <op> <op> ...
  pool element = <rep>/<hash>/<repr> (repr ignored here).  Keys are pool indices, `norm` = class representative,
  `hash` = the number given for the representative.  Output: one token per op
      <mechanism result>@<dump of the mechanism state>@<spec result>
-/
import GojaModel.Base.Proto
import GojaModel.C18.Model
import GojaModel.C18.SymIter

namespace GojaModel.C18.Driver
open GojaModel.C18

structure St where
  sys : Sys Nat Nat := {}
  ssys : SpecSys Nat Nat := {}
  slots : List (Option Nat) := [none, none, none, none]
  /-- Object.assign-style snapshot iterators (kind `a`): `none` = slot is not of that kind, `some none` = created but
  not started (the snapshot is taken when the copy starts), `some (some (mechanism keys, spec keys))`. -/
  aslots : List (Option (Option (List Nat × List Nat))) := [none, none, none, none]

def optNat (o : Option Nat) : String := match o with | some i => toString i | none => "-"

def showKey (k : Option Nat) : String := match k with | some k => "K" ++ toString k | none => "x"
def showVal (v : Option Nat) : String := match v with | some v => "v" ++ toString v | none => "-"

def showRes : Res Nat Nat → String
  | .unit => "ok"
  | .val (some v) => "v" ++ toString v
  | .val none => "u"
  | .bool true => "t"
  | .bool false => "f"
  | .nat n => "n" ++ toString n
  | .entry _ k v => showKey k ++ ":" ++ showVal v
  | .done => "done"
  | .noiter => "err:noiter"

def insertSorted (x : Nat) : List Nat → List Nat
  | [] => [x]
  | y :: ys => if x < y then x :: y :: ys else if x = y then y :: ys else y :: insertSorted x ys

def dump (hashes : List Nat) (m : OMap Nat Nat) : String :=
  let heads := hashes.foldl (fun acc h => match m.table h with | some i => insertSorted i acc | none => acc) []
  let ents := (List.range m.n).map (fun i =>
    let e := m.heap i
    showKey e.key ++ "~" ++ optNat e.iterPrev ++ "~" ++ optNat e.iterNext ++ "~" ++ optNat e.hNext)
  "sz=" ++ toString m.size ++ ",F=" ++ optNat m.iterFirst ++ ",L=" ++ optNat m.iterLast ++
  ",T=" ++ ".".intercalate (heads.map toString) ++ ",E=" ++ "_".intercalate ents

/-- Mechanism-side "list everything": a fresh iterator driven to exhaustion (what `export` does). -/
def listAllMech (m : OMap Nat Nat) : Nat → Iter → List String → List String
  | 0, _, acc => acc.reverse
  | f + 1, it, acc =>
    match next m it with
    | (it', some c) => listAllMech m f it' ((showKey (m.heap c).key ++ ":" ++ showVal (m.heap c).val) :: acc)
    | (_, none) => acc.reverse

def listAllSpec (d : MapData Nat Nat) : List String :=
  d.filterMap (fun c => c.map (fun (k, v) => showKey (some k) ++ ":" ++ showVal v))

def parsePool (s : String) : List (Nat × Nat) :=
  (s.splitOn ",").map (fun el =>
    match el.splitOn "/" with
    | r :: h :: _ => (r.toNat?.getD 0, h.toNat?.getD 0)
    | _ => (0, 0))

def stepBoth (norm : Nat → Nat) (hash : Nat → Nat) (st : St) (o : Op Nat Nat) : St × String × String :=
  let r := st.sys.step norm hash o
  let s := st.ssys.step norm o
  ({ st with sys := r.1, ssys := s.1 }, showRes r.2, showRes s.2)

def runOp (setMode : Bool) (norm hash : Nat → Nat) (st : St) (tok : String) : St × String × String :=
  let c := tok.front
  let rest := (tok.drop 1).toString
  let err : St × String × String := (st, "err:parse", "err:parse")
  match c with
  | 's' => match rest.splitOn "." with
    | [k, v] => match k.toNat?, v.toNat? with
      | some k, some v => stepBoth norm hash st (.set k (if setMode then none else some v))
      | _, _ => err
    | _ => err
  | 'g' => match rest.toNat? with | some k => stepBoth norm hash st (.get k) | none => err
  | 'h' => match rest.toNat? with | some k => stepBoth norm hash st (.has k) | none => err
  | 'd' => match rest.toNat? with | some k => stepBoth norm hash st (.delete k) | none => err
  | 'c' => stepBoth norm hash st .clear
  | 'z' => stepBoth norm hash st .size
  | 'i' => match (rest.take 1).toString.toNat? with
    | some j =>
      if (rest.drop 1).toString == "a" then
        ({ st with aslots := st.aslots.set j (some none) }, "ok", "ok")
      else
      let st := { st with aslots := st.aslots.set j none }
      let idx := st.sys.iters.length
      let (st', a, b) := stepBoth norm hash st .newIter
      ({ st' with slots := st'.slots.set j (some idx) }, a, b)
    | none => err
  | 'n' => match rest.toNat? with
    | some j =>
      match st.aslots[j]? with
      | some (some a) =>
        let (mk, sk) := match a with
          | none => ((symIterNew st.sys.m).keys, Spec.ownKeys st.ssys.d)     -- object.go:1293 iterateSymbols
          | some p => p
        let (it', r) := symIterNext norm hash st.sys.m mk
        let (sk', rs) := Spec.assignNext norm st.ssys.d sk
        let sh : Option (Nat × Nat) → String := fun x => match x with
          | some (k, v) => "K" ++ toString k ++ ":v" ++ toString v
          | none => "done"
        ({ st with aslots := st.aslots.set j (some (some (it'.keys, sk'))) }, sh r, sh rs)
      | _ =>
      match st.slots[j]? with
      | some (some idx) => stepBoth norm hash st (.next idx)
      | _ => (st, "err:noiter", "err:noiter")
    | none => err
  | 'x' => match rest.toNat? with
    | some j => match st.slots[j]? with
      | some (some idx) => stepBoth norm hash st (.close idx)
      | _ => (st, "err:noiter", "err:noiter")
    | none => err
  | 'e' =>
    let a := "[" ++ "|".intercalate (listAllMech st.sys.m (st.sys.m.n + 2) newIter []) ++ "]"
    let b := "[" ++ "|".intercalate (listAllSpec st.ssys.d) ++ "]"
    (st, a, b)
  | _ => err

def runLine (line : String) : String :=
  match Proto.words line with
  | "ping" :: _ => "pong"
  | mode :: pool :: ops =>
    let pl := parsePool pool
    let norm : Nat → Nat := fun k => match pl[k]? with | some (r, _) => r | none => k
    let hash : Nat → Nat := fun k => match pl[k]? with | some (_, h) => h | none => 0
    let hashes := pl.map (·.2)
    let setMode := mode == "set"
    let (_, outs) := ops.foldl (fun (acc : St × List String) tok =>
      let (st, outs) := acc
      let (st', a, b) := runOp setMode norm hash st tok
      (st', (a ++ "@" ++ dump hashes st'.sys.m ++ "@" ++ b) :: outs)) (({} : St), [])
    " ".intercalate outs.reverse
  | _ => "ERR malformed"

def main : IO Unit := Proto.lineMap runLine

end GojaModel.C18.Driver
