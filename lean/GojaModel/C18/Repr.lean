/-
  C18 — which REPRESENTATION of a key is stored and handed back.  `RSpec` is ECMA-262 §24.1 [[MapData]] over key
  representations: a record is found when its key is in the SameValueZero class of the probe (`f k' = f (norm k)`);
  `set` on an existing key replaces the VALUE only — the record keeps its key object and its position — and a new key is
  appended after the −0 ↦ +0 step (`norm`).  The representation-keyed structure of Concrete.lean refines it EXACTLY
  (no reading through classes): every result, including the key objects returned by iterators, is the spec's.
-/
import GojaModel.C18.ConcreteM
import GojaModel.C18.LemmasH

namespace GojaModel.C18
section
variable {K K' V : Type} [DecidableEq K'] (norm : K → K) (f : K → K')

/-- `p.[[Key]] is not empty and SameValueZero(p.[[Key]], key)` on representations. -/
def rmatch (k : K) : Cell K V → Bool
  | some (k', _) => decide (f k' = f (norm k))
  | none => false

namespace RSpec

def find (d : MapData K V) (k : K) : Option Nat := d.findIdx? (rmatch norm f k)

/-- Map.prototype.set §24.1.3.9: step 4.a.i `Set p.[[Value]] to value` (key and position stay), step 5 `-0 → +0`,
step 6 append. -/
def set (d : MapData K V) (k : K) (v : Option V) : MapData K V :=
  match find norm f d k with
  | some i => match d[i]? with
    | some (some (k', _)) => d.set i (some (k', v))
    | _ => d
  | none => d ++ [some (norm k, v)]

def get (d : MapData K V) (k : K) : Option V :=
  match find norm f d k with
  | some i => match d[i]? with
    | some (some (_, v)) => v
    | _ => none
  | none => none

def has (d : MapData K V) (k : K) : Bool := (find norm f d k).isSome

def delete (d : MapData K V) (k : K) : MapData K V × Bool :=
  match find norm f d k with
  | some i => (d.set i none, true)
  | none => (d, false)

end RSpec

/-- The representation-level spec system (iterators, clear and size do not look at keys: `Spec.next/clear/size`). -/
def SpecSys.stepR (s : SpecSys K V) : Op K V → SpecSys K V × Res K V
  | .set k v => ({ s with d := RSpec.set norm f s.d k v }, .unit)
  | .get k => (s, .val (RSpec.get norm f s.d k))
  | .has k => (s, .bool (RSpec.has norm f s.d k))
  | .delete k => let r := RSpec.delete norm f s.d k; ({ s with d := r.1 }, .bool r.2)
  | .clear => ({ s with d := Spec.clear s.d }, .unit)
  | .size => (s, .nat (Spec.size s.d))
  | .newIter => ({ s with iters := s.iters ++ [{}] }, .unit)
  | .next j => match s.iters[j]? with
    | none => (s, .noiter)
    | some it =>
      let r := Spec.next s.d it
      ({ s with iters := s.iters.set j r.1 },
        match r.2 with
        | some c => match s.d[c]? with
          | some (some (k, v)) => .entry c (some k) v
          | _ => .entry c none none
        | none => .done)
  | .close j => match s.iters[j]? with
    | none => (s, .noiter)
    | some _ => ({ s with iters := s.iters.set j { done := true, index := 0 } }, .unit)

def SpecSys.runR (s : SpecSys K V) : List (Op K V) → SpecSys K V × List (Res K V)
  | [] => (s, [])
  | o :: os =>
    let r := s.stepR norm f o
    let rs := SpecSys.runR r.1 os
    (rs.1, r.2 :: rs.2)

/-! ### shape of the code after `lookup`, read through `abs` (no invariant needed) -/

theorem abs_setWith_some (m : OMap K V) (h e : Nat) (hp : Option Nat) (key : K) (v : Option V) (he : e < m.n) :
    abs (setWith (h, some e, hp) m key v) = (abs m).set e ((m.heap e).key.map (fun k => (k, v))) := by
  apply List.ext_getElem?
  intro i
  rw [List.getElem?_set, abs_getElem?, abs_getElem?, abs_length]
  simp only [setWith]
  by_cases hie : e = i
  · subst hie; simp [he, cellOf]
  · have : i ≠ e := fun h => hie h.symm
    simp [hie, this, cellOf]

theorem abs_setWith_none (m : OMap K V) (h : Nat) (hp : Option Nat) (key : K) (v : Option V) :
    abs (setWith (h, none, hp) m key v) = abs m ++ [some (key, v)] := by
  apply List.ext_getElem?
  intro i
  rw [List.getElem?_append, abs_getElem?, abs_getElem?, abs_length]
  rcases Nat.lt_trichotomy i m.n with h1 | h1 | h1
  · have hi2 : i ≠ m.n := by omega
    have hi3 : i < m.n + 1 := by omega
    cases hp <;> cases hl : m.iterLast <;> simp [setWith, hl, h1, hi2, hi3, cellOf]
  · subst h1
    cases hp <;> cases hl : m.iterLast <;> simp [setWith, hl, cellOf]
  · have hi2 : ¬ i < m.n := by omega
    have hi3 : ¬ i < m.n + 1 := by omega
    have hi4 : i - m.n ≠ 0 := by omega
    cases hp <;> cases hl : m.iterLast <;> simp [setWith, hl, hi2, hi3, hi4]

theorem abs_removeWith_some (m : OMap K V) (h e : Nat) (hp : Option Nat) (he : e < m.n) :
    abs (removeWith (h, some e, hp) m).1 = (abs m).set e none := by
  apply List.ext_getElem?
  intro i
  rw [List.getElem?_set, abs_getElem?, abs_getElem?, abs_length]
  simp only [removeWith]
  cases hp <;> cases (m.heap e).iterPrev <;> cases (m.heap e).iterNext <;> simp only [] <;>
    by_cases h1 : i < m.n <;> by_cases h2 : i = e <;>
    simp [h1, h2, he, cellOf, eq_comm] <;> (try omega) <;> (intro h3; exact absurd h3.symm h2)

end
end GojaModel.C18
