/-
  C18 — the instance of the second-level refinement: goja's values (`Key`), `sameAsK`, `normKeyK`, `hashK`, read through
  `cls`, satisfy `Bridge`.
-/
import GojaModel.C18.ConcreteM
import GojaModel.C18.Values

namespace GojaModel.C18
open GojaModel

theorem normKey_idem (a : Num) : Num.normKey (Num.normKey a) = Num.normKey a := by
  cases a with
  | int i => rfl
  | flt f =>
    simp only [Num.normKey]
    by_cases hz : f.isZero = true
    · simp [hz, Num.normKey]
    · simp [hz, Num.normKey]

theorem normKeyK_idem (k : Key) : normKeyK (normKeyK k) = normKeyK k := by
  cases k <;> simp [normKeyK, normKey_idem]

theorem wf_normKeyK {k : Key} (h : k.WF) : (normKeyK k).WF := by
  cases k <;> simp [normKeyK, Key.WF] at *
  · exact C05.canon_normKey h
  · exact h

theorem cls_normKeyK (k : Key) : cls (normKeyK k) = cls k := by
  cases k <;> simp [normKeyK, cls, normKey_idem]

/-- Storable: well-formed and already normalised (what `set` writes into an entry). -/
def Storable (k : Key) : Prop := k.WF ∧ normKeyK k = k

theorem keyBridge (mh : List UInt8 → Nat) (ph : Nat → Nat) (hashC : KeyClass → Nat)
    (hh : ∀ a : Key, a.WF → hashK mh ph (normKeyK a) = hashC (cls a)) :
    Bridge sameAsK normKeyK (hashK mh ph) cls hashC Storable Key.WF := by
  constructor
  · intro k hk; exact ⟨wf_normKeyK hk, normKeyK_idem k⟩
  · intro k' k hs hk
    have h1 := sameAs_norm_eq_svz' hs.1 hk
    rw [hs.2] at h1
    rw [h1, cls_normKeyK]
    exact Bool.eq_iff_iff.2 (by simpa using (cls_eq_iff_svz' hs.1 hk).symm)
  · intro k hk
    rw [hh k hk, cls_normKeyK]

end GojaModel.C18
