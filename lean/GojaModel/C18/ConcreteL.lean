/-
  C18 — `mapKeys f` commutes with every operation of the representation-keyed structure (lemmas for Props).
-/
import GojaModel.C18.Concrete

namespace GojaModel.C18
section
variable {K K' V : Type} (f : K → K')

abbrev mh (f : K → K') (hp : Nat → Entry K V) : Nat → Entry K' V := fun j => mapEntry f (hp j)

@[simp] theorem mapEntry_iterPrev (e : Entry K V) : (mapEntry f e).iterPrev = e.iterPrev := rfl
@[simp] theorem mapEntry_iterNext (e : Entry K V) : (mapEntry f e).iterNext = e.iterNext := rfl
@[simp] theorem mapEntry_hNext (e : Entry K V) : (mapEntry f e).hNext = e.hNext := rfl
@[simp] theorem mapEntry_val (e : Entry K V) : (mapEntry f e).val = e.val := rfl
@[simp] theorem mapEntry_key (e : Entry K V) : (mapEntry f e).key = e.key.map f := rfl

theorem map_setHNext (hp : Nat → Entry K V) (i : Nat) (v : Option Nat) :
    mh f (setHNext hp i v) = setHNext (mh f hp) i v := by
  funext j; simp only [mh, setHNext]; split <;> rfl

theorem map_setIterNext (hp : Nat → Entry K V) (i : Nat) (v : Option Nat) :
    mh f (setIterNext hp i v) = setIterNext (mh f hp) i v := by
  funext j; simp only [mh, setIterNext]; split <;> rfl

theorem map_setIterPrev (hp : Nat → Entry K V) (i : Nat) (v : Option Nat) :
    mh f (setIterPrev hp i v) = setIterPrev (mh f hp) i v := by
  funext j; simp only [mh, setIterPrev]; split <;> rfl

theorem map_setVal (hp : Nat → Entry K V) (i : Nat) (v : Option V) :
    mh f (setVal hp i v) = setVal (mh f hp) i v := by
  funext j; simp only [mh, setVal]; split <;> rfl

theorem map_setKV_none (hp : Nat → Entry K V) (i : Nat) :
    mh f (setKV hp i none none) = setKV (mh f hp) i none none := by
  funext j; simp only [mh, setKV]; split <;> rfl

theorem map_upd_new (hp : Nat → Entry K V) (i : Nat) (k : K) (v : Option V) :
    mh f (upd hp i { key := some k, val := v }) = upd (mh f hp) i { key := some (f k), val := v } := by
  funext j; simp only [mh, upd]; split <;> rfl

theorem setWith_map (r : Nat × Option Nat × Option Nat) (m : OMap K V) (key : K) (v : Option V) :
    mapKeys f (setWith r m key v) = setWith r (mapKeys f m) (f key) v := by
  obtain ⟨h, e, hPrev⟩ := r
  cases e with
  | some e =>
    simp only [setWith, mapKeys]
    congr 1
    exact map_setVal f m.heap e v
  | none =>
    cases hPrev <;> cases hl : m.iterLast <;>
      simp only [setWith, mapKeys, hl] <;> congr 1 <;>
      simp only [← map_setIterNext, ← map_setIterPrev, ← map_setHNext, ← map_upd_new] <;> rfl

theorem getWith_map (r : Nat × Option Nat × Option Nat) (m : OMap K V) :
    getWith r (mapKeys f m) = getWith r m := by
  obtain ⟨h, e, hPrev⟩ := r
  cases e <;> rfl

theorem removeWith_map (r : Nat × Option Nat × Option Nat) (m : OMap K V) :
    (mapKeys f (removeWith r m).1, (removeWith r m).2) = removeWith r (mapKeys f m) := by
  obtain ⟨h, e, hPrev⟩ := r
  cases e with
  | none => rfl
  | some e =>
    cases hPrev <;> cases hp : (m.heap e).iterPrev <;> cases hq : (m.heap e).iterNext <;>
      simp only [removeWith, mapKeys, mapEntry_iterPrev, mapEntry_iterNext, mapEntry_hNext, hp, hq,
        ← map_setIterNext, ← map_setIterPrev, ← map_setHNext, ← map_setKV_none]

theorem clearBody_map (hp : Nat → Entry K V) (i : Nat) : mh f (clearBody hp i) = clearBody (mh f hp) i := by
  unfold clearBody
  cases h : (hp i).iterPrev <;> simp only [mh, mapEntry, h] <;>
    simp only [← map_setIterNext, ← map_setKV_none] <;> rfl

theorem clearWalk_map : ∀ (fuel : Nat) (hp : Nat → Entry K V) (item : Option Nat),
    mh f (clearWalk fuel hp item) = clearWalk fuel (mh f hp) item := by
  intro fuel
  induction fuel with
  | zero => intro hp item; rfl
  | succ n ih =>
    intro hp item
    cases item with
    | none => rfl
    | some i =>
      simp only [clearWalk]
      rw [ih, clearBody_map]
      have h : (clearBody (mh f hp) i i).iterNext = (clearBody hp i i).iterNext := by
        rw [← clearBody_map]; rfl
      rw [h]

theorem clear_map (m : OMap K V) : mapKeys f (clear m) = clear (mapKeys f m) := by
  simp only [clear, mapKeys]
  congr 1
  exact clearWalk_map f _ _ _

theorem backWalk_map (hp : Nat → Entry K V) : ∀ (fuel : Nat) (c : Option Nat),
    backWalk (mh f hp) fuel c = backWalk hp fuel c := by
  intro fuel
  induction fuel with
  | zero => intro c; rfl
  | succ n ih =>
    intro c
    cases c with
    | none => rfl
    | some i =>
      simp only [backWalk, mh, mapEntry, Option.isNone_map]
      rw [← ih]

theorem next_map (m : OMap K V) (it : Iter) : next (mapKeys f m) it = next m it := by
  unfold next
  have : nextTarget (mapKeys f m).heap (mapKeys f m).iterFirst it.cur = nextTarget m.heap m.iterFirst it.cur := by
    cases hc : it.cur with
    | none => rfl
    | some c =>
      simp only [nextTarget, mapKeys]
      rw [show (fun i => mapEntry f (m.heap i)) = mh f m.heap from rfl, backWalk_map]
      cases backWalk m.heap (c + 1) (some c) <;> rfl
  rw [this]

end
end GojaModel.C18
