/-
  C18 — the symbol-key iterator of ordinary objects after fix a9d0bdc (object.go:1270-1303): a snapshot of the symbol keys
  taken with a full orderedMap iteration (`symbols(true, nil)`, object.go:1390-1400), then one `symValues.get` per key.
  Core Lean only (linked into the driver).  Also `drain` = "drive a fresh orderedMapIter to the end", which is what
  `symbols`, `Map/Set export`, `forEach` without mutation, `Array.from` … do.
-/
import GojaModel.C18.Model

namespace GojaModel.C18
section
variable {K V : Type}

/-- Keys yielded by driving iterator `it` to exhaustion (object.go:1392-1400: `for { entry := iter.next(); if entry == nil
{break}; accum = append(accum, entry.key) }`).  `fuel` bounds the loop; `m.n + 1` always suffices. -/
def drain (m : OMap K V) : Nat → Iter → List K
  | 0, _ => []
  | f + 1, it =>
    match next m it with
    | (it', some c) =>
      match (m.heap c).key with
      | some k => k :: drain m f it'
      | none => drain m f it'          -- unreachable: `next` only returns live entries
    | (_, none) => []

/-- `o.symbols(true, nil)` (object.go:1390): all symbol keys in insertion order. -/
def symbolsAll (m : OMap K V) : List K := drain m (m.n + 1) newIter

/-- `objectSymbolIter` (object.go:1273): the not yet visited part of the snapshot (`keys[idx:]`). -/
structure SymIter (K : Type) where
  keys : List K

variable [DecidableEq K] (norm : K → K) (hash : K → Nat)

/-- `iterateSymbols` (object.go:1293-1299). -/
def symIterNew (m : OMap K V) : SymIter K := ⟨symbolsAll m⟩

/-- `objectSymbolIter.next` (object.go:1279-1291) against the CURRENT state `m` of the symbol table. -/
def symIterNext (m : OMap K V) : List K → SymIter K × Option (K × V)
  | [] => (⟨[]⟩, none)
  | k :: rest =>
    match get norm hash m k with                 -- object.go:1283 `val := symValues.get(key); val != nil`
    | some v => (⟨rest⟩, some (k, v))
    | none => symIterNext m rest

/-! Spec: ECMA-262 7.3.26 CopyDataProperties / 20.1.2.1 Object.assign restricted to symbol keys —
`keys = from.[[OwnPropertyKeys]]()` once; for each `nextKey`: `desc = from.[[GetOwnProperty]](nextKey)`; if defined,
`propValue = Get(from, nextKey)` and the key is visited. -/
namespace Spec

/-- `[[OwnPropertyKeys]]` on the ordered property list. -/
def ownKeys (d : MapData K V) : List K := d.filterMap (fun c => c.map Prod.fst)

def assignNext (d : MapData K V) : List K → List K × Option (K × V)
  | [] => ([], none)
  | k :: rest =>
    match get norm d k with
    | some v => (rest, some (k, v))
    | none => assignNext d rest

end Spec
end
end GojaModel.C18
