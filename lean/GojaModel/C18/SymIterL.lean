/-
  C18 — lemmas about full iteration (`drain`) and the snapshot iterator of symbol keys.
-/
import GojaModel.C18.LemmasH
import GojaModel.C18.SymIter

namespace GojaModel.C18
section
variable {K V : Type}

/-- Live keys of the entries `b, b+1, …, b+f-1` in allocation order. -/
def keysFrom (m : OMap K V) : Nat → Nat → List K
  | _, 0 => []
  | b, f + 1 =>
    match (m.heap b).key with
    | some k => k :: keysFrom m (b + 1) f
    | none => keysFrom m (b + 1) f

theorem keysFrom_eq_filterMap (m : OMap K V) : ∀ f b,
    keysFrom m b f = (List.range' b f).filterMap (fun i => (m.heap i).key) := by
  intro f
  induction f with
  | zero => intro b; rfl
  | succ f ih =>
    intro b
    rw [List.range'_succ, List.filterMap_cons]
    simp only [keysFrom]
    cases (m.heap b).key <;> simp [ih]

theorem ownKeys_abs (m : OMap K V) : Spec.ownKeys (abs m) = keysFrom m 0 m.n := by
  rw [keysFrom_eq_filterMap, ← List.range_eq_range']
  simp only [Spec.ownKeys, abs, List.filterMap_map]
  congr 1
  funext i
  simp only [Function.comp, cellOf]
  cases (m.heap i).key <;> rfl

theorem keysFrom_skip_dead (m : OMap K V) : ∀ d b f, (∀ k, b ≤ k → k < b + d → (m.heap k).key = none) →
    keysFrom m b (d + f) = keysFrom m (b + d) f := by
  intro d
  induction d with
  | zero => intro b f _; simp
  | succ d ih =>
    intro b f h
    have hb := h b (Nat.le_refl _) (by omega)
    rw [show d + 1 + f = (d + f) + 1 by omega]
    simp only [keysFrom, hb]
    rw [ih (b + 1) f (fun k h1 h2 => h k (by omega) (by omega))]
    congr 1; omega

theorem keysFrom_all_dead (m : OMap K V) : ∀ f b, (∀ k, b ≤ k → k < b + f → (m.heap k).key = none) →
    keysFrom m b f = [] := by
  intro f
  induction f with
  | zero => intro b _; rfl
  | succ f ih =>
    intro b h
    simp only [keysFrom, h b (Nat.le_refl _) (by omega)]
    exact ih (b + 1) (fun k h1 h2 => h k (by omega) (by omega))

theorem mem_keysFrom (m : OMap K V) : ∀ f b k, k ∈ keysFrom m b f → ∃ i, b ≤ i ∧ i < b + f ∧ (m.heap i).key = some k := by
  intro f
  induction f with
  | zero => intro b k h; simp [keysFrom] at h
  | succ f ih =>
    intro b k h
    simp only [keysFrom] at h
    cases hb : (m.heap b).key with
    | none =>
      rw [hb] at h
      obtain ⟨i, h1, h2, h3⟩ := ih (b + 1) k h
      exact ⟨i, by omega, by omega, h3⟩
    | some k0 =>
      rw [hb] at h
      simp only [List.mem_cons] at h
      rcases h with h | h
      · exact ⟨b, Nat.le_refl _, by omega, by rw [hb, h]⟩
      · obtain ⟨i, h1, h2, h3⟩ := ih (b + 1) k h
        exact ⟨i, by omega, by omega, h3⟩

variable [DecidableEq K] (norm : K → K) (hash : K → Nat)

theorem keysFrom_nodup {m : OMap K V} (I : Inv norm hash m) : ∀ f b, b + f ≤ m.n → (keysFrom m b f).Nodup := by
  intro f
  induction f with
  | zero => intro b _; simp [keysFrom]
  | succ f ih =>
    intro b hb
    simp only [keysFrom]
    cases hk : (m.heap b).key with
    | none => exact ih (b + 1) (by omega)
    | some k =>
      simp only [List.nodup_cons]
      refine ⟨fun hmem => ?_, ih (b + 1) (by omega)⟩
      obtain ⟨i, h1, h2, h3⟩ := mem_keysFrom m f (b + 1) k hmem
      have := I.uniq i b k (by omega) (by omega) h3 hk
      omega

/-- Where an open iterator goes next (restated from `next_refines`' proof for use on `drain`). -/
theorem next_least {m : OMap K V} (I : Inv norm hash m) (it : Iter) (hw : IterWf m it) (ho : it.closed = false) :
    NextSpec m.n (liveOf m.heap) (absIter it).index (next m it).2 ∧
    (∀ c, (next m it).2 = some c → (next m it).1 = { closed := false, cur := some c }) := by
  have hT : NextSpec m.n (liveOf m.heap) (absIter it).index (nextTarget m.heap m.iterFirst it.cur) := by
    unfold absIter
    cases hcur : it.cur with
    | none => exact first_spec I.list
    | some c => exact next_spec m.heap I.list c (hw c hcur)
  unfold next
  simp only [ho, Bool.false_eq_true, if_false]
  cases h : nextTarget m.heap m.iterFirst it.cur with
  | none => rw [h] at hT; exact ⟨hT, fun c hc => by simp at hc⟩
  | some c => rw [h] at hT; exact ⟨hT, fun c' hc => by simp at hc; subst hc; rfl⟩

/-- Driving an iterator to the end yields exactly the live keys above its position, in allocation order. -/
theorem drain_spec {m : OMap K V} (I : Inv norm hash m) : ∀ fuel (it : Iter), IterWf m it → it.closed = false →
    (absIter it).index ≤ m.n → m.n - (absIter it).index < fuel →
    drain m fuel it = keysFrom m (absIter it).index (m.n - (absIter it).index) := by
  intro fuel
  induction fuel with
  | zero => intro it _ _ _ h; omega
  | succ f ih =>
    intro it hw ho hle hf
    obtain ⟨hN, hS⟩ := next_least norm hash I it hw ho
    simp only [drain]
    cases hr : (next m it).2 with
    | none =>
      have hd := hN.1 hr
      have hpair : next m it = ((next m it).1, none) := Prod.ext rfl hr
      rw [hpair]
      simp only
      symm
      apply keysFrom_all_dead
      intro k h1 h2
      have := hd k h1 (by omega)
      simp only [liveOf] at this
      cases hk : (m.heap k).key with
      | none => rfl
      | some x => rw [hk] at this; simp at this
    | some c =>
      obtain ⟨c1, c2, c3, c4⟩ := hN.2 c hr
      have hst := hS c hr
      have hpair : next m it = ({ closed := false, cur := some c }, some c) := Prod.ext hst hr
      rw [hpair]
      simp only
      simp only [liveOf] at c3
      cases hk : (m.heap c).key with
      | none => simp [hk] at c3
      | some k =>
        simp only
        have hw' : IterWf m { closed := false, cur := some c } := by intro x hx; simp at hx; omega
        rw [ih { closed := false, cur := some c } hw' rfl (by simp [absIter]; omega) (by simp [absIter]; omega)]
        have hsplit : m.n - (absIter it).index = (c - (absIter it).index) + (m.n - c) := by omega
        rw [hsplit, keysFrom_skip_dead m (c - (absIter it).index) (absIter it).index (m.n - c)]
        · have e1 : (absIter it).index + (c - (absIter it).index) = c := by omega
          rw [e1]
          have e2 : m.n - c = (m.n - (c + 1)) + 1 := by omega
          rw [e2]
          simp only [keysFrom, hk, absIter]
        · intro x h1 h2
          have := c4 x h1 (by omega)
          simp only [liveOf] at this
          cases hx : (m.heap x).key with
          | none => rfl
          | some y => rw [hx] at this; simp at this

/-- With ANY bound on the number of `next()` calls: the first `fuel` live keys above the iterator's position. -/
theorem drain_take {m : OMap K V} (I : Inv norm hash m) : ∀ fuel (it : Iter), IterWf m it → it.closed = false →
    (absIter it).index ≤ m.n →
    drain m fuel it = (keysFrom m (absIter it).index (m.n - (absIter it).index)).take fuel := by
  intro fuel
  induction fuel with
  | zero => intro it _ _ _; simp [drain]
  | succ f ih =>
    intro it hw ho hle
    obtain ⟨hN, hS⟩ := next_least norm hash I it hw ho
    simp only [drain]
    cases hr : (next m it).2 with
    | none =>
      have hd := hN.1 hr
      have hpair : next m it = ((next m it).1, none) := Prod.ext rfl hr
      rw [hpair]
      simp only
      rw [keysFrom_all_dead]
      · simp
      · intro k h1 h2
        have := hd k h1 (by omega)
        simp only [liveOf] at this
        cases hk : (m.heap k).key with
        | none => rfl
        | some x => rw [hk] at this; simp at this
    | some c =>
      obtain ⟨c1, c2, c3, c4⟩ := hN.2 c hr
      have hst := hS c hr
      have hpair : next m it = ({ closed := false, cur := some c }, some c) := Prod.ext hst hr
      rw [hpair]
      simp only
      simp only [liveOf] at c3
      cases hk : (m.heap c).key with
      | none => simp [hk] at c3
      | some k =>
        simp only
        have hw' : IterWf m { closed := false, cur := some c } := by intro x hx; simp at hx; omega
        rw [ih { closed := false, cur := some c } hw' rfl (by simp [absIter]; omega)]
        have hsplit : m.n - (absIter it).index = (c - (absIter it).index) + (m.n - c) := by omega
        rw [hsplit, keysFrom_skip_dead m (c - (absIter it).index) (absIter it).index (m.n - c)]
        · have e1 : (absIter it).index + (c - (absIter it).index) = c := by omega
          rw [e1]
          have e2 : m.n - c = (m.n - (c + 1)) + 1 := by omega
          rw [e2]
          simp only [keysFrom, hk, absIter, List.take_succ_cons]
        · intro x h1 h2
          have := c4 x h1 (by omega)
          simp only [liveOf] at this
          cases hx : (m.heap x).key with
          | none => rfl
          | some y => rw [hx] at this; simp at this

theorem keysFrom_length (m : OMap K V) : ∀ f b, (keysFrom m b f).length + liveCount (liveOf m.heap) b =
    liveCount (liveOf m.heap) (b + f) := by
  intro f
  induction f with
  | zero => intro b; simp [keysFrom]
  | succ f ih =>
    intro b
    have := ih (b + 1)
    rw [show b + (f + 1) = b + 1 + f by omega]
    simp only [keysFrom]
    cases hk : (m.heap b).key with
    | none =>
      have hl : liveOf m.heap b = false := by simp [liveOf, hk]
      simp only [liveCount, hl] at this ⊢
      simpa using this
    | some k =>
      have hl : liveOf m.heap b = true := by simp [liveOf, hk]
      simp only [liveCount, hl, List.length_cons] at this ⊢
      simp at this ⊢
      omega

/-- `symbols(true)` / a full export: exactly the spec's `[[OwnPropertyKeys]]`, each key once. -/
theorem symbolsAll_spec {m : OMap K V} (I : Inv norm hash m) :
    symbolsAll m = Spec.ownKeys (abs m) ∧ (symbolsAll m).Nodup := by
  have h : symbolsAll m = keysFrom m 0 m.n := by
    unfold symbolsAll
    have := drain_spec norm hash I (m.n + 1) newIter (fun c hc => by simp [newIter] at hc) rfl
      (by simp [absIter, newIter]) (by simp [absIter, newIter])
    simpa [absIter, newIter] using this
  rw [h, ownKeys_abs]
  exact ⟨rfl, keysFrom_nodup norm hash I m.n 0 (by omega)⟩

/-- `mapObject.export` / `setObject.export` / `exportToArrayOrSlice` (builtin_map.go:53-68, builtin_set.go:52-64, 67-90)
allocate `size` slots and call `next()` at most `size` times: because `size` is the number of live entries this is the
full iteration. -/
theorem export_spec {m : OMap K V} (I : Inv norm hash m) : drain m m.size newIter = Spec.ownKeys (abs m) := by
  have h := drain_take norm hash I m.size newIter (fun c hc => by simp [newIter] at hc) rfl
    (by simp [absIter, newIter])
  have hlen := keysFrom_length m m.n 0
  have h' : drain m m.size newIter = List.take m.size (keysFrom m 0 m.n) := by
    simpa [absIter, newIter] using h
  rw [h', ownKeys_abs, I.size]
  simp only [liveCount, Nat.zero_add, Nat.add_zero] at hlen
  rw [← hlen, List.take_length]

/-- The snapshot iterator's step equals the spec's CopyDataProperties step on the abstracted state. -/
theorem symIterNext_refines {m : OMap K V} (I : Inv norm hash m) (hnorm : ∀ k, norm (norm k) = norm k) :
    ∀ ks, (symIterNext norm hash m ks).1.keys = (Spec.assignNext norm (abs m) ks).1 ∧
          (symIterNext norm hash m ks).2 = (Spec.assignNext norm (abs m) ks).2 := by
  intro ks
  induction ks with
  | nil => exact ⟨rfl, rfl⟩
  | cons k rest ih =>
    simp only [symIterNext, Spec.assignNext, get_refines norm hash I hnorm k]
    cases Spec.get norm (abs m) k with
    | none => exact ih
    | some v => exact ⟨rfl, rfl⟩

/-- One `next()` of the snapshot iterator against an ARBITRARY current state: it pops a prefix of keys that are all
absent now, and either stops on a key that is present (yielding its current value) or exhausts the snapshot. -/
theorem symIterNext_spec (m : OMap K V) : ∀ ks, ∃ skipped,
    (∀ s, s ∈ skipped → get norm hash m s = none) ∧
    (match (symIterNext norm hash m ks).2 with
     | some (k, v) => ks = skipped ++ k :: (symIterNext norm hash m ks).1.keys ∧ get norm hash m k = some v
     | none => ks = skipped ∧ (symIterNext norm hash m ks).1.keys = []) := by
  intro ks
  induction ks with
  | nil => exact ⟨[], fun s h => by simp at h, by simp [symIterNext]⟩
  | cons k rest ih =>
    simp only [symIterNext]
    cases hg : get norm hash m k with
    | some v => exact ⟨[], fun s h => by simp at h, by simp [hg]⟩
    | none =>
      obtain ⟨sk, h1, h2⟩ := ih
      refine ⟨k :: sk, ?_, ?_⟩
      · intro s hs
        simp only [List.mem_cons] at hs
        rcases hs with hs | hs
        · rw [hs]; exact hg
        · exact h1 s hs
      · simp only
        cases hr : (symIterNext norm hash m rest).2 with
        | none => rw [hr] at h2; simp only at h2 ⊢; exact ⟨congrArg (List.cons k) h2.1, h2.2⟩
        | some kv =>
          obtain ⟨k', v'⟩ := kv
          rw [hr] at h2; simp only at h2 ⊢
          exact ⟨congrArg (List.cons k) h2.1, h2.2⟩

/-- Keys visited by successive `next()` calls, the i-th call seeing the (arbitrary) state `ms[i]`. -/
def symYields : List K → List (OMap K V) → List K
  | _, [] => []
  | ks, m :: ms =>
    match symIterNext norm hash m ks with
    | (it', some (k, _)) => k :: symYields it'.keys ms
    | (_, none) => []

/-- Whatever happens to the table between the calls: the visited keys are a sub-sequence of the snapshot. -/
theorem symYields_sublist : ∀ (ms : List (OMap K V)) (ks : List K), (symYields norm hash ks ms).Sublist ks := by
  intro ms
  induction ms with
  | nil => intro ks; simp [symYields]
  | cons m ms ih =>
    intro ks
    obtain ⟨sk, _, h2⟩ := symIterNext_spec norm hash m ks
    simp only [symYields]
    cases hr : symIterNext norm hash m ks with
    | mk it' r =>
      cases r with
      | none => simp
      | some kv =>
        obtain ⟨k, v⟩ := kv
        rw [hr] at h2; simp only at h2
        simp only
        rw [h2.1]
        exact ((ih it'.keys).cons_cons k).trans (List.sublist_append_right sk _)

end
end GojaModel.C18
