/-
  C18 — property theorems.  Mechanism model = /repo/map.go as transcribed in Model.lean (append-only entry heap,
  iterPrev/iterNext/hNext links, hash table, tombstones that keep their back-links); spec model = ECMA-262 [[MapData]]
  list with `empty` holes and index-based iterators.  All statements are for arbitrary key/value types, an arbitrary
  idempotent canonicaliser `norm` (the -0 ↦ +0 step) and an ARBITRARY hash function; none is bounded in the number of
  entries, iterators or operations.
-/
import GojaModel.C18.LemmasH
import GojaModel.C18.Values
import GojaModel.C18.ConcreteV
import GojaModel.C18.SymIterL

namespace GojaModel.C18
section
variable {K V : Type} [DecidableEq K] (norm : K → K) (hash : K → Nat)

/-- The empty map satisfies the invariant (`newOrderedMap`, map.go:143). -/
theorem inv_init : Inv norm hash ({} : OMap K V) := Inv.empty norm hash

/-- `set` preserves the invariant (both the update path and the append path with all four link shapes). -/
theorem inv_preserved_set {m : OMap K V} (I : Inv norm hash m) (hnorm : ∀ k, norm (norm k) = norm k)
    (k : K) (v : Option V) : Inv norm hash (set norm hash m k v) := inv_set norm hash I hnorm k v

/-- `remove` preserves the invariant: the removed entry becomes a tombstone whose iterPrev chain still leads to the
greatest live entry before it; list and bucket neighbours are relinked. -/
theorem inv_preserved_remove {m : OMap K V} (I : Inv norm hash m) (k : K) :
    Inv norm hash (remove norm hash m k).1 := inv_remove norm hash I k

/-- `clear` preserves the invariant: every live entry becomes a tombstone and keeps its iterPrev. -/
theorem inv_preserved_clear {m : OMap K V} (I : Inv norm hash m) : Inv norm hash (clear m) :=
  inv_clear norm hash I

/-- Results and successor states of set/get/has/delete/clear/size equal those of the [[MapData]] list;
in particular `size` is the number of non-empty records. -/
theorem ops_refine_mapdata {m : OMap K V} (I : Inv norm hash m) (hnorm : ∀ k, norm (norm k) = norm k)
    (k : K) (v : Option V) :
    abs (set norm hash m k v) = Spec.set norm (abs m) k v ∧
    get norm hash m k = Spec.get norm (abs m) k ∧
    has norm hash m k = Spec.has norm (abs m) k ∧
    abs (remove norm hash m k).1 = (Spec.delete norm (abs m) k).1 ∧
    (remove norm hash m k).2 = (Spec.delete norm (abs m) k).2 ∧
    abs (clear m) = Spec.clear (abs m) ∧
    m.size = Spec.size (abs m) :=
  ⟨abs_set norm hash I hnorm k v, get_refines norm hash I hnorm k, has_refines norm hash I hnorm k,
   (remove_refines norm hash I hnorm k).1, (remove_refines norm hash I hnorm k).2,
   clear_refines norm hash I, size_refines norm hash I⟩

/-- One step of a live iterator: the mechanism (`track back over tombstones, then iterNext / iterFirst`) and the spec
(`advance the index to the next non-empty record`) yield the same record and stay related. -/
theorem iter_refines {m : OMap K V} (I : Inv norm hash m) (it : Iter) (hw : IterWf m it) :
    (Spec.next (abs m) (absIter it)).1 = absIter (next m it).1 ∧
    (Spec.next (abs m) (absIter it)).2 = (next m it).2 ∧
    IterWf m (next m it).1 :=
  ⟨(next_refines norm hash I it hw).1, (next_refines norm hash I it hw).2.1, (next_refines norm hash I it hw).2.2.1⟩

/-- No skip, no revisit, insertion order: an open iterator resting on `cur` yields exactly the LEAST live entry
allocated after `cur` (least live entry overall if it has not started), whatever was deleted, cleared or inserted
since it last moved; it finishes only if there is none. -/
theorem iter_yields_least_live_above {m : OMap K V} (I : Inv norm hash m) (it : Iter) (hw : IterWf m it)
    (ho : it.closed = false) :
    NextSpec m.n (liveOf m.heap) (absIter it).index (next m it).2 := by
  have hT : NextSpec m.n (liveOf m.heap) (absIter it).index (nextTarget m.heap m.iterFirst it.cur) := by
    unfold absIter
    cases hcur : it.cur with
    | none => exact first_spec I.list
    | some c => exact next_spec m.heap I.list c (hw c hcur)
  unfold next
  simp only [ho, Bool.false_eq_true, if_false]
  cases h : nextTarget m.heap m.iterFirst it.cur with
  | none => rw [h] at hT; exact hT
  | some c => rw [h] at hT; exact hT

/-- End-to-end: for EVERY history of set/get/has/delete/clear/size/newIter/next/close, with any number of live
iterators advanced at arbitrary points, the observable results of the mechanism equal those of the spec. -/
theorem history_refines (hnorm : ∀ k, norm (norm k) = norm k) (ops : List (Op K V)) :
    (Sys.run norm hash ({} : Sys K V) ops).2 = (SpecSys.run norm ({} : SpecSys K V) ops).2 :=
  (run_refines norm hash hnorm ops {} {} (Sim.init norm hash)).1

/-- After every history the invariant holds: in particular every stored key is normalised (−0 is never stored),
live keys are pairwise distinct, and `size` is the number of live entries. -/
theorem reachable_inv (hnorm : ∀ k, norm (norm k) = norm k) (ops : List (Op K V)) :
    Inv norm hash (Sys.run norm hash ({} : Sys K V) ops).1.m :=
  (run_refines norm hash hnorm ops {} {} (Sim.init norm hash)).2.inv

end

/-! ### Value level: goja's per-type hash / SameAs (number model of C05, string model of C06) vs SameValueZero -/

/-- SameValueZero-equal keys feed the same thing to the hasher after the −0 normalisation of `lookup`:
`1` and a float-computed `1`, `+0`/`−0`, every NaN, ASCII / UTF-16 / imported (scanned or not) strings with the same
code units.  Numbers must be canonical (C05 `Canon`), strings in normal form (C06 `NF`). -/
theorem hash_respects_svz {a b : Key} (ha : a.WF) (hb : b.WF) (h : svz a b = true) :
    hashPreK (normKeyK a) = hashPreK (normKeyK b) := hash_respects_svz' ha hb h

/-- … hence the same bucket, whatever function maphash computes and wherever objects live. -/
theorem hash_respects_svz_any_hasher (mh : List UInt8 → Nat) (ph : Nat → Nat) {a b : Key} (ha : a.WF) (hb : b.WF)
    (h : svz a b = true) : hashK mh ph (normKeyK a) = hashK mh ph (normKeyK b) := by
  unfold hashK; rw [hash_respects_svz' ha hb h]

/-- The `SameAs` test of the bucket walk, applied to normalised keys, is SameValueZero. -/
theorem sameAs_norm_eq_svz {a b : Key} (ha : a.WF) (hb : b.WF) :
    sameAsK (normKeyK a) (normKeyK b) = svz a b := sameAs_norm_eq_svz' ha hb

/-- The whole decision of `lookup` for a stored key `a` and a probe `b` (same bucket ∧ SameAs) is SameValueZero. -/
theorem lookup_decision_eq_svz (mh : List UInt8 → Nat) (ph : Nat → Nat) {a b : Key} (ha : a.WF) (hb : b.WF) :
    (hashK mh ph (normKeyK a) == hashK mh ph (normKeyK b) && sameAsK (normKeyK a) (normKeyK b)) = svz a b := by
  rw [sameAs_norm_eq_svz' ha hb]
  cases h : svz a b with
  | false => simp
  | true => simp [hash_respects_svz_any_hasher mh ph ha hb h]

/-- −0 is normalised to integer +0 at the door, no stored numeric key is a zero float, and SameValueZero-equal
canonical numbers are stored as the very same representation (so it does not matter which one arrived first). -/
theorem neg_zero_normalised :
    normKeyK (.num (.flt F64.negZero)) = .num (.int 0) ∧
    (∀ a f, normKeyK a = .num (.flt f) → f.isZero = false) ∧
    (∀ a b, Num.Canon a → Num.Canon b → Num.specSameValueZero a.toF64 b.toF64 = true →
        normKeyK (.num a) = normKeyK (.num b)) := by
  refine ⟨by simp [normKeyK, Num.normKey, F64.negZero, F64.mk', F64.isZero], ?_, ?_⟩
  · intro a f h
    cases a with
    | num x =>
      cases x with
      | int i => simp [normKeyK, Num.normKey] at h
      | flt g =>
        simp only [normKeyK, Num.normKey] at h
        by_cases hz : g.isZero = true
        · simp [hz] at h
        · simp [hz] at h; subst h; simpa using hz
    | str s => simp [normKeyK] at h
    | big i => simp [normKeyK] at h
    | other i => simp [normKeyK] at h
  · intro a b ha hb h
    simp only [normKeyK]
    rw [(normKey_eq_iff_svz ha hb).2 h]

/-- BigInt keys: distinct BigInts write distinct bytes to the hasher (sign byte + big-endian magnitude), equal ones the
same — so `hash_respects_svz` and `lookup_decision_eq_svz` cover BigInt keys and only a maphash collision can put two
different BigInts into one bucket. -/
theorem bigint_hashpre_iff_eq (i j : Int) : hashPreK (.big i) = hashPreK (.big j) ↔ svz (.big i) (.big j) = true := by
  simp only [hashPreK, svz, HashIn.bytes.injEq, beq_iff_eq]
  exact ⟨bigHashPre_injective, fun h => by rw [h]⟩

/-- Keys are SameValueZero-equal exactly when they are in the same class. -/
theorem cls_eq_iff_svz {a b : Key} (ha : a.WF) (hb : b.WF) : cls a = cls b ↔ svz a b = true :=
  cls_eq_iff_svz' ha hb

/-- Instantiation of the abstract parameters: there is a hash on SameValueZero classes such that the concrete bucket
choice factors through it and the concrete `SameAs` test is equality of classes — i.e. the concrete `lookup` takes the
decisions of the abstract mechanism model at `K := KeyClass`, `norm := id` — and that instance refines the [[MapData]]
spec for every history. -/
theorem value_level_refines (mh : List UInt8 → Nat) (ph : Nat → Nat) (V : Type) :
    ∃ hashC : KeyClass → Nat,
      (∀ a, a.WF → hashK mh ph (normKeyK a) = hashC (cls a)) ∧
      (∀ a b, a.WF → b.WF → sameAsK (normKeyK a) (normKeyK b) = decide (cls a = cls b)) ∧
      (∀ ops : List (Op KeyClass V),
        (Sys.run id hashC ({} : Sys KeyClass V) ops).2 = (SpecSys.run id ({} : SpecSys KeyClass V) ops).2) := by
  classical
  refine ⟨fun c => if h : ∃ a : Key, a.WF ∧ cls a = c then hashK mh ph (normKeyK (Classical.choose h)) else 0,
    ?_, ?_, ?_⟩
  · intro a ha
    have hex : ∃ a' : Key, a'.WF ∧ cls a' = cls a := ⟨a, ha, rfl⟩
    simp only [hex, dite_true]
    obtain ⟨h1, h2⟩ := Classical.choose_spec hex
    exact hash_respects_svz_any_hasher mh ph ha h1 ((cls_eq_iff_svz' ha h1).1 h2.symm)
  · intro a b ha hb
    rw [sameAs_norm_eq_svz' ha hb]
    exact Bool.eq_iff_iff.2 (by simpa using (cls_eq_iff_svz' ha hb).symm)
  · intro ops
    exact history_refines id _ (fun _ => rfl) ops

/-! ### Second level: the representation-keyed structure itself refines the class-keyed model and the spec -/

/-- Generic functional simulation: a structure that stores key representations, hashes them with `hash` and compares
them with an arbitrary dynamic test `eqv` (map.go:31 `entry.key.SameAs(key)`) — sharing all code after `lookup` with the
class-keyed model — is mapped by `mapKeys f` onto the class-keyed model, step by step, for every history whose keys
satisfy `W`, provided `Bridge` holds (probes normalise to storable keys, `eqv` on a stored key and a normalised probe
is equality of classes, the hash factors through classes). -/
theorem concrete_simulates_class_model {K K' V : Type} [DecidableEq K'] {eqv : K → K → Bool} {norm : K → K}
    {hash : K → Nat} {f : K → K'} {hash' : K' → Nat} {S W : K → Prop}
    (B : Bridge eqv norm hash f hash' S W) (ops : List (Op K V)) (hok : ∀ o, o ∈ ops → o.keyOk W) :
    (Sys.runE eqv norm hash ({} : Sys K V) ops).2.map (Res.mapKey f) =
      (Sys.run id hash' ({} : Sys K' V) (ops.map (Op.mapKey (fun k => f (norm k))))).2 :=
  runE_sim B ops {} (fun i k h => by simp at h) hok

/-- The instance for goja's values: the real structure — entries holding `valueInt`/`valueFloat`/ASCII/UTF-16/imported
strings/BigInts/objects as they arrived (after the −0 normalisation), bucket chosen by the per-type `hash` with ANY
maphash function, chain walked with the per-type `SameAs` — produces, for every history over well-formed keys and any
number of live iterators, exactly the results of the [[MapData]] spec, keys being read up to SameValueZero class. -/
theorem concrete_refines_spec (mh : List UInt8 → Nat) (ph : Nat → Nat) {V : Type} (ops : List (Op Key V))
    (hok : ∀ o, o ∈ ops → o.keyOk Key.WF) :
    (Sys.runE sameAsK normKeyK (hashK mh ph) ({} : Sys Key V) ops).2.map (Res.mapKey cls) =
      (SpecSys.run id ({} : SpecSys KeyClass V) (ops.map (Op.mapKey cls))).2 := by
  obtain ⟨hashC, hh, _, hr⟩ := value_level_refines mh ph V
  have B := keyBridge mh ph hashC hh
  rw [runE_sim B ops {} (fun i k h => by simp at h) hok]
  have : (fun k => cls (normKeyK k)) = cls := funext cls_normKeyK
  rw [this]
  exact hr _

/-! ### Full iteration, and the symbol-key snapshot iterator of ordinary objects (object.go:1270-1303, fix a9d0bdc) -/

section
variable {K V : Type} [DecidableEq K] (norm : K → K) (hash : K → Nat)

/-- A fresh `orderedMapIter` driven to the end without interleaved mutation (`symbols(true)`, Map/Set `export`,
`Array.from`, `getOwnPropertySymbols`) yields exactly the live keys in insertion order — the spec's
`[[OwnPropertyKeys]]` / entry list — and no key twice. -/
theorem full_iteration_lists_live_keys {m : OMap K V} (I : Inv norm hash m) :
    symbolsAll m = Spec.ownKeys (abs m) ∧ (symbolsAll m).Nodup := symbolsAll_spec norm hash I

/-- Go-side `Export()` of a Map/Set (and `ExportTo` a slice/array): `size` slots, at most `size` calls of `next()`
(builtin_map.go:53-71, builtin_set.go:52-93; since 29d16ec both first return the copy already made in the same export
context, if any — C13's identity cache — otherwise run this loop).  Because `size` is exactly the number of live entries, this visits every
entry present, once, in insertion order. -/
theorem export_lists_all_entries {m : OMap K V} (I : Inv norm hash m) :
    drain m m.size newIter = Spec.ownKeys (abs m) := export_spec norm hash I

/-- The snapshot iterator refines ECMA-262 CopyDataProperties / Object.assign on symbol keys: creation lists the spec's
`[[OwnPropertyKeys]]`, every `next()` equals the spec's "take the next listed key whose `[[GetOwnProperty]]` is defined". -/
theorem symbol_snapshot_refines {m : OMap K V} (I : Inv norm hash m) (hnorm : ∀ k, norm (norm k) = norm k)
    (ks : List K) :
    (symIterNew m).keys = Spec.ownKeys (abs m) ∧
    (symIterNext norm hash m ks).1.keys = (Spec.assignNext norm (abs m) ks).1 ∧
    (symIterNext norm hash m ks).2 = (Spec.assignNext norm (abs m) ks).2 :=
  ⟨(symbolsAll_spec norm hash I).1, symIterNext_refines norm hash I hnorm ks⟩

/-- Deleted keys are skipped, present ones are visited with their CURRENT value: one `next()` against an arbitrary
current table pops a prefix of listed keys that are all absent now and stops at the first one that is present. -/
theorem symbol_snapshot_step (m : OMap K V) (ks : List K) : ∃ skipped,
    (∀ s, s ∈ skipped → get norm hash m s = none) ∧
    (match (symIterNext norm hash m ks).2 with
     | some (k, v) => ks = skipped ++ k :: (symIterNext norm hash m ks).1.keys ∧ get norm hash m k = some v
     | none => ks = skipped ∧ (symIterNext norm hash m ks).1.keys = []) :=
  symIterNext_spec norm hash m ks

/-- Keys are listed once and keys added later are never visited: whatever states `ms` the successive `next()` calls
see (arbitrary mutation in between), the visited keys form a sub-sequence of the snapshot taken at creation, which has
no duplicates — so each listed key is visited at most once, in listing order, and nothing else ever is. -/
theorem symbol_snapshot_visits_sublist {m0 : OMap K V} (I : Inv norm hash m0) (ms : List (OMap K V)) :
    (symYields norm hash (symIterNew m0).keys ms).Sublist (symIterNew m0).keys ∧ (symIterNew m0).keys.Nodup :=
  ⟨symYields_sublist norm hash ms _, (symbolsAll_spec norm hash I).2⟩

end

/-! Tests on literals (not proofs of the property): hypotheses are satisfiable by a non-trivial state. -/
example : Inv (K := Nat) (V := Nat) id (fun k => k % 2)
    (Sys.run id (fun k => k % 2) {} [.set 1 (some 10), .set 3 (some 30), .set 2 none, .delete 3, .newIter]).1.m :=
  reachable_inv id (fun k => k % 2) (fun _ => rfl) _

end GojaModel.C18
