/-
  Line protocol shared by all model drivers: one operation per input line, one canonical
  answer line per operation.  Core Lean only.
-/
namespace GojaModel.Proto

def dropEol : List Char → List Char
  | c :: cs => if c == '\n' || c == '\r' then dropEol cs else c :: cs
  | [] => []

/-- Run `step` over every line of stdin, threading a state, printing one output line per input
line.  `partial` because termination depends on the input stream (this is IO glue, not model). -/
partial def lineLoop {σ : Type} (step : σ → String → σ × String) (init : σ) : IO Unit := do
  let stdin ← IO.getStdin
  let stdout ← IO.getStdout
  let rec loop (s : σ) (n : Nat) : IO Unit := do
    let line ← stdin.getLine
    if line.isEmpty then
      stdout.flush
      return ()
    let l := String.ofList (dropEol line.toList.reverse).reverse
    let (s', out) := step s l
    stdout.putStrLn out
    if n % 4096 == 0 then stdout.flush
    loop s' (n + 1)
  loop init 0

/-- Stateless variant. -/
def lineMap (f : String → String) : IO Unit :=
  lineLoop (σ := Unit) (fun _ l => ((), f l)) ()

def words (s : String) : List String :=
  (s.splitOn " ").filter (· ≠ "")

def hexDigit? (c : Char) : Option Nat :=
  if '0' ≤ c ∧ c ≤ '9' then some (c.toNat - '0'.toNat)
  else if 'a' ≤ c ∧ c ≤ 'f' then some (c.toNat - 'a'.toNat + 10)
  else if 'A' ≤ c ∧ c ≤ 'F' then some (c.toNat - 'A'.toNat + 10)
  else none

/-- Parse a non-empty hexadecimal numeral (no prefix). -/
def parseHex? (s : String) : Option Nat :=
  if s.isEmpty then none else
  s.foldl (fun acc c => match acc, hexDigit? c with
    | some a, some d => some (a * 16 + d)
    | _, _ => none) (some 0)

def hexChar (d : Nat) : Char :=
  if d < 10 then Char.ofNat ('0'.toNat + d) else Char.ofNat ('a'.toNat + d - 10)

/-- Fixed-width lower-case hexadecimal. -/
def toHexW (width n : Nat) : String :=
  String.ofList ((List.range width).reverse.map (fun i => hexChar ((n / 16 ^ i) % 16)))

end GojaModel.Proto
