/-
  C19, mechanism level: `quote` of builtin_json.go:493 as written — a rune reader with one code unit of push-back
  (string_unicode.go:81 lenientUtf16Decoder.ReadRune: a high surrogate followed by a non-low unit is returned alone and the
  following unit is pushed back, to be RE-EXAMINED as a possible pair start by the next call) feeding the escape switch.

  `readRune` transcribes ReadRune; `quoteLoop` the `for { r := reader.ReadRune() … switch r {…} }` loop.  A rune is a BMP
  code unit (lone surrogates included — "passes through invalid surrogate pairs") or a decoded pair.
-/
import GojaModel.C19.Model

namespace GojaModel.C19

inductive Rune where
  | unit (c : Nat)            -- rune(c): a BMP code point, possibly a lone surrogate
  | pair (h l : Nat)          -- utf16.DecodeRune(h, l): an astral code point

/-- decoder state: the pushed-back unit (prev / prevSet) and the unread units -/
abbrev RState := Option Nat × Str

/-- lenientUtf16Decoder.ReadRune: `none` = io.EOF -/
def readRune : RState → Option (Rune × RState)
  | (none, []) => none
  | (none, c :: rest) =>
    if isHigh c then
      (match rest with
       | [] => some (.unit c, (none, []))
       | second :: r => if isLow second then some (.pair c second, (none, r)) else some (.unit c, (some second, r)))
    else some (.unit c, (none, rest))
  | (some c, rest) =>
    if isHigh c then
      (match rest with
       | [] => some (.unit c, (none, []))
       | second :: r => if isLow second then some (.pair c second, (none, r)) else some (.unit c, (some second, r)))
    else some (.unit c, (none, rest))

/-- the escape switch of quote(): for a BMP unit it is `escOne`; an astral rune is written as is (WriteRune) -/
def emitRune : Rune → Str
  | .unit c => escOne c
  | .pair h l => [h, l]

def rmeasure : RState → Nat
  | (none, s) => s.length
  | (some _, s) => s.length + 1

theorem readRune_decreases {st st' : RState} {r : Rune} (h : readRune st = some (r, st')) : rmeasure st' < rmeasure st := by
  obtain ⟨p, s⟩ := st
  cases p with
  | none =>
    cases s with
    | nil => simp [readRune] at h
    | cons c rest =>
      simp only [readRune] at h
      split at h
      · split at h
        · injection h with h1; injection h1 with _ h2; subst h2; simp [rmeasure] <;> omega
        · split at h
          · injection h with h1; injection h1 with _ h2; subst h2; simp [rmeasure] <;> omega
          · injection h with h1; injection h1 with _ h2; subst h2; simp [rmeasure] <;> omega
      · injection h with h1; injection h1 with _ h2; subst h2; simp [rmeasure] <;> omega
  | some c =>
    simp only [readRune] at h
    split at h
    · split at h
      · injection h with h1; injection h1 with _ h2; subst h2; simp [rmeasure] <;> omega
      · split at h
        · injection h with h1; injection h1 with _ h2; subst h2; simp [rmeasure] <;> omega
        · injection h with h1; injection h1 with _ h2; subst h2; simp [rmeasure] <;> omega
    · injection h with h1; injection h1 with _ h2; subst h2; simp [rmeasure] <;> omega

/-- the loop of quote() between the two quotation marks -/
def quoteLoop (st : RState) : Str :=
  match h : readRune st with
  | none => []
  | some (r, st') => emitRune r ++ quoteLoop st'
termination_by rmeasure st
decreasing_by exact readRune_decreases h

/-- quote(): `"` … `"` -/
def quoteMech (s : Str) : Str := 34 :: (quoteLoop (none, s) ++ [34])

end GojaModel.C19
