/-
  C19: the reviver walk of JSON.parse (InternalizeJSONProperty, ECMA-262 §25.5.1.1) for revivers that are pure
  functions of (key, value).  Results may contain array holes (an element for which the reviver returned undefined
  is deleted), so they live in `RVal`.
-/
import GojaModel.C19.Model

namespace GojaModel.C19

/-- values after a reviver walk: JSON values plus array holes -/
inductive RVal where
  | null
  | bool (b : Bool)
  | num (lex : Str)
  | str (s : Str)
  | hole
  | arr (xs : List RVal)
  | obj (ms : List (Str × RVal))

mutual
def emb : JVal → RVal
  | .null => .null
  | .bool b => .bool b
  | .num l => .num l
  | .str s => .str s
  | .arr xs => .arr (embList xs)
  | .obj ms => .obj (embMembers ms)
def embList : List JVal → List RVal
  | [] => []
  | v :: t => emb v :: embList t
def embMembers : List (Str × JVal) → List (Str × RVal)
  | [] => []
  | (k, v) :: t => (k, emb v) :: embMembers t
end

/-- ToString of an array index -/
def idxKey (i : Nat) : Str := (Nat.toDigits 10 i).map Char.toNat

/-- a pure reviver: `none` = undefined -/
abbrev Reviver := Str → RVal → Option RVal

mutual
/-- InternalizeJSONProperty(holder, name) where holder[name] = v: children first (post-order), then the reviver -/
def revive (R : Reviver) : Str → JVal → Option RVal
  | k, .null => R k .null
  | k, .bool b => R k (.bool b)
  | k, .num l => R k (.num l)
  | k, .str s => R k (.str s)
  | k, .arr xs => R k (.arr (reviveElems R 0 xs))
  | k, .obj ms => R k (.obj (reviveMembers R ms))
/-- array elements: undefined ⇒ the element is deleted (a hole), otherwise CreateDataProperty -/
def reviveElems (R : Reviver) : Nat → List JVal → List RVal
  | _, [] => []
  | i, v :: t =>
    (match revive R (idxKey i) v with
     | some y => y
     | none => .hole) :: reviveElems R (i + 1) t
/-- object members: undefined ⇒ the member is deleted, otherwise redefined in place -/
def reviveMembers (R : Reviver) : List (Str × JVal) → List (Str × RVal)
  | [] => []
  | (k, v) :: t =>
    match revive R k v with
    | some y => (k, y) :: reviveMembers R t
    | none => reviveMembers R t
end

/-- JSON.parse(text, reviver) on the built value: the root holder is `{"": value}` -/
def parseWithReviver (N : NumCanon) (R : Reviver) (t : Str) : Option (Option RVal) :=
  match parse N t with
  | some v => some (revive R [] v)
  | none => none

/-! the keys the reviver is called with, in call order: post-order, elements by index, members in key order, root "" last -/
mutual
def calls : Str → JVal → List Str
  | k, .arr xs => callsElems 0 xs ++ [k]
  | k, .obj ms => callsMembers ms ++ [k]
  | k, _ => [k]
def callsElems : Nat → List JVal → List Str
  | _, [] => []
  | i, v :: t => calls (idxKey i) v ++ callsElems (i + 1) t
def callsMembers : List (Str × JVal) → List Str
  | [] => []
  | (k, v) :: t => calls k v ++ callsMembers t
end

/-- a reviver with state (what a JavaScript function can observe and remember between calls): state in, state out -/
abbrev ReviverS (σ : Type) := σ → Str → RVal → σ × Option RVal

mutual
/-- the walk with the state threaded through the calls in the order the specification makes them -/
def reviveS {σ : Type} (R : ReviverS σ) : Str → JVal → σ → σ × Option RVal
  | k, .null, s => R s k .null
  | k, .bool b, s => R s k (.bool b)
  | k, .num l, s => R s k (.num l)
  | k, .str x, s => R s k (.str x)
  | k, .arr xs, s => R (reviveElemsS R 0 xs s).1 k (.arr (reviveElemsS R 0 xs s).2)
  | k, .obj ms, s => R (reviveMembersS R ms s).1 k (.obj (reviveMembersS R ms s).2)
def reviveElemsS {σ : Type} (R : ReviverS σ) : Nat → List JVal → σ → σ × List RVal
  | _, [], s => (s, [])
  | i, v :: t, s =>
    ((reviveElemsS R (i + 1) t (reviveS R (idxKey i) v s).1).1,
     (match (reviveS R (idxKey i) v s).2 with
      | some y => y
      | none => .hole) :: (reviveElemsS R (i + 1) t (reviveS R (idxKey i) v s).1).2)
def reviveMembersS {σ : Type} (R : ReviverS σ) : List (Str × JVal) → σ → σ × List (Str × RVal)
  | [], s => (s, [])
  | (k, v) :: t, s =>
    ((reviveMembersS R t (reviveS R k v s).1).1,
     match (reviveS R k v s).2 with
     | some y => (k, y) :: (reviveMembersS R t (reviveS R k v s).1).2
     | none => (reviveMembersS R t (reviveS R k v s).1).2)
end

/-- the logging identity reviver `function(k, v){ LOG.push(k); return v }` -/
def logId : ReviverS (List Str) := fun log k v => (log ++ [k], some v)

mutual
theorem revive_id_aux : ∀ (k : Str) (v : JVal), revive (fun _ x => some x) k v = some (emb v)
  | _, .null => by simp [revive, emb]
  | _, .bool _ => by simp [revive, emb]
  | _, .num _ => by simp [revive, emb]
  | _, .str _ => by simp [revive, emb]
  | _, .arr xs => by simp [revive, emb, reviveElems_id_aux 0 xs]
  | _, .obj ms => by simp [revive, emb, reviveMembers_id_aux ms]
theorem reviveElems_id_aux : ∀ (i : Nat) (xs : List JVal), reviveElems (fun _ x => some x) i xs = embList xs
  | _, [] => by simp [reviveElems, embList]
  | i, v :: t => by simp [reviveElems, embList, revive_id_aux (idxKey i) v, reviveElems_id_aux (i + 1) t]
theorem reviveMembers_id_aux : ∀ (ms : List (Str × JVal)), reviveMembers (fun _ x => some x) ms = embMembers ms
  | [] => by simp [reviveMembers, embMembers]
  | (k, v) :: t => by simp [reviveMembers, embMembers, revive_id_aux k v, reviveMembers_id_aux t]
end

mutual
theorem reviveS_logId : ∀ (k : Str) (v : JVal) (log : List Str),
    reviveS logId k v log = (log ++ calls k v, some (emb v))
  | _, .null, _ => by simp [reviveS, logId, calls, emb]
  | _, .bool _, _ => by simp [reviveS, logId, calls, emb]
  | _, .num _, _ => by simp [reviveS, logId, calls, emb]
  | _, .str _, _ => by simp [reviveS, logId, calls, emb]
  | k, .arr xs, log => by
    have h := reviveElemsS_logId 0 xs log
    simp [reviveS, h, logId, calls, emb]
  | k, .obj ms, log => by
    have h := reviveMembersS_logId ms log
    simp [reviveS, h, logId, calls, emb]
theorem reviveElemsS_logId : ∀ (i : Nat) (xs : List JVal) (log : List Str),
    reviveElemsS logId i xs log = (log ++ callsElems i xs, embList xs)
  | _, [], _ => by simp [reviveElemsS, callsElems, embList]
  | i, v :: t, log => by
    have h1 := reviveS_logId (idxKey i) v log
    have h2 := reviveElemsS_logId (i + 1) t (log ++ calls (idxKey i) v)
    simp [reviveElemsS, h1, h2, callsElems, embList]
theorem reviveMembersS_logId : ∀ (ms : List (Str × JVal)) (log : List Str),
    reviveMembersS logId ms log = (log ++ callsMembers ms, embMembers ms)
  | [], _ => by simp [reviveMembersS, callsMembers, embMembers]
  | (k, v) :: t, log => by
    have h1 := reviveS_logId k v log
    have h2 := reviveMembersS_logId t (log ++ calls k v)
    simp [reviveMembersS, h1, h2, callsMembers, embMembers]
end

mutual
/-- the stateless walk is the stateful one with a trivial state -/
theorem reviveS_pure (R : Reviver) : ∀ (k : Str) (v : JVal),
    reviveS (σ := Unit) (fun _ k x => ((), R k x)) k v () = ((), revive R k v)
  | _, .null => by simp [reviveS, revive]
  | _, .bool _ => by simp [reviveS, revive]
  | _, .num _ => by simp [reviveS, revive]
  | _, .str _ => by simp [reviveS, revive]
  | _, .arr xs => by simp [reviveS, revive, reviveElemsS_pure R 0 xs]
  | _, .obj ms => by simp [reviveS, revive, reviveMembersS_pure R ms]
theorem reviveElemsS_pure (R : Reviver) : ∀ (i : Nat) (xs : List JVal),
    reviveElemsS (σ := Unit) (fun _ k x => ((), R k x)) i xs () = ((), reviveElems R i xs)
  | _, [] => by simp [reviveElemsS, reviveElems]
  | i, v :: t => by simp [reviveElemsS, reviveElems, reviveS_pure R (idxKey i) v, reviveElemsS_pure R (i + 1) t]
theorem reviveMembersS_pure (R : Reviver) : ∀ (ms : List (Str × JVal)),
    reviveMembersS (σ := Unit) (fun _ k x => ((), R k x)) ms () = ((), reviveMembers R ms)
  | [] => by simp [reviveMembersS, reviveMembers]
  | (k, v) :: t => by
    simp only [reviveMembersS, reviveMembers, reviveS_pure R k v, reviveMembersS_pure R t]
end

end GojaModel.C19
